/-
  C20 (units part) — model of the namespace-scope `const double NAME = EXPR;` definitions of
  src/Natural_Units.cpp and of their static / dynamic initialisation.

  * `Expr`       the expression language the translator (translators/units.py) emits.
  * `eval`       semantics over exact rationals; `M_PI`, `sqrt`, non-integer `pow` are *parameters*
                 (`Transc`), never axioms.
  * `split`      what a compiler can constant-fold: a definition is **static** iff its initialiser
                 is built from literals, `M_PI`, `+ - * /` and textually earlier static names
                 (`pow(…)`/`sqrt(…)` are function calls: dynamic — clang++ does not fold them at any
                 optimisation level, g++ does; folding more than the model assumes is harmless).
  * `startup`    static constants have their value at load time; the dynamic initialisers then run
                 in textual order, reading `0` for dynamic names that have not been initialised yet.
  * `pe`         a partial evaluator (closed rational sub-terms are computed exactly, opaque nodes are
                 kept) used by the driver to print every constant and by the derived-unit theorems.
  Core-only.
-/
import LpModel.Basic
namespace Lp.C20

inductive Expr where
  | lit (v : Rat)
  | ref (n : String)
  | pi
  | neg (a : Expr)
  | add (a b : Expr)
  | sub (a b : Expr)
  | mul (a b : Expr)
  | div (a b : Expr)
  | powi (a : Expr) (k : Int)      -- `pow(a, k)` with an integer literal exponent
  | sqrt (a : Expr)
  | powr (a b : Expr)              -- `pow(a, b)`, any other exponent (opaque)
  deriving Repr, DecidableEq, Inhabited

/-- literal `num/den` as written by the translator -/
def Expr.q (n : Int) (d : Nat) : Expr := .lit (mkRat n d)

/-- the non-rational functions, as parameters (DESIGN.md §3.2) -/
structure Transc where
  pi : Rat
  sqrt : Rat → Rat
  powr : Rat → Rat → Rat

/-- memory: the most recent write wins, unwritten names read `0` (zero-initialised storage) -/
abbrev State := List (String × Rat)
def get (σ : State) (n : String) : Rat := (σ.lookup n).getD 0
def set (σ : State) (n : String) (v : Rat) : State := (n, v) :: σ

def eval (T : Transc) (σ : State) : Expr → Rat
  | .lit v => v
  | .ref n => get σ n
  | .pi => T.pi
  | .neg a => - eval T σ a
  | .add a b => eval T σ a + eval T σ b
  | .sub a b => eval T σ a - eval T σ b
  | .mul a b => eval T σ a * eval T σ b
  | .div a b => eval T σ a / eval T σ b
  | .powi a k => eval T σ a ^ k
  | .sqrt a => T.sqrt (eval T σ a)
  | .powr a b => T.powr (eval T σ a) (eval T σ b)

/-- names an initialiser reads -/
def refs : Expr → List String
  | .lit _ => []
  | .ref n => [n]
  | .pi => []
  | .neg a => refs a
  | .add a b => refs a ++ refs b
  | .sub a b => refs a ++ refs b
  | .mul a b => refs a ++ refs b
  | .div a b => refs a ++ refs b
  | .powi a _ => refs a
  | .sqrt a => refs a
  | .powr a b => refs a ++ refs b

/-- the initialiser contains no function call (`pow`, `sqrt`) -/
def callFree : Expr → Bool
  | .lit _ => true
  | .ref _ => true
  | .pi => true
  | .neg a => callFree a
  | .add a b => callFree a && callFree b
  | .sub a b => callFree a && callFree b
  | .mul a b => callFree a && callFree b
  | .div a b => callFree a && callFree b
  | .powi _ _ => false
  | .sqrt _ => false
  | .powr _ _ => false

abbrev Def := String × Expr

/-- foldable at this point of the translation unit: no call, every name read is one of `S`
    (the static names defined textually earlier) -/
def isStaticExpr (S : List String) (e : Expr) : Bool :=
  callFree e && (refs e).all (fun r => S.contains r)

/-- classification in textual order: `(static definitions, dynamic definitions)`, each in
    textual order; `S` = static names seen so far -/
def split (S : List String) : List Def → List Def × List Def
  | [] => ([], [])
  | (n, e) :: r =>
    if isStaticExpr S e then
      let p := split (n :: S) r
      ((n, e) :: p.1, p.2)
    else
      let p := split S r
      (p.1, (n, e) :: p.2)

def staticDefs (defs : List Def) : List Def := (split [] defs).1
def dynamicDefs (defs : List Def) : List Def := (split [] defs).2
def staticNames (defs : List Def) : List String := (staticDefs defs).map (·.1)
def isStatic (defs : List Def) (n : String) : Bool := (staticNames defs).contains n

/-- run initialisers in the given order -/
def run (T : Transc) : List Def → State → State
  | [], σ => σ
  | (n, e) :: r, σ => run T r (set σ n (eval T σ e))

/-- Program start-up. Static constants: the compiler evaluates them in textual order (each
    reads earlier static names only).  Then the dynamic initialisers run in textual order. -/
def startup (T : Transc) (defs : List Def) : State :=
  run T (dynamicDefs defs) (run T (staticDefs defs) [])

/-- the value a program reads after start-up -/
def value (T : Transc) (defs : List Def) (n : String) : Rat := get (startup T defs) n

/-! ### Well-orderedness (decidable; `decide` on the generated table) -/

def nodupNames : List String → Bool
  | [] => true
  | n :: r => !r.contains n && nodupNames r

/-- every initialiser of `l` (in order) reads only names of `done` or names written earlier in `l` -/
def readsOK (done : List String) : List Def → Bool
  | [] => true
  | (n, e) :: r => (refs e).all (fun x => done.contains x) && readsOK (n :: done) r

/-- **Every name a dynamic definition refers to is static, or dynamic and textually earlier**;
    no name is defined twice.  (Static definitions satisfy the corresponding condition by
    construction of `split`: theorem `static_readsOK`.) -/
def wellOrdered (defs : List Def) : Bool :=
  nodupNames (defs.map (·.1)) && readsOK (staticNames defs) (dynamicDefs defs)

/-! ### Partial evaluation: exact values of the constants, opaque nodes kept -/

def mk2 (op : Expr → Expr → Expr) (f : Rat → Rat → Rat) (a b : Expr) : Expr :=
  match a, b with
  | .lit x, .lit y => .lit (f x y)
  | _, _ => op a b

abbrev SState := List (String × Expr)
def getS (σ : SState) (n : String) : Expr := (σ.lookup n).getD (.lit 0)

/-- substitute the current (closed) values for names and compute closed rational sub-terms -/
def pe (σ : SState) : Expr → Expr
  | .lit v => .lit v
  | .ref n => getS σ n
  | .pi => .pi
  | .neg a => match pe σ a with
    | .lit x => .lit (-x)
    | a' => .neg a'
  | .add a b => mk2 .add (· + ·) (pe σ a) (pe σ b)
  | .sub a b => mk2 .sub (· - ·) (pe σ a) (pe σ b)
  | .mul a b => mk2 .mul (· * ·) (pe σ a) (pe σ b)
  | .div a b => mk2 .div (· / ·) (pe σ a) (pe σ b)
  | .powi a k => match pe σ a with
    | .lit x => .lit (x ^ k)
    | a' => .powi a' k
  | .sqrt a => .sqrt (pe σ a)
  | .powr a b => .powr (pe σ a) (pe σ b)

def runS : List Def → SState → SState
  | [], σ => σ
  | (n, e) :: r, σ => runS r ((n, pe σ e) :: σ)

def startupS (defs : List Def) : SState := runS (dynamicDefs defs) (runS (staticDefs defs) [])

/-- symbolic value after start-up (a closed expression: no `ref`) -/
def valueS (defs : List Def) (n : String) : Expr := getS (startupS defs) n

/-- the exact rational value, when no opaque node is involved -/
def valueQ (defs : List Def) (n : String) : Option Rat :=
  match valueS defs n with
  | .lit v => some v
  | _ => none

/-- prefix rendering for the driver -/
def Expr.show : Expr → String
  | .lit v => "q " ++ showRat v
  | .ref n => "ref " ++ n
  | .pi => "pi"
  | .neg a => "neg " ++ a.show
  | .add a b => "add " ++ a.show ++ " " ++ b.show
  | .sub a b => "sub " ++ a.show ++ " " ++ b.show
  | .mul a b => "mul " ++ a.show ++ " " ++ b.show
  | .div a b => "div " ++ a.show ++ " " ++ b.show
  | .powi a k => "powi " ++ a.show ++ " " ++ toString k
  | .sqrt a => "sqrt " ++ a.show
  | .powr a b => "powr " ++ a.show ++ " " ++ b.show

/-! ### Derived-unit identities (checked exactly on the generated table) -/

/-- `lhs = rhs` as exact rationals, both sides closed rational values of the table -/
def identity (defs : List Def) (lhs : String) (rhs : Expr) : Bool :=
  match valueQ defs lhs, pe (startupS defs) rhs with
  | some v, .lit w => decide (v = w) && decide (v ≠ 0)
  | _, _ => false

open Expr in
/-- the identities named by the property (right-hand sides over base constants) -/
def derivedIdentities : List (String × Expr) :=
  let r := Expr.ref
  let sq (a : Expr) := mul a a
  [ ("Joule", div (mul (r "kg") (sq (r "meter"))) (sq (r "sec"))),
    ("Newton", div (mul (r "kg") (r "meter")) (sq (r "sec"))),
    ("Watt", div (mul (r "kg") (sq (r "meter"))) (mul (sq (r "sec")) (r "sec"))),
    ("Watt", div (r "Joule") (r "sec")),
    ("Pa", div (r "Newton") (sq (r "meter"))),
    ("Pa", div (r "kg") (mul (r "meter") (sq (r "sec")))),
    ("erg", div (mul (r "gram") (sq (r "cm"))) (sq (r "sec"))),
    ("erg", mul (q 1 10000000) (r "Joule")),
    ("dyne", div (mul (r "gram") (r "cm")) (sq (r "sec"))),
    ("dyne", mul (q 1 100000) (r "Newton")),
    ("Joule", mul (r "Volt") (r "Coulomb")),
    ("Ohm", div (r "Volt") (r "Ampere")),
    ("Ampere", div (r "Coulomb") (r "sec")),
    ("Farad", div (r "Coulomb") (r "Volt")),
    ("Siemens", div (q 1 1) (r "Ohm")),
    ("Tesla", div (mul (r "Newton") (r "sec")) (mul (r "Coulomb") (r "meter"))),
    ("Tesla", div (r "kg") (mul (r "Coulomb") (r "sec"))),
    ("Gauss", mul (q 1 10000) (r "Tesla")),
    ("Weber", mul (r "Tesla") (sq (r "meter"))),
    ("Weber", mul (r "Volt") (r "sec")),
    ("Hz", div (q 1 1) (r "sec")),
    ("barye", mul (q 1 10) (r "Pa")),
    ("bar", mul (q 100000 1) (r "Pa")),
    ("hPa", mul (q 100 1) (r "Pa")),
    ("kPa", mul (q 1000 1) (r "Pa")),
    ("cal", mul (q 4184 1000) (r "Joule")),
    -- time multiples
    ("ms", mul (q 1 1000) (r "sec")),
    ("ns", mul (q 1 1000000000) (r "sec")),
    ("minute", mul (q 60 1) (r "sec")),
    ("hr", mul (q 3600 1) (r "sec")),
    ("day", mul (q 86400 1) (r "sec")),
    ("week", mul (q 604800 1) (r "sec")),
    ("year", mul (q 31557600 1) (r "sec")),
    -- length multiples
    ("meter", mul (q 100 1) (r "cm")),
    ("mm", mul (q 1 1000) (r "meter")),
    ("km", mul (q 1000 1) (r "meter")),
    ("fm", mul (q 1 1000000000000000) (r "meter")),
    ("Angstrom", mul (q 1 10000000000) (r "meter")),
    ("inch", mul (q 254 10000) (r "meter")),
    ("foot", mul (q 3048 10000) (r "meter")),
    ("yard", mul (q 9144 10000) (r "meter")),
    ("mile", mul (q 1609344 1000) (r "meter")),
    ("sec", mul (q 299792458 1) (r "meter")),
    ("ly", mul (q 31557600 1) (r "sec")),
    ("kpc", mul (q 1000 1) (r "pc")),
    ("Mpc", mul (q 1000000 1) (r "pc")),
    -- mass / area / energy multiples
    ("kg", mul (q 1000 1) (r "gram")),
    ("tonne", mul (q 1000 1) (r "kg")),
    ("barn", mul (q 1 10000000000000000000000000000) (sq (r "meter"))),
    ("pb", mul (q 1 1000000000000) (r "barn")),
    ("hectare", mul (q 10000 1) (sq (r "meter"))),
    ("eV", mul (q 1 1000000000) (r "GeV")),
    ("keV", mul (q 1000 1) (r "eV")),
    ("MeV", mul (q 1000000 1) (r "eV")),
    ("TeV", mul (q 1000 1) (r "GeV")),
    ("PeV", mul (q 1000000 1) (r "GeV")),
    ("meV", mul (q 1 1000) (r "eV")) ]

def derivedOK (defs : List Def) : Bool := derivedIdentities.all (fun p => identity defs p.1 p.2)

end Lp.C20
