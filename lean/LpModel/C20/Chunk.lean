/-
  C20 — block-wise view of `Count_Lines`: the count is the number of line feeds plus one for an
  unterminated final line; both ingredients decompose over any chunking of the file
  (theorems `countLines_eq`, `countLines_append`, `countLines_blocks` in LpProofs/C20/Chunk.lean).
  Core-only.
-/
import LpModel.C20.IO
namespace Lp.C20

/-- number of `'\n'` characters -/
def nlCount : List Char → Nat
  | [] => 0
  | c :: cs => (if c = nl then 1 else 0) + nlCount cs

/-- scanning with the state "the current line has started and is not terminated yet" -/
def openFrom (o : Bool) : List Char → Bool
  | [] => o
  | c :: cs => if c = nl then openFrom false cs else openFrom true cs

/-- the text ends in an unterminated, non-empty last line (`getline` succeeds once more at EOF) -/
def openEnd (s : List Char) : Bool := openFrom false s

/-- block-wise `Count_Lines`: line feeds per block, plus one iff the *whole file* ends open —
    which for a file cut into blocks is decided by the last **non-empty** block (an empty final
    block, i.e. a file size that is a multiple of the block size, says nothing) -/
def countLinesBlocks (blocks : List (List Char)) : Nat :=
  (blocks.map nlCount).foldr (· + ·) 0 + (if openEnd blocks.flatten then 1 else 0)

end Lp.C20
