/-
  C20/C10 — `Import_Table` with the repair proposed for audit item P10 (pending): the rows are the
  lines after the ignored ones up to the last non-blank line, and the entries must fill the rows
  exactly (`entries = rows · columns`), otherwise diagnostic.  The shape rule of the code as it is on
  HEAD (`importCore`: `columns = entries / rows`, silently reshaping a ragged file) stays in IO.lean.
  Core-only.
-/
import LpModel.C20.IO
namespace Lp.C20

/-- a line without any character besides blanks (`" \t\r\v\f"`) -/
def isBlankLine (l : List Char) : Bool := l.all (fun c => c = ' ' ∨ c = '\t' ∨ c = '\r' ∨ c.toNat = 11 ∨ c.toNat = 12)

/-- drop the blank lines at the end -/
def dropTrailingBlank (ls : List (List Char)) : List (List Char) := (ls.reverse.dropWhile isBlankLine).reverse

/-- number of rows: lines after the ignored ones, up to the last non-blank line -/
def dataRows (s : List Char) (ignored : Nat) : Nat :=
  (dropTrailingBlank (((splitLines s []).take (countLines s)).drop ignored)).length

/-- shape rule with the exact-divisibility guard -/
def importCore2 (rows : Nat) (vals : List Rat) (dims : List Rat) : Except Err (List (List Rat)) :=
  if rows = 0 then .ok []
  else
    let cols := vals.length / rows
    if vals.length ≠ rows * cols then .error .diag
    else if !dims.isEmpty ∧ dims.length ≠ cols then .error .diag
    else .ok ((chunks rows cols vals).map (applyDims dims))

def importTable2 (s : List Char) (dims : List Rat) (ignored : Nat) : Except Err (List (List Rat)) := do
  let vals ← readAllC (lexFile s ignored)
  importCore2 (dataRows s ignored) vals dims

end Lp.C20
