/-
  C20 (coverage extension) — `Print_Box` and `Print_Progress_Bar` (src/Utilities.cpp): the text
  written to `std::cout`, character for character (colour escape sequences included).
  Core Lean only.
-/
import LpModel.C20.Text
import LpModel.C20.Time
namespace Lp.C20

/-! ## Print_Box -/

def boxTL : Char := Char.ofNat 0x2554   -- ╔
def boxTR : Char := Char.ofNat 0x2557   -- ╗
def boxBL : Char := Char.ofNat 0x255A   -- ╚
def boxBR : Char := Char.ofNat 0x255D   -- ╝
def boxH : Char := Char.ofNat 0x2550    -- ═
def boxV : Char := Char.ofNat 0x2551    -- ║

def tabsL (tabs : Nat) : List Char := List.replicate tabs '\t'

/-- top border (without the newline); `len` = `str.length()` (bytes) -/
def boxTop (len tabs : Nat) : List Char := tabsL tabs ++ boxTL :: (List.replicate (len + 2) boxH ++ [boxTR])
/-- bottom border (without the newline) -/
def boxBottom (len tabs : Nat) : List Char := tabsL tabs ++ boxBL :: (List.replicate (len + 2) boxH ++ [boxBR])
/-- the part of the text line in front of the text -/
def boxLeft (tabs : Nat) : List Char := tabsL tabs ++ [boxV, ' ']
/-- the part of the text line behind the text (without the newline) -/
def boxRight : List Char := [' ', boxV]
/-- the text line without colour codes -/
def boxMid (str : List Char) (tabs : Nat) : List Char := boxLeft tabs ++ str ++ boxRight

/-- `box_string_1` -/
def boxString1 (len tabs : Nat) : List Char := boxTop len tabs ++ '\n' :: boxLeft tabs
/-- `box_string_2` -/
def boxString2 (len tabs : Nat) : List Char := boxRight ++ '\n' :: (boxBottom len tabs ++ ['\n'])

/-- bold `Formatted_String(s, color, true)` (third argument `true`, defaults otherwise): the string -/
def fmtBold (s color : List Char) : List Char := (formattedString s color true false "Default".toList).1

/-- `Print_Box(str, tabs, mpi_rank, box_color, text_color)`: what is written to `std::cout`.
    `len` is `str.length()`, the number of BYTES of the text (`printBox` passes the UTF-8 size). -/
def printBoxLen (len : Nat) (str : List Char) (tabs : Nat) (rank : Int) (boxColor textColor : List Char) : List Char :=
  if rank = 0 then
    fmtBold (boxString1 len tabs) boxColor ++ fmtBold str textColor ++ fmtBold (boxString2 len tabs) boxColor ++ ['\n']
  else []

def printBox (str : List Char) (tabs : Nat) (rank : Int) (boxColor textColor : List Char) : List Char :=
  printBoxLen (String.ofList str).utf8ByteSize str tabs rank boxColor textColor

/-- remove the escape sequences `ESC [ … m` (what a terminal does not display) -/
def stripAnsiAux : Bool → List Char → List Char
  | _, [] => []
  | true, c :: r => if c = 'm' then stripAnsiAux false r else stripAnsiAux true r
  | false, c :: r => if c = esc then stripAnsiAux true r else c :: stripAnsiAux false r
def stripAnsi (cs : List Char) : List Char := stripAnsiAux false cs

/-- the lines of a text (split at `'\n'`) -/
def boxLines (cs : List Char) : List (List Char) := cs.splitOn '\n'

/-- width on the terminal, tabs counted as one cell each -/
def visibleWidth (line : List Char) : Nat := (stripAnsi line).length

/-! ## Print_Progress_Bar -/

def cellFull : Char := Char.ofNat 0x2588    -- █
def cellEmpty : Char := Char.ofNat 0x2591   -- ░

/-- `Formatted_String("█"/"░", bar_color)` (not bold) -/
def barCell (progress : Rat) (L i : Nat) (color : List Char) : List Char :=
  (formattedString [if progress > (i : Rat) / (L : Rat) then cellFull else cellEmpty] color false false "Default".toList).1

/-- how many loop indices the percentage consumes beyond its own: `i += …` -/
def pctSkip (progress : Rat) : Nat :=
  if progress < 1 / 10 ∨ progress = 1 then (if progress < 1 / 100 ∨ progress = 1 then 3 else 1) else 2

def pctDigits (progress : Rat) : Nat := if progress < 1 / 10 ∨ progress = 1 then 1 else 2

/-- `Round(100.0 * progress, digits) << "%"`; `none` outside the modelled range (fixed notation of `<<`) -/
def pctText (progress : Rat) : Option (List Char) :=
  match C17.round (100 * progress) (pctDigits progress) with
  | .ok v => if v = 0 ∨ (1 / 10000 ≤ v ∧ v < 1000000) then some (fmt6 v ++ ['%']) else none
  | .error _ => none

/-- the cells of the loop indices `a, a+1, …, a+n-1` -/
def barCells (progress : Rat) (L : Nat) (color : List Char) (a n : Nat) : List (List Char) :=
  (List.range' a n).map (fun i => barCell progress L i color)

/-- the loop `for i < bar_length`: cells before the middle, the percentage at `i = bar_length/2`
    (which advances `i` by `pctSkip` more), cells after it -/
def barItems (progress : Rat) (L : Nat) (color pct : List Char) : List (List Char) :=
  if L = 0 then [] else
    let h := L / 2
    let s := pctSkip progress
    barCells progress L color 0 h ++ [pct] ++ barCells progress L color (h + s + 1) (L - (h + s + 1))

/-- number of `█`/`░` cells written -/
def barCellCount (progress : Rat) (L : Nat) : Nat :=
  if L = 0 then 0 else (barCells progress L [] 0 (L / 2)).length
    + (barCells progress L [] (L / 2 + pctSkip progress + 1) (L - (L / 2 + pctSkip progress + 1))).length

/-- the remaining-time field -/
def barTime (progress time : Rat) : Option (List Char) :=
  if time > 0 ∧ progress > 1 / 1000 then
    let t := if progress > 9999 / 10000 then time else (1 - progress) * time / progress
    (timeDisplay? t).map (fun s => ' ' :: s)
  else some []

/-- `Print_Progress_Bar(progress, MPI_rank, bar_length, time, bar_color)`: what is written to `std::cout` -/
def progressBar (progress : Rat) (rank L : Nat) (time : Rat) (color : List Char) : Option (List Char) :=
  if rank = 0 ∧ 0 ≤ progress ∧ progress ≤ 1 then
    match pctText progress, barTime progress time with
    | some pct, some tm =>
      some ('\r' :: (List.replicate (2 * L) ' ' ++ '\r' :: ((barItems progress L color pct).flatten ++ tm)))
    | _, _ => none
  else some []

end Lp.C20
