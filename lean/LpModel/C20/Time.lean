/-
  C20 (coverage extension) — `Time_Display(seconds)` (src/Utilities.cpp §1) and
  `Reduced_Mass(m1,m2)` (src/Natural_Units.cpp §6).  Exact rationals, core-only.

  `Time_Display` as coded:
    units = {year, week, day, hr, minute, sec, milli*sec}   (Natural_Units.cpp, read from the
                                                              generated table `unitDefs`)
    for every unit:  t = floor(seconds*sec/unit);  seconds -= t*unit/sec;
                     field = to_string(t), "0"-padded to two characters (the last one to three)
    i = first index < 4 with t > 0 (4 if none);   "[" f_i u_i ":" f_{i+1} u_{i+1} ":" f_{i+2} u_{i+2} "]"
  The components are `int`s in the C++: a component outside the `int` range is undefined behaviour
  (`timeDisplay?` answers `none`).
-/
import LpModel.C20.Generated
namespace Lp.C20

/-- exact value of a constant of the generated unit table (`0` if it is not a closed rational) -/
def unitQ (n : String) : Rat := (valueQ unitDefs n).getD 0

/-- `units[i] / sec` for `{year, week, day, hr, minute, sec, milli*sec}` -/
def timeRatios : List Rat :=
  [unitQ "year" / unitQ "sec", unitQ "week" / unitQ "sec", unitQ "day" / unitQ "sec", unitQ "hr" / unitQ "sec",
   unitQ "minute" / unitQ "sec", unitQ "sec" / unitQ "sec", unitQ "milli" * unitQ "sec" / unitQ "sec"]

/-- the values the unchanged `Natural_Units.cpp` gives (theorem `timeRatios_eq`):
    year = 365.25 day, week = 7 day, day = 24 hr, hr = 60 minute, minute = 60 sec -/
def timeRatiosStd : List Rat := [31557600, 604800, 86400, 3600, 60, 1, 1 / 1000]

def timeUnitStrings : List (List Char) := [['y'], ['w'], ['d'], ['h'], ['m'], ['s'], ['m', 's']]

/-- the loop: `t = floor(s / u)`, `s -= t * u`; returns the components and the final remainder -/
def timeSplit : List Rat → Rat → List Int × Rat
  | [], s => ([], s)
  | u :: us, s =>
    let t := (s / u).floor
    let r := timeSplit us (s - (t : Rat) * u)
    (t :: r.1, r.2)

/-- `std::to_string(int)` -/
def intChars (t : Int) : List Char :=
  if t < 0 then '-' :: Nat.toDigits 10 t.natAbs else Nat.toDigits 10 t.toNat

/-- the two padding rules, in the order of the code -/
def padField (isLast : Bool) (s : List Char) : List Char :=
  let s := if s.length = 1 then '0' :: s else s
  if s.length = 2 ∧ isLast then '0' :: s else s

/-- `for(i = 0; i < 4; i++) if(times[i] > 0) break;` -/
def firstIdx (times : List Int) : Nat := ((times.take 4).takeWhile (fun t => !decide (t > 0))).length

/-- padded field `k` followed by its unit string -/
def timeField (times : List Int) (k : Nat) : List Char :=
  padField (k + 1 == times.length) (intChars (times.getD k 0)) ++ timeUnitStrings.getD k []

def timeDisplayOf (ratios : List Rat) (s : Rat) : List Char :=
  let times := (timeSplit ratios s).1
  let i := firstIdx times
  '[' :: timeField times i ++ ':' :: timeField times (i + 1) ++ ':' :: timeField times (i + 2) ++ [']']

/-- `Time_Display(seconds)` -/
def timeDisplay (s : Rat) : List Char := timeDisplayOf timeRatios s

/-- `none`: a component does not fit an `int` (undefined conversion in the C++) -/
def timeDisplay? (s : Rat) : Option (List Char) :=
  if (timeSplit timeRatios s).1.all (fun t => decide (-(2 : Int) ^ 31 ≤ t ∧ t < (2 : Int) ^ 31)) then some (timeDisplay s) else none

/-- weighted sum of the components, in seconds -/
def timeRecon : List Rat → List Int → Rat
  | u :: us, t :: ts => (t : Rat) * u + timeRecon us ts
  | _, _ => 0

/-! ## Reduced_Mass -/

/-- `m1 * m2 / (m1 + m2)`; `m1 + m2 = 0` divides by zero in the C++ (driver: `undef`) -/
def reducedMass (m1 m2 : Rat) : Rat := m1 * m2 / (m1 + m2)

end Lp.C20
