/-
  C20 (coverage extension) — text written by the library outside the Export_* family:
  `Formatted_String`, `Check_For_Warning`, `File_Exists` (src/Utilities.cpp), `operator<<` for
  `Vector`, `Matrix` (src/Linear_Algebra.cpp) and `DataPoint` (src/Statistics.cpp),
  `Interpolation::Save_Function`, `Interpolation_2D::Save_Function` and the default
  `Interpolation_2D()` (src/Numerics.cpp).  Strings are lists of characters; the driver encodes
  them as UTF-8 (the matrix brackets are U+2308 … U+230B).  `ostream << double` is `fmt6`.
  Core-only.
-/
import LpModel.C20.IO
import LpModel.C19
import LpModel.Interp
namespace Lp.C20

/-! ## Formatted_String, Check_For_Warning, File_Exists -/

def colors : List (List Char) :=
  ["Default".toList, "Black".toList, "Red".toList, "Green".toList, "Yellow".toList, "Blue".toList,
   "Magenta".toList, "Cyan".toList, "White".toList]
def colorCodes : List (List Char) :=
  ["0".toList, "30".toList, "31".toList, "32".toList, "33".toList, "34".toList, "35".toList, "36".toList, "37".toList]
def bgCodes : List (List Char) :=
  ["49".toList, "40".toList, "41".toList, "42".toList, "43".toList, "44".toList, "45".toList, "46".toList, "47".toList]

def esc : Char := Char.ofNat 27
def ansiReset : List Char := [esc, '[', '0', 'm']

/-- the escape sequence in front of the text: `\033[<bold>;<underlined>;<colour>;<background>m` -/
def ansiPrefix (cc bc : List Char) (bold ul : Bool) : List Char :=
  esc :: '[' :: (if bold then '1' else '0') :: ';' :: (if ul then '4' else '0') :: ';' :: (cc ++ ';' :: (bc ++ ['m']))

/-- `Formatted_String(str, color, bold, underlined, background_color)`: the returned string and
    whether the "Unknown color" warning is written to `std::cerr` -/
def formattedString (str color : List Char) (bold ul : Bool) (bg : List Char) : List Char × Bool :=
  if color = "Default".toList ∧ bold = false then (str, false)
  else if colors.contains color = false ∨ colors.contains bg = false then (str, true)
  else
    (ansiPrefix (colorCodes.getD (colors.idxOf color) []) (bgCodes.getD (colors.idxOf bg) []) bold ul ++ (str ++ ansiReset), false)

def warningWord : List Char := (formattedString "Warning".toList "Yellow".toList true false "Default".toList).1

/-- what `Formatted_String` writes to `std::cerr` (nothing unless a colour is unknown) -/
def formattedStringDiag (str color : List Char) (bold ul : Bool) (bg : List Char) : List Char :=
  if (formattedString str color bold ul bg).2 then
    warningWord ++ ": in libphysica::Formatted_String(): Unknown color ".toList ++ color ++ " or background color ".toList ++ bg ++ ['.', '\n']
  else []

/-- `Check_For_Warning(condition, function_name, message)`: what is written to `std::cerr`; the call always returns -/
def checkForWarning (cond : Bool) (fn msg : List Char) : List Char :=
  if cond then warningWord ++ " in ".toList ++ fn ++ [':', ' '] ++ msg ++ ['\n'] else []

/-- what a path names in the file system (the state `stat` inspects) -/
inductive PathKind where
  | file | dir | missing | emptyPath
  deriving DecidableEq, Repr

/-- `File_Exists(path)`: `stat` succeeds for anything that exists -/
def fileExists : PathKind → Bool
  | .file => true
  | .dir => true
  | .missing => false
  | .emptyPath => false

/-! ## operator<< -/

/-- `Vector`: the loop as coded (`i < v.Size() - 1` → `" , "`) -/
def vecShowLoop (n : Nat) : List Rat → Nat → List Char
  | [], _ => []
  | x :: r, i => fmt6 x ++ ((if i + 1 < n then [' ', ',', ' '] else []) ++ vecShowLoop n r (i + 1))

def vecShow (v : List Rat) : List Char := '(' :: (vecShowLoop v.length v 0 ++ [')'])

def lceil : Char := Char.ofNat 0x2308
def rceil : Char := Char.ofNat 0x2309
def lfloor : Char := Char.ofNat 0x230A
def rfloor : Char := Char.ofNat 0x230B

def matOpen (R i : Nat) : Char := if i = 0 then lceil else if i + 1 = R then lfloor else '|'
def matClose (R i : Nat) : Char := if i = 0 then rceil else if i + 1 = R then rfloor else '|'

/-- one row of `Matrix`: entries, `\t` between columns, the closing bracket after the last one -/
def matRowLoop (R C i : Nat) : List Rat → Nat → List Char
  | [], _ => []
  | x :: r, j => fmt6 x ++ ((if j + 1 < C then '\t' else matClose R i) :: matRowLoop R C i r (j + 1))

def matLoop (R C : Nat) : List (List Rat) → Nat → List Char
  | [], _ => []
  | row :: rest, i =>
    matOpen R i :: (matRowLoop R C i row 0 ++ ((if i + 1 < R then [nl] else []) ++ matLoop R C rest (i + 1)))

/-- `operator<<(ostream, Matrix)`; a `Matrix` is rectangular: `Columns()` is the length of the first row -/
def matShow (m : List (List Rat)) : List Char := matLoop m.length (m.headD []).length m 0

/-- `DataPoint`: `value \t weight` -/
def dpShow (v w : Rat) : List Char := fmt6 v ++ '\t' :: fmt6 w

/-! ## Save_Function -/

/-- one line: the tokens separated by `\t`, then `std::endl` -/
def lineChars (l : List Tok) : List Char := List.intercalate ['\t'] (l.map Tok.chars) ++ [nl]

def renderLines (ls : List (List Tok)) : List Char := ls.flatMap lineChars

/-- `for(auto& x : x_points) f << x << "\t" << Interpolate(x) << std::endl;` -/
def saveLinesT (xs : List Rat) (f : Rat → Rat) : List (List Tok) := xs.map (fun x => [tokOf x, tokOf (f x)])

/-- `for x in x_list: for y in y_list: f << x << "\t" << y << "\t" << Interpolate(x,y) << endl` -/
def save2LinesT (xs ys : List Rat) (f : Rat → Rat → Rat) : List (List Tok) :=
  xs.flatMap (fun x => ys.map (fun y => [tokOf x, tokOf y, tokOf (f x y)]))

/-- `Interpolation::Save_Function(filename, points)` for the interpolant `f` on `[lo, hi]` -/
def saveFunction (lo hi : Rat) (points : Nat) (f : Rat → Rat) : List Char :=
  renderLines (saveLinesT (C19.linearSpace lo hi points) f)

/-- `Interpolation_2D::Save_Function(filename, x_points, y_points)`; `y_points = 0` means `x_points` -/
def saveFunction2 (xlo xhi ylo yhi : Rat) (xp yp : Nat) (f : Rat → Rat → Rat) : List Char :=
  let yp := if yp = 0 then xp else yp
  renderLines (save2LinesT (C19.linearSpace xlo xhi xp) (C19.linearSpace ylo yhi yp) f)

/-! ## the interpolants (shared model `Lp.Interp`) as functions of the abscissa -/

/-- the value `Interpolate(v)`; `none` where the C++ stops with a diagnostic (outside the domain) -/
def interpValue (o : Interp.Obj) (v : Rat) : Option Rat :=
  match o.interpolate v with
  | .ok (r, _) => some r
  | .error _ => none

def interp2Value (o : Interp.Obj2) (vx vy : Rat) : Option Rat :=
  match o.interpolate vx vy with
  | .ok (r, _) => some r
  | .error _ => none

/-- `Interpolation_2D()`: the 3×3 zero table on `[-1,1]²` -/
def default2D : Except Interp.Err Interp.Obj2 :=
  Interp.mk2 [-1, 0, 1] [-1, 0, 1] [[0, 0, 0], [0, 0, 0], [0, 0, 0]] (-1) (-1) (-1)

end Lp.C20
