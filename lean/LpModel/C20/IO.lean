/-
  C20 (file part) — model of Export_List / Export_Table / Export_Function, Import_List /
  Import_Table, Count_Lines (src/Utilities.cpp §2) and of the `In_Units` overloads
  (src/Natural_Units.cpp §5).  Exact rationals; `ostream << double` with the default precision
  is `%g` with six significant digits (`fmt6`), `istream >> double` is `parseDec` on a
  white-space delimited token (assumed behaviour of the standard streams, see ASSUMPTIONS).

  Two layers:
  * token level (`Tok`, `TFile`, `exportT`, `importT`) — what the theorems talk about;
  * character level (`fmt6`, `exportList`, `exportTable`, `countLines`, `importList`,
    `importTable`) — compared byte for byte / value for value with the implementation.
  Both use the same `toDec6` (six-digit rounding) and the same `importCore` (shape arithmetic).
  The glue between the layers (`parseDec (render d) = d.value`, lexing the written bytes gives back
  the tokens) is proved in `LpProofs/C20/{Chars,Lex,Bytes}.lean` and still evaluated by the driver
  on every round-trip request (`glueOK`).
  Core-only.
-/
import LpModel.C17.Round
namespace Lp.C20
open Lp.Dec

inductive Err where
  | diag : Err      -- diagnostic + exit(EXIT_FAILURE)
  | undef : Err     -- outside the model: division by zero / unsigned wrap / stream corner case
  deriving DecidableEq, Repr

/-! ## six significant digits -/

/-- nearest integer, ties to even: `printf` rounds the exact binary value correctly
    (round-to-nearest mode), a tie is possible only for exactly representable decimals -/
def roundHalfEven (r : Rat) : Int :=
  let f := r.floor
  let d := r - (f : Rat)
  if d < 1 / 2 then f else if 1 / 2 < d then f + 1 else if f % 2 = 0 then f else f + 1

/-- a six-digit decimal: `(−1)^neg · m · 10^(e−5)`, `100000 ≤ m ≤ 999999` -/
structure Dec6 where
  neg : Bool
  m : Nat
  e : Int
  deriving Repr, DecidableEq

def Dec6.value (d : Dec6) : Rat := (if d.neg then -1 else 1) * ((d.m : Rat) * pow10 (d.e - 5))

/-- round `x ≠ 0` with decimal exponent `e` (`10^e ≤ |x| < 10^(e+1)`) to six significant digits;
    a mantissa that rounds up to `10^6` moves to the next decade -/
def toDec6 (x : Rat) (e : Int) : Dec6 :=
  let m := (roundHalfEven (rabs x * pow10 (5 - e))).toNat
  if m = 1000000 then ⟨decide (x < 0), 100000, e + 1⟩ else ⟨decide (x < 0), m, e⟩

def stripZeros (ds : List Char) : List Char := (ds.reverse.dropWhile (· == '0')).reverse

/-- six decimal digits of the mantissa -/
def digits6 (m : Nat) : List Char :=
  let ds := Nat.toDigits 10 m
  List.replicate (6 - ds.length) '0' ++ ds

def expDigits (x : Int) : List Char :=
  let ds := Nat.toDigits 10 x.natAbs
  (if x < 0 then '-' else '+') :: (List.replicate (2 - ds.length) '0' ++ ds)

/-- integer part, then `.` and the fraction unless the fraction is empty -/
def withPoint (ip fr : List Char) : List Char := if fr.isEmpty then ip else ip ++ '.' :: fr

def signChars (neg : Bool) : List Char := if neg then ['-'] else []

/-- `%g`, precision 6: fixed notation iff `−4 ≤ X < 6`, trailing zeros (and a bare point) removed,
    exponent with sign and at least two digits -/
def render (d : Dec6) : List Char :=
  let ds := digits6 d.m
  if d.e < -4 ∨ d.e ≥ 6 then
    signChars d.neg ++ withPoint (ds.take 1) (stripZeros (ds.drop 1)) ++ 'e' :: expDigits d.e
  else if d.e ≥ 0 then
    signChars d.neg ++ withPoint (ds.take (d.e.toNat + 1)) (stripZeros (ds.drop (d.e.toNat + 1)))
  else
    signChars d.neg ++ '0' :: '.' :: (List.replicate ((-d.e).toNat - 1) '0' ++ stripZeros ds)

inductive Tok where
  | num (d : Dec6)
  | zero
  | raw (s : List Char)
  deriving Repr, DecidableEq

/-- what `outputfile << y` writes, as a token -/
def tokOf (y : Rat) : Tok := if y = 0 then .zero else .num (toDec6 y (expo10Fast (rabs y)))

/-! ## reading a decimal token -/

def digitVal? (c : Char) : Option Nat := if '0' ≤ c ∧ c ≤ '9' then some (c.toNat - '0'.toNat) else none

/-- leading decimal digits: (value, count, rest) -/
def takeDigits : List Char → Nat → Nat → Nat × Nat × List Char
  | [], acc, n => (acc, n, [])
  | c :: cs, acc, n =>
    match digitVal? c with
    | some d => takeDigits cs (acc * 10 + d) (n + 1)
    | none => (acc, n, c :: cs)

/-- optional sign: (negative?, rest) -/
def splitSign : List Char → Bool × List Char
  | '-' :: r => (true, r)
  | '+' :: r => (false, r)
  | cs => (false, cs)

/-- optional `.digits`: (value, count, rest) -/
def fracPart : List Char → Nat × Nat × List Char
  | '.' :: r => takeDigits r 0 0
  | rest => (0, 0, rest)

/-- after `e`/`E`: `[+-]digits`, at least one digit, nothing left over -/
def expPart (r : List Char) : Option Int :=
  let sr := splitSign r
  let ev := takeDigits sr.2 0 0
  if ev.2.1 = 0 ∨ !ev.2.2.isEmpty then none else some (if sr.1 then -(ev.1 : Int) else ev.1)

/-- what follows the mantissa: nothing (exponent 0) or an exponent part -/
def tailExp : List Char → Option Int
  | [] => some 0
  | c :: r => if c = 'e' ∨ c = 'E' then expPart r else none

/-- `[+-]digits[.digits][(e|E)[+-]digits]`, at least one mantissa digit, nothing left over -/
def parseDec (cs : List Char) : Option Rat :=
  let sr := splitSign cs
  let ip := takeDigits sr.2 0 0
  let fp := fracPart ip.2.2
  if ip.2.1 + fp.2.1 = 0 then none else
  match tailExp fp.2.2 with
  | none => none
  | some ex =>
    some ((if sr.1 then -1 else 1) * (((ip.1 : Rat) + (fp.1 : Rat) * pow10 (-(fp.2.1 : Int))) * pow10 ex))

def Tok.chars : Tok → List Char
  | .num d => render d
  | .zero => ['0']
  | .raw s => s

/-- the number `>>` extracts from the token, if it is one -/
def Tok.value : Tok → Option Rat
  | .num d => some d.value
  | .zero => some 0
  | .raw s => parseDec s

/-- `fmt6 x`: the characters `ostream << x` writes for a finite double `x` (`-0.0` is outside
    the model) -/
def fmt6 (x : Rat) : List Char := (tokOf x).chars

/-! ## In_Units -/

/-- scalar overload -/
def inUnits (x u : Rat) (round : Bool) (digits : Nat) : Except C17.Err Rat :=
  if !round then .ok (x / u) else C17.round (x / u) digits

def mapE {α β ε} (f : α → Except ε β) : List α → Except ε (List β)
  | [] => .ok []
  | a :: r => do let b ← f a; let bs ← mapE f r; pure (b :: bs)

def inUnitsList (xs : List Rat) (u : Rat) (round : Bool) (digits : Nat) : Except C17.Err (List Rat) :=
  mapE (fun x => inUnits x u round digits) xs

def inUnitsTable (xs : List (List Rat)) (u : Rat) (round : Bool) (digits : Nat) : Except C17.Err (List (List Rat)) :=
  mapE (fun r => inUnitsList r u round digits) xs

def zipE {ε} (f : Rat → Rat → Except ε Rat) : List Rat → List Rat → Except ε (List Rat)
  | x :: xs, u :: us => do let b ← f x u; let bs ← zipE f xs us; pure (b :: bs)
  | _, _ => .ok []

/-- per-column overload: every row must have as many entries as there are dimensions -/
def inUnitsCols (xs : List (List Rat)) (us : List Rat) (round : Bool) (digits : Nat) : Except C17.Err (List (List Rat)) :=
  mapE (fun r => if r.length ≠ us.length then .error .diag else zipE (fun x u => inUnits x u round digits) r us) xs

/-! ## token level: export / import -/

structure TFile where
  header : List (List Tok)   -- header lines (token view)
  rows : List (List Tok)     -- one line per table row
  deriving Repr

/-- unit factor of column `j` (`dimensions.empty() ? 1.0 : dimensions[j]`) -/
def unitRow (dims : List Rat) (row : List Rat) : List Rat :=
  if dims.isEmpty then row.map (fun _ => 1) else dims

def exportRowT (dims : List Rat) (row : List Rat) : List Tok :=
  List.zipWith (fun x u => tokOf (x / u)) row (unitRow dims row)

/-- `Export_Table` at token level; the guard is the one of the C++ loop -/
def exportT (data : List (List Rat)) (dims : List Rat) (header : List (List Tok)) : Except Err TFile :=
  if !dims.isEmpty ∧ data.any (fun r => r.length ≠ dims.length) then .error .diag
  else .ok ⟨header, data.map (exportRowT dims)⟩

/-- `while(inputfile >> x)`: values up to the first token that is not a number -/
def readAll : List Tok → List Rat
  | [] => []
  | t :: r => match t.value with
    | some v => v :: readAll r
    | none => []

/-- `data[i][j] = data_aux[k++]`: `rows` chunks of `cols` -/
def chunks : Nat → Nat → List Rat → List (List Rat)
  | 0, _, _ => []
  | r + 1, c, vals => vals.take c :: chunks r c (vals.drop c)

def applyDims (dims : List Rat) (row : List Rat) : List Rat :=
  if dims.isEmpty then row else List.zipWith (· * ·) row dims

/-- shape arithmetic of `Import_Table`: `rows = lines − ignored` (unsigned; `lines < ignored` wraps:
    outside the model); no line left after the ignored ones is an empty table (5eb5000; it was a
    division by zero before); otherwise `columns = tokens / rows`, dimension guard, sequential fill,
    per-column factor -/
def importCore (nLines : Nat) (vals : List Rat) (dims : List Rat) (ignored : Nat) : Except Err (List (List Rat)) :=
  if nLines < ignored then .error .undef
  else if nLines = ignored then .ok []
  else
    let rows := nLines - ignored
    let cols := vals.length / rows
    if !dims.isEmpty ∧ dims.length ≠ cols then .error .diag
    else .ok ((chunks rows cols vals).map (applyDims dims))

def TFile.lines (f : TFile) : List (List Tok) := f.header ++ f.rows

def importT (f : TFile) (dims : List Rat) (ignored : Nat) : Except Err (List (List Rat)) :=
  importCore f.lines.length (readAll (f.lines.drop ignored).flatten) dims ignored

/-- `Export_List` at token level: one value per line -/
def exportListT (data : List Rat) (dim : Rat) (header : List (List Tok)) : List (List Tok) :=
  header ++ data.map (fun x => [tokOf (x / dim)])

/-- what comes back for one entry: the six-digit token's value times the unit -/
def back (x u : Rat) : Rat := ((tokOf (x / u)).value.getD 0) * u

def importListT (lines : List (List Tok)) (dim : Rat) (ignored : Nat) : List Rat :=
  (readAll (lines.drop ignored).flatten).map (· * dim)

/-! ## character level -/

def nl : Char := '\n'

/-- `Export_List`: optional header + `endl`, then every value followed by `endl` -/
def exportList (data : List Rat) (dim : Rat) (header : List Char) : List Char :=
  (if header.length > 0 then header ++ [nl] else []) ++
    (data.map (fun x => fmt6 (x / dim) ++ [nl])).flatten

/-- one row of `Export_Table` as coded: values, `\t` between columns, `endl` after the last
    column unless it is the last row -/
def exportRowC (dims : List Rat) (lastRow : Bool) : List Rat → Nat → List Char
  | [], _ => []
  | x :: r, j =>
    let dim := if dims.isEmpty then 1 else dims.getD j 1
    fmt6 (x / dim) ++ (if !r.isEmpty then ['\t'] else if !lastRow then [nl] else []) ++ exportRowC dims lastRow r (j + 1)

def exportRowsC (dims : List Rat) : List (List Rat) → Except Err (List Char)
  | [] => .ok []
  | row :: r =>
    if !dims.isEmpty ∧ dims.length ≠ row.length then .error .diag
    else do
      let rest ← exportRowsC dims r
      pure (exportRowC dims r.isEmpty row 0 ++ rest)

def exportTable (data : List (List Rat)) (dims : List Rat) (header : List Char) : Except Err (List Char) := do
  let body ← exportRowsC dims data
  pure ((if header.length > 0 then header ++ [nl] else []) ++ body)

/-- `Export_Function(path, func, x_list, dimensions, header)` -/
def exportFunction (f : Rat → Rat) (xs : List Rat) (dims : List Rat) (header : List Char) : Except Err (List Char) :=
  exportTable (xs.map (fun x => [x, f x])) dims header

/-- number of `'\n'`-terminated pieces -/
def splitLines : List Char → List Char → List (List Char)
  | [], cur => [cur.reverse]
  | c :: cs, cur => if c = nl then cur.reverse :: splitLines cs [] else splitLines cs (c :: cur)

/-- `Count_Lines`: successful `getline`s — a final piece without `'\n'` counts iff it is not empty -/
def countLines (s : List Char) : Nat :=
  let ls := splitLines s []
  if (ls.getLast?.getD []).isEmpty then ls.length - 1 else ls.length

/-- `inputfile.ignore(n, '\n')` -/
def ignoreLine : Nat → List Char → List Char
  | 0, cs => cs
  | _ + 1, [] => []
  | n + 1, c :: cs => if c = nl then cs else ignoreLine n cs

def skipLines : Nat → List Char → List Char
  | 0, cs => cs
  | k + 1, cs => skipLines k (ignoreLine 10000 cs)

def isWs (c : Char) : Bool := c = ' ' ∨ c = '\t' ∨ c = '\n' ∨ c = '\r' ∨ c.toNat = 11 ∨ c.toNat = 12

def splitWs : List Char → List Char → List (List Char)
  | [], cur => if cur.isEmpty then [] else [cur.reverse]
  | c :: cs, cur =>
    if isWs c then (if cur.isEmpty then splitWs cs [] else cur.reverse :: splitWs cs [])
    else splitWs cs (c :: cur)

def numericStart (t : List Char) : Bool :=
  match t with
  | [] => false
  | c :: _ => c = '+' ∨ c = '-' ∨ c = '.' ∨ ('0' ≤ c ∧ c ≤ '9')

/-- The range of the numbers `Import_*` reads. After 5c3fb95 the token is extracted into a `long double`
    (`long double x; inputfile >> x`) and the quotient `value/dimension` is formed and written as a
    `long double`: on x86-64 (g++ and clang++) that is the x87 80-bit format — largest finite value
    `(1 − 2⁻⁶⁴)·2¹⁶³⁸⁴`, smallest subnormal `2⁻¹⁶⁴⁴⁵`.  On a platform where `long double` is `double`
    the repair is a no-op and the range is the old one (`2¹⁰²⁴ − 2⁹⁷¹`, `2⁻¹⁰⁷⁴`): listed in ASSUMPTIONS. -/
def ldMax : Rat := (2 ^ 16384 - 2 ^ 16320 : Int)
def ldTiny : Rat := 1 / 2 ^ 16445

/-- the finite `double` range (before 5c3fb95 a quotient beyond it was written as `inf`, which the reader
    does not accept) -/
def dblMax : Rat := (2 ^ 1024 - 2 ^ 971 : Int)
def dblTiny : Rat := 1 / 2 ^ 1074

/-- `while(inputfile >> x)` on characters.  A token that starts like a number but is not a
    complete decimal (`1.5abc`, `1e`), or a value outside the finite `long double` range, is a stream
    corner case outside the model. -/
def readAllC : List (List Char) → Except Err (List Rat)
  | [] => .ok []
  | t :: r =>
    match parseDec t with
    | some v =>
      if rabs v > ldMax ∨ (v ≠ 0 ∧ rabs v < ldTiny) then .error .undef
      else do let vs ← readAllC r; pure (v :: vs)
    | none => if numericStart t then .error .undef else .ok []

/-- from BYTES to tokens: `inputfile.ignore(10000, '\n')` once per header line, then the
    white-space delimited tokens `while(inputfile >> x)` sees, in order -/
def lexFile (s : List Char) (ignored : Nat) : List (List Char) := splitWs (skipLines ignored s) []

def importList (s : List Char) (dim : Rat) (ignored : Nat) : Except Err (List Rat) := do
  let vals ← readAllC (lexFile s ignored)
  pure (vals.map (· * dim))

def importTable (s : List Char) (dims : List Rat) (ignored : Nat) : Except Err (List (List Rat)) := do
  let vals ← readAllC (lexFile s ignored)
  importCore (countLines s) vals dims ignored

/-- token view of a character file (used by the driver's self-check of the glue between the layers) -/
def lexLines (s : List Char) : List (List Tok) :=
  ((splitLines s []).take (countLines s)).map (fun l => (splitWs l []).map Tok.raw)

/-- number of lines the header occupies in the exported file (`0`: no header is written) -/
def headerLineCount (header : List Char) : Nat :=
  if header.isEmpty then 0 else (splitLines header []).length

/-- token view of the header text -/
def headerLinesT (h : List Char) : List (List Tok) :=
  if h.isEmpty then [] else (splitLines h []).map (fun l => (splitWs l []).map Tok.raw)

/-- glue between the layers, evaluated by the driver on every round-trip request and proved for
    every request (`glue_proved`): the characters written lex back to the tokens of the
    token-level export -/
def glueOK (bytes : List Char) (f : TFile) : Bool :=
  let l1 : List (List (Option Rat)) := (lexLines bytes).map (fun l => l.map Tok.value)
  let l2 : List (List (Option Rat)) := f.lines.map (fun l => l.map Tok.value)
  l1 == l2

end Lp.C20
