/-
  C13 — named 1-D methods and nested multi-dimensional integrals.
  Executable model of src/Integration.cpp §1.1 (`Find_Epsilon`, `Check_Integration_Limits`), §1.3
  (`Integrate(func,a,b,method,method_parameter)`) and §2.1 (`Integrate_2D`, both `Integrate_3D`)
  over exact rationals.  Core-only (no Mathlib).

  External code is a parameter:
    * `I : Method → Int → (Rat → Rat) → Rat → Rat → Rat` — the family of 1-D rules the dispatch calls
      (Boost `trapezoidal`, `gauss<30>`, `gauss_kronrod<31>` with `max_depth`, `tanh_sinh`; the library's
      own Gauss–Legendre rule with `evaluation_points` (C12) and adaptive Simpson (C03)); always called
      with ordered limits `a < b`; the `Int` is the effective method parameter;
    * `MC : MCMethod → (List Rat → Rat) → List Rat → Int → Rat` — `Integrate_MC(integrand, region, ncalls, method)` (C14);
    * `sph r θ φ` — `Spherical_Coordinates` (C16) and `acos`.
-/
import LpModel.Basic
namespace Lp.C13

inductive Method where
  | trapezoidal | gaussLegendre | gaussKronrod | tanhSinh | gaussLegendre2 | adaptiveSimpson
  deriving DecidableEq, Repr

inductive MCMethod where
  | bruteForce | vegas | miser
  deriving DecidableEq, Repr

inductive Err where
  | diag : Err          -- the C++ prints a diagnostic and exits with failure
  deriving DecidableEq, Repr

def parseMethod (s : String) : Option Method :=
  if s = "Trapezoidal" then some .trapezoidal
  else if s = "Gauss-Legendre" then some .gaussLegendre
  else if s = "Gauss-Kronrod" then some .gaussKronrod
  else if s = "Tanh-Sinh" then some .tanhSinh
  else if s = "Gauss-Legendre_2" then some .gaussLegendre2
  else if s = "Adaptive-Simpson" then some .adaptiveSimpson
  else none

def parseMC (s : String) : Option MCMethod :=
  if s = "Monte-Carlo" then some .bruteForce
  else if s = "Vegas" then some .vegas
  else if s = "Miser" then some .miser
  else none

/-- what the dispatch hands to the rule: `max_depth` (default 5), `evaluation_points` (default 30);
    the other methods ignore `method_parameter` -/
def effParam (m : Method) (p : Int) : Int :=
  match m with
  | .gaussKronrod => if p = 0 then 5 else p
  | .gaussLegendre2 => if p = 0 then 30 else p
  | _ => 0

abbrev Integ := Method → Int → (Rat → Rat) → Rat → Rat → Rat
abbrev MCInteg := MCMethod → (List Rat → Rat) → List Rat → Int → Rat

/-- `Check_Integration_Limits(a, b, sign)`: returns the new `(a, b, sign)` -/
def checkLimits (a b sign : Rat) : Rat × Rat × Rat := if a > b then (b, a, -1) else (a, b, sign)

/-- `Find_Epsilon(func, a, b, precision)` -/
def findEpsilon (f : Rat → Rat) (a b precision : Rat) : Rat :=
  let c := (a + b) / 2
  let h := b - a
  let S := (h / 6) * (f a + 4 * f c + f b)
  precision * S

/-- precision handed to `Find_Epsilon` by the "Adaptive-Simpson" branch (fix ad02385: a tenth of the
    1e-9 target, because adaptive Simpson is only guaranteed to four times the requested tolerance, C03) -/
def simpsonPrecision : Rat := 1 / (10 : Rat) ^ 10

/-- the "Adaptive-Simpson" branch: `eps = Find_Epsilon(func,a,b,1e-10); Integrate(func,a,b,eps)` over an
    abstract adaptive-Simpson integrator `S f a b eps` (C03).  `I .adaptiveSimpson` of the dispatch is this
    function of `(f, a, b)`. -/
def adaptiveSimpsonBranch (S : (Rat → Rat) → Rat → Rat → Rat → Rat) (f : Rat → Rat) (a b : Rat) : Rat :=
  S f a b (findEpsilon f a b simpsonPrecision)

/-- the body of `Integrate(func,a,b,method,param)` for a recognised method -/
def int1 (I : Integ) (m : Method) (p : Int) (f : Rat → Rat) (a b : Rat) : Rat :=
  if a = b then 0
  else
    let (a', b', sign) := checkLimits a b 1
    sign * I m (effParam m p) f a' b'

/-- `Integrate(func, a, b, method, method_parameter)` (after fix d39b5c1): the method name is looked at
    first — `known_method`; equal limits return 0 only for a recognised method, an unknown name is a
    diagnostic on every interval, degenerate or not. -/
def integrate1D (I : Integ) (name : String) (p : Int) (f : Rat → Rat) (a b : Rat) : Except Err Rat :=
  match parseMethod name with
  | some m => .ok (int1 I m p f a b)
  | none => .error .diag

/-- one call of a history: a 1-D `Integrate` or a 2-D `Integrate_2D` with a named method -/
inductive Call where
  | one (name : String) (p : Int) (f : Rat → Rat) (a b : Rat)
  | two (name : String) (p : Int) (f : Rat → Rat → Rat) (x1 x2 y1 y2 : Rat)

def ncallsOf (p : Int) : Int := if p = 0 then 30000 else p

/-- `Integrate_MC(func, region, ncalls, method)`: the dispatch on the method name -/
def integrateMC (MC : MCInteg) (name : String) (g : List Rat → Rat) (region : List Rat) (ncalls : Int) : Except Err Rat :=
  match parseMC name with
  | some mc => .ok (MC mc g region ncalls)
  | none => .error .diag

/-- `Integrate_2D` -/
def integrate2D (I : Integ) (MC : MCInteg) (name : String) (p : Int) (f : Rat → Rat → Rat)
    (x1 x2 y1 y2 : Rat) : Except Err Rat :=
  match parseMethod name with
  | some m =>
    let integrand_x := fun x =>
      let integrand_y := fun y => f x y
      int1 I m p integrand_y y1 y2
    .ok (int1 I m p integrand_x x1 x2)
  | none =>
    match parseMC name with
    | some mc =>
      let integrand := fun (args : List Rat) => f (args.getD 0 0) (args.getD 1 0)
      let region := [x1, y1, x2, y2]
      .ok (MC mc integrand region (ncallsOf p))
    | none => .error .diag

/-- `Integrate_3D` (Cartesian) -/
def integrate3D (I : Integ) (MC : MCInteg) (name : String) (p : Int) (f : Rat → Rat → Rat → Rat)
    (x1 x2 y1 y2 z1 z2 : Rat) : Except Err Rat :=
  match parseMethod name with
  | some m =>
    let integrand_x := fun x =>
      let integrand_y := fun y =>
        let integrand_z := fun z => f x y z
        int1 I m p integrand_z z1 z2
      int1 I m p integrand_y y1 y2
    .ok (int1 I m p integrand_x x1 x2)
  | none =>
    match parseMC name with
    | some mc =>
      let integrand := fun (args : List Rat) => f (args.getD 0 0) (args.getD 1 0) (args.getD 2 0)
      let region := [x1, y1, z1, x2, y2, z2]
      .ok (MC mc integrand region (ncallsOf p))
    | none => .error .diag

/-- the answer of one call: a function of the call's own arguments -/
def runCall (I : Integ) (MC : MCInteg) : Call → Except Err Rat
  | .one name p f a b => integrate1D I name p f a b
  | .two name p f x1 x2 y1 y2 => integrate2D I MC name p f x1 x2 y1 y2

/-- a sequence of calls in one process: the C++ functions keep no state between calls -/
def runSeq (I : Integ) (MC : MCInteg) (calls : List Call) : List (Except Err Rat) := calls.map (runCall I MC)

def valueOf (r : Except Err Rat) : Rat := match r with | .ok v => v | .error _ => 0

/-- re-entrant use of the named 1-D front end: the integrand of `Integrate(F, a, b, name1, p1)` is itself
    `F x = Integrate(g x, lo x, hi x, name2, p2)` — another (or the same) method with another parameter and limits
    that may depend on the outer variable.  No call keeps state, so the inner calls cannot disturb the outer rule. -/
def nestedCall (I : Integ) (name1 : String) (p1 : Int) (name2 : String) (p2 : Int) (g : Rat → Rat → Rat)
    (lo hi : Rat → Rat) (a b : Rat) : Except Err Rat :=
  match parseMethod name2 with
  | none => if a = b ∧ (parseMethod name1).isSome then .ok 0 else .error .diag   -- the first inner call stops the process
  | some _ => integrate1D I name1 p1 (fun x => valueOf (integrate1D I name2 p2 (g x) (lo x) (hi x))) a b

abbrev Vec3 := Rat × Rat × Rat

/-- the integrand the spherical overload hands to the Cartesian one: `r² · f(Spherical_Coordinates(r, acos c, φ))` -/
def sphericalIntegrand (sph : Rat → Rat → Rat → Vec3) (acos : Rat → Rat) (f : Vec3 → Rat) : Rat → Rat → Rat → Rat :=
  fun r cos_theta phi =>
    let rVec := sph r (acos cos_theta) phi
    r * r * f rVec

/-- `Integrate_3D(func(Vector), r1, r2, cosθ1, cosθ2, φ1, φ2, method, param)` -/
def integrate3Dsph (I : Integ) (MC : MCInteg) (sph : Rat → Rat → Rat → Vec3) (acos : Rat → Rat)
    (name : String) (p : Int) (f : Vec3 → Rat) (r1 r2 c1 c2 phi1 phi2 : Rat) : Except Err Rat :=
  integrate3D I MC name p (sphericalIntegrand sph acos f) r1 r2 c1 c2 phi1 phi2

/-! ## An exact reference integrator for the driver

`ncI` is the closed Newton–Cotes rule on `N+1` equally spaced points with exactly computed weights: it
integrates every polynomial of degree ≤ N exactly.  The driver instantiates `I` (every method) and
`MC` with it, so that the model's answer for a polynomial integrand is the exact iterated integral
*through the coded wrappers* (limits, order of variables, sign, region layout). -/

def polyMul (p q : List Rat) : List Rat :=
  (List.range (p.length + q.length - 1)).map (fun k =>
    (List.range (k + 1)).foldl (fun acc i => acc + p.getD i 0 * q.getD (k - i) 0) 0)

/-- `∫₀¹` of the polynomial with ascending coefficients `p` -/
def polyInt01 (p : List Rat) : Rat :=
  (List.range p.length).foldl (fun acc k => acc + p.getD k 0 / ((k : Rat) + 1)) 0

/-- weights (on `[0,1]`) of the interpolatory rule with nodes `j/N`, `j = 0..N` -/
def ncWeights (N : Nat) : List Rat :=
  (List.range (N + 1)).map (fun i =>
    let basis := (List.range (N + 1)).foldl (fun (acc : List Rat) (j : Nat) =>
      if j = i then acc
      else
        let d : Rat := ((i : Rat) - (j : Rat)) / (N : Rat)
        polyMul acc [-(((j : Rat) / (N : Rat)) / d), 1 / d]) [1]
    polyInt01 basis)

def ncI (N : Nat) (w : List Rat) (f : Rat → Rat) (a b : Rat) : Rat :=
  (b - a) * (List.range (N + 1)).foldl (fun acc j => acc + w.getD j 0 * f (a + (b - a) * ((j : Rat) / (N : Rat)))) 0

end Lp.C13
