/-
  C01 — Interpolants reproduce the data and never overshoot it.

  The executable model of `libphysica::Interpolation` / `Interpolation_2D` is the shared
  `LpModel.Interp` (src/Numerics.cpp §1.1, §1.2).  This file adds
    * table-level names for the objects the theorems of `LpProofs.C01` talk about
      (`cubic`, `cubicD1..3`, `pEst`, `limiterInactive`, `cell`) — all definitionally the
      expressions `Lp.Interp.Obj.cubicAt`, `Obj.derivative`, `Obj2.interpolate` evaluate
      (lemmas `cubicAt_eq`, `interpolate_eq`, `derivative_eq`, `interpolate2_eq` in `LpProofs/C01/Table.lean`);
    * the request-level wrappers the driver runs (`run1D`, `run2D`): build the object from the
      lists exactly as the constructor does, apply `Set_Prefactor`/`Multiply`, evaluate the
      queries in order threading the search state (`jLast`, `correlated_calls`).
  Core-only (no Mathlib).
-/
import LpModel.Interp
namespace Lp.C01
open Lp Lp.Interp

/-! ## Table-level names -/

section Table
variable (N : Nat) (x y : Nat → Rat)

/-- the cubic of segment `j` evaluated at abscissa `v` (without the prefactor):
    `a[j]*(v-x_j)^3 + b[j]*(v-x_j)^2 + c[j]*(v-x_j) + d[j]` -/
def cubic (j : Nat) (v : Rat) : Rat :=
  segEval (coefA N x y j) (coefB N x y j) (coefC N x y j) (coefD y j) (v - x j)

/-- what `Derivative(v,1)` reports on segment `j` (without the prefactor) -/
def cubicD1 (j : Nat) (v : Rat) : Rat :=
  segD1 (coefA N x y j) (coefB N x y j) (coefC N x y j) (v - x j)

/-- `Derivative(v,2)` -/
def cubicD2 (j : Nat) (v : Rat) : Rat := segD2 (coefA N x y j) (coefB N x y j) (v - x j)

/-- `Derivative(v,3)` -/
def cubicD3 (j : Nat) : Rat := segD3 (coefA N x y j)

/-- the un-limited slope estimate `p[i]` with the three cases of the C++ loop -/
def pEst (i : Nat) : Rat :=
  if i = 0 then pEdge (h x 0) (h x 1) (s x y 0) (s x y 1)
  else if i = N - 1 then pEdge (h x (N - 2)) (h x (N - 3)) (s x y (N - 2)) (s x y (N - 3))
  else pInterior (h x (i - 1)) (h x i) (s x y (i - 1)) (s x y i)

/-- the slope limiter did not change the estimate at knot `i` (decidable) -/
def limiterInactive (i : Nat) : Prop := dy N x y i = pEst N x y i

instance (i : Nat) : Decidable (limiterInactive N x y i) := by
  unfold limiterInactive; exact inferInstance

end Table

/-- the bilinear form of cell `(i,j)` at `(vx,vy)` (without the prefactor), as
    `Interpolation_2D::Interpolate` evaluates it -/
def cell (x y : Nat → Rat) (F : Nat → Nat → Rat) (i j : Nat) (vx vy : Rat) : Rat :=
  bilinear ((vx - x i) / (x (i + 1) - x i)) ((vy - y j) / (y (j + 1) - y j))
    (F i j) (F (i + 1) j) (F (i + 1) (j + 1)) (F i (j + 1))

/-! ## Request-level wrappers (what the driver runs) -/

/-- one query: `code = -1` is `Interpolate(v)`, `code = k ≥ 0` is `Derivative(v,k)`.
    Returns the value, the interval index `Locate` chose, and the object with its new
    search state. -/
def query (o : Obj) (v : Rat) (code : Int) : Except Err (Rat × Nat × Obj) := do
  let (j, _) ← o.locate v
  if code < 0 then
    let (r, o') ← o.interpolate v
    pure (r, j, o')
  else
    let (r, o') ← o.derivative v code.toNat
    pure (r, j, o')

def queries (o : Obj) : List (Rat × Int) → Except Err (List (Rat × Nat))
  | [] => pure []
  | (v, c) :: rest => do
    let (r, j, o') ← query o v c
    let tl ← queries o' rest
    pure ((r, j) :: tl)

/-- constructor, `Set_Prefactor(pref)`, `Multiply(mul)`, then the queries -/
def run1D (xs ys : List Rat) (xdim fdim pref mul : Rat) (qs : List (Rat × Int)) :
    Except Err (List (Rat × Nat)) := do
  let o ← mk xs ys xdim fdim
  queries ((o.setPrefactor pref).multiply mul) qs

/-- `Interpolation(const std::vector<std::vector<double>>& data, x_dim, f_dim)`: every row must have two entries
    (diagnostic otherwise); the columns are handed to the list constructor -/
def mkTable (rows : List (List Rat)) (xdim fdim : Rat) : Except Err Obj :=
  if rows.any (fun r => r.length ≠ 2) then .error .diag
  else mk (rows.map (fun r => r.getD 0 0)) (rows.map (fun r => r.getD 1 0)) xdim fdim

/-- `Interpolation()`: the table `{-1,0,1} → {0,0,0}` through the list constructor -/
def mkDefault : Except Err Obj := mk [-1, 0, 1] [0, 0, 0] (-1) (-1)

/-- the constructor a request asks for: 0/1 lists (operator() / named `Interpolate`: the operator forwards),
    2 the table constructor on the rows `{x_i, y_i}`, 3 the default constructor -/
def construct (ctor : Nat) (xs ys : List Rat) (xdim fdim : Rat) : Except Err Obj :=
  match ctor with
  | 2 => if xs.length = ys.length then mkTable (List.zipWith (fun a b => [a, b]) xs ys) xdim fdim
         else .error .diag       -- the harness then builds a one-entry row: "faulty dimensions"
  | 3 => mkDefault
  | _ => mk xs ys xdim fdim

def run1Dc (ctor : Nat) (xs ys : List Rat) (xdim fdim pref mul : Rat) (qs : List (Rat × Int)) :
    Except Err (List (Rat × Nat)) := do
  let o ← construct ctor xs ys xdim fdim
  queries ((o.setPrefactor pref).multiply mul) qs

/-- `Interpolation_2D()`: 3×3 grid on `{-1,0,1}²`, all values 0 -/
def mkDefault2 : Except Err Obj2 := mk2 [-1, 0, 1] [-1, 0, 1] [[0, 0, 0], [0, 0, 0], [0, 0, 0]] (-1) (-1) (-1)

def queries2 (o : Obj2) : List (Rat × Rat) → Except Err (List (Rat × Nat × Nat))
  | [] => pure []
  | (vx, vy) :: rest => do
    let (i, _) ← o.ox.locate vx
    let (j, _) ← o.oy.locate vy
    let (r, o') ← o.interpolate vx vy
    let tl ← queries2 o' rest
    pure ((r, i, j) :: tl)

/-- `Interpolation_2D(x,y,f,x_dim,y_dim,f_dim)`, `Set_Prefactor`, `Multiply`, queries -/
def run2D (xs ys : List Rat) (f : List (List Rat)) (xdim ydim fdim pref mul : Rat)
    (qs : List (Rat × Rat)) : Except Err (List (Rat × Nat × Nat)) := do
  let o ← mk2 xs ys f xdim ydim fdim
  queries2 { o with pref := pref * mul } qs

/-- 2-D with a constructor flag: 3 = default constructor; 2 = the data-table constructor, requested only on complete
    x-major tables of a strictly increasing grid, for which its sort / unique / shape / format checks pass and it forwards
    the recovered lists to the list constructor (the correspondence run validates exactly that) -/
def run2Dc (ctor : Nat) (xs ys : List Rat) (f : List (List Rat)) (xdim ydim fdim pref mul : Rat)
    (qs : List (Rat × Rat)) : Except Err (List (Rat × Nat × Nat)) := do
  let o ← if ctor = 3 then mkDefault2 else mk2 xs ys f xdim ydim fdim
  queries2 { o with pref := pref * mul } qs

end Lp.C01
