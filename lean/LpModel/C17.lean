/-
  C17 — scalar helpers, Round, Dawson/Erfi/Inv_Erf structure and the coefficient tables of the
  vector spherical harmonics (src/Special_Functions.cpp §1, §2.3, §2.4), over exact rationals.
  `exp`, `sqrt` are parameters.  Core-only.
-/
import LpModel.C17.Dec
import LpModel.C17.Round
namespace Lp.C17
open Lp.Dec

/-! ## §1 simple functions -/

/-- `double Sign(double x, double y)`: `x` if the signs of `x` and `y` agree, `−x` otherwise -/
def sign2 (x y : Rat) : Rat := if sign1 x = sign1 y then x else -1 * x

/-- `StepFunction` -/
def step (x : Rat) : Rat := if x ≥ 0 then 1 else 0

/-- `Relative_Difference` (after a32e880: equal arguments have difference zero) -/
def relDiff (a b : Rat) : Rat :=
  let d := rabs (a - b)
  let mx := rmax (rabs a) (rabs b)
  if d = 0 then 0 else d / mx

/-- `Floats_Equal` (after e33c234: `<=`, so that a zero tolerance means "equal") -/
def floatsEqual (a b tol : Rat) : Bool := decide (relDiff a b ≤ tol)

/-- the comparison before e33c234: strict `<`, which is never true for a zero tolerance -/
def floatsEqualStrict (a b tol : Rat) : Bool := decide (relDiff a b < tol)

/-- the formula before a32e880: `d / max`, which is `0/0` (NaN, `none`) at `(0,0)` -/
def relDiffOld (a b : Rat) : Option Rat :=
  let d := rabs (a - b)
  let mx := rmax (rabs a) (rabs b)
  if mx = 0 then none else some (d / mx)

/-- `NaN < tol` is false -/
def floatsEqualOld (a b tol : Rat) : Bool :=
  match relDiffOld a b with
  | none => false
  | some r => decide (r < tol)

/-! ## §2.4 Dawson, Erfi, Inv_Erf -/

def dawsonH : Rat := 4 / 10
def dawsonA1 : Rat := 2 / 3
def dawsonA2 : Rat := 4 / 10
def dawsonA3 : Rat := 2 / 7
/-- `0.5641895835` (≈ 1/√π) -/
def dawsonPref : Rat := 5641895835 / 10000000000

/-- series branch, `|x| < 0.2` -/
def dawsonSmall (x : Rat) : Rat :=
  let x2 := x * x
  x * (1 - dawsonA1 * x2 * (1 - dawsonA2 * x2 * (1 - dawsonA3 * x2)))

/-- the loop `for(i = 0; i < NMAX; i++, d1 += 2, d2 -= 2, e1 *= e2) sum += c[i]*(e1/d1 + 1/(d2*e1))` -/
def dawsonLoop (exp : Rat → Rat) (e2 : Rat) : Nat → Nat → Rat → Rat → Rat → Rat → Rat
  | 0, _, _, _, _, sum => sum
  | f + 1, i, d1, d2, e1, sum =>
    let c := exp (-((2 * (i : Rat) + 1) * (2 * (i : Rat) + 1) * dawsonH * dawsonH))
    dawsonLoop exp e2 f (i + 1) (d1 + 2) (d2 - 2) (e1 * e2) (sum + c * (e1 / d1 + 1 / (d2 * e1)))

/-- sampling-theorem branch, `|x| ≥ 0.2` (Rybicki) -/
def dawsonLarge (exp : Rat → Rat) (x : Rat) : Rat :=
  let xx := rabs x
  let n0 : Int := 2 * (((1 / 2 : Rat) * xx / dawsonH + 1 / 2).floor)   -- `2 * int(0.5*xx/H + 0.5)`
  let xp := xx - (n0 : Rat) * dawsonH
  let e1 := exp (2 * xp * dawsonH)
  let e2 := e1 * e1
  let d1 : Rat := (n0 : Rat) + 1
  let d2 := d1 - 2
  let sum := dawsonLoop exp e2 6 0 d1 d2 e1 0
  dawsonPref * sign2 (exp (-(xp * xp))) x * sum

def dawson (exp : Rat → Rat) (x : Rat) : Rat :=
  if rabs x < 2 / 10 then dawsonSmall x else dawsonLarge exp x

/-- `Erfi(x)` as coded after 09597b4: `e = exp(0.5·x·x); return 2/sqrt(π) · Dawson(x) · e · e` — the small
    factor `Dawson(x)` is multiplied first and the exponential is split, so that no intermediate product
    overflows while the result is a double (`|x| ≤ 26.71`); `twoOverSqrtPi` is the value of `2.0 / std::sqrt(M_PI)` -/
def erfi (exp : Rat → Rat) (twoOverSqrtPi : Rat) (x : Rat) : Rat :=
  let e := exp (1 / 2 * x * x)
  twoOverSqrtPi * dawson exp x * e * e

/-- the evaluation order before 09597b4: `2/sqrt(π) · exp(x²) · Dawson(x)` (overflows in double
    arithmetic for `|x| > 26.6395` although the value is representable up to `26.71`) -/
def erfiDirect (exp : Rat → Rat) (twoOverSqrtPi : Rat) (x : Rat) : Rat :=
  twoOverSqrtPi * exp (x * x) * dawson exp x

inductive InvErfCase where
  | ten      -- |p − 1| < 1e-16: warning, returns 10
  | minusTen -- |p + 1| < 1e-16: warning, returns −10 (e9e1286: the window is symmetric)
  | diag     -- |p| ≥ 1: diagnostic
  | root     -- Find_Root(erf − p, −10, 10, 1e-4)
  deriving DecidableEq, Repr

def invErfCase (p : Rat) : InvErfCase :=
  if rabs (p - 1) < 1 / 10 ^ 16 then .ten
  else if rabs (p + 1) < 1 / 10 ^ 16 then .minusTen
  else if rabs p ≥ 1 then .diag else .root

/-! ## §2.3 coefficient tables of the vector spherical harmonics -/

/-- a coefficient `(re + i·im) · sqrt(q)`; `|c|² = (re² + im²)·q` -/
structure Coef where
  re : Rat
  im : Rat
  q : Rat
  deriving DecidableEq, Repr

def Coef.zero : Coef := ⟨0, 0, 0⟩
def Coef.normSq (c : Coef) : Rat := (c.re * c.re + c.im * c.im) * c.q

/-- `VSH_Y_Component(component, l, m, l_hat, m_hat)` as coded -/
def vshY (comp : Int) (l m lh mh : Int) : Except Err Coef :=
  let L : Rat := l
  let M : Rat := m
  if comp = 0 then
    if (lh ≠ l - 1 ∧ lh ≠ l + 1) ∨ (mh ≠ m - 1 ∧ mh ≠ m + 1) then .ok .zero
    else if lh = l + 1 ∧ mh = m + 1 then .ok ⟨-1 / 2, 0, (L + M + 1) * (L + M + 2) / (2 * L + 3) / (2 * L + 1)⟩
    else if lh = l + 1 ∧ mh = m - 1 then .ok ⟨1 / 2, 0, (L - M + 1) * (L - M + 2) / (2 * L + 3) / (2 * L + 1)⟩
    else if lh = l - 1 ∧ mh = m + 1 then .ok ⟨1 / 2, 0, (L - M - 1) * (L - M) / (2 * L - 1) / (2 * L + 1)⟩
    else if lh = l - 1 ∧ mh = m - 1 then .ok ⟨-1 / 2, 0, (L + M - 1) * (L + M) / (2 * L - 1) / (2 * L + 1)⟩
    else .ok .zero
  else if comp = 1 then
    if (lh ≠ l - 1 ∧ lh ≠ l + 1) ∨ (mh ≠ m - 1 ∧ mh ≠ m + 1) then .ok .zero
    else if lh = l + 1 ∧ mh = m + 1 then .ok ⟨0, 1 / 2, (L + M + 1) * (L + M + 2) / (2 * L + 3) / (2 * L + 1)⟩
    else if lh = l + 1 ∧ mh = m - 1 then .ok ⟨0, 1 / 2, (L - M + 1) * (L - M + 2) / (2 * L + 3) / (2 * L + 1)⟩
    else if lh = l - 1 ∧ mh = m + 1 then .ok ⟨0, -1 / 2, (L - M - 1) * (L - M) / (2 * L - 1) / (2 * L + 1)⟩
    else if lh = l - 1 ∧ mh = m - 1 then .ok ⟨0, -1 / 2, (L + M - 1) * (L + M) / (2 * L - 1) / (2 * L + 1)⟩
    else .ok .zero
  else if comp = 2 then
    if (lh ≠ l - 1 ∧ lh ≠ l + 1) ∨ mh ≠ m then .ok .zero
    else if lh = l + 1 then .ok ⟨1, 0, (L - M + 1) * (L + M + 1) / (2 * L + 3) / (2 * L + 1)⟩
    else if lh = l - 1 then .ok ⟨1, 0, (L - M) * (L + M) / (2 * L - 1) / (2 * L + 1)⟩
    else .ok .zero
  else .error .diag

/-- `VSH_Psi_Component` as coded (component 1 keeps `l²` resp. `(l+1)²` under the root) -/
def vshPsi (comp : Int) (l m lh mh : Int) : Except Err Coef :=
  let L : Rat := l
  let M : Rat := m
  if comp = 0 then
    if (lh ≠ l - 1 ∧ lh ≠ l + 1) ∨ (mh ≠ m - 1 ∧ mh ≠ m + 1) then .ok .zero
    else if lh = l + 1 ∧ mh = m + 1 then .ok ⟨L / 2, 0, (L + M + 1) * (L + M + 2) / (2 * L + 3) / (2 * L + 1)⟩
    else if lh = l + 1 ∧ mh = m - 1 then .ok ⟨-L / 2, 0, (L - M + 1) * (L - M + 2) / (2 * L + 3) / (2 * L + 1)⟩
    else if lh = l - 1 ∧ mh = m + 1 then .ok ⟨(L + 1) / 2, 0, (L - M - 1) * (L - M) / (2 * L - 1) / (2 * L + 1)⟩
    else if lh = l - 1 ∧ mh = m - 1 then .ok ⟨-(L + 1) / 2, 0, (L + M - 1) * (L + M) / (2 * L - 1) / (2 * L + 1)⟩
    else .ok .zero
  else if comp = 1 then
    if (lh ≠ l - 1 ∧ lh ≠ l + 1) ∨ (mh ≠ m - 1 ∧ mh ≠ m + 1) then .ok .zero
    else if lh = l + 1 ∧ mh = m + 1 then .ok ⟨0, -1 / 2, L * L * (L + M + 1) * (L + M + 2) / (2 * L + 3) / (2 * L + 1)⟩
    else if lh = l + 1 ∧ mh = m - 1 then .ok ⟨0, -1 / 2, L * L * (L - M + 1) * (L - M + 2) / (2 * L + 3) / (2 * L + 1)⟩
    else if lh = l - 1 ∧ mh = m + 1 then .ok ⟨0, -1 / 2, (L + 1) * (L + 1) * (L - M - 1) * (L - M) / (2 * L - 1) / (2 * L + 1)⟩
    else if lh = l - 1 ∧ mh = m - 1 then .ok ⟨0, -1 / 2, (L + 1) * (L + 1) * (L + M - 1) * (L + M) / (2 * L - 1) / (2 * L + 1)⟩
    else .ok .zero
  else if comp = 2 then
    if (lh ≠ l - 1 ∧ lh ≠ l + 1) ∨ mh ≠ m then .ok .zero
    else if lh = l + 1 then .ok ⟨-L, 0, (L - M + 1) * (L + M + 1) / (2 * L + 3) / (2 * L + 1)⟩
    else if lh = l - 1 then .ok ⟨1 + L, 0, (L - M) * (L + M) / (2 * L - 1) / (2 * L + 1)⟩
    else .ok .zero
  else .error .diag

def coefOf (r : Except Err Coef) : Coef := match r with | .ok c => c | .error _ => .zero

/-- the index set of the double loop of `Vector_Spherical_Harmonics_Y/Psi`
    (`l̂ ∈ {l−1, l+1}`, `m̂ ∈ {m−1, m, m+1}`), for all three components -/
def vshIndex (l m : Int) : List (Int × Int × Int) :=
  [0, 1, 2].flatMap fun c => [l - 1, l + 1].flatMap fun lh => [m - 1, m, m + 1].map fun mh => (c, lh, mh)

def rsum (l : List Rat) : Rat := l.foldr (· + ·) 0

/-- `Σ |c|²` over components and `(l̂, m̂)` -/
def vshNormSq (tbl : Int → Int → Int → Int → Int → Except Err Coef) (l m : Int) : Rat :=
  rsum ((vshIndex l m).map fun (c, lh, mh) => (coefOf (tbl c l m lh mh)).normSq)

/-- amplitude of the Ψ coefficient relative to the *same* radical as the Y coefficient:
    `(re + i·im)·sqrt(k²·q) = k·(re + i·im)·sqrt(q)` for `k ≥ 0` (component 1 keeps `l²`, `(l+1)²`
    under the root); `k` is `l` for `l̂ = l+1`, `l+1` for `l̂ = l−1`, and `1` for components 0, 2 -/
def psiRootFactor (comp l lh : Int) : Rat :=
  if comp = 1 then (if lh = l + 1 then (l : Rat) else (l : Rat) + 1) else 1

/-- real and imaginary part of `Σ conj(c_Y)·c_Ψ` (each product is
    `conj(a_Y)·a_Ψ·k·q_Y` with `q_Ψ = k²·q_Y`: theorem `vsh_radicands`) -/
def vshInner (l m : Int) : Rat × Rat :=
  let terms := (vshIndex l m).map fun (c, lh, mh) =>
    let y := coefOf (vshY c l m lh mh)
    let p := coefOf (vshPsi c l m lh mh)
    let k := psiRootFactor c l lh
    -- conj(y.re + i y.im) * (p.re + i p.im) = (y.re p.re + y.im p.im) + i (y.re p.im − y.im p.re)
    ((y.re * p.re + y.im * p.im) * k * y.q, (y.re * p.im - y.im * p.re) * k * y.q)
  (rsum (terms.map (·.1)), rsum (terms.map (·.2)))

end Lp.C17
