/-
  C07 — distributions, quantiles, likelihoods (src/Statistics.cpp §1, §2, §6), executable model
  over exact rationals, every function as coded with its support branches explicit.  Core-only.

  `exp, log, sqrt, erf, pow, π` and the library's own `Gamma`, `GammaQ`, `GammaP`, `Inv_GammaQ`,
  `Inv_Erf` (property C06/C17) are parameters (`T : Fn`): hypotheses of the theorems, never axioms.
  What is rational is computed exactly here and by the driver: the uniform family, the binomial
  mass function and its CDF (integer powers), every guard and support branch.
-/
import LpModel.Basic
import LpModel.Interp
namespace Lp.C07

inductive Err where
  | diag : Err
  deriving DecidableEq, Repr

structure Fn where
  exp : Rat → Rat
  log : Rat → Rat
  sqrt : Rat → Rat
  erf : Rat → Rat
  pow : Rat → Rat → Rat          -- non-integer exponents
  pi : Rat
  gamma : Rat → Rat               -- libphysica::Gamma
  gammaLn : Rat → Rat             -- libphysica::GammaLn
  gammaQ : Rat → Rat → Rat        -- libphysica::GammaQ(x,a) on its domain
  gammaP : Rat → Rat → Rat
  invGammaQ : Rat → Rat → Rat
  invErf : Rat → Rat              -- the root `Find_Root` returns inside `Inv_Erf`

/-! ## 1.1 Uniform -/

def pdfUniform (x lo hi : Rat) : Rat := if x < lo ∨ x > hi then 0 else 1 / (hi - lo)

def cdfUniform (x lo hi : Rat) : Rat :=
  if x < lo then 0 else if x > hi then 1 else (x - lo) / (hi - lo)

/-! ## 1.2 Normal -/

def pdfGauss (T : Fn) (x mu sigma : Rat) : Rat :=
  1 / T.sqrt (2 * T.pi) / sigma * T.exp (-(((x - mu) / sigma) ^ 2) / 2)

/-- `PDF_Gauss_2D(x, y, mean, sigma)` as coded:
    `0.5 / M_PI / s1 / s2 * exp(-0.5 * (dx*dx/s1/s1 + dy*dy/s2/s2))` -/
def pdfGauss2D (T : Fn) (x y m1 m2 s1 s2 : Rat) : Rat :=
  let dx := x - m1
  let dy := y - m2
  1 / 2 / T.pi / s1 / s2 * T.exp (-(1 / 2) * (dx * dx / s1 / s1 + dy * dy / s2 / s2))

def cdfGauss (T : Fn) (x mu sigma : Rat) : Rat :=
  1 / 2 * (1 + T.erf ((x - mu) / (T.sqrt 2 * sigma)))

/-- `Inv_Erf(p)`: the three branches as coded -/
def invErf (T : Fn) (p : Rat) : Except Err Rat :=
  if rabs (p - 1) < 1e-16 then .ok 10
  else if rabs p ≥ 1 then .error .diag
  else .ok (T.invErf p)

/-- `Inv_Erf` with the symmetric window (`fix:` e9e1286; `invErf` above is the form before it): `|p + 1| < 1e-16` returns -10 like `|p - 1| < 1e-16` returns 10 -/
def invErfSym (T : Fn) (p : Rat) : Except Err Rat :=
  if rabs (p - 1) < 1e-16 then .ok 10
  else if rabs (p + 1) < 1e-16 then .ok (-10)
  else if rabs p ≥ 1 then .error .diag
  else .ok (T.invErf p)

def quantileGauss (T : Fn) (p mu sigma : Rat) : Except Err Rat :=
  if sigma < 0 then .error .diag                 -- `fix:` d65f15f
  else (invErfSym T (2 * p - 1)).map (fun r => mu + T.sqrt 2 * sigma * r)

/-! ### the parameter guards of `fix:` d65f15f: the functions as coded are the guard followed by the formula above -/

def pdfUniformE (x lo hi : Rat) : Except Err Rat := if lo ≥ hi then .error .diag else .ok (pdfUniform x lo hi)
def cdfUniformE (x lo hi : Rat) : Except Err Rat := if lo ≥ hi then .error .diag else .ok (cdfUniform x lo hi)
def pdfGaussE (T : Fn) (x mu sigma : Rat) : Except Err Rat := if sigma ≤ 0 then .error .diag else .ok (pdfGauss T x mu sigma)
def cdfGaussE (T : Fn) (x mu sigma : Rat) : Except Err Rat := if sigma ≤ 0 then .error .diag else .ok (cdfGauss T x mu sigma)
def pdfGauss2DE (T : Fn) (x y m1 m2 s1 s2 : Rat) : Except Err Rat :=
  if s1 ≤ 0 ∨ s2 ≤ 0 then .error .diag else .ok (pdfGauss2D T x y m1 m2 s1 s2)

/-! ## 1.3 Binomial — `binom n k` is `Binomial_Coefficient` (C06: `C(n,k)`, 0 for `n < k`) -/

def pmfBinomial (binom : Nat → Nat → Rat) (trials : Nat) (p : Rat) (x : Nat) : Except Err Rat :=
  if p < 0 ∨ p > 1 then .error .diag
  else .ok (binom trials x * p ^ x * (1 - p) ^ (trials - x))

/-- `for(i = 0; i <= x; i++) cdf += PMF_Binomial(trials, p, i)` -/
def cdfBinomialSum (binom : Nat → Nat → Rat) (trials : Nat) (p : Rat) (x : Nat) : Rat :=
  (List.range (x + 1)).foldl (fun acc i => acc + binom trials i * p ^ i * (1 - p) ^ (trials - i)) 0

/-- after `fix:` 1f73a00: `if(x >= trials) return 1.0;` before the loop and `return std::min(1.0, cdf);` after it -/
def cdfBinomial (binom : Nat → Nat → Rat) (trials : Nat) (p : Rat) (x : Nat) : Except Err Rat :=
  if p < 0 ∨ p > 1 then .error .diag
  else if x ≥ trials then .ok 1
  else .ok (rmin 1 (cdfBinomialSum binom trials p x))

/-- `C(n,k)` as the driver computes it: `Π_{i<k} (n-i)/(i+1)` (0 for `k > n`: the factor `n-n`) -/
def chooseR (n k : Nat) : Rat :=
  (List.range k).foldl (fun acc i => acc * ((n - i : Nat) : Rat) / ((i + 1 : Nat) : Rat)) 1

/-! ## 1.4 Poisson -/

/-- `Σ_{i=lo}^{n} log i` as the loops of the code add it up -/
def sumLog (T : Fn) (lo n : Nat) : Rat :=
  (List.range (n + 1 - lo)).foldl (fun acc k => acc + T.log ((lo + k : Nat) : Rat)) 0

def pmfPoisson (T : Fn) (mu : Rat) (n : Nat) : Except Err Rat :=
  if mu < 0 then .error .diag
  else if mu = 0 ∧ n = 0 then .ok 1
  else if mu = 0 ∧ n > 0 then .ok 0
  else .ok (T.exp ((n : Rat) * T.log mu - mu - sumLog T 2 n))

def cdfPoisson (T : Fn) (mu : Rat) (n : Nat) : Except Err Rat :=
  if mu < 0 then .error .diag
  else
    let gq := T.gammaQ mu ((n : Rat) + 1)
    if gq ≥ 0 then .ok gq else .ok 0

def invCdfPoisson (T : Fn) (n : Nat) (cdf : Rat) : Except Err Rat :=
  if cdf < 0 ∨ cdf > 1 then .error .diag
  else if n = 0 then .ok (-1 * T.log cdf)
  else .ok (T.invGammaQ cdf ((n : Rat) + 1))

/-! ## 1.5 Chi-square, chi-bar-square -/

/-- the C++ literal `1e-6` is the double `0x1.0c6f7a0b5ed8dp-20` -/
def dofEps : Rat := (0x10c6f7a0b5ed8d : Rat) / (2 : Rat) ^ (72 : Nat)

def pdfChiSq (T : Fn) (x dof : Rat) : Rat :=
  if x ≤ 0 ∨ dof < dofEps then 0
  else T.exp ((dof / 2 - 1) * T.log x - x / 2 - dof / 2 * T.log 2 - T.gammaLn (dof / 2))

/-- the product form of the density used before `fix:` 15e17b7 (overflowed for dof ≳ 250) -/
def pdfChiSqProduct (T : Fn) (x dof : Rat) : Rat :=
  if x ≤ 0 ∨ dof < dofEps then 0
  else 1 / T.pow 2 (dof / 2) / T.gamma (dof / 2) * T.pow x (dof / 2 - 1) * T.exp (-x / 2)

/-- `Lower_Incomplete_Gamma(x,s) = Gamma(s) * GammaP(x,s)` -/
def lowerGamma (T : Fn) (x s : Rat) : Rat := T.gamma s * T.gammaP x s

/-- after `fix:` 15e17b7: `GammaP(x/2, dof/2)` directly -/
def cdfChiSq (T : Fn) (x dof : Rat) : Rat :=
  if x < 0 then 0
  else if rabs dof < dofEps then 1
  else T.gammaP (x / 2) (dof / 2)

/-- the pre-fix form `1/Gamma(dof/2) * Lower_Incomplete_Gamma(x/2, dof/2)` -/
def cdfChiSqProduct (T : Fn) (x dof : Rat) : Rat :=
  if x < 0 then 0
  else if rabs dof < dofEps then 1
  else 1 / T.gamma (dof / 2) * lowerGamma T (x / 2) (dof / 2)

/-- `fix:` d65f15f: a negative number of degrees of freedom is rejected -/
def pdfChiSqE (T : Fn) (x dof : Rat) : Except Err Rat := if dof < 0 then .error .diag else .ok (pdfChiSq T x dof)
def cdfChiSqE (T : Fn) (x dof : Rat) : Except Err Rat := if dof < 0 then .error .diag else .ok (cdfChiSq T x dof)

/-- `for(dof = 1; dof < weights.size(); dof++) pdf += weights[dof] * PDF_Chi_Square(x, dof)` -/
def pdfChiBar (T : Fn) (x : Rat) (w : List Rat) : Rat :=
  if x ≤ 0 then 0
  else (List.range (w.length - 1)).foldl (fun acc k => acc + w.getD (k + 1) 0 * pdfChiSq T x ((k + 1 : Nat) : Rat)) 0

def cdfChiBarSum (T : Fn) (x : Rat) (w : List Rat) : Rat :=
  (List.range w.length).foldl (fun acc k => acc + w.getD k 0 * cdfChiSq T x ((k : Nat) : Rat)) 0

def cdfChiBar (T : Fn) (x : Rat) (w : List Rat) : Rat :=
  if x < 0 then 0
  else
    let cdf := cdfChiBarSum T x w
    if cdf > 1 then 1 else cdf

/-! ## 1.6 Exponential, 1.7 Maxwell–Boltzmann -/

def pdfExponential (T : Fn) (x mean : Rat) : Except Err Rat :=
  if mean ≤ 0 then .error .diag
  else if x < 0 then .ok 0
  else .ok (1 / mean * T.exp (-1 / mean * x))

def cdfExponential (T : Fn) (x mean : Rat) : Except Err Rat :=
  if mean ≤ 0 then .error .diag
  else if x < 0 then .ok 0
  else .ok (1 - T.exp (-1 / mean * x))

def pdfMB (T : Fn) (x a : Rat) : Except Err Rat :=
  if a ≤ 0 then .error .diag
  else if x < 0 then .ok 0
  else .ok (T.sqrt (2 / T.pi) * x * x / a / a / a * T.exp (-x * x / 2 / a / a))

/-- the six-term series branch of `CDF_Maxwell_Boltzmann` for `t = x/a < 0.1`, as coded (Horner in `t2 = t*t`), `c = sqrt(2/π)` -/
def mbSeries (c t : Rat) : Rat :=
  let t2 := t * t
  c * t * t2 * (1 / 3 + t2 * (-1 / 10 + t2 * (1 / 56 + t2 * (-1 / 432 + t2 * (1 / 4224 + t2 * (-1 / 49920))))))

def cdfMB (T : Fn) (x a : Rat) : Except Err Rat :=
  if a ≤ 0 then .error .diag
  else if x < 0 then .ok 0
  else
    let t := x / a
    if t < 1 / 10 then .ok (mbSeries (T.sqrt (2 / T.pi)) t)       -- `fix:` a8d8068
    else .ok (T.erf (x / T.sqrt 2 / a) - T.sqrt (2 / T.pi) * x / a * T.exp (-x * x / 2 / a / a))

/-- the closed form alone (before `fix:` a8d8068; it cancels for small `x/a`) -/
def cdfMBClosed (T : Fn) (x a : Rat) : Except Err Rat :=
  if a ≤ 0 then .error .diag
  else if x < 0 then .ok 0
  else .ok (T.erf (x / T.sqrt 2 / a) - T.sqrt (2 / T.pi) * x / a * T.exp (-x * x / 2 / a / a))

/-! ## 2. Likelihoods -/

/-- after the guard: `if(N_observed == 0) return -(s+b);` (`fix:` 50e2a18), then the formula -/
def logLikelihoodPoisson (T : Fn) (s : Rat) (n : Nat) (b : Rat) : Rat :=
  if n = 0 then -(s + b)
  else (n : Rat) * T.log (s + b) - sumLog T 1 n - (s + b)

/-- `Log_Likelihood_Poisson` as coded: negative expectations are rejected first (`fix:` d65f15f) -/
def logLikelihoodPoissonE (T : Fn) (s : Rat) (n : Nat) (b : Rat) : Except Err Rat :=
  if s < 0 ∨ b < 0 then .error .diag else .ok (logLikelihoodPoisson T s n b)

def likelihoodPoissonE (T : Fn) (s : Rat) (n : Nat) (b : Rat) : Except Err Rat := (logLikelihoodPoissonE T s n b).map T.exp

def likelihoodPoisson (T : Fn) (s : Rat) (n : Nat) (b : Rat) : Rat := T.exp (logLikelihoodPoisson T s n b)

/-- the bins as a list of triples after the size check and the default background -/
def bins (s : List Rat) (n : List Nat) (b : List Rat) : Except Err (List (Rat × Nat × Rat)) :=
  let b := if b.isEmpty then List.replicate s.length 0 else b
  if n.length ≠ s.length ∨ b.length ≠ s.length then .error .diag
  else .ok (s.zip (n.zip b))

/-- the per-bin calls of `Log_Likelihood_Poisson` end the process at the first bin with a negative expectation -/
def logLikelihoodBinned (T : Fn) (s : List Rat) (n : List Nat) (b : List Rat) : Except Err Rat :=
  match bins s n b with
  | .error e => .error e
  | .ok l =>
    if l.any (fun t => decide (t.1 < 0 ∨ t.2.2 < 0)) then .error .diag
    else .ok (l.foldl (fun acc t => acc + logLikelihoodPoisson T t.1 t.2.1 t.2.2) 0)

def likelihoodBinned (T : Fn) (s : List Rat) (n : List Nat) (b : List Rat) : Except Err Rat :=
  (logLikelihoodBinned T s n b).map T.exp

/-! ## 6. Kernel density estimate: the tabulated value before renormalisation -/

def gaussKernel (T : Fn) (x : Rat) : Rat := pdfGauss T x 0 1

/-- number of pseudo-data points: `unsigned N_PseudoData = N_Data / 3.0` -/
def nPseudo (N : Nat) : Nat := N / 3

/-- `kde` at abscissa `x` for the *sorted* data `(value, weight)`; `wsum` the weight sum -/
def kdeAt (T : Fn) (d : List (Rat × Rat)) (xMin bw wsum x : Rat) : Rat :=
  let v (i : Nat) := (d.getD i (0, 0)).1
  let w (i : Nat) := (d.getD i (0, 0)).2
  ((List.range d.length).foldl (fun acc i =>
    let acc := acc + w i * gaussKernel T ((x - v i) / bw)
    if i < nPseudo d.length then
      let xP := 4 * xMin - 6 * v i + 4 * v (2 * i) - v (3 * i)
      let wP := (w i + w (2 * i) + w (3 * i)) / 3
      acc + wP * gaussKernel T ((x - xP) / bw)
    else acc) 0) / (bw * wsum)

/-- `norm = result.Integrate(xMin, xMax); result.Multiply(1.0 / norm);` (`fix:` f8bedae): the tabulated estimate is scaled by the
    reciprocal of the exact integral of its own interpolation (C08) -/
def kdeNormalise (o : Interp.Obj) (norm : Rat) : Interp.Obj := o.multiply (1 / norm)

/-! ## Mirrors of the repairs proposed by the second audit (fixprop-C07-4 … C07-7): the forms the code takes once they are applied -/

/-- mixture weights must lie in [0,1] (fixprop-C07-6) -/
def chiBarWeightsOk (w : List Rat) : Bool := w.all (fun v => decide (0 ≤ v ∧ v ≤ 1))
def pdfChiBarE (T : Fn) (x : Rat) (w : List Rat) : Except Err Rat := if chiBarWeightsOk w then .ok (pdfChiBar T x w) else .error .diag
def cdfChiBarE (T : Fn) (x : Rat) (w : List Rat) : Except Err Rat := if chiBarWeightsOk w then .ok (cdfChiBar T x w) else .error .diag

/-- Maxwell–Boltzmann in `t = x/a` (fixprop-C07-7) -/
def pdfMBt (T : Fn) (x a : Rat) : Except Err Rat :=
  if a ≤ 0 then .error .diag
  else if x < 0 then .ok 0
  else
    let t := x / a
    .ok (T.sqrt (2 / T.pi) * t * t / a * T.exp (-t * t / 2))

def cdfMBt (T : Fn) (x a : Rat) : Except Err Rat :=
  if a ≤ 0 then .error .diag
  else if x < 0 then .ok 0
  else
    let t := x / a
    if t < 1 / 10 then .ok (mbSeries (T.sqrt (2 / T.pi)) t)
    else .ok (T.erf (t / T.sqrt 2) - T.sqrt (2 / T.pi) * t * T.exp (-t * t / 2))

/-- the automatic bandwidth with its fallback (fixes 405b930, C07-8): a rule-of-thumb bandwidth that the 150-point table cannot resolve
    (not above 1/64 of its spacing `(xMax - xMin)/149`) is replaced by one spacing -/
def kdeAutoBandwidth (ruleOfThumb xMin xMax : Rat) : Rat :=
  let spacing := (xMax - xMin) / 149
  if ¬ (ruleOfThumb > spacing / 64) then spacing else ruleOfThumb

end Lp.C07
