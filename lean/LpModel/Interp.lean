/-
  Shared executable model of `libphysica::Interpolation` / `Interpolation_2D`
  (src/Numerics.cpp §1), used by C01 (shape of the interpolant), C08 (integrals, extrema,
  prefactor) and C09 (index search and call history).  Exact rationals, core-only.

  The table is given by index functions `x y : Nat → Rat` and its length `N`; the driver
  instantiates them from arrays (`fun i => xs.getD i 0`).  Every definition mirrors one
  stage of the C++ (after the `fix:` commits recorded in known_findings.json).
-/
import LpModel.Basic
import LpModel.C01.Constants
namespace Lp.Interp

/-- `Sign(double)` of Special_Functions.cpp -/
def sign1 (x : Rat) : Int := if x > 0 then 1 else if x = 0 then 0 else -1

/-! ## Steffen coefficients (Compute_Steffen_Coefficients) -/

section Steffen
variable (N : Nat) (x y : Nat → Rat)

def h (i : Nat) : Rat := x (i + 1) - x i
def s (i : Nat) : Rat := (y (i + 1) - y i) / h x i

/-- interior slope estimate `p[i]` -/
def pInterior (hm h sm s : Rat) : Rat := (sm * h + s * hm) / (hm + h)

/-- interior limited slope `dy[i]` -/
def dyInterior (hm h sm s : Rat) : Rat :=
  ((sign1 sm + sign1 s : Int) : Rat) * rmin (C01.K.limIntP * rabs (pInterior hm h sm s) / C01.K.limIntPDiv) (rmin (C01.K.limIntS * rabs s) (C01.K.limIntSm * rabs sm))

/-- boundary slope estimate: `(h0,h1,s0,s1) = (h[0],h[1],s[0],s[1])` at the first point and
    `(h[N-2],h[N-3],s[N-2],s[N-3])` at the last one -/
def pEdge (h0 h1 s0 s1 : Rat) : Rat := s0 * (C01.K.pEdgeOne + h0 / (h0 + h1)) - s1 * h0 / (h0 + h1)

def dyEdge (h0 h1 s0 s1 : Rat) : Rat :=
  ((sign1 (pEdge h0 h1 s0 s1) + sign1 s0 : Int) : Rat) * rmin (C01.K.limEdgeS * rabs s0) (C01.K.limEdgeP * rabs (pEdge h0 h1 s0 s1))

/-- `dy[i]` with the three cases of the C++ loop -/
def dy (i : Nat) : Rat :=
  if i = 0 then dyEdge (h x 0) (h x 1) (s x y 0) (s x y 1)
  else if i = N - 1 then dyEdge (h x (N - 2)) (h x (N - 3)) (s x y (N - 2)) (s x y (N - 3))
  else dyInterior (h x (i - 1)) (h x i) (s x y (i - 1)) (s x y i)

def segA (h s dl dr : Rat) : Rat := (dl + dr - C01.K.aTwo * s) / (h * h)      -- `/ pow(h,2)`
def segB (h s dl dr : Rat) : Rat := (C01.K.bThree * s - C01.K.bTwo * dl - dr) / h

def coefA (i : Nat) : Rat := segA (h x i) (s x y i) (dy N x y i) (dy N x y (i + 1))
def coefB (i : Nat) : Rat := segB (h x i) (s x y i) (dy N x y i) (dy N x y (i + 1))
def coefC (i : Nat) : Rat := dy N x y i
def coefD (i : Nat) : Rat := y i

end Steffen

/-- cubic on one segment at offset `t = x - x_j` -/
def segEval (a b c d t : Rat) : Rat := a * t ^ 3 + b * t ^ 2 + c * t + d
def segD1 (a b c t : Rat) : Rat := 3 * a * t ^ 2 + 2 * b * t + c
def segD2 (a b t : Rat) : Rat := 6 * a * t + 2 * b
def segD3 (a : Rat) : Rat := 6 * a
/-- the piece-wise antiderivative used by `Integrate` (`x_j` is the left knot, `X` the abscissa);
    since fix d3bfb03 the linear term is taken relative to the left knot like the others -/
def segStem (a b c d xj X : Rat) : Rat :=
  a / 4 * (X - xj) ^ 4 + b / 3 * (X - xj) ^ 3 + c / 2 * (X - xj) ^ 2 + d * (X - xj)

/-- the exact integral of the cubic over a range of width `w` that starts `t` to the right of the left knot, as `Integrate`
    forms it since fix 441bef8: cubic and derivatives at the left limit (Horner), `w·(p0 + w·(p1/2 + w·(p2/3 + w·a/4)))` -/
def segInteg (a b c d t w : Rat) : Rat :=
  w * ((((a * t + b) * t + c) * t + d) + w * (((3 * a * t + 2 * b) * t + c) / 2 + w * ((3 * a * t + b) / 3 + w * a / 4)))

/-! ## Index search (Bisection, Hunt, Locate) -/

structure LState where
  jLast : Nat
  corr : Bool
  deriving Repr, DecidableEq

def bisectionF (x : Nat → Rat) (v : Rat) : Nat → Nat → Nat → Nat
  | 0, jl, _ => jl
  | f + 1, jl, jr =>
    if jr - jl > 1 then
      let jm := (jr + jl) / 2
      if v ≥ x jm then bisectionF x v f jm jr else bisectionF x v f jl jm
    else jl

/-- `Bisection(x, jLeft, jRight)`; the fuel `jr - jl` always suffices -/
def bisection (x : Nat → Rat) (v : Rat) (jl jr : Nat) : Nat := bisectionF x v (jr - jl) jl jr

/-- hunting upwards: returns the bracket `(jd, ju)` -/
def huntUp (N : Nat) (x : Nat → Rat) (v : Rat) : Nat → Nat → Nat → Nat → Nat × Nat
  | 0, jd, ju, _ => (jd, ju)
  | f + 1, jd, ju, dj =>
    if v > x ju then
      let jd' := ju
      let ju' := ju + dj
      if ju' > N - 1 then (jd', N - 1) else huntUp N x v f jd' ju' (dj + dj)
    else (jd, ju)

/-- hunting downwards (the C++ `jd` is an `int` and is clamped at 0) -/
def huntDown (x : Nat → Rat) (v : Rat) : Nat → Int → Nat → Nat → Nat × Nat
  | 0, jd, ju, _ => (jd.toNat, ju)
  | f + 1, jd, ju, dj =>
    if v < x jd.toNat then
      let ju' := jd.toNat
      let jd' := jd - dj
      if jd' < 0 then (0, ju') else huntDown x v f jd' ju' (dj + dj)
    else (jd.toNat, ju)

/-- `Hunt(x)` -/
def hunt (N : Nat) (x : Nat → Rat) (v : Rat) (jLast : Nat) : Nat :=
  if v > x jLast then
    let (jd, ju) := huntUp N x v N jLast (jLast + 1) 1
    if ju - jd > 1 then bisection x v jd ju else jd
  else if v < x jLast then
    let (jd, ju) := huntDown x v N ((jLast : Int) - 1) jLast 1
    if ju - jd > 1 then bisection x v jd ju else jd
  else jLast

inductive Err where
  | diag : Err
  deriving DecidableEq, Repr

/-- `Locate(x)`: the index and the new search state; `error` = diagnostic + exit.
    `1e-2` of the C++ is modelled as exactly 1/100. -/
def locate (N : Nat) (x : Nat → Rat) (st : LState) (v : Rat) : Except Err (Nat × LState) :=
  let d0 := x 0
  let d1 := x (N - 1)
  let jr : Except Err Nat :=
    if v < d0 ∨ v > d1 then
      let tl := C01.K.edgeTolL * (x 1 - x 0)
      let tr := C01.K.edgeTolR * (x (N - 1) - x (N - 2))
      -- `<=` since fix a411065: exactly one percent outside is still accepted
      if rabs (v - d0) ≤ tl then .ok 0
      else if rabs (v - d1) ≤ tr then .ok (N - 2)
      else .error .diag
    else
      let j := if st.corr then hunt N x v st.jLast else bisection x v 0 (N - 1)
      -- a tabulated abscissa is always the left end of its interval (fix c70b127)
      .ok (if j < N - 2 ∧ v = x (j + 1) then j + 1 else j)
  match jr with
  | .error e => .error e
  | .ok j =>
    -- `fabs(j - jLast) < 10` on unsigned operands: wraps to a huge value when j < jLast
    .ok (j, { jLast := j, corr := decide (j ≥ st.jLast ∧ j - st.jLast < 10) })

/-- the canonical, history-free index: what a fresh object's bisection returns -/
def locateCanon (N : Nat) (x : Nat → Rat) (v : Rat) : Except Err Nat :=
  match locate N x { jLast := 0, corr := false } v with
  | .ok (j, _) => .ok j
  | .error e => .error e

/-! ## The object and its queries -/

structure Obj where
  N : Nat
  xs : Array Rat
  ys : Array Rat
  pref : Rat
  st : LState

def Obj.x (o : Obj) : Nat → Rat := fun i => o.xs.getD i 0
def Obj.y (o : Obj) : Nat → Rat := fun i => o.ys.getD i 0

def strictlyIncreasing (xs : List Rat) : Bool :=
  match xs with
  | [] => true
  | [_] => true
  | a :: b :: r => decide (a < b) && strictlyIncreasing (b :: r)

/-- constructor `Interpolation(arg_values, func_values, x_dim, f_dim)` -/
def mk (xs ys : List Rat) (xdim fdim : Rat) : Except Err Obj :=
  if xs.length ≠ ys.length then .error .diag
  else if xs.length < 3 then .error .diag
  else if !strictlyIncreasing xs then .error .diag
  else
    let xs' := if xdim > 0 then xs.map (· * xdim) else xs
    let ys' := if fdim > 0 then ys.map (· * fdim) else ys
    .ok { N := xs.length, xs := xs'.toArray, ys := ys'.toArray, pref := 1, st := { jLast := 0, corr := false } }

def Obj.locate (o : Obj) (v : Rat) : Except Err (Nat × Obj) :=
  match Interp.locate o.N o.x o.st v with
  | .ok (j, st') => .ok (j, { o with st := st' })
  | .error e => .error e

def Obj.cubicAt (o : Obj) (j : Nat) (v : Rat) : Rat :=
  o.pref * segEval (coefA o.N o.x o.y j) (coefB o.N o.x o.y j) (coefC o.N o.x o.y j) (coefD o.y j) (v - o.x j)

/-- what `Interpolate(x)` returns once `Locate` has chosen interval `j` (fix 5863798): at the last abscissa
    `x == x_values[N-1]` the tabulated value itself, `prefactor * function_values[N-1]`; otherwise the cubic of
    interval `j`.  (Over the rationals both branches agree on a strictly increasing table:
    `Lp.C01.valueAt_eq_cubicAt`.) -/
def Obj.valueAt (o : Obj) (j : Nat) (v : Rat) : Rat :=
  if v = o.x (o.N - 1) then o.pref * o.y (o.N - 1) else o.cubicAt j v

/-- `Interpolate(x)` -/
def Obj.interpolate (o : Obj) (v : Rat) : Except Err (Rat × Obj) := do
  let (j, o') ← o.locate v
  pure (o.valueAt j v, o')

/-- `Derivative(x, k)` -/
def Obj.derivative (o : Obj) (v : Rat) (k : Nat) : Except Err (Rat × Obj) := do
  let (j, o') ← o.locate v
  let a := coefA o.N o.x o.y j
  let b := coefB o.N o.x o.y j
  let c := coefC o.N o.x o.y j
  let t := v - o.x j
  match k with
  | 0 => o'.interpolate v
  | 1 => pure (o.pref * segD1 a b c t, o')
  | 2 => pure (o.pref * segD2 a b t, o')
  | 3 => pure (o.pref * segD3 a, o')
  | _ => pure (0, o')

/-- `Integrate(x_1, x_2)`: every piece integrated from its left limit, `sign * prefactor * sum` (fix 441bef8) -/
def Obj.integrate (o : Obj) (v1 v2 : Rat) : Except Err (Rat × Obj) := do
  let (lo, hi, sgn) := if v1 > v2 then (v2, v1, (-1 : Rat)) else (v1, v2, (1 : Rat))
  let (i1, o1) ← o.locate lo
  let (i2, o2) ← o1.locate hi
  let n := i2 - i1
  let total := (List.range (n + 1)).foldl (fun acc i =>
    let j := i1 + i
    let xj := o.x j
    let xl := if i = 0 then lo else xj
    let xr := if i = n then hi else o.x (j + 1)
    let a := coefA o.N o.x o.y j
    let b := coefB o.N o.x o.y j
    let c := coefC o.N o.x o.y j
    let d := coefD o.y j
    acc + segInteg a b c d (xl - xj) (xr - xl)) (0 : Rat)
  -- the prefactor is applied once to the sum (fix 441bef8)
  pure (sgn * o.pref * total, o2)

def listMin (l : List Rat) (d : Rat) : Rat := l.foldl rmin (l.headD d)
def listMax (l : List Rat) (d : Rat) : Rat := l.foldl rmax (l.headD d)

/-- knots `first … last` inclusive (empty when `first > last`) -/
def Obj.knotValues (o : Obj) (first last : Nat) : List Rat :=
  (List.range (last + 1 - first)).map (fun k => o.y (first + k))

/-- the square root of libm used by `Stationary_Values`: a parameter of the model (never an axiom);
    theorems state what they need of it at the discriminant actually passed -/
class SqrtFn where
  sq : Rat → Rat

/-- the roots of `A t² + B t + C` as `Stationary_Values` forms them (fix 51ca844): `-C/B` for `A = 0`,
    otherwise with `q = -(B + sign(B)·√disc)/2` the pair `q/A`, `C/q` (the second only for `q ≠ 0`) -/
def statRoots [SqrtFn] (A B C : Rat) : List Rat :=
  if A = 0 then (if B ≠ 0 then [-C / B] else [])
  else
    let disc := B * B - 4 * A * C
    if disc ≥ 0 then
      let q := -(1 / 2 : Rat) * (B + (if B ≥ 0 then 1 else -1) * SqrtFn.sq disc)
      (q / A) :: (if q ≠ 0 then [C / q] else [])
    else []

/-- `Stationary_Values(j, x_low, x_high)`: the curve at the stationary points of piece `j` strictly inside `(x_low, x_high)` -/
def Obj.stationaryValues [SqrtFn] (o : Obj) (j : Nat) (lo hi : Rat) : List Rat :=
  ((statRoots (3 * coefA o.N o.x o.y j) (2 * coefB o.N o.x o.y j) (coefC o.N o.x o.y j)).filter
      (fun t => decide (o.x j + t > lo ∧ o.x j + t < hi))).map
    (fun t => o.pref * segEval (coefA o.N o.x o.y j) (coefB o.N o.x o.y j) (coefC o.N o.x o.y j) (coefD o.y j) t)

/-- the value `Local_Minimum` / `Local_Maximum` forms from the two end values `fl`, `fr` and the indices of the limits:
    the candidate knots are `i1+1 … i2`, plus knot `i1 = 0` when `x_1` lies below the domain and knot `i2+1 = N-1`
    when `x_2` lies above it, provided the knot lies between the limits (fixes ede24b1, fb75aa9); for a limit in the
    extrapolation zone also the stationary values of the continued edge cubic between the limit and the end knot (51ca844) -/
def Obj.extValue [SqrtFn] (o : Obj) (isMax : Bool) (v1 v2 fl fr : Rat) (i1 i2 : Nat) : Rat :=
  let pick := if isMax then rmax else rmin
  let first := if v1 < o.x 0 ∧ v2 ≥ o.x 0 then i1 else i1 + 1
  let last := if v2 > o.x (o.N - 1) ∧ v1 ≤ o.x (o.N - 1) then i2 + 1 else i2
  let r0 := pick fl fr
  let r1 :=
    if first ≤ last then
      let ks := o.knotValues first last
      pick (pick r0 (o.pref * listMin ks 0)) (o.pref * listMax ks 0)
    else r0
  let r2 := if v1 < o.x 0 then (o.stationaryValues 0 v1 (rmin v2 (o.x 0))).foldl pick r1 else r1
  if v2 > o.x (o.N - 1) then (o.stationaryValues (o.N - 2) (rmax v1 (o.x (o.N - 1))) v2).foldl pick r2 else r2

/-- `Local_Minimum(x_1,x_2)` (`isMax = false`) / `Local_Maximum` (`isMax = true`) -/
def Obj.localExt [SqrtFn] (o : Obj) (isMax : Bool) (v1 v2 : Rat) : Except Err (Rat × Obj) := do
  if v2 < v1 then throw .diag
  let (fl, oa) ← o.interpolate v1
  let (fr, ob) ← oa.interpolate v2
  let (i1, oc) ← ob.locate v1
  let (i2, od) ← oc.locate v2
  pure (o.extValue isMax v1 v2 fl fr i1 i2, od)

def Obj.globalExt (o : Obj) (isMax : Bool) : Rat :=
  let mn := o.pref * listMin o.ys.toList 0
  let mx := o.pref * listMax o.ys.toList 0
  if isMax then rmax mn mx else rmin mn mx

def Obj.setPrefactor (o : Obj) (p : Rat) : Obj := { o with pref := p }
def Obj.multiply (o : Obj) (p : Rat) : Obj := { o with pref := o.pref * p }

/-! ## Two-dimensional (bilinear) -/

structure Obj2 where
  ox : Obj       -- dummy 1-D objects used for index location
  oy : Obj
  f : Array (Array Rat)
  pref : Rat

def Obj2.F (o : Obj2) (i j : Nat) : Rat := (o.f.getD i #[]).getD j 0

def mk2 (xs ys : List Rat) (f : List (List Rat)) (xdim ydim fdim : Rat) : Except Err Obj2 :=
  if f.length ≠ xs.length ∨ !(f.all (fun r => r.length = ys.length)) then .error .diag
  else
    let xs' := if xdim > 0 then xs.map (· * xdim) else xs
    let ys' := if ydim > 0 then ys.map (· * ydim) else ys
    let f' := if fdim > 0 then f.map (fun r => r.map (· * fdim)) else f
    match mk xs' (xs'.map fun _ => 0) (-1) (-1), mk ys' (ys'.map fun _ => 0) (-1) (-1) with
    | .ok ox, .ok oy => .ok { ox := ox, oy := oy, f := (f'.map List.toArray).toArray, pref := 1 }
    | _, _ => .error .diag

def bilinear (t u f0 f1 f2 f3 : Rat) : Rat :=
  (1 - t) * (1 - u) * f0 + t * (1 - u) * f1 + t * u * f2 + (1 - t) * u * f3

def Obj2.interpolate (o : Obj2) (vx vy : Rat) : Except Err (Rat × Obj2) := do
  let (i, ox') ← o.ox.locate vx
  let (j, oy') ← o.oy.locate vy
  let t := (vx - o.ox.x i) / (o.ox.x (i + 1) - o.ox.x i)
  let u := (vy - o.oy.x j) / (o.oy.x (j + 1) - o.oy.x j)
  pure (o.pref * bilinear t u (o.F i j) (o.F (i + 1) j) (o.F (i + 1) (j + 1)) (o.F i (j + 1)),
        { o with ox := ox', oy := oy' })

def Obj2.globalExt (o : Obj2) (isMax : Bool) : Rat :=
  let all := (o.f.toList.map Array.toList).flatten
  let mn := o.pref * listMin all 0
  let mx := o.pref * listMax all 0
  if isMax then rmax mn mx else rmin mn mx

end Lp.Interp
