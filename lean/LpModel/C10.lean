/-
  C10 — meaningless requests stop the program with a diagnostic; valid ones never do.

  A table of the guarded entry points of libphysica.  For each entry point:
    * `…Meaningful`  the set of meaningful requests, written independently of the code in the
                      simplest mathematical form (a `Prop`);
    * `…Guard`        the `if(cond){ std::cerr << …; std::exit(EXIT_FAILURE); }` tests the C++
                      performs NOW (after the fix commits 9df8ec7, 090357b, 2a3ba6f, 7658ded, 8302e13, 710b478, d39b5c1),
                      in the order in which it performs them: `stop` = diagnostic + exit,
                      `pass` = the call goes on and returns;
    * `…Reads`        (index-carrying entry points) every element access the C++ performs once
                      the guard has passed, as *checked* accesses `xs[i]?`: a `none` in the list
                      is an out-of-range index (undefined behaviour in the C++).
  Only sizes, indices and the few numbers the guards look at are modelled — the numerical
  computation behind the guard belongs to the other properties (C01–C09, C12–C20).
  `unsigned int` operands are `Nat` (so `i < 0` is vacuous), `int` operands are `Int`,
  `double` operands are exact rationals; a NaN is `none : Option Rat` where a guard tests for it.
  Core-only (no Mathlib): the driver links.
-/
import LpModel.Basic
import LpModel.Interp
namespace Lp.C10

inductive Err where
  | diag : Err          -- the C++ prints a diagnostic and calls std::exit(EXIT_FAILURE)
  deriving DecidableEq, Repr

/-- outcome of the guard section of an entry point -/
abbrev G := Except Err Unit
def stop : G := .error .diag
def pass : G := .ok ()

def G.stops : G → Bool
  | .error _ => true
  | .ok _ => false

/-- every checked access of a trace succeeded -/
def NoOOB {α} (l : List (Option α)) : Prop := ∀ o ∈ l, o.isSome = true
def noOOB {α} (l : List (Option α)) : Bool := l.all Option.isSome

/-! ## 1. Vector (src/Linear_Algebra.cpp §1) -/

/-- `Vector::operator[](i)`, const and non-const: `if(i < 0 || i >= dimension)` -/
abbrev vecIndexMeaningful (dim i : Nat) : Prop := i < dim
def vecIndexGuard (dim i : Nat) : G := if i ≥ dim then stop else pass
def vecIndexReads (xs : List Rat) (i : Nat) : List (Option Rat) := [xs[i]?]

/-- `Dot`, `operator+`, `operator-`, `operator+=`, `operator-=`, `operator*(Vector)`:
    `if(dimension != rhs.dimension)` -/
abbrev vecPairMeaningful (n m : Nat) : Prop := n = m
def vecPairGuard (n m : Nat) : G := if n ≠ m then stop else pass
/-- `for(i < dimension) … components[i] … v[i]` -/
def vecPairReads (xs ys : List Rat) : List (Option Rat) :=
  (List.range xs.length).flatMap (fun i => [xs[i]?, ys[i]?])

/-- `Cross`: `if(dimension != 3 || rhs.Size() != 3)` -/
abbrev crossMeaningful (n m : Nat) : Prop := n = 3 ∧ m = 3
def crossGuard (n m : Nat) : G := if n ≠ 3 ∨ m ≠ 3 then stop else pass
def crossReads (xs ys : List Rat) : List (Option Rat) :=
  [xs[1]?, ys[2]?, xs[2]?, ys[1]?, xs[2]?, ys[0]?, xs[0]?, ys[2]?, xs[0]?, ys[1]?, xs[1]?, ys[0]?]

/-! ## 2. Matrix (src/Linear_Algebra.cpp §3) -/

/-- the C++ object: `rows`, `columns` and `components`; the class invariant is `Mat.wf` -/
structure Mat where
  rows : Nat
  cols : Nat
  c : List (List Rat)

def Mat.wf (m : Mat) : Prop := m.c.length = m.rows ∧ ∀ r ∈ m.c, r.length = m.cols

/-- `components[i][j]`, checked -/
def Mat.get (m : Mat) (i j : Nat) : Option Rat := (m.c[i]?).bind (fun r => r[j]?)
/-- `components[i]` (a whole row), checked; the value is irrelevant -/
def Mat.row (m : Mat) (i : Nat) : Option Rat := (m.c[i]?).map (fun _ => 0)

def Mat.const (r c : Nat) (v : Rat) : Mat := ⟨r, c, List.replicate r (List.replicate c v)⟩

/-- `Matrix::operator[](i)`, const and non-const: `if(i < 0 || i >= rows)` — also when `rows = 0` -/
abbrev matIndexMeaningful (rows i : Nat) : Prop := i < rows
def matIndexGuard (rows i : Nat) : G := if i ≥ rows then stop else pass
def matIndexReads (m : Mat) (i : Nat) : List (Option Rat) := [m.row i]

/-- `Matrix(std::vector<std::vector<double>> entries)`: `columns = entries.empty() ? 0 : entries[0].size()`,
    then `for(i < rows) if(entries[i].size() != columns)`; the request is the list of row lengths -/
abbrev matEntriesMeaningful (lens : List Nat) : Prop := ∀ a ∈ lens, ∀ b ∈ lens, a = b
def matEntriesGuard (lens : List Nat) : G :=
  let columns := match lens with
    | [] => 0
    | l0 :: _ => l0
  if lens.all (fun l => l = columns) then pass else stop

/-- block constructor `Matrix(std::vector<std::vector<Matrix>>)` on an `R × C` grid of blocks
    (`R ≥ 1`, every block row has `C` blocks) with `rws r c` rows and `cls r c` columns in block
    `(r,c)`.  As coded: `row != 0 && Columns(row,col) != Columns(row-1,col)` or
    `col != 0 && Rows(row,col) != Rows(row,col-1)` makes the request invalid. -/
abbrev blockMeaningful (R C : Nat) (rws cls : Nat → Nat → Nat) : Prop :=
  ∀ r, r < R → ∀ c, c < C → rws r c = rws r 0 ∧ cls r c = cls 0 c
def blockValid (R C : Nat) (rws cls : Nat → Nat → Nat) : Bool :=
  (List.range R).all fun r => (List.range C).all fun c =>
    (decide (r = 0) || decide (cls r c = cls (r - 1) c)) && (decide (c = 0) || decide (rws r c = rws r (c - 1)))
def blockGuard (R C : Nat) (rws cls : Nat → Nat → Nat) : G :=
  if blockValid R C rws cls then pass else stop

/-- layout of the list of blocks (fix proposed for audit defect 19): at least one row of blocks and every row of blocks
    holds the same non-zero number of blocks; `lens` = number of blocks per row -/
abbrev blockLayoutMeaningful (lens : List Nat) : Prop := ∃ c, 0 < c ∧ lens ≠ [] ∧ ∀ l ∈ lens, l = c
def blockLayoutGuard (lens : List Nat) : G :=
  match lens with
  | [] => stop
  | l0 :: rest => if l0 = 0 then stop else if rest.all (fun l => l = l0) then pass else stop

/-- `Delete_Row(row)`, `Return_Row(row)`: `if(row < 0 || row >= rows)` -/
abbrev matRowMeaningful (rows i : Nat) : Prop := i < rows
def matRowGuard (rows i : Nat) : G := if i ≥ rows then stop else pass
def matRowReads (m : Mat) (i : Nat) : List (Option Rat) := [m.row i]

/-- `Delete_Column(column)`, `Return_Column(column)`: `if(column < 0 || column >= columns)` -/
abbrev matColMeaningful (cols j : Nat) : Prop := j < cols
def matColGuard (cols j : Nat) : G := if j ≥ cols then stop else pass
/-- `for(i < rows) components[i].erase(begin + column)` / the entries of the returned column -/
def matColReads (m : Mat) (j : Nat) : List (Option Rat) := (List.range m.rows).map (fun i => m.get i j)

/-- `Plus`, `Minus`, `operator+=`, `operator-=` (and `operator+`, `operator-`):
    `if(rows != M.Rows() || columns != M.Columns())`  (fix 9df8ec7) -/
abbrev matSumMeaningful (r1 c1 r2 c2 : Nat) : Prop := r1 = r2 ∧ c1 = c2
def matSumGuard (r1 c1 r2 c2 : Nat) : G := if r1 ≠ r2 ∨ c1 ≠ c2 then stop else pass
def matSumReads (a b : Mat) : List (Option Rat) :=
  (List.range a.rows).flatMap fun i => (List.range a.cols).flatMap fun j => [a.get i j, b.get i j]

/-- `Product(const Matrix&)`: `if(columns != M.Rows())` -/
abbrev matProdMeaningful (_r1 c1 r2 _c2 : Nat) : Prop := c1 = r2
def matProdGuard (_r1 c1 r2 _c2 : Nat) : G := if c1 ≠ r2 then stop else pass
def matProdReads (a b : Mat) : List (Option Rat) :=
  (List.range a.rows).flatMap fun i => (List.range b.cols).flatMap fun j =>
    (List.range a.cols).flatMap fun k => [a.get i k, b.get k j]

/-- `Product(const Vector&)`: `if(v_rhs.Size() != columns)` -/
abbrev matVecMeaningful (_rows cols n : Nat) : Prop := n = cols
def matVecGuard (_rows cols n : Nat) : G := if n ≠ cols then stop else pass
def matVecReads (a : Mat) (v : List Rat) : List (Option Rat) :=
  (List.range a.rows).flatMap fun i => (List.range a.cols).flatMap fun j => [a.get i j, v[j]?]

/-- `operator*(const Vector& v_left, const Matrix& M)`: `if(v_left.Size() != M.Rows())` -/
abbrev vecMatMeaningful (n rows _cols : Nat) : Prop := n = rows
def vecMatGuard (n rows _cols : Nat) : G := if n ≠ rows then stop else pass
def vecMatReads (v : List Rat) (a : Mat) : List (Option Rat) :=
  (List.range a.cols).flatMap fun i => (List.range a.rows).flatMap fun j => [v[j]?, a.get j i]

/-- `Trace`, `Determinant`: `if(rows != columns)` / `if(!Square())` -/
abbrev squareMeaningful (rows cols : Nat) : Prop := rows = cols
def squareGuard (rows cols : Nat) : G := if rows ≠ cols then stop else pass
def traceReads (a : Mat) : List (Option Rat) := (List.range a.rows).map (fun i => a.get i i)
/-- top level of `Determinant` (the minors are matrices of their own, guarded again) -/
def detReads (a : Mat) : List (Option Rat) :=
  if a.rows = 1 then [a.get 0 0]
  else if a.rows = 2 then [a.get 0 0, a.get 1 1, a.get 0 1, a.get 1 0]
  else (List.range a.cols).map (fun j => a.get 0 j)

/-- `Inverse`: `if(!Square())`, `else if(!Invertible())` i.e. `Determinant() == 0`; `det` is the
    value `Determinant()` returns (exact arithmetic: the third exit, a zero pivot, is then
    unreachable — property C05) -/
abbrev inverseMeaningful (rows cols : Nat) (det : Rat) : Prop := rows = cols ∧ det ≠ 0
def inverseGuard (rows cols : Nat) (det : Rat) : G :=
  if rows ≠ cols then stop else if det = 0 then stop else pass

/-- `Determinant()` as coded (Laplace expansion along the first row; 1×1 and 2×2 closed forms;
    a 0×0 matrix gives 0 because the sum is empty), used by the driver for `Inverse` -/
def detF : Nat → List (List Rat) → Rat
  | 0, _ => 0
  | f + 1, c =>
    let e (i j : Nat) : Rat := (c.getD i []).getD j 0
    if c.length = 1 then e 0 0
    else if c.length = 2 then e 0 0 * e 1 1 - e 0 1 * e 1 0
    else
      (List.range c.length).foldl (fun acc j =>
        acc + (if j % 2 = 0 then (1 : Rat) else -1) * e 0 j * detF f ((c.drop 1).map (fun r => r.eraseIdx j))) 0
def detAsCoded (c : List (List Rat)) : Rat := detF (c.length + 1) c

/-- `Rotation_Matrix(alpha, dim, axis)`: `dim == 2` returns; `dim == 3` requires
    `axis.Size() == 3`; every other `dim` stops -/
abbrev rotationMeaningful (dim : Int) (axisN : Nat) : Prop := dim = 2 ∨ (dim = 3 ∧ axisN = 3)
def rotationGuard (dim : Int) (axisN : Nat) : G :=
  if dim = 2 then pass else if dim = 3 then (if axisN ≠ 3 then stop else pass) else stop
def rotationReads (dim : Int) (axis : List Rat) : List (Option Rat) :=
  if dim = 3 then [axis[0]?, axis[1]?, axis[2]?] else []

/-! ### Objects with state: a history of mutators and guarded requests on ONE Vector / Matrix.
    The model tracks just the shape; every guard is the guard above evaluated on the CURRENT shape. -/

inductive MatOp where
  | resize (r c : Nat)     -- `Resize(r,c)`
  | assign (r c : Nat)     -- `Assign(r,c,entry)`
  | set (r c : Nat)        -- `operator=` from a fresh `r × c` matrix
  | delRow (i : Nat)       -- `Delete_Row(i)`
  | delCol (j : Nat)       -- `Delete_Column(j)`
  | at (i : Nat)           -- `M[i][j]` with a meaningful inner index `j < columns` (the inner index is a plain std::vector index)
  | sum (r c : Nat)        -- `Plus / Minus / += / -=` with an `r × c` operand
  | prod (r c : Nat)       -- `Product` with an `r × c` matrix
  | prodv (n : Nat)        -- `Product` with an `n`-vector
  | trace                  -- `Trace()`
  | transpose              -- `Transpose()` (unguarded: reads every entry of the current shape)
  | row (i : Nat)          -- `Return_Row(i)`
  | col (j : Nat)          -- `Return_Column(j)`

/-- the guard of one request on a matrix whose current shape is `s = (rows, columns)` -/
def matOpGuard (s : Nat × Nat) : MatOp → G
  | .resize _ _ | .assign _ _ | .set _ _ | .transpose => pass
  | .delRow i | .row i => matRowGuard s.1 i
  | .delCol j | .col j => matColGuard s.2 j
  | .at i => matIndexGuard s.1 i
  | .sum r c => matSumGuard s.1 s.2 r c
  | .prod r c => matProdGuard s.1 s.2 r c
  | .prodv n => matVecGuard s.1 s.2 n
  | .trace => squareGuard s.1 s.2
/-- the shape after an accepted request -/
def matOpShape (s : Nat × Nat) : MatOp → Nat × Nat
  | .resize r c | .assign r c | .set r c => (r, c)
  | .delRow _ => (s.1 - 1, s.2)
  | .delCol _ => (s.1, s.2 - 1)
  | _ => s
def matHistGuard : Nat × Nat → List MatOp → G
  | _, [] => pass
  | s, op :: ops =>
    match matOpGuard s op with
    | .error _ => stop
    | .ok _ => matHistGuard (matOpShape s op) ops
def matShapeAfter (s : Nat × Nat) (ops : List MatOp) : Nat × Nat := ops.foldl matOpShape s

inductive VecOp where
  | resize (n : Nat) | assign (n : Nat) | set (n : Nat)     -- `Resize`, `Assign`, `operator=`
  | at (i : Nat)                                             -- `v[i]`
  | pair (n : Nat)                                           -- `Dot / + / - / += / -=` with an `n`-vector
  | cross (n : Nat)                                          -- `Cross` with an `n`-vector
def vecOpGuard (d : Nat) : VecOp → G
  | .resize _ | .assign _ | .set _ => pass
  | .at i => vecIndexGuard d i
  | .pair n => vecPairGuard d n
  | .cross n => crossGuard d n
def vecOpDim (d : Nat) : VecOp → Nat
  | .resize n | .assign n | .set n => n
  | _ => d
def vecHistGuard : Nat → List VecOp → G
  | _, [] => pass
  | d, op :: ops =>
    match vecOpGuard d op with
    | .error _ => stop
    | .ok _ => vecHistGuard (vecOpDim d op) ops
def vecDimAfter (d : Nat) (ops : List VecOp) : Nat := ops.foldl vecOpDim d

/-! ### Objects that have been moved, swapped or pushed into a container: requests RELATIVE to the reported shape.
    After `Vector b(std::move(a))`, `t = std::move(s)`, `list.push_back(std::move(v))` or `std::swap` the value of the
    source is unspecified, but it must be self-consistent: the shape it REPORTS is the storage it owns.  The requests of
    such a history are therefore formed from the shape the object itself reports at that moment. -/

inductive RelReq where
  | useAll      -- every index below the reported size / shape, `+=`, `Dot`, `Plus`, `Transpose`, `Product` with operands of the reported shape
  | atSize      -- the index equal to the reported size (rows)
  | grow (k : Nat)   -- `Resize` to the reported size plus `k`, then every index of the new shape

/-- guard of a relative request on a vector that reports `d` elements -/
def vecRelGuard (d : Nat) : RelReq → G
  | .useAll => match vecPairGuard d d with
      | .error e => .error e
      | .ok _ => if d = 0 then pass else vecIndexGuard d (d - 1)
  | .atSize => vecIndexGuard d d
  | .grow k => if d + k = 0 then pass else vecIndexGuard (d + k) (d + k - 1)
/-- guard of a relative request on a matrix that reports `r × c` -/
def matRelGuard (s : Nat × Nat) : RelReq → G
  | .useAll => match matSumGuard s.1 s.2 s.1 s.2 with
      | .error e => .error e
      | .ok _ => match matVecGuard s.1 s.2 s.2 with
        | .error e => .error e
        | .ok _ => if s.1 = 0 then pass else matIndexGuard s.1 (s.1 - 1)
  | .atSize => matIndexGuard s.1 s.1
  | .grow k => if s.1 + k = 0 then pass else matIndexGuard (s.1 + k) (s.1 + k - 1)
/-- the outcome of a relative request does not depend on the shape at all -/
def relOutcome : RelReq → G
  | .atSize => stop
  | _ => pass

/-! ## 3. Interpolation (src/Numerics.cpp §1) — shared model `Lp.Interp` -/

/-- a valid abscissa list in the simplest form: at least three points, every earlier point
    strictly below every later one -/
abbrev validAbscissae (xs : List Rat) : Prop := 3 ≤ xs.length ∧ xs.Pairwise (· < ·)

/-- `Interpolation(arg_values, func_values, x_dim, f_dim)` -/
abbrev interpCtorMeaningful (xs ys : List Rat) : Prop := xs.length = ys.length ∧ validAbscissae xs
def interpCtorGuard (xs ys : List Rat) (xd fd : Rat) : G :=
  match Interp.mk xs ys xd fd with
  | .ok _ => pass
  | .error _ => stop

/-- `Interpolation(data, x_dim, f_dim)`: every row must have exactly two entries, then as above -/
abbrev interpTableMeaningful (data : List (List Rat)) : Prop :=
  (∀ r ∈ data, r.length = 2) ∧ validAbscissae (data.map (fun r => r.getD 0 0))
def interpTableGuard (data : List (List Rat)) (xd fd : Rat) : G :=
  if data.all (fun r => r.length = 2) then
    interpCtorGuard (data.map (fun r => r.getD 0 0)) (data.map (fun r => r.getD 1 0)) xd fd
  else stop

/-- the abscissa is inside the tabulated domain, or outside it by at most one percent of the
    edge interval (`<=` since fix a411065) -/
abbrev inDomain (N : Nat) (x : Nat → Rat) (v : Rat) : Prop :=
  (x 0 ≤ v ∧ v ≤ x (N - 1)) ∨ rabs (v - x 0) ≤ (x 1 - x 0) / 100 ∨ rabs (v - x (N - 1)) ≤ (x (N - 1) - x (N - 2)) / 100

/-- `Locate(x)` (the guard of Interpolate / Derivative / operator() as well) -/
def locateGuard (N : Nat) (x : Nat → Rat) (st : Interp.LState) (v : Rat) : G :=
  match Interp.locate N x st v with
  | .ok _ => pass
  | .error _ => stop

/-- the reads `Interpolate`/`Derivative` perform with the located index:
    `x_values[j]` (N entries) and `a[j], b[j], c[j], d[j]` (N-1 entries each) -/
def interpolateReads (N : Nat) (j : Nat) : List (Option Rat) :=
  [if j < N then some 0 else none, if j < N - 1 then some 0 else none]

/-- `Integrate(x_1, x_2)`: the two `Locate` calls after ordering the arguments -/
def integrateGuard (N : Nat) (x : Nat → Rat) (st : Interp.LState) (v1 v2 : Rat) : G :=
  let lo := if v1 > v2 then v2 else v1
  let hi := if v1 > v2 then v1 else v2
  match Interp.locate N x st lo with
  | .error _ => stop
  | .ok (_, st1) =>
    match Interp.locate N x st1 hi with
    | .error _ => stop
    | .ok _ => pass
abbrev integrateMeaningful (N : Nat) (x : Nat → Rat) (v1 v2 : Rat) : Prop := inDomain N x v1 ∧ inDomain N x v2

/-- `Local_Minimum(x_1,x_2)` / `Local_Maximum`: `Check_For_Error(x_2 < x_1, …)`, then
    `Interpolate(x_1)`, `Interpolate(x_2)`, `Locate(x_1)`, `Locate(x_2)` -/
def localExtGuard (N : Nat) (x : Nat → Rat) (st : Interp.LState) (v1 v2 : Rat) : G :=
  if v2 < v1 then stop
  else
    match Interp.locate N x st v1 with
    | .error _ => stop
    | .ok (_, s1) =>
      match Interp.locate N x s1 v2 with
      | .error _ => stop
      | .ok (_, s2) =>
        match Interp.locate N x s2 v1 with
        | .error _ => stop
        | .ok (_, s3) =>
          match Interp.locate N x s3 v2 with
          | .error _ => stop
          | .ok _ => pass
abbrev localExtMeaningful (N : Nat) (x : Nat → Rat) (v1 v2 : Rat) : Prop :=
  v1 ≤ v2 ∧ inDomain N x v1 ∧ inDomain N x v2

/-- a HISTORY of `Interpolate` calls `vs` on one object (the search state is threaded through):
    the first abscissa outside the tolerated domain stops the program, whatever the earlier calls were -/
def historyGuard (N : Nat) (x : Nat → Rat) : Interp.LState → List Rat → G
  | _, [] => pass
  | st, v :: vs =>
    match Interp.locate N x st v with
    | .error _ => stop
    | .ok (_, st') => historyGuard N x st' vs
def historyMeaningful (N : Nat) (x : Nat → Rat) (vs : List Rat) : Prop := ∀ v ∈ vs, inDomain N x v

/-- `Interpolation_2D(x_val, y_val, func_values, …)` -/
abbrev interp2CtorMeaningful (xs ys : List Rat) (f : List (List Rat)) : Prop :=
  f.length = xs.length ∧ (∀ r ∈ f, r.length = ys.length) ∧ validAbscissae xs ∧ validAbscissae ys
def interp2CtorGuard (xs ys : List Rat) (f : List (List Rat)) (xd yd fd : Rat) : G :=
  match Interp.mk2 xs ys f xd yd fd with
  | .ok _ => pass
  | .error _ => stop

/-- sorted list without duplicates (`std::sort` + `std::unique`, assumed behaviour) -/
def sortDedup (l : List Rat) : List Rat := (l.mergeSort (fun a b => decide (a ≤ b))).eraseDups

/-- `Interpolation_2D(data_table, …)`: rows of three entries, `x.size()*y.size() == rows`,
    rows in x-major grid order; then the grid constructor -/
def interp2TableGuard (t : List (List Rat)) (xd yd fd : Rat) : G :=
  if !(t.all (fun r => r.length = 3)) then stop
  else
    let xs := sortDedup (t.map (fun r => r.getD 0 0))
    let ys := sortDedup (t.map (fun r => r.getD 1 0))
    if xs.length * ys.length ≠ t.length then stop
    else
      let grid := xs.flatMap (fun a => ys.map (fun b => (a, b)))
      if (List.zip grid t).all (fun p => decide (p.1.1 = p.2.getD 0 0) && decide (p.1.2 = p.2.getD 1 0)) then
        interp2CtorGuard xs ys (xs.map (fun _ => ys.map (fun _ => 0))) xd yd fd
      else stop
/-- the table is the complete grid of valid abscissa lists `xs × ys`, x-major -/
abbrev interp2TableMeaningful (t : List (List Rat)) : Prop :=
  (∀ r ∈ t, r.length = 3) ∧
  ∃ xs ys : List Rat, validAbscissae xs ∧ validAbscissae ys ∧
    t.map (fun r => (r.getD 0 0, r.getD 1 0)) = xs.flatMap (fun a => ys.map (fun b => (a, b)))

/-- `Interpolation_2D::Interpolate(x,y)`: `x_int.Locate(x)`, `y_int.Locate(y)` -/
def interp2EvalGuard (Nx : Nat) (x : Nat → Rat) (sx : Interp.LState) (Ny : Nat) (y : Nat → Rat) (sy : Interp.LState)
    (vx vy : Rat) : G :=
  match Interp.locate Nx x sx vx with
  | .error _ => stop
  | .ok _ =>
    match Interp.locate Ny y sy vy with
    | .error _ => stop
    | .ok _ => pass
abbrev interp2EvalMeaningful (Nx : Nat) (x : Nat → Rat) (Ny : Nat) (y : Nat → Rat) (vx vy : Rat) : Prop :=
  inDomain Nx x vx ∧ inDomain Ny y vy
/-- `x_values[i], x_values[i+1], y_values[j], y_values[j+1], f[i][j], f[i+1][j], f[i+1][j+1], f[i][j+1]` -/
def interp2EvalReads (Nx Ny i j : Nat) : List (Option Rat) :=
  [if i + 1 < Nx then some 0 else none, if j + 1 < Ny then some 0 else none]

/-! ## 3b. Minimization::minimize (src/Numerics.cpp §3.2) and summary statistics: list lengths (fixprop-C10-23, -24) -/

/-- `minimize(start, deltas, f)`: `if(starting_point.empty() || deltas.size() != starting_point.size())`;
    the scalar-`delta` overload builds `deltas` of the right length itself (`m = n`) -/
abbrev simplexDeltasMeaningful (n m : Nat) : Prop := 1 ≤ n ∧ m = n
def simplexDeltasGuard (n m : Nat) : G := if n = 0 ∨ m ≠ n then stop else pass
/-- `minimize(pp, f)`: `pp` has `n+1` rows of `n ≥ 1` entries each; `lens` = the row lengths -/
abbrev simplexMeaningful (lens : List Nat) : Prop := ∃ n, 1 ≤ n ∧ lens.length = n + 1 ∧ ∀ l ∈ lens, l = n
def simplexGuard (lens : List Nat) : G :=
  match lens with
  | [] => stop
  | l0 :: rest => if rest.length + 1 < 2 ∨ rest.length + 1 ≠ l0 + 1 then stop else if rest.all (fun l => l = l0) then pass else stop
/-- `Arithmetic_Mean`, `Median` (`need = 1`), `Variance`, `Standard_Deviation`, `Weighted_Average` (`need = 2`) -/
abbrev dataLengthMeaningful (need n : Nat) : Prop := need ≤ n
def dataLengthGuard (need n : Nat) : G := if n < need then stop else pass

/-- `Matrix::Resize(int,int)`, `Matrix::Assign(int,int,double)` (fixprop-C10-26): `if(row < 0 || col < 0)` -/
abbrev matDimsMeaningful (r c : Int) : Prop := 0 ≤ r ∧ 0 ≤ c
def matDimsGuard (r c : Int) : G := if r < 0 ∨ c < 0 then stop else pass
/-! ## 4. Find_Root (src/Numerics.cpp §2): the values at the bracket ends, `none` = NaN -/

abbrev findRootMeaningful (fl fr : Option Rat) : Prop :=
  ∃ a b, fl = some a ∧ fr = some b ∧ (a = 0 ∨ b = 0 ∨ (a < 0 ∧ 0 < b) ∨ (0 < a ∧ b < 0))
/-- as coded after fix 8302e13: `else if(fLeft == 0.0 || fRight == 0.0 || Sign(fLeft) == Sign(fRight))`
    (the signs are compared, not the product, which can underflow) -/
def findRootGuard (fl fr : Option Rat) : G :=
  match fl, fr with
  | some a, some b =>
    if a = 0 ∨ b = 0 ∨ Interp.sign1 a = Interp.sign1 b then
      (if a = 0 then pass else if b = 0 then pass else stop)
    else pass
  | _, _ => stop

/-! ## 5. Integration (src/Integration.cpp): method names, Gauss–Legendre sizes -/

def methods1D : List String :=
  ["Trapezoidal", "Gauss-Legendre", "Gauss-Kronrod", "Tanh-Sinh", "Gauss-Legendre_2", "Adaptive-Simpson"]
def methodsMC : List String := ["Monte-Carlo", "Vegas", "Miser"]

/-- `Integrate(func,a,b,method,…)` after fix d39b5c1: `if(a == b && known_method) return 0.0;`, then the dispatch -/
abbrev integrate1Meaningful (method : String) : Prop := method ∈ methods1D
def integrate1Guard (a b : Rat) (method : String) : G :=
  let known := method = "Trapezoidal" ∨ method = "Gauss-Legendre" ∨ method = "Gauss-Kronrod" ∨ method = "Tanh-Sinh"
    ∨ method = "Gauss-Legendre_2" ∨ method = "Adaptive-Simpson"
  if a = b ∧ known then pass
  else if method = "Trapezoidal" then pass
  else if method = "Gauss-Legendre" then pass
  else if method = "Gauss-Kronrod" then pass
  else if method = "Tanh-Sinh" then pass
  else if method = "Gauss-Legendre_2" then pass
  else if method = "Adaptive-Simpson" then pass
  else stop

/-- `Integrate_2D`, `Integrate_3D` (both overloads) -/
abbrev integrateNDMeaningful (method : String) : Prop := method ∈ methods1D ++ methodsMC
def integrateNDGuard (method : String) : G :=
  if method = "Trapezoidal" ∨ method = "Gauss-Legendre" ∨ method = "Gauss-Kronrod" ∨ method = "Tanh-Sinh"
      ∨ method = "Adaptive-Simpson" ∨ method = "Gauss-Legendre_2" then pass
  else if method = "Monte-Carlo" ∨ method = "Vegas" ∨ method = "Miser" then pass
  else stop

/-- `Integrate_MC` -/
abbrev integrateMCMeaningful (method : String) : Prop := method ∈ methodsMC
def integrateMCGuard (method : String) : G :=
  if method = "Monte-Carlo" then pass else if method = "Vegas" then pass else if method = "Miser" then pass else stop

/-- `Integrate_MC(f, region, ncalls, method)` (fixprop-C10-27): the region lists both corners of a box, `ncalls ≥ 1`
    (Vegas: `≥ 2`), then the method dispatch -/
abbrev integrateMCShapeMeaningful (regionSize : Nat) (ncalls : Int) (method : String) : Prop :=
  regionSize ≠ 0 ∧ regionSize % 2 = 0 ∧ 1 ≤ ncalls ∧ (method = "Vegas" → 2 ≤ ncalls) ∧ integrateMCMeaningful method
def integrateMCShapeGuard (regionSize : Nat) (ncalls : Int) (method : String) : G :=
  if regionSize = 0 ∨ regionSize % 2 ≠ 0 then stop
  else if ncalls < 1 ∨ (method = "Vegas" ∧ ncalls < 2) then stop
  else integrateMCGuard method

/-- `Integrate_Gauss_Legendre(function_values, roots_and_weights)` (rows of two entries) -/
abbrev gaussLegendreMeaningful (n m : Nat) : Prop := n = m
def gaussLegendreGuard (n m : Nat) : G := if n ≠ m then stop else pass
/-- with the rule's rows (fix 455b721): sizes first, then `if(roots_and_weights[i].size() != 2)` in the summation loop;
    `lens` = the row lengths of `roots_and_weights`, `n` = the number of function values -/
abbrev gaussLegendreRowsMeaningful (n : Nat) (lens : List Nat) : Prop := n = lens.length ∧ ∀ l ∈ lens, l = 2
def gaussLegendreRowsGuard (n : Nat) (lens : List Nat) : G :=
  if n ≠ lens.length then stop else if lens.all (fun l => l = 2) then pass else stop
/-- the overload that evaluates the function at the roots: only the rows are tested -/
abbrev gaussLegendreFuncMeaningful (lens : List Nat) : Prop := ∀ l ∈ lens, l = 2
def gaussLegendreFuncGuard (lens : List Nat) : G := if lens.all (fun l => l = 2) then pass else stop
def gaussLegendreReads (fv : List Rat) (rw : List (List Rat)) : List (Option Rat) :=
  (List.range fv.length).flatMap fun i => [fv[i]?, (rw[i]?).bind (fun r => r[1]?)]

/-! ## 6. Special functions (src/Special_Functions.cpp) -/

abbrev factorialMeaningful (n : Nat) : Prop := n ≤ 170
def factorialGuard (n : Nat) : G := if n > 170 then stop else pass

/-- the memo table of `Factorial` (`FactorialList`, static): the state is its size.  As coded the
    guard `n > 170` comes first, whatever the table holds; an accepted call extends the table to `n+1` entries -/
def factorialStep (size n : Nat) : Except Err Nat :=
  if n > 170 then .error .diag else .ok (if n < size then size else n + 1)
/-- a HISTORY of `Factorial` calls in one process, from a table of `size` entries -/
def factorialHistGuard : Nat → List Nat → G
  | _, [] => pass
  | size, n :: ns =>
    match factorialStep size n with
    | .error _ => stop
    | .ok size' => factorialHistGuard size' ns
abbrev factorialHistMeaningful (ns : List Nat) : Prop := ∀ n ∈ ns, n ≤ 170

/-- a sequence of guarded calls in ONE process: the first call that stops ends the process -/
def seqGuard : List G → G
  | [] => pass
  | g :: gs =>
    match g with
    | .error _ => stop
    | .ok _ => seqGuard gs

abbrev binomialMeaningful (n k : Int) : Prop := 0 ≤ n ∧ 0 ≤ k
def binomialGuard (n k : Int) : G := if k < 0 ∨ n < 0 then stop else pass

abbrev gammaLnMeaningful (x : Rat) : Prop := 0 < x
def gammaLnGuard (x : Rat) : G := if x ≤ 0 then stop else pass

abbrev gammaQMeaningful (x a : Rat) : Prop := 0 ≤ x ∧ 0 < a
def gammaQGuard (x a : Rat) : G := if x < 0 ∨ a ≤ 0 then stop else pass

abbrev invGammaPMeaningful (a : Rat) : Prop := 0 < a
def invGammaPGuard (a : Rat) : G := if a ≤ 0 then stop else pass
/-- with the probability argument: `if(a <= 0.0)` stop, then `if(p < 0.0 || p > 1.0)` stop -/
abbrev invGammaPFullMeaningful (p a : Rat) : Prop := 0 < a ∧ 0 ≤ p ∧ p ≤ 1
def invGammaPFullGuard (p a : Rat) : G := if a ≤ 0 then stop else if p < 0 ∨ p > 1 then stop else pass

/-- `Round(N, digits)` after fixes 710b478 and f9320d5: `if(digits == 0 || digits > 7)` stops first, then `if(N == 0) return 0;` -/
abbrev roundMeaningful (digits : Nat) : Prop := 1 ≤ digits ∧ digits ≤ 7
def roundGuard (N : Rat) (digits : Nat) : G := if digits = 0 ∨ digits > 7 then stop else if N = 0 then pass else pass

/-- `VSH_Y_Component`, `VSH_Psi_Component`: `switch(component)` with cases 0, 1, 2 -/
abbrev vshMeaningful (component : Int) : Prop := component = 0 ∨ component = 1 ∨ component = 2
def vshGuard (component : Int) : G :=
  if component = 0 then pass else if component = 1 then pass else if component = 2 then pass else stop

/-- `Inv_Erf(p)` after fix e9e1286: `if(fabs(p - 1.0) < 1e-16) return 10; else if(fabs(p + 1.0) < 1e-16) return -10;
    else if(fabs(p) >= 1.0)` stop.  Meaningful: `-1 < p < 1`, or p indistinguishable from ±1 (saturated with a warning). -/
def invErfEps : Rat := 1 / 10 ^ 16
abbrev invErfMeaningful (p : Rat) : Prop := -1 - invErfEps < p ∧ p < 1 + invErfEps
def invErfGuard (p : Rat) : G :=
  if rabs (p - 1) < invErfEps then pass else if rabs (p + 1) < invErfEps then pass else if rabs p ≥ 1 then stop else pass

/-! ## 7. Statistics (src/Statistics.cpp) -/

/-- `PMF_Binomial`, `CDF_Binomial`: `if(p < 0.0 || p > 1.0)` -/
abbrev probabilityMeaningful (p : Rat) : Prop := 0 ≤ p ∧ p ≤ 1
def probabilityGuard (p : Rat) : G := if p < 0 ∨ p > 1 then stop else pass

/-- `PMF_Poisson`, `CDF_Poisson`: `if(expected_events < 0 || events < 0)`, `events` unsigned -/
abbrev poissonMeanMeaningful (mu : Rat) : Prop := 0 ≤ mu
def poissonMeanGuard (mu : Rat) : G := if mu < 0 then stop else pass

/-- `PDF/CDF_Exponential(x, mean)`, `PDF/CDF_Maxwell_Boltzmann(x, a)`: `if(mean <= 0.0)` -/
abbrev positiveMeaningful (a : Rat) : Prop := 0 < a
def positiveGuard (a : Rat) : G := if a ≤ 0 then stop else pass

/-- `PDF_Uniform`, `CDF_Uniform` (x_min, x_max): `if(x_min >= x_max)` -/
abbrev intervalMeaningful (a b : Rat) : Prop := a < b
def intervalGuard (a b : Rat) : G := if a ≥ b then stop else pass
/-- `Sample_Uniform(PRNG, x_min, x_max)`: `if(x_max < x_min)` (a degenerate interval returns its point) -/
abbrev weakIntervalMeaningful (a b : Rat) : Prop := a ≤ b
def weakIntervalGuard (a b : Rat) : G := if b < a then stop else pass
/-- `Quantile_Gauss(p, mu, sigma)`: `if(sigma < 0.0)`, then `Inv_Erf(2p - 1)` with its own guard -/
abbrev quantileGaussMeaningful (p sigma : Rat) : Prop := 0 ≤ sigma ∧ invErfMeaningful (2 * p - 1)
def quantileGaussGuard (p sigma : Rat) : G := if sigma < 0 then stop else invErfGuard (2 * p - 1)
/-- `PDF_Gauss_2D`: `if(sigma.first <= 0.0 || sigma.second <= 0.0)` -/
abbrev gauss2DMeaningful (sx sy : Rat) : Prop := 0 < sx ∧ 0 < sy
def gauss2DGuard (sx sy : Rat) : G := if sx ≤ 0 ∨ sy ≤ 0 then stop else pass
/-- `Log_Likelihood_Poisson`, `Likelihood_Poisson`: `if(N_prediction < 0.0 || expected_background < 0.0)` -/
abbrev likelihoodPoissonMeaningful (pred bkg : Rat) : Prop := 0 ≤ pred ∧ 0 ≤ bkg
def likelihoodPoissonGuard (pred bkg : Rat) : G := if pred < 0 ∨ bkg < 0 then stop else pass
/-- `Upper_Incomplete_Gamma(x, s)`, `Lower_Incomplete_Gamma(x, s)`: `Gamma(s)` then `GammaQ(x, s)`, each with its guard -/
abbrev incompleteGammaMeaningful (x s : Rat) : Prop := 0 ≤ x ∧ 0 < s
def incompleteGammaGuard (x s : Rat) : G := if s ≤ 0 then stop else if x < 0 ∨ s ≤ 0 then stop else pass

/-- `PDF_Chi_Bar_Square`, `CDF_Chi_Bar_Square` (fix f024b96): every mixture weight in [0,1] -/
abbrev chiBarMeaningful (ws : List Rat) : Prop := ∀ w ∈ ws, 0 ≤ w ∧ w ≤ 1
def chiBarGuard (ws : List Rat) : G := if ws.all (fun w => decide (0 ≤ w) && decide (w ≤ 1)) then pass else stop

/-- `Log_Likelihood_Poisson_Binned(pred, obs, bkg)`: an empty background list is replaced by zeros -/
abbrev binnedMeaningful (nPred nObs nBkg : Nat) : Prop := nObs = nPred ∧ (nBkg = 0 ∨ nBkg = nPred)
def binnedGuard (nPred nObs nBkg : Nat) : G :=
  let nBkg' := if nBkg = 0 then nPred else nBkg
  if nObs ≠ nPred ∨ nBkg' ≠ nPred then stop else pass
def binnedReads (pred obs bkg : List Rat) : List (Option Rat) :=
  let bkg' := if bkg.length = 0 then List.replicate pred.length (0 : Rat) else bkg
  (List.range pred.length).flatMap fun i => [pred[i]?, obs[i]?, bkg'[i]?]

/-- `Sample_Metropolis` (`k = 2`) / `Sample_Metropolis_2D` (`k = 4`): `domain.size()` is 0 or `k` -/
abbrev metropolisMeaningful (k n : Nat) : Prop := n = 0 ∨ n = k
def metropolisGuard (k n : Nat) : G := if n = 0 then pass else if n = k then pass else stop
def metropolisReads (k : Nat) (domain : List Rat) : List (Option Rat) :=
  if domain.length = 0 then [] else (List.range k).map (fun i => domain[i]?)

/-! ## 8. List helpers (include/libphysica/List_Manipulations.hpp), Utilities, units -/

/-- `Transpose_Lists(lists)` with `lists[0]` of length `l0` and the others of lengths `rest` -/
abbrev transposeMeaningful (l0 : Nat) (rest : List Nat) : Prop := ∀ l ∈ rest, l = l0
def transposeGuard (l0 : Nat) (rest : List Nat) : G := if rest.all (fun l => l = l0) then pass else stop
def transposeReads (ls : List (List Rat)) : List (Option Rat) :=
  let m := (ls.headD []).length
  (List.range ls.length).flatMap fun i => (List.range m).map fun j => (ls[i]?).bind (fun r => r[j]?)

/-- `Transpose_Lists(lists)` for EVERY outer list: the empty list of lists is returned unchanged -/
abbrev transposeAllMeaningful (lens : List Nat) : Prop := ∀ a ∈ lens, ∀ b ∈ lens, a = b
def transposeAllGuard (lens : List Nat) : G :=
  match lens with
  | [] => pass
  | l0 :: rest => transposeGuard l0 rest

/-- `Locate_Closest_Location(sorted_list, target)`: `std::is_sorted` -/
abbrev closestMeaningful (l : List Rat) : Prop := l.Pairwise (· ≤ ·)
def isSorted : List Rat → Bool
  | [] => true
  | [_] => true
  | a :: b :: r => decide (a ≤ b) && isSorted (b :: r)
def closestGuard (l : List Rat) : G := if isSorted l then pass else stop
/-- including the empty list (which has no closest location): `if(sorted_list.empty())` stop, then the order test -/
abbrev closestAllMeaningful (l : List Rat) : Prop := l ≠ [] ∧ l.Pairwise (· ≤ ·)
def closestAllGuard (l : List Rat) : G := if l.length = 0 then stop else closestGuard l
/-- with `idx` the position `std::upper_bound` returns (`idx ≤ size`): `sorted_list[idx-1]`, `sorted_list[idx]`
    are read only when `0 < idx < size` -/
def closestReads (l : List Rat) (idx : Nat) : List (Option Rat) :=
  if idx = 0 ∨ idx = l.length then [] else [l[idx - 1]?, l[idx]?]

/-- `Sub_List(v,i1,i2)` after fix 7658ded: never stops; the elements copied are
    `v[a], …, v[b]` with `a = max(i1,0)`, `b = min(i2, size-1)` -/
def subListGuard (_n : Nat) (_i1 : Int) (_i2 : Nat) : G := pass
def subListReads (v : List Rat) (i1 : Int) (i2 : Nat) : List (Option Rat) :=
  let a := if i1 < 0 then 0 else i1.toNat
  if v.length = 0 then []
  else
    let b := if i2 ≥ v.length then v.length - 1 else i2
    if a > b then [] else (List.range (b + 1 - a)).map (fun k => v[a + k]?)

/-- `In_Units(table, dimensions)`: every row as long as `dimensions` -/
abbrev inUnitsMeaningful (lens : List Nat) (nd : Nat) : Prop := ∀ l ∈ lens, l = nd
def inUnitsGuard (lens : List Nat) (nd : Nat) : G := if lens.all (fun l => l = nd) then pass else stop
def inUnitsReads (q : List (List Rat)) (dims : List Rat) : List (Option Rat) :=
  (List.range q.length).flatMap fun i =>
    (List.range ((q.getD i []).length)).flatMap fun j => [(q[i]?).bind (fun r => r[j]?), dims[j]?]

/-- `Export_Table(path, data, dimensions)`: `if(!dimensions.empty() && dimensions.size() != columns)` per line -/
abbrev exportTableMeaningful (lens : List Nat) (nd : Nat) : Prop := nd = 0 ∨ ∀ l ∈ lens, l = nd
def exportTableGuard (lens : List Nat) (nd : Nat) : G :=
  if lens.all (fun l => decide (nd = 0) || decide (nd = l)) then pass else stop

/-- `Import_List(path)`: the file must exist -/
abbrev importListMeaningful (fileExists : Bool) : Prop := fileExists = true
def importListGuard (fileExists : Bool) : G := if fileExists then pass else stop

/-- `Import_Table(path, dimensions)`: the file must exist; with `rows ≥ 1` lines of `cols` numbers,
    `if(!dimensions.empty() && dimensions.size() != columns)` -/
abbrev importTableMeaningful (fileExists : Bool) (cols nd : Nat) : Prop := fileExists = true ∧ (nd = 0 ∨ nd = cols)
/-- with the number of lines: a file without lines is an empty table (returned before the column test) -/
abbrev importTableRowsMeaningful (fileExists : Bool) (rows cols nd : Nat) : Prop :=
  fileExists = true ∧ (rows = 0 ∨ cols = 0 ∨ nd = 0 ∨ nd = cols)
def importTableRowsGuard (fileExists : Bool) (rows cols nd : Nat) : G :=
  if fileExists then (if rows = 0 ∨ cols = 0 then pass else if nd ≠ 0 ∧ nd ≠ cols then stop else pass) else stop
/-- fix c62bfe8: the entries must fill the rows (`entries != rows * (entries / rows)` stops), blank lines at the end are not rows;
    `entries` = numbers in the file, `rows` = lines up to the last non-blank one -/
abbrev importTableFillMeaningful (entries rows nd : Nat) : Prop := rows = 0 ∨ (entries % rows = 0 ∧ (nd = 0 ∨ nd = entries / rows))
def importTableFillGuard (entries rows nd : Nat) : G :=
  if rows = 0 then pass else if entries ≠ rows * (entries / rows) then stop else if nd ≠ 0 ∧ nd ≠ entries / rows then stop else pass
def importTableGuard (fileExists : Bool) (cols nd : Nat) : G :=
  if fileExists then (if nd ≠ 0 ∧ nd ≠ cols then stop else pass) else stop

/-- `Check_For_Error(error_condition, …)` -/
abbrev checkForErrorMeaningful (cond : Bool) : Prop := cond = false
def checkForErrorGuard (cond : Bool) : G := if cond then stop else pass

end Lp.C10
