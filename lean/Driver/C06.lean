import LpModel.DriverLib
import LpModel.C06
open Lp Lp.C06

/-- `std::numeric_limits<double>::epsilon()` and `min()/epsilon()`; the loops take their `eps` from the source: `K.pserEps`, `K.qcfEps` -/
def epsD : Rat := pow2 (-52)
def fpminD : Rat := pow2 (-970)
def fuelD : Nat := 200000

def showSeries (x a : Rat) : String :=
  match pserLoop K.pserEps x fuelD (pserInit a) 0 with
  | some (s, n) => "ok series " ++ showRat s.sum ++ " " ++ toString n ++ " " ++ showRat (lanczosSum a)
  | none => "undef"

def showCf (x a : Rat) : String :=
  if x + 1 - a = 0 then "undef" else
  match lentzLoop K.qcfEps fpminD a fuelD (lentzInit fpminD x a) 0 with
  | some (s, n) => "ok cf " ++ showRat s.h ++ " " ++ toString n ++ " " ++ showRat (lanczosSum a)
  | none => "undef"

def showQ (x a : Rat) : String :=
  match gammaQBranch x a with
  | .error _ => "err"
  | .ok .zero => "ok zero"
  | .ok .quad => "ok quad " ++ showRat (lanczosSum a)
  | .ok .series => showSeries x a
  | .ok .cf => showCf x a

def handle : Handler := fun op args =>
  match op with
  | "c06.fact" => withArgs pNat args fun n =>
      match factorial tbl0 n with
      | (.ok v, t) => "ok " ++ showRat v ++ " " ++ toString t.length
      | (.error _, _) => "err"
  | "c06.facthist" => withArgs (pList pNat) args fun calls =>
      let (os, t) := runCalls tbl0 calls
      if os.any (fun o => match o with | .error _ => true | .ok _ => false) then "err"
      else "ok " ++ " ".intercalate (os.map (fun o => match o with | .ok v => showRat v | .error _ => "?")) ++ " " ++ toString t.length
  | "c06.binom" => withArgs (do let n ← pInt; let k ← pInt; pure (n, k)) args fun (n, k) =>
      match binomial tbl0 n k with
      | (.ok v, t) => "ok " ++ showRat v ++ " " ++ toString t.length
      | (.error _, _) => "err"
  | "c06.gammaln" => withArgs pRat args fun x =>
      if x ≤ 0 then "err" else "ok " ++ showRat (lanczosSum x)
  | "c06.gamma" => withArgs pRat args fun x =>
      -- `Gamma` = own guard + `std::tgamma` (fix a972610): no rational core, the outcome only
      match gamma ⟨fun _ => 0, fun _ => 0, fun _ => 0, fun _ _ => 0, fun _ => 1⟩ x with
      | .error _ => "err"
      | .ok _ => "ok tgamma"
  | "c06.pser" => withArgs (do let x ← pRat; let a ← pRat; pure (x, a)) args fun (x, a) =>
      if a ≤ 0 ∨ x ≤ 0 then "undef" else showSeries x a
  | "c06.qcf" => withArgs (do let x ← pRat; let a ← pRat; pure (x, a)) args fun (x, a) =>
      if a ≤ 0 ∨ x ≤ 0 then "undef" else showCf x a
  | "c06.qint" => withArgs (do let x ← pRat; let a ← pRat; pure (x, a)) args fun (x, a) =>
      if a ≤ 0 ∨ x ≤ 0 then "undef" else "ok quad " ++ showRat (lanczosSum a)
  | "c06.gammaq" => withArgs (do let x ← pRat; let a ← pRat; pure (x, a)) args fun (x, a) => showQ x a
  | "c06.gammap" => withArgs (do let x ← pRat; let a ← pRat; pure (x, a)) args fun (x, a) => showQ x a
  | "c06.uplow" => withArgs (do let x ← pRat; let a ← pRat; pure (x, a)) args fun (x, a) => showQ x a
  | "c06.qscan" => withArgs (do let a ← pRat; let r0 ← pRat; let dr ← pRat; let n ← pNat; pure (a, r0, dr, n)) args fun (a, _, _, n) =>
      -- every abscissa of the scan is a request with a > 100: the quadrature branch (or x ≤ 0, not evaluated)
      match gammaQBranch 1 a with
      | .ok .quad => "ok quad " ++ toString n
      | _ => "undef"
  | "c06.invp" => withArgs (do let p ← pRat; let a ← pRat; pure (p, a)) args fun (p, a) =>
      match invBranch p a with
      | .error _ => "err"
      | .ok .top => "ok top"
      | .ok .bottom => "ok bottom"
      | .ok .iterate => "ok iterate " ++ showRat (lanczosSum a)
  | "c06.invq" => withArgs (do let q ← pRat; let a ← pRat; pure (q, a)) args fun (q, a) =>
      if q < 0 ∨ q > 1 then "err" else          -- the guard of `invGammaQ` (fix d65f15f)
      match invBranch (1 - q) a with
      | .error _ => "err"
      | .ok .top => "ok top"
      | .ok .bottom => "ok bottom"
      | .ok .iterate => "ok iterate " ++ showRat (lanczosSum a)
  | _ => none

def main : IO Unit := driverMain handle
