import LpModel.DriverLib
import LpModel.C11
open Lp Lp.C11

/-! Driver of C11.  Requests (doubles as hex floats, objective as a reverse-Polish program):

    c11.min  <xl> <xr> <tol> <prog>            Find_Minimum
    c11.max  <xl> <xr> <tol> <prog>            Find_Maximum
    c11.nm   <ftol> <mpts> <row>… <prog>       minimize(pp, func)
    c11.nmd  <ftol> <start> <deltas> <prog>    minimize(start, deltas, func)
    c11.nm1  <ftol> <start> <delta> <prog>     minimize(start, delta, func)
    c11.nmseq <ftol> <n> (nm <mpts> <row>… <prog> | nmd <start> <deltas> <prog> | nm1 <start> <delta> <prog>
                           | rs <prog> | rsd <deltas> <prog> | rs1 <delta> <prog>   (argument = the object's own simplex / its row 0))…
                                               the runs on ONE Minimization object; answers joined by ` | `

    Answers: 1-D  `ok xmin fmin stopbits ntrace (x bits)…`;  n-D `ok stopbits ndim pmin… fmin nfunc mpts y… rows… ntrace (pt… bits)…`
    where `bits = ⌊-log₂ margin⌋` (999 for margin 0). -/

def pTok : P Tok := do
  let t ← tok
  match t with
  | "+" => pure .add | "-" => pure .sub | "*" => pure .mul | "/" => pure .div
  | "neg" => pure .neg | "dup" => pure .dup | "sq" => pure .sq | "abs" => pure .abs
  | "swap" => pure .swap | "sel" => pure .sel | "cosh" => pure .unsupported
  | _ =>
    match t.toList with
    | 'x' :: r => match (String.ofList r).toNat? with | some j => pure (.var j) | none => failure
    | 'k' :: r => match parseHex (String.ofList r) with | some c => pure (.const c) | none => failure
    | _ => failure

/-- the program, followed by the length-prefixed `meta` list (ignored: it is for the comparator) -/
def pProg : P (List Tok) := do let pr ← pList pTok; let _ ← pList tok; pure pr

def isPow2 (n : Nat) : Bool := n != 0 && (n &&& (n - 1)) == 0

/-- compact exact printing: dyadic rationals as `<num>p-<k>` -/
def showQ (r : Rat) : String :=
  if r.den = 1 then toString r.num
  else if isPow2 r.den then toString r.num ++ "p-" ++ toString (Nat.log2 r.den)
  else showRat r

def showQs (l : List Rat) : String := " ".intercalate (l.map showQ)

def bitsOf (m : Rat) : Nat :=
  if m ≤ 0 then 999 else
  let e := log2floor m
  if e ≥ 0 then 0 else (-e - 1).toNat + (if m = pow2 e then 0 else 0)

def BIG : Rat := pow2 900
def tooBig (x : Rat) : Bool := rabs x > BIG

def show1 (o : Out1) (tr : List Ev) (fdef : Rat → Option Rat) : String :=
  -- the model is defined only where every evaluation of the objective is
  if tr.any (fun e => match fdef e.1 with | none => true | some v => tooBig v || tooBig e.1) then "undef" else
  let t := toString tr.length ++ " " ++ " ".intercalate (tr.map (fun e => showQ e.1 ++ " " ++ toString (bitsOf e.2)))
  match o with
  | .ok x fx m => "ok " ++ showQ x ++ " " ++ showQ fx ++ " " ++ toString (bitsOf m) ++ " " ++ t
  | .tooMany => "err " ++ t
  | .noBracket => "undef"

def showN (r : Option (OutN × List EvN)) (fdef : Pt → Option Rat) : String :=
  match r with
  | none => "undef"
  | some (o, tr) =>
    if tr.any (fun e => match fdef e.1 with | none => true | some v => tooBig v || e.1.any tooBig) then "undef" else
    let t := toString tr.length ++ " " ++ " ".intercalate (tr.map (fun e => showQs e.1 ++ " " ++ toString (bitsOf e.2)))
    match o with
    | .ok pmin fmin s m =>
      "ok " ++ toString (bitsOf m) ++ " " ++ toString pmin.length ++ " " ++ showQs pmin ++ " " ++ showQ fmin ++ " " ++ toString s.nfunc ++ " " ++
        toString s.y.length ++ " " ++ showQs s.y ++ " " ++ " ".intercalate (s.p.map showQs) ++ " " ++ t
    | .nmax => "err " ++ t
    | .shape => "err shape"
    | .fuel => "undef"

/-- one member of an object-reuse sequence: overload tag, its simplex (the documented one for the
    delta overloads; `[]` = undefined request), the objective program -/
def pMember : P (Arg × List Tok) := do
  let k ← tok
  match k with
  | "nm" => do let pp ← pList pRats; let pr ← pProg; pure (.simplex pp, pr)
  | "nmd" => do
      let st ← pRats; let ds ← pRats; let pr ← pProg
      pure (.simplex (if st = [] ∨ ds.length ≠ st.length then [] else simplexOf rndD st ds), pr)
  | "nm1" => do
      let st ← pRats; let d ← pRat; let pr ← pProg
      pure (.simplex (simplexOf rndD st (List.replicate st.length d)), pr)
  | "rs" => do let pr ← pProg; pure (.own, pr)                       -- m.minimize(m.current_simplex, f)
  | "rsd" => do let ds ← pRats; let pr ← pProg; pure (.ownDeltas ds, pr)   -- m.minimize(m.current_simplex[0], deltas, f)
  | "rs1" => do let d ← pRat; let pr ← pProg; pure (.ownDelta d, pr)       -- m.minimize(m.current_simplex[0], delta, f)
  | _ => failure

def handle : Handler := fun op args =>
  match op with
  | "c11.min" | "c11.max" =>
    withArgs (do let xl ← pRat; let xr ← pRat; let tol ← pRat; let pr ← pProg; pure (xl, xr, tol, pr)) args
      fun (xl, xr, tol, pr) =>
        let fdef : Rat → Option Rat := fun x => evalRPN rndD pr [x]
        let f : Rat → Rat := fun x => (fdef x).getD 0
        let r := if op = "c11.min" then findMinimum rndD f xl xr tol 400 else findMaximum rndD f xl xr tol 400
        show1 r.1 r.2 fdef
  | "c11.mindef" | "c11.maxdef" =>
    -- the overloads with the default tolerance of Numerics.hpp (`double tol = 3e-8`)
    withArgs (do let xl ← pRat; let xr ← pRat; let pr ← pProg; pure (xl, xr, pr)) args
      fun (xl, xr, pr) =>
        let tol := rndD (3 / 10 ^ 8)
        let fdef : Rat → Option Rat := fun x => evalRPN rndD pr [x]
        let f : Rat → Rat := fun x => (fdef x).getD 0
        let r := if op = "c11.mindef" then findMinimum rndD f xl xr tol 400 else findMaximum rndD f xl xr tol 400
        show1 r.1 r.2 fdef
  | "c11.nm" =>
    withArgs (do let ftol ← pRat; let pp ← pList pRats; let pr ← pProg; pure (ftol, pp, pr)) args
      fun (ftol, pp, pr) =>
        let fdef : Pt → Option Rat := fun x => evalRPN rndD pr x
        let f : Pt → Rat := fun x => (fdef x).getD 0
        showN (nelderMead rndD f ftol pp (NMAX + 2)) fdef
  | "c11.nmd" =>
    withArgs (do let ftol ← pRat; let st ← pRats; let ds ← pRats; let pr ← pProg; pure (ftol, st, ds, pr)) args
      fun (ftol, st, ds, pr) =>
        let fdef : Pt → Option Rat := fun x => evalRPN rndD pr x
        let f : Pt → Rat := fun x => (fdef x).getD 0
        showN (nelderMeadDeltas rndD f ftol st ds (NMAX + 2)) fdef
  | "c11.nm1" =>
    withArgs (do let ftol ← pRat; let st ← pRats; let d ← pRat; let pr ← pProg; pure (ftol, st, d, pr)) args
      fun (ftol, st, d, pr) =>
        let fdef : Pt → Option Rat := fun x => evalRPN rndD pr x
        let f : Pt → Rat := fun x => (fdef x).getD 0
        showN (nelderMeadDelta rndD f ftol st d (NMAX + 2)) fdef
  | "c11.nmseq" =>
    withArgs (do let ftol ← pRat; let ms ← pList pMember; pure (ftol, ms)) args
      fun (ftol, ms) =>
        let runs : List ((Pt → Rat) × Arg) := ms.map (fun m => ((fun x => (evalRPN rndD m.2 x).getD 0), m.1))
        let obj0 : NM := { p := [], y := [], psum := [], nfunc := 0 }
        let rs := nmSeqArgs rndD ftol (NMAX + 2) obj0 runs
        "ok " ++ " | ".intercalate ((rs.zip ms).map (fun rm => showN rm.1 (fun x => evalRPN rndD rm.2.2 x)))
  | "c11.nmre" =>
    -- c11.nmre <ftolOut> <start> <deltaOut> <ftolIn> <t0> <deltaIn> <prog over x ++ t>
    withArgs (do let fo ← pRat; let st ← pRats; let d ← pRat; let fi ← pRat; let t0 ← pRats; let di ← pRat; let pr ← pProg
                 pure (fo, st, d, fi, t0, di, pr)) args
      fun (fo, st, d, fi, t0, di, pr) =>
        let g : Pt → Rat := fun x => (evalRPN rndD pr x).getD 0
        -- defined iff the inner run returns and every inner evaluation of the program is defined
        let fdef : Pt → Option Rat := fun x =>
          match nelderMeadDelta rndD (fun t => g (x ++ t)) fi t0 di (NMAX + 2) with
          | some (.ok _ fmin _ _, tr) => if tr.all (fun e => (evalRPN rndD pr (x ++ e.1)).isSome) then some fmin else none
          | _ => none
        showN (nelderMeadNested rndD g fo st d fi t0 di (NMAX + 2)) fdef
  | "c11.rnd" => withArgs pRat args fun x => "ok " ++ showQ (rndD x)
  | _ => none

def main : IO Unit := driverMain handle
