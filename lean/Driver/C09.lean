import LpModel.DriverLib
import LpModel.C08
open Lp Lp.Interp Lp.C09 Lp.C08

instance : SqrtFn := Lp.C08.driverSqrt

/-- op tokens: `I x` `D x k` `G a b` `m a b` `M a b` `gm` `gM` `L x` `P p` `X p` `C` -/
def pOp : P Op := do
  let t ← tok
  match t with
  | "I" => do let x ← pRat; pure (.interp x)
  | "Io" => do let x ← pRat; pure (.interp x)        -- operator() is Interpolate
  -- self-assignment, move construction + move assignment back: the object keeps every member (`copy` of the model);
  -- Save_Function(file, n) calls Interpolate at n points of the domain and discards the values: by `history_independent`
  -- the search state it leaves cannot be observed, the model keeps the object
  | "Cs" => pure .copy
  | "Cm" => pure .copy
  | "Sv" => do let _ ← pNat; pure .copy
  | "D" => do let x ← pRat; let k ← pNat; pure (.deriv x k)
  | "G" => do let a ← pRat; let b ← pRat; pure (.integ a b)
  | "m" => do let a ← pRat; let b ← pRat; pure (.locmin a b)
  | "M" => do let a ← pRat; let b ← pRat; pure (.locmax a b)
  | "gm" => pure .globmin
  | "gM" => pure .globmax
  | "L" => do let x ← pRat; pure (.locate x)
  | "P" => do let p ← pRat; pure (.setpref p)
  | "X" => do let p ← pRat; pure (.mult p)
  | "C" => pure .copy
  | _ => failure

def pOp2 : P Op2 := do
  let t ← tok
  match t with
  | "I" => do let x ← pRat; let y ← pRat; pure (.interp x y)
  | "Io" => do let x ← pRat; let y ← pRat; pure (.interp x y)
  | "Cs" => pure .copy
  | "Cm" => pure .copy
  | "Sv" => do let _ ← pNat; pure .copy
  | "gm" => pure .globmin
  | "gM" => pure .globmax
  | "P" => do let p ← pRat; pure (.setpref p)
  | "X" => do let p ← pRat; pure (.mult p)
  | "C" => pure .copy
  | "Z" => do let _ ← pNat; let x ← pRat; let y ← pRat; pure (.clobber x y)
  | _ => failure

def pPOp : P POp := do
  let t ← tok
  match t with
  | "N" => do let s ← pNat; let k ← pNat; pure (.make s k)
  | "K" => do let i ← pNat; let j ← pNat; pure (.copyConstruct i j)
  | "A" => do let i ← pNat; let j ← pNat; pure (.copyAssign i j)
  | "X" => do let s ← pNat; pure (.destroy s)
  | "Q" => do let s ← pNat; let op ← pOp; pure (.call s op)
  | "R" => do let _ ← pNat; let s ← pNat; let t ← pNat; let xo ← pRat; let xn ← pRat; pure (.rebuild s t xo xn)
  | _ => failure

def showAns (a : Ans) (md : String) (sc : Rat) : String :=
  match a with
  | .idx j => "L " ++ toString j ++ " " ++ md
  | .val v => "V " ++ md ++ " " ++ showRat v ++ " " ++ showRat sc
  | .unit => "U"

/-- thread the object through the calls with `step`, printing per call the answer class,
    the index for `Locate`, and (coverage only) the search the first look-up used -/
def trace (o : Obj) (ops : List Op) : Option String := Id.run do
  let mut o := o
  let mut out : Array String := #[]
  for op in ops do
    let md := match op.firstAbscissa with
      | some v => mode o v
      | none => "-"
    let sc := scaleOf o op
    match step o op with
    | .error _ => return none
    | .ok (a, o') =>
      o := o'
      out := out.push (showAns a md sc)
  return some (" ".intercalate out.toList)

/-- the pool of objects: `none` = diagnostic, `some none` = request outside the model -/
def tracePool (tables : Array (List Rat × List Rat)) (nslots : Nat) (ops : List POp) : Option (Option String) := Id.run do
  let mut pool : Pool := Array.replicate nslots none
  let mut out : Array String := #[]
  for op in ops do
    let (md, sc) := match op with
      | .call s q => match pool.getD s none with
        | some o => ((match q.firstAbscissa with | some v => mode o v | none => "-"), scaleOf o q)
        | none => ("-", 0)
      | .rebuild _ t _ xn => match tables[t]? with
        | some (xs, ys) => match mk xs ys (-1) (-1) with
          | .ok o => (mode o xn, scaleOf o (.interp xn))
          | .error _ => ("-", 0)
        | none => ("-", 0)
      | _ => ("-", 0)
    match poolStep tables pool op with
    | .error .diag => return some none
    | .error .invalid => return none
    | .ok (a, pool') =>
      pool := pool'
      out := out.push (showAns a md sc)
  return some (some (" ".intercalate out.toList))

def trace2 (o : Obj2) (ops : List Op2) : Option String := Id.run do
  let mut o := o
  let mut out : Array String := #[]
  for op in ops do
    let md := match op with
      | .interp x y => mode o.ox x ++ mode o.oy y
      | .clobber x y => mode o.ox x ++ mode o.oy y
      | _ => "-"
    let sc := match op with
      | .clobber x y => scaleOf2 o (.interp x y)
      | _ => scaleOf2 o op
    match step2 o op with
    | .error _ => return none
    | .ok (a, o') =>
      o := o'
      out := out.push (showAns a md sc)
  return some (" ".intercalate out.toList)

def handle : Handler := fun op args =>
  match op with
  -- c09.hist <xs> <ys> <n> op… <m> finalop…   (final queries are threaded after the history)
  | "c09.hist" => withArgs (do let xs ← pRats; let ys ← pRats; let xd ← pRat; let fd ← pRat; let h ← pList pOp; let q ← pList pOp; pure (xs, ys, xd, fd, h, q)) args
      fun (xs, ys, xd, fd, h, q) =>
      match mk xs ys xd fd with
      | .error _ => "err"
      | .ok o =>
        match trace o (h ++ q) with
        | some s => "ok " ++ s
        | none => "err"
  -- a single look-up from an explicitly given search state (jLast ≤ N-2 required)
  | "c09.locate1" => withArgs (do let xs ← pRats; let jl ← pNat; let c ← pNat; let v ← pRat; pure (xs, jl, c, v)) args
      fun (xs, jl, c, v) =>
      if xs.length < 3 ∨ !strictlyIncreasing xs ∨ jl + 2 > xs.length then "undef" else
      let x := fun i => xs.toArray.getD i 0
      match locate xs.length x { jLast := jl, corr := c ≠ 0 } v with
      | .ok (j, st) => "ok " ++ toString j ++ " " ++ toString st.jLast ++ " " ++ (if st.corr then "1" else "0")
      | .error _ => "err"
  | "c09.hist2" => withArgs (do
        let xs ← pRats; let ys ← pRats; let f ← pList pRats; let xd ← pRat; let yd ← pRat; let fd ← pRat
        let h ← pList pOp2; let q ← pList pOp2
        pure (xs, ys, f, xd, yd, fd, h, q)) args
      fun (xs, ys, f, xd, yd, fd, h, q) =>
      match mk2 xs ys f xd yd fd with
      | .error _ => "err"
      | .ok o =>
        match trace2 o (h ++ q) with
        | some s => "ok " ++ s
        | none => "err"
  -- c09.pool <ntables> (<xs> <ys>)… <nslots> <n> pop…
  | "c09.pool" => withArgs (do
        let tb ← pList (do let xs ← pRats; let ys ← pRats; pure (xs, ys))
        let ns ← pNat; let ops ← pList pPOp
        pure (tb, ns, ops)) args
      fun (tb, ns, ops) =>
      match tracePool tb.toArray ns ops with
      | some (some s) => "ok " ++ s
      | some none => "err"
      | none => "undef"
  | _ => none

def main : IO Unit := driverMain handle
