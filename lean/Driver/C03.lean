import LpModel.DriverLib
import LpModel.C03
open Lp Lp.C03

/-- integrand description shared with the harness -/
inductive Fn where
  | poly (cs : List Rat)
  | rat (p q : List Rat)

def Fn.eval : Fn → Rat → Rat
  | .poly cs, x => polyEval cs x
  | .rat p q, x => polyEval p x / polyEval q x

/-- magnitude against which the rounding error of one floating-point evaluation is measured -/
def Fn.mag : Fn → Rat → Rat
  | .poly cs, x => polyAbs cs x
  | .rat p q, x =>
    let d := rabs (polyEval q x)
    if d = 0 then 0 else
    let r := polyAbs q x / d
    polyAbs p x / d * (1 + r)

def Fn.pole : Fn → Rat → Bool
  | .poly _, _ => false
  | .rat _ q, x => polyEval q x = 0

def pFn : P Fn := do
  let k ← tok
  if k = "poly" then do let cs ← pRats; pure (.poly cs)
  else if k = "rat" then do let p ← pRats; let q ← pRats; pure (.rat p q)
  else failure

def ratMin (l : List Rat) (d : Rat) : Rat := l.foldl rmin d
def ratMax (l : List Rat) (d : Rat) : Rat := l.foldl rmax d

/-- relative margin of the acceptance decision of one invocation -/
def panelMargin (fn : Fn) (p : Panel) : Rat :=
  let c := (p.a + p.b) / 2
  let d := (p.a + c) / 2
  let e := (p.b + c) / 2
  let m := ratMax [fn.mag p.b, fn.mag c, fn.mag d, fn.mag e] (fn.mag p.a)
  let den := rabs (p.b - p.a) * m + rabs p.S + rabs p.S2
  let num := rabs (rabs (p.S2 - p.S) - K.accFactor * p.eps)
  if den = 0 then (if num = 0 then 0 else 1) else num / den

/-- the model's answer for one outer call -/
def answer (tr : Nat) (fn : Fn) (a b eps : Rat) (d : Int) : String :=
  let r := integrate fn.eval a b eps d
  if r.evals.any fn.pole then "undef" else
  let dec := r.panels.filter (fun p => p.bottom > 0)
  let cut := r.panels.filter (fun p => p.bottom = 0)
  let margin := ratMin (dec.map (panelMargin fn)) 1
  let wmargin := ratMin (cut.map (panelMargin fn)) 1
  let scale := rabs (b - a) * ratMax (r.evals.map fn.mag) 0
  let sumx := r.evals.foldl (· + ·) 0
  "ok " ++ showRat r.val ++ " " ++ (if r.warn then "1" else "0") ++ " " ++ toString r.evals.length ++ " "
    ++ showRat sumx ++ " " ++ showRat margin ++ " " ++ showRat wmargin ++ " " ++ showRat scale
    ++ (if tr = 1 then " " ++ showRats r.evals else "")

def handle : Handler := fun op args =>
  match op with
  | "c03.int" =>
    withArgs (do let tr ← pNat; let fn ← pFn; let a ← pRat; let b ← pRat; let eps ← pRat; let d ← pInt
                 pure (tr, fn, a, b, eps, d)) args fun (tr, fn, a, b, eps, d) => answer tr fn a b eps d
  -- nested: the outer integrand also runs an inner Integrate (own integrand, limits, eps, depth) and discards
  -- it.  By `integrate_nested_independent` the model of the outer call is the model of the plain call: the inner
  -- request is parsed (it must be well-formed) and ignored.
  | "c03.nested" =>
    withArgs (do let tr ← pNat; let fn ← pFn; let a ← pRat; let b ← pRat; let eps ← pRat; let d ← pInt
                 let _ifn ← pFn; let _ia ← pRat; let _ib ← pRat; let _ie ← pRat; let _id ← pInt
                 pure (tr, fn, a, b, eps, d)) args fun (tr, fn, a, b, eps, d) => answer tr fn a b eps d
  -- history: Find_Epsilon(g, lo, hi, precision) precedes the Integrate call; by `integrate_after_findEpsilon` the model of
  -- the Integrate call is the model of the plain call: the Find_Epsilon part is parsed and ignored.
  | "c03.hist" =>
    withArgs (do let tr ← pNat; let fn ← pFn; let a ← pRat; let b ← pRat; let eps ← pRat; let d ← pInt
                 let _g ← pFn; let _p ← pRat
                 pure (tr, fn, a, b, eps, d)) args fun (tr, fn, a, b, eps, d) => answer tr fn a b eps d
  | "c03.histf" => some "undef"
  -- transcendental / arbitrary integrands: decided by the oracle on the implementation only
  | "c03.fam" => some "undef"
  | "c03.nestedf" => some "undef"
  | _ => none

def main : IO Unit := driverMain handle
