import LpModel.DriverLib
import LpModel.C17
open Lp Lp.C17 Lp.Dec

/-! A rational `exp` for the driver only (validated against mpmath on the comparison side, never
    used in a theorem): halve the argument 8 times, 40 Taylor terms, square back, rounding to 2^-260. -/
def rnd : Rat → Rat := rndK 260

def expTaylor (t : Rat) : Rat := Id.run do
  let mut term : Rat := 1
  let mut s : Rat := 1
  for k in [1:41] do
    term := rnd (term * t / (k : Rat))
    s := s + term
  return s

def expApprox (t : Rat) : Rat := Id.run do
  let mut v := expTaylor (t / 256)
  for _ in [0:8] do
    v := rnd (v * v)
  return v

/-- `2/sqrt(pi)` to 60 digits -/
def twoOverSqrtPi : Rat := 1128379167095512573896158903121545171688101258657997713688171 / (10 : Rat) ^ 60

def showCoef (c : Coef) : String := showRat c.re ++ " " ++ showRat c.im ++ " " ++ showRat c.q

def outR (r : Except Err Rat) : String := match r with | .ok v => "ok " ++ showRat v | .error _ => "err"

def handle : Handler := fun op args =>
  match op with
  | "c17.sign1" => withArgs pRat args fun x => "ok " ++ toString (sign1 x)
  | "c17.sign2" => withArgs (do let x ← pRat; let y ← pRat; pure (x, y)) args fun (x, y) => "ok " ++ showRat (sign2 x y)
  | "c17.step" => withArgs pRat args fun x => "ok " ++ showRat (step x)
  | "c17.reldiff" => withArgs (do let x ← pRat; let y ← pRat; pure (x, y)) args fun (x, y) => "ok " ++ showRat (relDiff x y)
  | "c17.feq" => withArgs (do let x ← pRat; let y ← pRat; let t ← pRat; pure (x, y, t)) args fun (x, y, t) =>
      "ok " ++ (if floatsEqual x y t then "1" else "0") ++ " " ++ showRat (relDiff x y)
  | "c17.round" => withArgs (do let x ← pRat; let d ← pNat; pure (x, d)) args fun (x, d) =>
      outR (round x d)
  | "c17.roundV" => withArgs (do let x ← pRats; let d ← pNat; pure (x, d)) args fun (xs, d) =>
      if (d = 0 ∨ d > 7) ∧ !xs.isEmpty then "err" else
        "ok " ++ toString xs.length ++ " " ++ showRats (xs.map fun x => match round x d with | .ok v => v | .error _ => 0)
  | "c17.dawson" => withArgs pRat args fun x =>
      "ok " ++ (if rabs x < 2 / 10 then "small " else "large ") ++ showRat (if rabs x < 2 / 10 then dawson expApprox x else rnd (dawson expApprox x))
  | "c17.erfi" => withArgs pRat args fun x => "ok " ++ showRat (if rabs x < 2 / 10 then erfi expApprox twoOverSqrtPi x else rnd (erfi expApprox twoOverSqrtPi x))
  | "c17.inverf" => withArgs pRat args fun p =>
      match invErfCase p with
      | .ten => "ok ten"
      | .minusTen => "ok minusten"
      | .diag => "err"
      | .root => "ok root"
  | "c17.vshy" => withArgs (do let c ← pInt; let l ← pInt; let m ← pInt; let lh ← pInt; let mh ← pInt; pure (c, l, m, lh, mh)) args
      fun (c, l, m, lh, mh) => match vshY c l m lh mh with | .ok k => "ok " ++ showCoef k | .error _ => "err"
  | "c17.vshpsi" => withArgs (do let c ← pInt; let l ← pInt; let m ← pInt; let lh ← pInt; let mh ← pInt; pure (c, l, m, lh, mh)) args
      fun (c, l, m, lh, mh) => match vshPsi c l m lh mh with | .ok k => "ok " ++ showCoef k | .error _ => "err"
  | "c17.vshsum" => withArgs (do let l ← pInt; let m ← pInt; pure (l, m)) args fun (l, m) =>
      let i := vshInner l m
      "ok " ++ showRat (vshNormSq vshY l m) ++ " " ++ showRat (vshNormSq vshPsi l m) ++ " " ++ showRat i.1 ++ " " ++ showRat i.2
  -- point-wise harmonics: Boost and the summation are not modelled; the comparison side uses the
  -- model's coefficient tables (c17.vshy / c17.vshpsi) and an independent reference
  -- dense scans of the accuracy clauses: decided on the comparison side against the reference only
  -- class D (self-differential, justified by `history_independent` / `premain_independent`): the implementation is
  -- compared with itself (before main() vs from main(); results held simultaneously vs copied)
  -- dense scan of the bitwise laws of Round next to carries (decided on the implementation's own output)
  | "c17.roundscan" => withArgs (do let d ← pNat; let e ← pInt; let n ← pNat; let o ← pRat; let s ← pInt; pure (d, e, n, o, s)) args fun _ => "ok -"
  | "c17.vshseq" => withArgs (do let r ← pList (do let k ← tok; let l ← pInt; let m ← pInt; let t ← pRat; let p ← pRat; pure (k, l, m, t, p)); pure r) args fun _ => "ok -"
  | "c17.premain" => withArgs (pure ()) args fun _ => "ok -"
  | "c17.vshhold" => withArgs (do let k ← tok; let r ← pMany (do let l ← pInt; let m ← pInt; let t ← pRat; let p ← pRat; pure (l, m, t, p)) 3; pure (k, r)) args fun _ => "ok -"
  | "c17.inverfscan" => withArgs (do let sg ← pInt; let a ← pRat; let b ← pRat; let st ← pRat; let o ← pRat; pure (sg, a, b, st, o)) args fun _ => "ok -"
  | "c17.dawscan" => withArgs (do let sg ← pInt; let a ← pRat; let b ← pRat; let n ← pNat; let o ← pRat; pure (sg, a, b, n, o)) args fun _ => "ok -"
  | "c17.sph" => withArgs (do let l ← pInt; let m ← pInt; let t ← pRat; let p ← pRat; pure (l, m, t, p)) args fun _ => "ok -"
  | "c17.vshY" => withArgs (do let l ← pInt; let m ← pInt; let t ← pRat; let p ← pRat; pure (l, m, t, p)) args fun _ => "ok -"
  | "c17.vshPsi" => withArgs (do let l ← pInt; let m ← pInt; let t ← pRat; let p ← pRat; pure (l, m, t, p)) args fun _ => "ok -"
  | _ => none

def main : IO Unit := driverMain handle
