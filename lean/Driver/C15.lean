import LpModel.DriverLib
import LpModel.C15
open Lp Lp.C15

def sqD : Rat → Rat := sqApprox 256
def rndD : Rat → Rat := rndK 256

/-- `n` then `n*n` entries, row major -/
def pSq : P (Nat × Mat) := do
  let n ← pNat
  let e ← pMany pRat (n * n)
  pure (n, tab n fun i j => e.getD (i * n + j) 0)

/-- The driver's rounding `rndK 256` is absolute (multiples of 2^-256) while the C++ rounds relatively; so the
    driver first scales the matrix by the power of two of its largest entry (exact), runs the model and scales
    the results back (`R`, eigenvalues by `p`; `Q`, reflectors unchanged): QR and the iteration are exactly
    scale-equivariant, and matrices of any decade (1e-300 … 1e300) are then modelled to the same relative precision. -/
def scalePow (n : Nat) (A : Mat) : Rat :=
  let big := (List.range n).foldl (fun m i => (List.range n).foldl (fun m j => rmax m (rabs (get A i j))) m) 0
  if big = 0 then 1
  else
    let e0 : Int := (Nat.log2 big.num.toNat : Int) - (Nat.log2 big.den : Int)
    pow2 e0

def scaled (n : Nat) (A : Mat) (p : Rat) : Mat := tab n fun i j => get A i j / p

def showMat (n : Nat) (A : Mat) : String :=
  showRats ((List.range n).flatMap fun i => (List.range n).map fun j => get A i j)

/-
  Requests:
    c15.householder n a11 … ann      -> ok <n² entries of the reflector>             | undef (zero first column)
    c15.qr          n a11 … ann      -> ok <n² entries of Q> <n² entries of R>       | undef (zero pivot column: NaN in the C++)
    c15.spectrum    n a11 … ann      -> (Eigenvalues; the op name must not start with `c15.eigenv`, the prefix of the
                                         known finding for Eigenvectors)  ok n λ1 … λn steps                           | err (no convergence in 200 steps) | undef
    c15.eigensystem / c15.eigenvectors n a11 … ann -> undef
        (inverse iteration with the converged eigenvalue as shift inverts a matrix that is singular up
         to rounding: what the C++ does there is decided by rounding errors, which the exact model does
         not have — these requests are judged by the property oracle on the implementation only)
    c15.rayleigh n a11 … ann  ev fuel -> the exact-arithmetic model of Find_Eigenvector_Rayleigh (not compared)
-/
def handle : Handler := fun op args =>
  match op with
  | "c15.householder" => withArgs pSq args fun (n, A) =>
      if n = 0 then "undef" else
      match householder sqD rndD n (scaled n A (scalePow n A)) with
      | some H => "ok " ++ showMat n H
      | none => "undef"
  | "c15.qr" => withArgs pSq args fun (n, A) =>
      if n = 0 then "undef" else
      let p := scalePow n A
      match qrDecomposition sqD rndD n (scaled n A p) with
      | some (Q, R) => "ok " ++ showMat n Q ++ " " ++ showMat n (tab n fun i j => get R i j * p)
      | none => "undef"
  | "c15.spectrum" => withArgs pSq args fun (n, A) =>
      if n = 0 then "undef" else
      let p := scalePow n A
      match eigenvalues sqD rndD n (scaled n A p) with
      | .ok l steps => "ok " ++ toString l.length ++ " " ++ showRats (l.map (· * p)) ++ " " ++ toString steps
      | .noconv => "err"
      | .nan => "undef"
  | "c15.eigensystem" => withArgs pSq args fun _ => "undef"
  | "c15.eigenvectors" => withArgs pSq args fun _ => "undef"
  | "c15.rayleigh" => withArgs (do let m ← pSq; let ev ← pRat; let f ← pNat; pure (m, ev, f)) args fun ((n, A), ev, f) =>
      match findEigenvectorRayleigh sqD inverseExact n A ev f with
      | .ok b l it => "ok " ++ showRats b ++ " " ++ showRat l ++ " " ++ toString it
      | .err => "err"
      | .fuel => "nonterm"
  | _ => none

def main : IO Unit := driverMain handle
