import LpModel.DriverLib
import LpModel.C12
open Lp Lp.C12

/-! Driver of C12.  The Newton iteration of the model is run in rounded rational arithmetic
    (`rndK 200`: every stage rounded to a multiple of 2⁻²⁰⁰); `cos(π q)` is a Taylor polynomial with a
    100-digit rational value of π — validated (op `c12.selftest`), not verified. -/

def piQ : Rat :=
  mkRat 31415926535897932384626433832795028841971693993751058209749445923078164062862089986280348253421170679
        (10 ^ 100)

def rnd : Rat → Rat := rndK 200

/-- Taylor polynomial of cos at 0, `terms` terms, every partial result rounded -/
def cosTaylor (x : Rat) (terms : Nat) : Rat :=
  let x2 := rnd (x * x)
  let (s, _) := (List.range terms).foldl (fun (acc : Rat × Rat) k =>
      let (s, t) := acc
      let s' := s + t
      -- next term: t * (-x²) / ((2k+1)(2k+2))
      let t' := rnd (-(t * x2) / ((((2 * k + 1) * (2 * k + 2) : Nat) : Rat)))
      (s', t')) ((0 : Rat), (1 : Rat))
  rnd s

/-- `cos(π q)` for `0 ≤ q ≤ 1` (the guesses use `0 < q ≤ 1/2`); exactly 0 at `q = 1/2` -/
def cospiD (q : Rat) : Rat :=
  if q = 1 / 2 then 0
  else if q > 1 / 2 then -(cosTaylor (rnd (piQ * (1 - q))) 60)
  else cosTaylor (rnd (piQ * q)) 60

def epsQ : Rat := 1 / (10 : Rat) ^ 14
def fuelN : Nat := 100

def showPairs (l : List (Rat × Rat)) : String :=
  " ".intercalate (l.map (fun p => showRat p.1 ++ " " ++ showRat p.2))

/-- polynomial with coefficients `c` (ascending), Horner -/
def polyEval (c : List Rat) (x : Rat) : Rat := c.foldr (fun a acc => a + x * acc) 0

def pPairs : P (List (Rat × Rat)) := pList (do let x ← pRat; let w ← pRat; pure (x, w))

/-- roots for selected indices only (`i < m`), as functions for `glTable` -/
def rootsFor (n : Nat) (idx : List Nat) : Option (List (Nat × Rat × Rat)) :=
  idx.mapM (fun i =>
    match newtonRootPP rnd epsQ n fuelN (cospiD (guessArg n i)) with
    | some (z, pp) => some (i, z, pp)
    | none => none)

def handle : Handler := fun op args =>
  match op with
  | "c12.rule" => withArgs (do let n ← pNat; let a ← pRat; let b ← pRat; pure (n, a, b)) args fun (n, a, b) =>
      match glRule rnd cospiD epsQ fuelN n a b with
      | some l => "ok " ++ toString l.length ++ " " ++ showPairs l
      | none => "undef"
  | "c12.sel" => withArgs (do let n ← pNat; let a ← pRat; let b ← pRat; let idx ← pList pNat; pure (n, a, b, idx)) args
      fun (n, a, b, idx) =>
      if idx.any (fun k => k ≥ n) then "undef" else
      -- the table entry k depends only on root min(k, n-1-k)
      let need := (idx.map (fun k => if k < half n then k else n - 1 - k)).eraseDups
      match rootsFor n need with
      | none => "undef"
      | some rs =>
        let look (i : Nat) : Rat × Rat := match rs.find? (fun r => r.1 = i) with
          | some r => r.2
          | none => (0, 0)
        let z := fun i => (look i).1
        let pp := fun i => (look i).2
        -- entries of the table at the requested indices: evaluate the assignments of the passes
        -- that write index k (pass k if k < m, pass n-1-k if n-1-k < m), in order.  By
        -- `Lp.C12.glTable_closed` (LpProofs/C12/Lemmas.lean) entry k of the full table depends on
        -- root `rootIdx n k` only, so this equals `glTable n a b z pp k` without computing all roots.
        let entry (k : Nat) : Rat × Rat :=
          let passes := ((if k < half n then [k] else []) ++ (if n - 1 - k < half n ∧ n - 1 - k ≠ k then [n - 1 - k] else []))
          let passes := passes.mergeSort (fun x y => decide (x ≤ y))
          (passes.foldl (fun s t => assignStep n a b z pp s t) (fun _ => ((0 : Rat), (0 : Rat)))) k
        "ok " ++ toString idx.length ++ " " ++ showPairs (idx.map entry)
  | "c12.seq" => withArgs (pList (do let n ← pNat; let a ← pRat; let b ← pRat; pure (n, a, b))) args fun reqs =>
      let rs := glSeq rnd cospiD epsQ fuelN reqs
      if rs.any Option.isNone then "undef" else
      "ok " ++ toString rs.length ++ " " ++ " ".intercalate (rs.map (fun r =>
        match r with
        | some l => toString l.length ++ " " ++ showPairs l
        | none => "0"))
  | "c12.iseq" => withArgs (do let c ← pRats; let reqs ← pList (do let n ← pNat; let a ← pRat; let b ← pRat; pure (n, a, b)); pure (c, reqs)) args
      fun (c, reqs) =>
      -- roots per distinct order, then the model's `integSeq`
      let orders := (reqs.map (·.1)).eraseDups
      let tabs := orders.map (fun n => (n, glRoots rnd cospiD epsQ fuelN n))
      if tabs.any (fun t => t.2.isNone) then "undef" else
      let zs (n : Nat) : List (Rat × Rat) := match tabs.find? (fun t => t.1 = n) with
        | some (_, some l) => l
        | _ => []
      let rs := integSeq (polyEval c) (fun n i => ((zs n).getD i (0, 0)).1) (fun n i => ((zs n).getD i (0, 0)).2) reqs
      if rs.any (fun r => match r with | .ok _ => false | .error _ => true) then "err" else
      "ok " ++ toString rs.length ++ " " ++ " ".intercalate (rs.map (fun r => match r with | .ok v => showRat v | .error _ => "0/1"))
  | "c12.reent" => withArgs (do
        let nO ← pNat; let nI ← pNat; let a ← pRat; let b ← pRat
        let l0 ← pRat; let l1 ← pRat; let h0 ← pRat; let h1 ← pRat
        let ts ← pList (do let c ← pRat; let i ← pNat; let j ← pNat; pure (c, i, j))
        pure (nO, nI, a, b, l0, l1, h0, h1, ts)) args
      fun (nO, nI, a, b, l0, l1, h0, h1, ts) =>
      match glRoots rnd cospiD epsQ fuelN nO, glRoots rnd cospiD epsQ fuelN nI with
      | some zo, some zi =>
        let tab (n : Nat) : List (Rat × Rat) := if n = nO then zo else zi
        let g := fun (x y : Rat) => ts.foldl (fun acc (t : Rat × Nat × Nat) => acc + t.1 * x ^ t.2.1 * y ^ t.2.2) 0
        match nestedGL g (fun x => l0 + l1 * x) (fun x => h0 + h1 * x) a b nO nI
                (fun n i => ((tab n).getD i (0, 0)).1) (fun n i => ((tab n).getD i (0, 0)).2) with
        | .ok v => "ok " ++ showRat v
        | .error _ => "err"
      | _, _ => "undef"
  | "c12.rev" => withArgs (do let n ← pNat; let _ ← pRat; let _ ← pRat; pure n) args fun _ => "ok"
  | "c12.rowsvals" => withArgs (do let v ← pRats; let rows ← pList pRats; pure (v, rows)) args fun (v, rows) =>
      match integrateGLvalsRows v rows with
      | .ok r => "ok " ++ showRat r
      | .error _ => "err"
  | "c12.rowsfunc" => withArgs (do let c ← pRats; let rows ← pList pRats; pure (c, rows)) args fun (c, rows) =>
      match integrateGLruleRows (polyEval c) rows with
      | .ok r => "ok " ++ showRat r
      | .error _ => "err"
  | "c12.sumvals" => withArgs (do let v ← pRats; let rw ← pPairs; pure (v, rw)) args fun (v, rw) =>
      match integrateGLvals v rw with
      | .ok r => "ok " ++ showRat r
      | .error _ => "err"
  | "c12.sumfunc" => withArgs (do let c ← pRats; let rw ← pPairs; pure (c, rw)) args fun (c, rw) =>
      match integrateGLrule (polyEval c) rw with
      | .ok r => "ok " ++ showRat r
      | .error _ => "err"
  | "c12.integ" => withArgs (do let c ← pRats; let a ← pRat; let b ← pRat; let n ← pNat; pure (c, a, b, n)) args
      fun (c, a, b, n) =>
      match glRoots rnd cospiD epsQ fuelN n with
      | none => "undef"
      | some zs =>
        match integrateGL (polyEval c) a b n (fun i => (zs.getD i (0, 0)).1) (fun i => (zs.getD i (0, 0)).2) with
        | .ok r => "ok " ++ showRat r
        | .error _ => "err"
  | "c12.selftest" => withArgs (pure ()) args fun _ =>
      -- cos(π/3) - 1/2, cos(π/4)² - 1/2, cos(π·0) - 1, cos(π/6)² - 3/4, cos(2π/3) + 1/2
      let c3 := cospiD (1 / 3) - 1 / 2
      let c4 := cospiD (1 / 4) * cospiD (1 / 4) - 1 / 2
      let c0 := cospiD 0 - 1
      let c6 := cospiD (1 / 6) * cospiD (1 / 6) - 3 / 4
      let c23 := cospiD (2 / 3) + 1 / 2
      "ok " ++ showRats [c3, c4, c0, c6, c23]
  | _ => none

def main : IO Unit := driverMain handle
