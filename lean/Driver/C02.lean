import LpModel.DriverLib
import LpModel.C02
open Lp Lp.C02

def polyEval (cs : List Rat) (x : Rat) : Rat := cs.foldr (fun c acc => c + x * acc) 0
def polyAbs (cs : List Rat) (x : Rat) : Rat := polyEval (cs.map rabs) (rabs x)

/-- function description shared with the harness -/
inductive Fn where
  | poly (cs : List Rat)
  | rat (p q : List Rat)
  | powc (p : Int) (c : Rat)        -- x^p - c
  | sat (s c : Rat)                 -- (x-s)/(1+|x-s|) - c
  | plat (k : Nat) (d : Rat)        -- 1/(1+x^2)^k - d
  | scale (c : Rat) (g : Fn)        -- c * g(x)
  | at (t : Rat) (v : Option Rat) (g : Fn)   -- the value v (none = NaN) at x = t, g elsewhere
  | nanle (t : Rat) (g : Fn)        -- NaN for x <= t
  | nange (t : Rat) (g : Fn)        -- NaN for x >= t

def Fn.eval : Fn → Rat → Option Rat
  | .poly cs, x => some (polyEval cs x)
  | .rat p q, x => let d := polyEval q x; if d = 0 then none else some (polyEval p x / d)
  | .powc p c, x => if x = 0 ∧ p < 0 then none else some (x ^ p - c)
  | .sat s c, x => some ((x - s) / (1 + rabs (x - s)) - c)
  | .plat k d, x => some ((1 / (1 + x * x)) ^ k - d)
  | .scale c g, x => (g.eval x).map (c * ·)
  | .at t v g, x => if x = t then v else g.eval x
  | .nanle t g, x => if x ≤ t then none else g.eval x
  | .nange t g, x => if x ≥ t then none else g.eval x

/-- magnitude against which the rounding error of one floating-point evaluation is measured -/
def Fn.mag : Fn → Rat → Rat
  | .poly cs, x => polyAbs cs x
  | .rat p q, x =>
    let d := rabs (polyEval q x)
    if d = 0 then 0 else polyAbs p x / d * (1 + polyAbs q x / d)
  | .powc p c, x => rabs (x ^ p) * (1 + rabs (p : Rat)) + rabs c
  | .sat s c, x => (rabs x + rabs s) / (1 + rabs (x - s)) + rabs c
  | .plat k d, x => (1 / (1 + x * x)) ^ k * (2 + (k : Rat)) + rabs d
  -- a product that lands in the subnormal range carries an absolute error of 2^-1075 = 2^-53 * 2^-1022
  | .scale c g, x => rabs c * g.mag x + pow2 (-1022)
  | .at t v g, x => if x = t then rabs (v.getD 0) else g.mag x
  | .nanle _ g, x => g.mag x
  | .nange _ g, x => g.mag x

partial def pFn : P Fn := do
  let k ← tok
  if k = "poly" then do let cs ← pRats; pure (.poly cs)
  else if k = "rat" then do let p ← pRats; let q ← pRats; pure (.rat p q)
  else if k = "powc" then do let p ← pInt; let c ← pRat; pure (.powc p c)
  else if k = "plat" then do let p ← pNat; let c ← pRat; pure (.plat p c)
  else if k = "sat" then do let s ← pRat; let c ← pRat; pure (.sat s c)
  else if k = "scale" then do let c ← pRat; let g ← pFn; pure (.scale c g)
  else if k = "at" then do
    let t ← pRat
    let vt ← tok
    let v ← (if vt = "nan" then pure none else match parseRat vt with | some r => pure (some r) | none => failure : P (Option Rat))
    let g ← pFn
    pure (.at t v g)
  else if k = "nanle" then do let t ← pRat; let g ← pFn; pure (.nanle t g)
  else if k = "nange" then do let t ← pRat; let g ← pFn; pure (.nange t g)
  else failure

def relm (fn : Fn) (x : Rat) (v : Rat) : Rat :=
  let m := fn.mag x
  if m = 0 then (if v = 0 then 0 else 1) else rabs v / m

def ratMin (l : List Rat) (d : Rat) : Rat := l.foldl rmin d

/-- decision margin of one iteration: smallest relative size of a function value whose sign is
    tested, and the relative distance of the new bracket's width from the accuracy -/
def iterMargin (fn : Fn) (rnd : Rat → Rat) (acc : Rat) (h : Head) : Rat :=
  let x3 := (h.x1 + h.x2) / 2
  match fn.eval x3 with
  | none => 0
  | some f3 =>
    let x4 := clampX4 h.x1 h.x2 (ridderX4 sqrtRat rnd h.x1 h.f1 h.f2 x3 f3)
    match fn.eval x4 with
    | none => 0
    | some f4 =>
      let mf := ratMin [relm fn h.x2 h.f2, relm fn x3 f3, relm fn x4 f4] (relm fn h.x1 h.f1)
      match rebracket h.x1 h.x2 h.f1 h.f2 x3 f3 x4 f4 with
      | none => 0
      | some (y1, y2, _, _) =>
        let den := rabs y1 + rabs y2 + rabs acc
        let mw := if den = 0 then 0 else rabs (rabs (y2 - y1) - acc) / den
        rmin mf mw

/-- round to `bits` significant bits (ties up): keeps 200 iterations bounded at every abscissa scale
    (`Lp.rndK` rounds to an absolute grid, which is garbage for brackets at |x| ~ 1e-200) -/
def rndRel (bits : Nat) (x : Rat) : Rat :=
  if x = 0 then 0 else
  let s : Rat := pow2 ((bits : Int) - frexpExp (rabs x))
  ((x * s + 1 / 2).floor : Rat) / s

def handle : Handler := fun op args =>
  match op with
  | "c02.root" =>
    withArgs (do let fn ← pFn; let xl ← pRat; let xr ← pRat; let acc ← pRat; pure (fn, xl, xr, acc)) args
      fun (fn, xl, xr, acc) =>
      let rnd := rndRel 200
      let r := findRootR fn.eval sqrtRat rnd xl xr acc maxIterations
      let body (kind : String) (v : Rat) : String :=
        "ok " ++ kind ++ " " ++ showRat v ++ " " ++ toString r.evals.length ++ " " ++ showRats r.evals ++ " "
          ++ toString r.heads.length ++ " "
          ++ " ".intercalate (r.heads.map fun h => showRat (iterMargin fn rnd acc h) ++ " " ++ showRat (rabs (h.x2 - h.x1)))
      match r.out with
      | .root v => body "root" v
      | .maxIter v => body "maxiter" v
      | .errNaN => "err"
      | .errNoSignChange => "err"
      | .errStuck => "err"
      | .nanInside => "undef"
  | "c02.sign" => withArgs (do let x ← pRat; let y ← pRat; pure (x, y)) args fun (x, y) => "ok " ++ showRat (sign2 x y)
  -- transcendental functions: decided by the oracle on the implementation only
  | "c02.fam" => some "undef"
  | _ => none

def main : IO Unit := driverMain handle
