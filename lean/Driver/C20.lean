import LpModel.DriverLib
import LpModel.C20
open Lp Lp.C20

/-! byte strings travel hex-encoded (`-` = empty) -/
def hexNib (n : Nat) : Char := if n < 10 then Char.ofNat (48 + n) else Char.ofNat (87 + n)
def encHex (cs : List Char) : String :=
  if cs.isEmpty then "-" else String.ofList (cs.flatMap (fun c => [hexNib (c.toNat / 16), hexNib (c.toNat % 16)]))

def decHexL : List Char → Option (List Char)
  | [] => some []
  | a :: b :: r =>
    match hexDigit? a, hexDigit? b, decHexL r with
    | some x, some y, some t => some (Char.ofNat (16 * x + y) :: t)
    | _, _, _ => none
  | _ => none
def decHex (s : String) : Option (List Char) := if s = "-" then some [] else decHexL s.toList

def pBytes : P (List Char) := do let t ← tok; match decHex t with | some b => pure b | none => failure
def pTable : P (List (List Rat)) := pList pRats
def pBool : P Bool := do let n ← pNat; pure (n != 0)

def showTable (t : List (List Rat)) : String :=
  toString t.length ++ " " ++ " ".intercalate (t.map (fun r => toString r.length ++ (if r.isEmpty then "" else " " ++ showRats r)))

def showList (l : List Rat) : String := toString l.length ++ (if l.isEmpty then "" else " " ++ showRats l)

def outE {α} (r : Except Err α) (k : α → String) : String :=
  match r with
  | .ok a => "ok " ++ k a
  | .error .diag => "err"
  | .error .undef => "undef"

def outR {α} (r : Except C17.Err α) (k : α → String) : String :=
  match r with
  | .ok a => "ok " ++ k a
  | .error _ => "err"

/-- UTF-8 bytes of a character list, hex-encoded (`-` = empty); equals `encHex` on ASCII -/
def encHexU (cs : List Char) : String :=
  if cs.isEmpty then "-" else
  String.ofList ((String.ofList cs).toUTF8.toList.flatMap (fun b => [hexNib (b.toNat / 16), hexNib (b.toNat % 16)]))

/-- hex-encoded UTF-8 text -> characters (invalid UTF-8 is rejected) -/
def pText : P (List Char) := do
  let b ← pBytes
  match String.fromUTF8? (ByteArray.mk (b.map (fun c => c.toNat.toUInt8)).toArray) with
  | some s => pure s.toList
  | none => failure

def allSome {α} : List (Option α) → Option (List α)
  | [] => some []
  | none :: _ => none
  | some a :: r => (allSome r).map (a :: ·)

def rectangular (t : List (List Rat)) : Bool :=
  !t.isEmpty && !(t.headD []).isEmpty && t.all (fun r => r.length = (t.headD []).length)

/-- `Interpolation_2D::Save_Function` of a model object: bytes, then the exact `(x, y, f)` triples -/
def save2Answer (o : Interp.Obj2) (xp yp : Nat) : String :=
  let xlo := o.ox.x 0
  let xhi := o.ox.x (o.ox.N - 1)
  let ylo := o.oy.x 0
  let yhi := o.oy.x (o.oy.N - 1)
  let yp' := if yp = 0 then xp else yp
  let xs := C19.linearSpace xlo xhi xp
  let ys := C19.linearSpace ylo yhi yp'
  match allSome (xs.flatMap (fun x => ys.map (fun y => (interp2Value o x y).map (fun v => [x, y, v])))) with
  | none => "undef"
  | some trip =>
    let f (x y : Rat) : Rat := (interp2Value o x y).getD 0   -- every value is `some` here
    "ok " ++ encHexU (saveFunction2 xlo xhi ylo yhi xp yp f) ++ " " ++ toString trip.length ++ " " ++ showRats trip.flatten

def handle : Handler := fun op args =>
  match op with
  | "c20.fmt" => withArgs pRat args fun x =>
      let s := fmt6 x
      "ok " ++ encHex s ++ " " ++ (match parseDec s with | some v => showRat v | none => "noparse")
  | "c20.lines" => withArgs pBytes args fun b => "ok " ++ toString (countLines b)
  | "c20.rtlist" => withArgs (do let h ← pBytes; let u ← pRat; let xs ← pRats; pure (h, u, xs)) args fun (h, u, xs) =>
      if u = 0 then "undef" else
      let bytes := exportList xs u h
      let nh := headerLineCount h
      outE (importList bytes u nh) fun l => encHex bytes ++ " " ++ toString (countLines bytes) ++ " " ++ showList l
  | "c20.rttable" => withArgs (do let h ← pBytes; let us ← pRats; let t ← pTable; pure (h, us, t)) args fun (h, us, t) =>
      if us.any (· = 0) then "undef" else
      match exportTable t us h with
      | .error .diag => "err"
      | .error .undef => "undef"
      | .ok bytes =>
        let nh := headerLineCount h
        let glue := match exportT t us (headerLinesT h) with
          | .ok f => if glueOK bytes f then "glue1" else "glue0"
          | .error _ => "glue0"
        -- the token-level import must agree with the character-level one
        let tl := match exportT t us (headerLinesT h) with
          | .ok f => (match importT f us nh, importTable bytes us nh with
              | .ok a, .ok b => if a = b then "tl1" else "tl0"
              | .error x, .error y => if x = y then "tl1" else "tl0"
              | _, _ => "tl0")
          | .error _ => "tl0"
        match importTable2 bytes us nh with
        | .ok r => "ok " ++ encHex bytes ++ " " ++ toString (countLines bytes) ++ " " ++ glue ++ " " ++ tl ++ " " ++ showTable r
        | .error .diag => "ok " ++ encHex bytes ++ " " ++ toString (countLines bytes) ++ " " ++ glue ++ " " ++ tl ++ " err"
        | .error .undef => "ok " ++ encHex bytes ++ " " ++ toString (countLines bytes) ++ " " ++ glue ++ " " ++ tl ++ " undef"
  | "c20.expfunc" => withArgs (do let h ← pBytes; let us ← pRats; let xs ← pRats; let c ← pRats; pure (h, us, xs, c)) args
      fun (h, us, xs, c) =>
      if us.any (· = 0) then "undef" else
      -- Horner form c0 + x (c1 + x (c2 + …)) — the harness evaluates the same polynomial
      let f (x : Rat) : Rat := c.foldr (fun ci acc => ci + x * acc) 0
      outE (exportFunction f xs us h) fun b => encHex b
  | "c20.expfuncL" => withArgs (do let h ← pBytes; let us ← pRats; let a ← pRat; let b ← pRat; let n ← pNat; let c ← pRats; pure (h, us, a, b, n, c)) args
      fun (h, us, a, b, n, c) =>
      if us.any (· = 0) then "undef" else
      let f (x : Rat) : Rat := c.foldr (fun ci acc => ci + x * acc) 0
      -- Linear_Space as coded (C19): [min] if steps < 2 or min = max
      let xs : List Rat := if n < 2 ∨ a = b then [a] else
        let step := (b - a) / ((n : Rat) - 1)
        (List.range n).map (fun (i : Nat) => a + (i : Rat) * step)
      outE (exportFunction f xs us h) fun b => encHex b
  -- Export_Function(range overload, linear) + Import_Table with the number of header lines written
  | "c20.rtfuncL" => withArgs (do let h ← pBytes; let us ← pRats; let a ← pRat; let b ← pRat; let n ← pNat; let c ← pRats; pure (h, us, a, b, n, c)) args
      fun (h, us, a, b, n, c) =>
      if us.any (· = 0) then "undef" else
      let f (x : Rat) : Rat := c.foldr (fun ci acc => ci + x * acc) 0
      let xs : List Rat := if n < 2 ∨ a = b then [a] else
        let step := (b - a) / ((n : Rat) - 1)
        (List.range n).map (fun (i : Nat) => a + (i : Rat) * step)
      let nh := headerLineCount h
      match exportFunction f xs us h with
      | .error .diag => "err"
      | .error .undef => "undef"
      | .ok bytes =>
        "ok " ++ encHex bytes ++ " " ++ toString (countLines bytes) ++ " " ++
          (match importTable2 bytes us nh with
           | .ok r => showTable r
           | .error .diag => "err"
           | .error .undef => "undef")
  -- logarithmic spacing (Log_Space: exp/log) is not modelled: decided by the round-trip oracle alone
  | "c20.rtfuncG" => withArgs (do let h ← pBytes; let us ← pRats; let a ← pRat; let b ← pRat; let n ← pNat; let c ← pRats; pure (h, us, a, b, n, c)) args
      fun _ => "ok -"
  -- round trip under a caller-installed global locale (decimal point ','): judged by the VALUES read back only; the model's values
  -- are those of the classic-locale round trip (the file bytes differ, the values do not)
  | "c20.rtloc" => withArgs (do let h ← pBytes; let us ← pRats; let t ← pTable; pure (h, us, t)) args fun (h, us, t) =>
      if us.any (· = 0) then "undef" else
      let nh := if h.isEmpty then 0 else (splitLines h []).length
      match exportTable t us h with
      | .error .diag => "err"
      | .error .undef => "undef"
      | .ok bytes => outE (importTable2 bytes us nh) showTable
  | "c20.rtlocL" => withArgs (do let h ← pBytes; let u ← pRat; let xs ← pRats; pure (h, u, xs)) args fun (h, u, xs) =>
      if u = 0 then "undef" else
      let nh := if h.isEmpty then 0 else (splitLines h []).length
      outE (importList (exportList xs u h) u nh) showList
  | "c20.implist" => withArgs (do let b ← pBytes; let u ← pRat; let k ← pNat; pure (b, u, k)) args fun (b, u, k) =>
      outE (importList b u k) showList
  | "c20.imptable" => withArgs (do let b ← pBytes; let us ← pRats; let k ← pNat; pure (b, us, k)) args fun (b, us, k) =>
      outE (importTable2 b us k) showTable
  -- Import_Table with the repair proposed for audit item P10 (pending in /repo): exact fill or diagnostic, trailing blank lines ignored
  | "c20.imptable2" => withArgs (do let b ← pBytes; let us ← pRats; let k ← pNat; pure (b, us, k)) args fun (b, us, k) =>
      outE (importTable2 b us k) showTable
  | "c20.inunits" => withArgs (do let x ← pRat; let u ← pRat; let r ← pBool; let d ← pNat; pure (x, u, r, d)) args fun (x, u, r, d) =>
      if u = 0 then "undef" else outR (inUnits x u r d) showRat
  | "c20.inunitsL" => withArgs (do let x ← pRats; let u ← pRat; let r ← pBool; let d ← pNat; pure (x, u, r, d)) args fun (x, u, r, d) =>
      if u = 0 then "undef" else outR (inUnitsList x u r d) showList
  | "c20.inunitsV" => withArgs (do let x ← pRats; let u ← pRat; let r ← pBool; let d ← pNat; pure (x, u, r, d)) args fun (x, u, r, d) =>
      if u = 0 then "undef" else outR (inUnitsList x u r d) showList
  | "c20.inunitsT" => withArgs (do let x ← pTable; let u ← pRat; let r ← pBool; let d ← pNat; pure (x, u, r, d)) args fun (x, u, r, d) =>
      if u = 0 then "undef" else outR (inUnitsTable x u r d) showTable
  | "c20.inunitsM" => withArgs (do let x ← pTable; let u ← pRat; let r ← pBool; let d ← pNat; pure (x, u, r, d)) args fun (x, u, r, d) =>
      if u = 0 then "undef" else outR (inUnitsTable x u r d) showTable
  | "c20.inunitsC" => withArgs (do let x ← pTable; let us ← pRats; let r ← pBool; let d ← pNat; pure (x, us, r, d)) args fun (x, us, r, d) =>
      if us.any (· = 0) then "undef" else outR (inUnitsCols x us r d) showTable
  | "c20.unit" => withArgs tok args fun n =>
      if (unitDefs.map (·.1)).contains n then
        "ok " ++ (if isStatic unitDefs n then "static" else "dynamic") ++ " " ++ (valueS unitDefs n).show
      else "undef"
  | "c20.ident" => withArgs pNat args fun i =>
      match derivedIdentities[i]? with
      | some (lhs, rhs) => "ok " ++ lhs ++ " " ++ rhs.show
      | none => "undef"
  | "c20.units" => withArgs (pure ()) args fun _ =>
      "ok " ++ toString unitDefs.length ++ " " ++ (if wellOrdered unitDefs then "wo1" else "wo0") ++ " "
        ++ (if derivedOK unitDefs then "id1" else "id0") ++ " " ++ " ".intercalate (unitDefs.map (·.1))
  -- coverage extension: Time_Display, Reduced_Mass, Formatted_String, Check_For_Warning, File_Exists, operator<<, Save_Function
  | "c20.timedisp" => withArgs pRat args fun x =>
      match timeDisplay? x with
      | some s => "ok " ++ encHexU s ++ " " ++ showInts (timeSplit timeRatios x).1
      | none => "undef"
  | "c20.redmass" => withArgs (do let a ← pRat; let b ← pRat; pure (a, b)) args fun (a, b) =>
      if a + b = 0 then "undef" else "ok " ++ showRat (reducedMass a b)
  | "c20.fmtstr" => withArgs (do let s ← pText; let c ← pText; let b ← pBool; let u ← pBool; let g ← pText; pure (s, c, b, u, g)) args
      fun (s, c, b, u, g) =>
      let r := formattedString s c b u g
      "ok " ++ encHexU r.1 ++ " " ++ (if r.2 then "1" else "0") ++ " " ++ encHexU (formattedStringDiag s c b u g)
  | "c20.warn" => withArgs (do let c ← pBool; let f ← pText; let m ← pText; pure (c, f, m)) args fun (c, f, m) =>
      "ok " ++ encHexU (checkForWarning c f m)
  | "c20.fexists" => withArgs tok args fun k =>
      match k with
      | "file" => "ok " ++ (if fileExists .file then "1" else "0")
      | "dir" => "ok " ++ (if fileExists .dir then "1" else "0")
      | "missing" => "ok " ++ (if fileExists .missing then "1" else "0")
      | "empty" => "ok " ++ (if fileExists .emptyPath then "1" else "0")
      | _ => "bad-args"
  | "c20.vecout" => withArgs pRats args fun v => "ok " ++ encHexU (vecShow v)
  | "c20.matout" => withArgs pTable args fun t => if rectangular t then "ok " ++ encHexU (matShow t) else "undef"
  | "c20.dpout" => withArgs (do let a ← pRat; let b ← pRat; pure (a, b)) args fun (a, b) => "ok " ++ encHexU (dpShow a b)
  | "c20.save1" => withArgs (do let xs ← pRats; let ys ← pRats; let n ← pNat; pure (xs, ys, n)) args fun (xs, ys, n) =>
      match Interp.mk xs ys (-1) (-1) with
      | .error _ => "err"
      | .ok o =>
        let lo := o.x 0
        let hi := o.x (o.N - 1)
        let pts := C19.linearSpace lo hi n
        match allSome (pts.map (fun x => (interpValue o x).map (fun v => [x, v]))) with
        | none => "undef"
        | some pairs =>
          let f (x : Rat) : Rat := (interpValue o x).getD 0   -- every value is `some` here
          "ok " ++ encHexU (saveFunction lo hi n f) ++ " " ++ toString pairs.length ++ " " ++ showRats pairs.flatten
  | "c20.save2" => withArgs (do let xs ← pRats; let ys ← pRats; let t ← pTable; let xp ← pNat; let yp ← pNat; pure (xs, ys, t, xp, yp)) args
      fun (xs, ys, t, xp, yp) =>
      match Interp.mk2 xs ys t (-1) (-1) (-1) with
      | .error _ => "err"
      | .ok o => save2Answer o xp yp
  | "c20.save2d0" => withArgs (do let xp ← pNat; let yp ← pNat; pure (xp, yp)) args fun (xp, yp) =>
      match default2D with
      | .error _ => "err"
      | .ok o => save2Answer o xp yp
  | "c20.printbox" => withArgs (do let s ← pText; let t ← pNat; let r ← pInt; let bc ← pText; let tc ← pText; pure (s, t, r, bc, tc)) args
      fun (s, t, r, bc, tc) => "ok " ++ encHexU (printBox s t r bc tc)
  | "c20.progbar" => withArgs (do let p ← pRat; let r ← pNat; let l ← pNat; let t ← pRat; let c ← pText; pure (p, r, l, t, c)) args
      fun (p, r, l, t, c) =>
      match progressBar p r l t c with
      | some s => "ok " ++ encHexU s ++ " " ++ toString (barCellCount p l)
      | none => "undef"
  | _ => none

def main : IO Unit := driverMain handle
