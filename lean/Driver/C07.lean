import LpModel.DriverLib
import LpModel.C07
open Lp Lp.C07

/-- two arbitrary, different instantiations of the transcendental parameters: when the model's
    answer is the same under both it does not depend on them (support branch, guard, or a value
    that is rational) and is printed exactly (`ok const v`); otherwise the answer is `ok glue` and
    the comparator evaluates the definition with mpmath. -/
def TA : Fn := ⟨fun _ => 2, fun _ => 2, fun _ => 2, fun _ => 2, fun _ _ => 2, 2, fun _ => 2, fun _ => 2, fun _ _ => 2, fun _ _ => 2, fun _ _ => 2, fun _ => 2⟩
def TB : Fn := ⟨fun _ => 3, fun _ => 5, fun _ => 7, fun _ => 1/3, fun _ _ => 1/5, 3, fun _ => 1/7, fun _ => 1/23, fun _ _ => 1/11, fun _ _ => 1/13, fun _ _ => 17, fun _ => 1/19⟩

def cls (f : Fn → Except Err Rat) : String :=
  match f TA, f TB with
  | .error _, _ => "err"
  | _, .error _ => "err"
  | .ok a, .ok b => if a = b then "ok const " ++ showRat a else "ok glue"

def clsR (f : Fn → Rat) : String := cls (fun T => .ok (f T))

def p2 : P (Rat × Rat) := do let a ← pRat; let b ← pRat; pure (a, b)
def p3 : P (Rat × Rat × Rat) := do let a ← pRat; let b ← pRat; let c ← pRat; pure (a, b, c)
def pBins : P (List Rat × List Nat × List Rat) := do let s ← pRats; let n ← pList pNat; let b ← pRats; pure (s, n, b)

-- chi-bar weights outside [0,1]: the model rejects them (fixprop-C07-6, mirrors `pdfChiBarE`); until the patch is in /repo the generator
-- does not request such weights (PENDING_CHIBAR in props/c07.py), for weights inside [0,1] the guarded and the plain form coincide
def handle : Handler := fun op args =>
  match op with
  | "c07.unif_pdf" => withArgs p3 args fun (x, lo, hi) =>
      cls (fun _ => pdfUniformE x lo hi)
  | "c07.unif_cdf" => withArgs p3 args fun (x, lo, hi) =>
      cls (fun _ => cdfUniformE x lo hi)
  | "c07.gauss_pdf" => withArgs p3 args fun (x, mu, s) => cls (fun T => pdfGaussE T x mu s)
  | "c07.gauss_cdf" => withArgs p3 args fun (x, mu, s) => cls (fun T => cdfGaussE T x mu s)
  | "c07.gauss2d" => withArgs (do let x ← pRat; let y ← pRat; let m1 ← pRat; let m2 ← pRat; let s1 ← pRat; let s2 ← pRat; pure (x, y, m1, m2, s1, s2)) args
      fun (x, y, m1, m2, s1, s2) => cls (fun T => pdfGauss2DE T x y m1 m2 s1 s2)
  | "c07.gauss_q" => withArgs p3 args fun (p, mu, s) =>
      if s < 0 then "err" else if s = 0 then "undef" else      -- sigma = 0: the harness also evaluates CDF_Gauss, which rejects it
      match invErfSym TA (2 * p - 1) with
      | .error _ => "err"
      | .ok _ => if rabs (2 * p - 1 - 1) < 1e-16 then "ok ten" else if rabs (2 * p - 1 + 1) < 1e-16 then "ok mten" else "ok root"
  | "c07.binom_pmf" => withArgs (do let t ← pNat; let p ← pRat; let x ← pNat; pure (t, p, x)) args fun (t, p, x) =>
      cls (fun _ => pmfBinomial chooseR t p x)
  | "c07.binom_cdf" => withArgs (do let t ← pNat; let p ← pRat; let x ← pNat; pure (t, p, x)) args fun (t, p, x) =>
      cls (fun _ => cdfBinomial chooseR t p x)
  | "c07.pois_pmf" => withArgs (do let mu ← pRat; let n ← pNat; pure (mu, n)) args fun (mu, n) => cls (fun T => pmfPoisson T mu n)
  | "c07.pois_cdf" => withArgs (do let mu ← pRat; let n ← pNat; pure (mu, n)) args fun (mu, n) => cls (fun T => cdfPoisson T mu n)
  | "c07.pois_inv" => withArgs (do let n ← pNat; let c ← pRat; pure (n, c)) args fun (n, c) =>
      match invCdfPoisson TA n c with
      | .error _ => "err"
      | .ok _ => if n = 0 then "ok log" else "ok inv"
  | "c07.chi_pdf" => withArgs p2 args fun (x, d) => cls (fun T => pdfChiSqE T x d)
  | "c07.chi_cdf" => withArgs p2 args fun (x, d) => cls (fun T => cdfChiSqE T x d)
  | "c07.chibar_pdf" => withArgs (do let x ← pRat; let w ← pRats; pure (x, w)) args fun (x, w) => cls (fun T => pdfChiBarE T x w)
  | "c07.chibar_cdf" => withArgs (do let x ← pRat; let w ← pRats; pure (x, w)) args fun (x, w) => cls (fun T => cdfChiBarE T x w)
  | "c07.exp_pdf" => withArgs p2 args fun (x, m) => cls (fun T => pdfExponential T x m)
  | "c07.exp_cdf" => withArgs p2 args fun (x, m) => cls (fun T => cdfExponential T x m)
  | "c07.mb_pdf" => withArgs p2 args fun (x, a) => cls (fun T => pdfMBt T x a)
  | "c07.mb_cdf" => withArgs p2 args fun (x, a) => cls (fun T => cdfMBt T x a)
  | "c07.loglik" => withArgs (do let s ← pRat; let n ← pNat; let b ← pRat; pure (s, n, b)) args fun (s, n, b) =>
      if ¬ (s < 0 ∨ b < 0) ∧ s + b = 0 ∧ n ≠ 0 then "undef" else cls (fun T => logLikelihoodPoissonE T s n b)
  | "c07.lik" => withArgs (do let s ← pRat; let n ← pNat; let b ← pRat; pure (s, n, b)) args fun (s, n, b) =>
      if ¬ (s < 0 ∨ b < 0) ∧ s + b = 0 ∧ n ≠ 0 then "undef" else cls (fun T => likelihoodPoissonE T s n b)
  | "c07.loglik_b" => withArgs pBins args fun (s, n, b) =>
      match bins s n b with
      | .error _ => "err"
      | .ok l =>
        match logLikelihoodBinned TA s n b with
        | .error _ => "err"                       -- a bin with a negative expectation
        | .ok _ => if l.any (fun t => t.1 + t.2.2 = 0 ∧ t.2.1 ≠ 0) then "undef" else "ok glue " ++ toString l.length
  | "c07.lik_b" => withArgs pBins args fun (s, n, b) =>
      match bins s n b with
      | .error _ => "err"
      | .ok l =>
        match logLikelihoodBinned TA s n b with
        | .error _ => "err"                       -- a bin with a negative expectation
        | .ok _ => if l.any (fun t => t.1 + t.2.2 = 0 ∧ t.2.1 ≠ 0) then "undef" else "ok glue " ++ toString l.length
  | "c07.kde" => withArgs (do let d ← pList (do let v ← pRat; let w ← pRat; pure (v, w)); let a ← pRat; let b ← pRat; let bw ← pRat; pure (d, a, b, bw)) args
      fun (d, a, b, bw) =>
      if d.length = 0 ∨ b ≤ a ∨ bw < 0 ∨ d.any (fun p => p.2 < 0) ∨ (d.foldl (fun acc p => acc + p.2) 0) ≤ 0 then "undef"
      else "ok glue " ++ toString (nPseudo d.length)
  | _ => none

def main : IO Unit := driverMain handle
