import LpModel.DriverLib
import LpModel.C16
open Lp Lp.C16

/-- the driver's square root: exact on rational squares, else relative precision 2^-256 -/
def sqD : Rat → Rat := sqApprox 256

def pV3 : P V3 := do let a ← pRat; let b ← pRat; let c ← pRat; pure ⟨a, b, c⟩

/-- `r theta phi ct st cp sp` (the angles themselves are for the harness only) -/
def pSph : P (Rat × Rat × Rat × Rat × Rat) := do
  let r ← pRat; let _ ← pRat; let _ ← pRat
  let ct ← pRat; let st ← pRat; let cp ← pRat; let sp ← pRat
  pure (r, ct, st, cp, sp)

def showBranch : Branch → String
  | .plain => "plain" | .antiz => "antiz" | .general => "general"

/-
  Requests (doubles as hex floats; the cosine/sine of each angle as exact rationals `num/den`
  computed to high precision on the comparison side — the harness uses the angle, the model the pair):
    c16.rot2   alpha c s
    c16.rot3   alpha c s  ax ay az
    c16.rot3d  alpha c s                      (default axis argument = (0,0,1))
    c16.rotg   alpha c s  dim  n a1…an        (guards: any dim, any axis dimension)
    c16.rot3h  alpha c s  ax ay az  kind n e1…en   (the axis object is produced by history `kind`, extras e_i)
    c16.sphaxh r theta phi  ct st cp sp  ax ay az  kind n e1…en
    c16.sph    r theta phi  ct st cp sp
    c16.sphax  r theta phi  ct st cp sp  ax ay az
    c16.angle  n v…  m w…
    c16.norm   n v…                           (Norm, Normalized, Normalize)
-/
def handle : Handler := fun op args =>
  match op with
  | "c16.rot2" => withArgs (do let _ ← pRat; let c ← pRat; let s ← pRat; pure (c, s)) args fun (c, s) =>
      "ok " ++ showRats (rotation2 c s).toList
  | "c16.rot3" => withArgs (do let _ ← pRat; let c ← pRat; let s ← pRat; let a ← pV3; pure (c, s, a)) args fun (c, s, a) =>
      match rotationAxis sqD c s a with
      | some m => "ok " ++ showRats m.toList
      | none => "undef"
  | "c16.rot3d" => withArgs (do let _ ← pRat; let c ← pRat; let s ← pRat; pure (c, s)) args fun (c, s) =>
      match rotationAxis sqD c s ⟨0, 0, 1⟩ with
      | some m => "ok " ++ showRats m.toList
      | none => "undef"
  | "c16.rotg" => withArgs (do let _ ← pRat; let c ← pRat; let s ← pRat; let d ← pInt; let a ← pRats; pure (c, s, d, a)) args fun (c, s, d, a) =>
      match rotationMatrix sqD c s d a with
      | .m2 m => "ok 2 " ++ showRats m.toList
      | .m3 m => "ok 3 " ++ showRats m.toList
      | .nan => "undef"
      | .err => "err"
  | "c16.rot3h" => withArgs (do let _ ← pRat; let c ← pRat; let s ← pRat; let a ← pV3; let k ← pNat; let ex ← pRats; pure (c, s, a, k, ex)) args
      fun (c, s, a, k, ex) =>
      match (axisHistory k a.x a.y a.z ex).axis3 with
      | none => "err"
      | some ax =>
        match rotationAxis sqD c s ax with
        | some m => "ok " ++ showRats m.toList
        | none => "undef"
  | "c16.sphaxh" => withArgs (do let q ← pSph; let a ← pV3; let k ← pNat; let ex ← pRats; pure (q, a, k, ex)) args
      fun ((r, ct, st, cp, sp), a, k, ex) =>
      match (axisHistory k a.x a.y a.z ex).axis3 with
      | none => "err"
      | some ax => "ok " ++ showRats (sphericalAxis sqD r ct st cp sp ax).toList ++ " " ++ showBranch (sphericalBranch sqD ax)
  | "c16.sph" => withArgs pSph args fun (r, ct, st, cp, sp) =>
      "ok " ++ showRats (spherical r ct st cp sp).toList
  | "c16.sphax" => withArgs (do let q ← pSph; let a ← pV3; pure (q, a)) args fun ((r, ct, st, cp, sp), a) =>
      "ok " ++ showRats (sphericalAxis sqD r ct st cp sp a).toList ++ " " ++ showBranch (sphericalBranch sqD a)
  | "c16.angle" => withArgs (do let v ← pRats; let w ← pRats; pure (v, w)) args fun (v, w) =>
      match angleCos sqD v w with
      | .error _ => "err"
      | .ok none => "undef"
      | .ok (some x) => "ok " ++ showRat x
  | "c16.norm" => withArgs pRats args fun v =>
      match normalizeL sqD v with
      | none => "undef"
      | some u => "ok " ++ showRat (normL sqD v) ++ " " ++ showRats u
  | _ => none

def main : IO Unit := driverMain handle
