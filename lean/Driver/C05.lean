import LpModel.DriverLib
import LpModel.C05
open Lp Lp.C04 Lp.C05

/-- matrix on the wire: `rows cols e_00 e_01 …` (row-major) -/
def pMat : P Mat := do
  let r ← pNat; let c ← pNat
  let rows ← pMany (pMany pRat c) r
  pure ⟨r, c, rows⟩

def showMat (A : Mat) : String :=
  let es := A.data.foldr (· ++ ·) []
  toString A.rows ++ " " ++ toString A.cols ++ (if es.isEmpty then "" else " " ++ showRats es)

def handle : Handler := fun op args =>
  match op with
  -- determinant and the scale of its expansion (Σ of |terms|)
  | "c05.det" => withArgs pMat args fun a =>
      match det a with
      | .ok d => "ok " ++ showRat d ++ " " ++ showRat (permAbsN a.rows a)
      | .error .diag => "err"
      | .error .undef => "undef"
  -- Determinant(), Invertible() and the outcome of Inverse() on the same matrix
  | "c05.gate" => withArgs pMat args fun a =>
      match det a with
      | .ok d =>
        "ok " ++ showRat d ++ " " ++ (if invertible a then "1" else "0") ++ " | " ++
          (match inverse a with
           | .ok x => "ok " ++ showMat x
           | .error .diag => "err"
           | .error .undef => "undef")
      | .error .diag => "err"
      | .error .undef => "undef"
  | "c05.invertible" => withArgs pMat args fun a => "ok " ++ (if invertible a then "1" else "0")
  -- inverse, then ‖M‖∞ and ‖M⁻¹‖∞ (exact) for the κ-scaled tolerance
  | "c05.inverse" => withArgs pMat args fun a =>
      match inverse a with
      | .ok x => "ok " ++ showMat x ++ " " ++ showRat (normInf a) ++ " " ++ showRat (normInf x)
      | .error .diag => "err"
      | .error .undef => "undef"
  -- exact determinants for the laws evaluated on the implementation: det A, det B, det(A·B),
  -- det(Aᵀ), det(A with rows 0 and 1 exchanged)
  | "c05.detlaws" => withArgs (do let a ← pMat; let b ← pMat; pure (a, b)) args fun (a, b) =>
      let sw : Mat := if a.rows ≥ 2 then swapRows a 0 1 else a
      match det a, det b, mul a b with
      | .ok da, .ok db, .ok ab =>
        match det ab, det (transpose a), det sw with
        | .ok dab, .ok dat, .ok dsw =>
          "ok " ++ showRats [da, db, dab, dat, dsw]
        | _, _, _ => "err"
      | _, _, _ => "err"
  | _ => none

def main : IO Unit := driverMain handle
