import LpModel.DriverLib
import LpModel.C14
open Lp Lp.C14

abbrev MTS := Lp.MT.State
def mtU01 : U01 MTS := Lp.MT.canonical

/-- rational integrand families shared with harness/c14.cpp (`fam`); `none` = transcendental (not modelled) -/
def fam (fid : Nat) (d : Nat) (p : List Rat) : Option (List Rat → Rat) :=
  match fid with
  | 0 => some (fun _ => p.getD 0 0)
  | 1 => some (fun x => (x.take d).foldl (· + ·) 0)
  | 2 => some (fun x => (x.take d).foldl (· * ·) 1)
  | 5 => some (fun x => (x.take d).foldl (fun s v => s + v * v) 0 + 1)
  | 6 => some (fun x => x.foldl (· + ·) 0)       -- sum over the WHOLE argument vector
  | _ => none

/-- cube root by Newton from above, rounded to 2^-300 (driver only; validated by the correspondence) -/
def cbrtIter (y : Rat) : Nat → Rat → Rat
  | 0, z => z
  | n + 1, z => cbrtIter y n (rndK 300 ((2 * z + y / (z * z)) / 3))

def pw23Approx (x : Rat) : Rat :=
  if x ≤ 0 then 0 else
  let y := x * x
  cbrtIter y 160 (if y > 1 then y else 1)

def colMin (pts : List (List Rat)) (j : Nat) : Rat := pts.foldl (fun m p => rmin m (p.getD j 0)) ((pts.headD []).getD j 0)
def colMax (pts : List (List Rat)) (j : Nat) : Rat := pts.foldl (fun m p => rmax m (p.getD j 0)) ((pts.headD []).getD j 0)

def showCall (d : Nat) (v : Rat) (pts : List (List Rat)) : String :=
  let mins := (List.range d).map (colMin pts)
  let maxs := (List.range d).map (colMax pts)
  let first := (pts.take 3).flatten
  "ok " ++ showRat v ++ " " ++ toString pts.length ++ " " ++ showRats mins ++ " " ++ showRats maxs ++ " " ++ toString first.length ++ " " ++ showRats first

def handle : Handler := fun op args =>
  match op with
  | "c14.call" =>
      withArgs (do let m ← tok; let sd ← pNat; let d ← pNat; let reg ← pRats; let n ← pInt; let fid ← pNat; let p ← pRats
                   pure (m, sd, d, reg, n, fid, p)) args
      fun (m, sd, d, reg, n, fid, p) =>
      if integrateMCRejects reg.length n (m == "Vegas") then "err" else
      if reg.length ≠ 2 * d ∨ d = 0 ∨ n ≤ 0 ∨ n > 2500 then "undef" else
      match fam fid d p with
      | none => "undef"
      | some f =>
        let g := Lp.MT.seed (UInt32.ofNat sd)        -- std::mt19937 PRNG(rd())
        if m = "Monte-Carlo" then
          let r := bruteForce mtU01 f reg n.toNat g
          showCall d r.1 r.2
        else if m = "Miser" then
          match miserTop mtU01 f pw23Approx reg n 0 g with
          | some (v, pts, kn) => showCall d v pts ++ (if kn then " knife 1" else " knife 0")
          | none => "undef"
        else "undef"
  | _ => none

def main : IO Unit := driverMain handle
