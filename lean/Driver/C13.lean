import LpModel.DriverLib
import LpModel.C13
open Lp Lp.C13

/-! Driver of C13.  `I` (every method) and `MC` are instantiated with the exact Newton–Cotes rule on
    17 points (`ncI 16`, exact for polynomials of degree ≤ 17), so for polynomial integrands the
    model's answer is the exact iterated integral through the coded wrappers. -/

def NN : Nat := 16
def wNC : List Rat := ncWeights NN
def idealI : Integ := fun _ _ f a b => ncI NN wNC f a b

def idealMC : MCInteg := fun _ g region _ =>
  match region with
  | [x1, y1, x2, y2] => ncI NN wNC (fun x => ncI NN wNC (fun y => g [x, y]) y1 y2) x1 x2
  | [x1, y1, z1, x2, y2, z2] =>
    ncI NN wNC (fun x => ncI NN wNC (fun y => ncI NN wNC (fun z => g [x, y, z]) z1 z2) y1 y2) x1 x2
  | _ => 0

structure Term where
  c : Rat
  i : Nat
  j : Nat
  k : Nat

def pTerms : P (List Term) := pList (do let c ← pRat; let i ← pNat; let j ← pNat; let k ← pNat; pure ⟨c, i, j, k⟩)

def evalTerms (ts : List Term) (x y z : Rat) : Rat :=
  ts.foldl (fun acc t => acc + t.c * x ^ t.i * y ^ t.j * z ^ t.k) 0

def polyEval (c : List Rat) (x : Rat) : Rat := c.foldr (fun a acc => a + x * acc) 0

def ans (r : Except Err Rat) : String :=
  match r with
  | .ok v => "ok " ++ showRat v
  | .error _ => "err"

def handle : Handler := fun op args =>
  match op with
  | "c13.int1" => withArgs (do let nm ← tok; let p ← pInt; let a ← pRat; let b ← pRat; let ts ← pTerms; pure (nm, p, a, b, ts)) args
      fun (nm, p, a, b, ts) => ans (integrate1D idealI nm p (fun x => evalTerms ts x 1 1) a b)
  | "c13.int2" => withArgs (do let nm ← tok; let p ← pInt; let x1 ← pRat; let x2 ← pRat; let y1 ← pRat; let y2 ← pRat
                               let _ ← pNat; let ts ← pTerms; pure (nm, p, x1, x2, y1, y2, ts)) args
      fun (nm, p, x1, x2, y1, y2, ts) => ans (integrate2D idealI idealMC nm p (fun x y => evalTerms ts x y 1) x1 x2 y1 y2)
  | "c13.int3" => withArgs (do let nm ← tok; let p ← pInt; let x1 ← pRat; let x2 ← pRat; let y1 ← pRat; let y2 ← pRat
                               let z1 ← pRat; let z2 ← pRat; let _ ← pNat; let ts ← pTerms
                               pure (nm, p, x1, x2, y1, y2, z1, z2, ts)) args
      fun (nm, p, x1, x2, y1, y2, z1, z2, ts) =>
        ans (integrate3D idealI idealMC nm p (fun x y z => evalTerms ts x y z) x1 x2 y1 y2 z1 z2)
  | "c13.sph" => withArgs (do let nm ← tok; let p ← pInt; let r1 ← pRat; let r2 ← pRat; let c1 ← pRat; let c2 ← pRat
                              let f1 ← pRat; let f2 ← pRat; let _ ← pNat; let ts ← pTerms
                              pure (nm, p, r1, r2, c1, c2, f1, f2, ts)) args
      fun (nm, p, r1, r2, c1, c2, f1, f2, ts) =>
        -- the vector is kept in its spherical representation (norm, cos of the polar angle, azimuth):
        -- `sph r θ φ = (r, θ, φ)` with `acos = id`, and `f` reads those three quantities off the vector
        ans (integrate3Dsph idealI idealMC (fun r th ph => (r, th, ph)) id nm p
              (fun v => evalTerms ts v.1 v.2.1 v.2.2) r1 r2 c1 c2 f1 f2)
  | "c13.outcome1" => withArgs (do let nm ← tok; let a ← pRat; let b ← pRat; pure (nm, a, b)) args
      fun (nm, a, b) => match integrate1D idealI nm 0 (fun _ => 1) a b with | .ok _ => "ok" | .error _ => "err"
  | "c13.outcome2" => withArgs (do let nm ← tok; pure nm) args
      fun nm => match integrate2D idealI idealMC nm 0 (fun _ _ => 1) 0 1 0 1 with | .ok _ => "ok" | .error _ => "err"
  | "c13.outcome3" => withArgs (do let nm ← tok; pure nm) args
      fun nm => match integrate3D idealI idealMC nm 0 (fun _ _ _ => 1) 0 1 0 1 0 1 with | .ok _ => "ok" | .error _ => "err"
  | "c13.outcomesph" => withArgs (do let nm ← tok; pure nm) args
      fun nm => match integrate3Dsph idealI idealMC (fun r th ph => (r, th, ph)) id nm 0 (fun _ => 1) 0 1 (-1) 1 0 1 with
        | .ok _ => "ok" | .error _ => "err"
  | "c13.outcomemc" => withArgs (do let nm ← tok; pure nm) args
      fun nm => match integrateMC idealMC nm (fun _ => 1) [0, 0, 1, 1] 1000 with | .ok _ => "ok" | .error _ => "err"
  | "c13.fam1" => withArgs (do let nm ← tok; let _ ← pInt; let a ← pRat; let b ← pRat; let _ ← pMany tok 4; pure (nm, a, b)) args
      fun (nm, a, b) => match integrate1D idealI nm 0 (fun _ => 1) a b with | .ok _ => "ok" | .error _ => "err"
  | "c13.fam2" => withArgs (do let nm ← tok; let _ ← pMany tok 14; pure nm) args
      fun nm => match integrate2D idealI idealMC nm 0 (fun _ _ => 1) 0 1 0 1 with | .ok _ => "ok" | .error _ => "err"
  | "c13.fam3" => withArgs (do let nm ← tok; let _ ← pMany tok 20; pure nm) args
      fun nm => match integrate3D idealI idealMC nm 0 (fun _ _ _ => 1) 0 1 0 1 0 1 with | .ok _ => "ok" | .error _ => "err"
  | "c13.seq" => withArgs (pList (do
        let d ← pNat; let nm ← tok; let p ← pInt
        if d = 1 then
          let a ← pRat; let b ← pRat; let _ ← pMany tok 4
          pure (Call.one nm p (fun _ => 1) a b)
        else if d = 2 then
          let x1 ← pRat; let x2 ← pRat; let y1 ← pRat; let y2 ← pRat; let _ ← pMany tok 8
          pure (Call.two nm p (fun _ _ => 1) x1 x2 y1 y2)
        else failure)) args
      fun calls =>
        -- outcome only: the process stops at the first call with an unknown method name
        if (runSeq idealI idealMC calls).all (fun r => match r with | .ok _ => true | .error _ => false) then "ok" else "err"
  | "c13.neg" => withArgs (do let d ← pNat; let nm ← tok; let _ ← pInt; let _ ← pMany tok (6 * d); pure (d, nm)) args
      fun (d, nm) =>
        if d = 2 then (match integrate2D idealI idealMC nm 0 (fun _ _ => 1) 0 1 0 1 with | .ok _ => "ok" | .error _ => "err")
        else if d = 3 then (match integrate3D idealI idealMC nm 0 (fun _ _ _ => 1) 0 1 0 1 0 1 with | .ok _ => "ok" | .error _ => "err")
        else "bad-args"
  | "c13.nest" => withArgs (do
        let n1 ← tok; let p1 ← pInt; let n2 ← tok; let p2 ← pInt
        let a ← pRat; let b ← pRat; let l0 ← pRat; let l1 ← pRat; let h0 ← pRat; let h1 ← pRat
        let ts ← pTerms
        pure (n1, p1, n2, p2, a, b, l0, l1, h0, h1, ts)) args
      fun (n1, p1, n2, p2, a, b, l0, l1, h0, h1, ts) =>
        ans (nestedCall idealI n1 p1 n2 p2 (fun x y => evalTerms ts x y 1) (fun x => l0 + l1 * x) (fun x => h0 + h1 * x) a b)
  | "c13.sphfirst" => withArgs (do let nm ← tok; let _ ← pInt; let _ ← pMany tok 6; pure nm) args
      fun nm => match integrate3Dsph idealI idealMC (fun r th ph => (r, th, ph)) id nm 0 (fun _ => 1) 0 1 (-1) 1 0 1 with
        | .ok _ => "ok" | .error _ => "err"
  | "c13.sweep" => withArgs (do let nm ← tok; let _ ← pNat; let _ ← pNat; pure nm) args
      fun nm => match integrate1D idealI nm 0 (fun _ => 1) 0 1 with | .ok _ => "ok" | .error _ => "err"
  | "c13.sphrad" => withArgs (do let nm ← tok; let _ ← pMany tok 5; pure nm) args
      fun nm => match integrate3Dsph idealI idealMC (fun r th ph => (r, th, ph)) id nm 0 (fun _ => 1) 0 1 (-1) 1 0 1 with
        | .ok _ => "ok" | .error _ => "err"
  | "c13.default23" => some "ok"
  | "c13.asknown" => withArgs (do let nm ← tok; let _ ← pInt; let a ← pRat; let b ← pRat; let _ ← pMany tok 4; pure (nm, a, b)) args
      fun (nm, a, b) => match integrate1D idealI nm 0 (fun _ => 1) a b with | .ok _ => "ok" | .error _ => "err"
  | "c13.asknownp" => withArgs (do let nm ← tok; let p ← pInt; let a ← pRat; let b ← pRat; let ts ← pTerms; pure (nm, p, a, b, ts)) args
      fun (nm, p, a, b, ts) => ans (integrate1D idealI nm p (fun x => evalTerms ts x 1 1) a b)
  | "c13.default1" => some "ok"
  | "c13.sphdefault" => some "ok"
  | "c13.findeps" => withArgs (do let a ← pRat; let b ← pRat; let pr ← pRat; let c ← pRats; pure (a, b, pr, c)) args
      fun (a, b, pr, c) => "ok " ++ showRat (findEpsilon (polyEval c) a b pr)
  | "c13.checklimits" => withArgs (do let a ← pRat; let b ← pRat; pure (a, b)) args
      fun (a, b) => let (a', b', s) := checkLimits a b 1; "ok " ++ showRats [a', b', s]
  | "c13.selftest" => withArgs (pure ()) args fun _ =>
      -- ∫₀¹ x^17 = 1/18 and Σ weights = 1 with the 17-point rule
      "ok " ++ showRats [ncI NN wNC (fun x => x ^ 17) 0 1 - 1 / 18, wNC.foldl (· + ·) 0 - 1, ncI NN wNC (fun x => x ^ 5 - x) (-2) 3 - (3 ^ 6 - 2 ^ 6 : Rat) / 6 + (9 - 4 : Rat) / 2]
  | _ => none

def main : IO Unit := driverMain handle
