import LpModel.DriverLib
import LpModel.C08
open Lp Lp.Interp Lp.C09 Lp.C08

instance : SqrtFn := Lp.C08.driverSqrt

/-- op tokens: `I x` `D x k` `G a b` `m a b` `M a b` `gm` `gM` `L x` `P p` `X p` `C` -/
def pOp : P Op := do
  let t ← tok
  match t with
  | "I" => do let x ← pRat; pure (.interp x)
  | "D" => do let x ← pRat; let k ← pNat; pure (.deriv x k)
  | "G" => do let a ← pRat; let b ← pRat; pure (.integ a b)
  | "m" => do let a ← pRat; let b ← pRat; pure (.locmin a b)
  | "M" => do let a ← pRat; let b ← pRat; pure (.locmax a b)
  | "gm" => pure .globmin
  | "gM" => pure .globmax
  | "L" => do let x ← pRat; pure (.locate x)
  | "P" => do let p ← pRat; pure (.setpref p)
  | "X" => do let p ← pRat; pure (.mult p)
  | "C" => pure .copy
  | _ => failure

def pOp2 : P Op2 := do
  let t ← tok
  match t with
  | "I" => do let x ← pRat; let y ← pRat; pure (.interp x y)
  | "gm" => pure .globmin
  | "gM" => pure .globmax
  | "P" => do let p ← pRat; pure (.setpref p)
  | "X" => do let p ← pRat; pure (.mult p)
  | "C" => pure .copy
  | _ => failure

/-- per call: `V value scale` | `L index` | `U` -/
def answers (o : Obj) (ops : List Op) : Option String := Id.run do
  let mut o := o
  let mut out : Array String := #[]
  for op in ops do
    let sc := scaleOf o op
    let scT := scaleOfT o op
    let isG := match op with | .integ _ _ => true | _ => false
    match step o op with
    | .error _ => return none
    | .ok (a, o') =>
      o := o'
      match a with
      | .idx j => out := out.push ("L " ++ toString j)
      | .val v => out := out.push ("V " ++ showRat v ++ " " ++ showRat sc ++ (if isG then " T " ++ showRat scT else ""))
      | .unit => out := out.push "U"
  return some (" ".intercalate out.toList)

def answers2 (o : Obj2) (ops : List Op2) : Option String := Id.run do
  let mut o := o
  let mut out : Array String := #[]
  for op in ops do
    let sc := scaleOf2 o op
    match step2 o op with
    | .error _ => return none
    | .ok (a, o') =>
      o := o'
      match a with
      | .idx j => out := out.push ("L " ++ toString j)
      | .val v => out := out.push ("V " ++ showRat v ++ " " ++ showRat sc)
      | .unit => out := out.push "U"
  return some (" ".intercalate out.toList)

def handle : Handler := fun op args =>
  match op with
  -- c08.seq <xs> <ys> <xdim> <fdim> <n> op…
  | "c08.seq" => withArgs (do let xs ← pRats; let ys ← pRats; let xd ← pRat; let fd ← pRat; let h ← pList pOp; pure (xs, ys, xd, fd, h)) args
      fun (xs, ys, xd, fd, h) =>
      match mk xs ys xd fd with
      | .error _ => "err"
      | .ok o =>
        match answers o h with
        | some s => "ok " ++ s
        | none => "err"
  | "c08.seq2" => withArgs (do
        let xs ← pRats; let ys ← pRats; let f ← pList pRats; let xd ← pRat; let yd ← pRat; let fd ← pRat; let h ← pList pOp2
        pure (xs, ys, f, xd, yd, fd, h)) args
      fun (xs, ys, f, xd, yd, fd, h) =>
      match mk2 xs ys f xd yd fd with
      | .error _ => "err"
      | .ok o =>
        match answers2 o h with
        | some s => "ok " ++ s
        | none => "err"
  | _ => none

def main : IO Unit := driverMain handle
