import LpModel.DriverLib
import LpModel.C19
open Lp Lp.C19

def pInts : P (List Int) := pList pInt

/-- one `double` element of a `Lists_Equal` request: `nan`, `inf`, `-inf`, a hex float, or a
    negative zero the harness computes (`z.lit` = `-0.0`, `z.ceil` = `ceil(-0.25)`, `z.round` =
    `round(-0.4)`, `z.under` = underflow of a negative product) — every zero denotes the rational 0 -/
def pDbl : P Dbl := do
  let t ← tok
  if t = "nan" then pure .nan
  else if t = "inf" then pure .pinf
  else if t = "-inf" then pure .ninf
  else if t = "z.lit" ∨ t = "z.ceil" ∨ t = "z.round" ∨ t = "z.under" then pure (.fin 0)
  else match parseRat t with
    | some r => pure (.fin r)
    | none => failure

def pDbls : P (List Dbl) := pList pDbl

def showLL (ls : List (List Int)) : String :=
  toString ls.length ++ " " ++ " ".intercalate (ls.map (fun l => toString l.length ++ " " ++ showInts l))

def handle : Handler := fun op args =>
  match op with
  | "c19.workload" => withArgs (do let w ← pNat; let t ← pNat; pure (w, t)) args fun (w, t) =>
      match workload w t with
      | some l => "ok " ++ showNats l
      | none => "undef"
  | "c19.range" => withArgs (do let a ← pInt; let b ← pInt; let s ← pInt; pure (a, b, s)) args fun (a, b, s) =>
      match range a b s with
      | some l => "ok " ++ toString l.length ++ " " ++ showInts l
      | none => "nonterm"
  | "c19.linspace" => withArgs (do let a ← pRat; let b ← pRat; let s ← pNat; pure (a, b, s)) args fun (a, b, s) =>
      let l := linearSpace a b s
      "ok " ++ toString l.length ++ " " ++ showRats l
  | "c19.closest" => withArgs (do let l ← pRats; let t ← pRat; pure (l, t)) args fun (l, t) =>
      match locateClosest l t with
      | .ok i => "ok " ++ toString i
      | .error _ => "err"
  | "c19.listseq" => withArgs (do let a ← pInts; let b ← pInts; pure (a, b)) args fun (a, b) =>
      "ok " ++ (if listsEqual a b then "1" else "0")
  | "c19.listseqd" => withArgs (do let a ← pDbls; let b ← pDbls; pure (a, b)) args fun (a, b) =>
      "ok " ++ (if listsEqualD a b then "1" else "0")
  | "c19.listseqd2" => withArgs (do let a ← pList pDbls; let b ← pList pDbls; pure (a, b)) args fun (a, b) =>
      "ok " ++ (if listsEqualDD a b then "1" else "0")
  | "c19.aliasd" => withArgs pDbls args fun l =>      -- value semantics: the same object twice is the same list twice
      let e := if listsEqualD l l then "1" else "0"
      "ok " ++ e ++ " " ++ e ++ " " ++ e
  | "c19.aliasd2" => withArgs (pList pDbls) args fun l =>
      let e := if listsEqualDD l l then "1" else "0"
      "ok " ++ e ++ " " ++ e ++ " " ++ e
  | "c19.combine" => withArgs (do let a ← pInts; let b ← pInts; pure (a, b)) args fun (a, b) =>
      let l := combine a b
      "ok " ++ toString l.length ++ " " ++ showInts l
  | "c19.transpose" => withArgs (pList pInts) args fun ls =>
      match transposeLists ls with
      | .ok r => "ok " ++ showLL r
      | .error _ => "err"
  | "c19.sublist" => withArgs (do let l ← pInts; let a ← pInt; let b ← pNat; pure (l, a, b)) args fun (l, a, b) =>
      let r := subList l a b
      "ok " ++ toString r.length ++ " " ++ showInts r
  | "c19.sublistd" => withArgs (do let l ← pRats; let a ← pInt; let b ← pNat; pure (l, a, b)) args fun (l, a, b) =>
      let r := subList l a b
      "ok " ++ toString r.length ++ " " ++ showRats r
  | "c19.sublists" => withArgs (do let l ← pList tok; let a ← pInt; let b ← pNat; pure (l, a, b)) args fun (l, a, b) =>
      let r := subList l a b
      "ok " ++ toString r.length ++ " " ++ " ".intercalate r
  | "c19.flatten" => withArgs (pList pInts) args fun ls =>
      let r := flatten ls
      "ok " ++ toString r.length ++ " " ++ showInts r
  | "c19.contains" => withArgs (do let l ← pInts; let x ← pInt; pure (l, x)) args fun (l, x) =>
      "ok " ++ (if listContains l x then "1" else "0")
  | "c19.findidx" => withArgs (do let l ← pInts; let x ← pInt; pure (l, x)) args fun (l, x) =>
      let r := findIndices l x
      "ok " ++ toString r.length ++ " " ++ showNats r
  | "c19.mean" => withArgs pRats args fun l =>
      match meanE l with | .ok v => "ok " ++ showRat v | .error _ => "err"
  | "c19.variance" => withArgs pRats args fun l =>
      match varianceE l with | .ok v => "ok " ++ showRat v | .error _ => "err"
  | "c19.stddev" => withArgs pRats args fun l =>     -- the square root is outside the model: only the guard is answered
      match stdDevSqE l with | .ok _ => "undef" | .error _ => "err"
  | "c19.median" => withArgs pRats args fun l =>
      match medianE l with | .ok v => "ok " ++ showRat v | .error _ => "err"
  | "c19.wavg" => withArgs (pList (do let v ← pRat; let w ← pRat; pure (v, w))) args fun d =>
      match weightedAverageE d with
      | .ok (some (a, se)) => "ok " ++ showRat a ++ " " ++ showRat se
      | .ok none => "undef"
      | .error _ => "err"
  | "c19.dpcmp" => withArgs (do let a ← pRat; let b ← pRat; let c ← pRat; let d ← pRat; pure (a, b, c, d)) args fun (a, b, c, d) =>
      let x : DP := ⟨a, b⟩
      let y : DP := ⟨c, d⟩
      let bit (v : Bool) : String := if v then "1" else "0"
      "ok " ++ bit (dpLt x y) ++ " " ++ bit (dpGt x y) ++ " " ++ bit (dpEq x y)
  | "c19.dpsort" => withArgs (pList (do let v ← pRat; let w ← pRat; pure (⟨v, w⟩ : DP))) args fun d =>
      let asc := sortDP d
      let desc := sortDPDesc d
      "ok " ++ toString d.length ++ " " ++ showRats (asc.map (·.value)) ++ " " ++ showRats (desc.map (·.value)) ++ " "
        ++ toString (match d with | [] => 0 | x :: _ => countDP d x)
  | _ => none

def main : IO Unit := driverMain handle
