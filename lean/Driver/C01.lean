import LpModel.DriverLib
import LpModel.C01
open Lp Lp.Interp Lp.C01

/-  Requests
      c01.eval  <tag> <ctor> <xs> <ys> <xdim> <fdim> <pref> <mul> <M> (<x> <code>)^M
      c01.evalx (same; the harness forks because the request may stop the process)
          code -1 = Interpolate(x), code k>=0 = Derivative(x,k)
          answer: ok (<value> <interval index>)^M | err
      c01.eval2 / c01.eval2x  <tag> <ctor> <xs> <ys> <rows> (<row>)^rows <xdim> <ydim> <fdim> <pref> <mul> <M> (<x> <y>)^M
          answer: ok (<value> <i> <j>)^M | err
-/

def pQ1 : P (Rat × Int) := do let v ← pRat; let c ← pInt; pure (v, c)
def pQ2 : P (Rat × Rat) := do let v ← pRat; let w ← pRat; pure (v, w)

def p1D : P (Nat × List Rat × List Rat × Rat × Rat × Rat × Rat × List (Rat × Int)) := do
  let _ ← tok   -- family tag (for the comparator; ignored here)
  let ctor ← pNat
  let xs ← pRats; let ys ← pRats
  let xdim ← pRat; let fdim ← pRat; let pref ← pRat; let mul ← pRat
  let qs ← pList pQ1
  pure (ctor, xs, ys, xdim, fdim, pref, mul, qs)

def p2D : P (Nat × List Rat × List Rat × List (List Rat) × Rat × Rat × Rat × Rat × Rat × List (Rat × Rat)) := do
  let _ ← tok   -- family tag
  let ctor ← pNat
  let xs ← pRats; let ys ← pRats
  let f ← pList pRats
  let xdim ← pRat; let ydim ← pRat; let fdim ← pRat; let pref ← pRat; let mul ← pRat
  let qs ← pList pQ2
  pure (ctor, xs, ys, f, xdim, ydim, fdim, pref, mul, qs)

def ans1D (args : List String) : Option String :=
  withArgs p1D args fun (ctor, xs, ys, xdim, fdim, pref, mul, qs) =>
    match run1Dc ctor xs ys xdim fdim pref mul qs with
    | .ok rs => "ok " ++ " ".intercalate (rs.map fun (r, j) => showRat r ++ " " ++ toString j)
    | .error _ => "err"

def ans2D (args : List String) : Option String :=
  withArgs p2D args fun (ctor, xs, ys, f, xdim, ydim, fdim, pref, mul, qs) =>
    match run2Dc ctor xs ys f xdim ydim fdim pref mul qs with
    | .ok rs => "ok " ++ " ".intercalate (rs.map fun (r, i, j) => showRat r ++ " " ++ toString i ++ " " ++ toString j)
    | .error _ => "err"

def handle : Handler := fun op args =>
  match op with
  | "c01.eval" => ans1D args
  | "c01.evalx" => ans1D args
  | "c01.eval2" => ans2D args
  | "c01.eval2x" => ans2D args
  | _ => none

def main : IO Unit := driverMain handle
