import LpModel.DriverLib
import LpModel.C04
import LpModel.C04.History
open Lp Lp.C04 Lp.C04.Hist

/-- matrix on the wire: `rows cols e_00 e_01 …` (row-major) -/
def pMat : P Mat := do
  let r ← pNat; let c ← pNat
  let rows ← pMany (pMany pRat c) r
  pure ⟨r, c, rows⟩

def showMat (A : Mat) : String :=
  let es := A.data.foldr (· ++ ·) []
  toString A.rows ++ " " ++ toString A.cols ++ (if es.isEmpty then "" else " " ++ showRats es)

def showVec (v : Vec) : String := toString v.length ++ (if v.isEmpty then "" else " " ++ showRats v)

def ansM : Except Err Mat → String
  | .ok A => "ok " ++ showMat A
  | .error .diag => "err"
  | .error .undef => "undef"

def ansV : Except Err Vec → String
  | .ok v => "ok " ++ showVec v
  | .error .diag => "err"
  | .error .undef => "undef"

def ansR : Except Err Rat → String
  | .ok v => "ok " ++ showRat v
  | .error .diag => "err"
  | .error .undef => "undef"

def b01 (b : Bool) : String := if b then "1" else "0"

/-- spelling token: which C++ spelling the harness uses; the model has one function per distinct
    C++ function body -/
def pSp : P String := tok

def pVOp : P VOp := do
  let t ← tok
  match t with
  | "N" => pure .norm | "D" => pure .dotSelf | "S" => pure .size | "M" => pure .normalized | "U" => pure .normalize
  | "R" => do let i ← pNat; pure (.read i)
  | "W" => do let i ← pNat; let x ← pRat; pure (.write i x)
  | "+" => do let u ← pRats; pure (.addA u)
  | "-" => do let u ← pRats; pure (.subA u)
  | "=" => do let u ← pRats; pure (.set u)
  | "C" => do let u ← pRats; pure (.copySub u)
  | "Z" => do let n ← pNat; pure (.resize n)
  | "A" => do let n ← pNat; let e ← pRat; pure (.assign n e)
  | _ => failure

def pMOp : P MOp := do
  let t ← tok
  match t with
  | "N" => pure .norm | "T" => pure .trace | "D" => pure .det | "P" => pure .transposed
  | "Y" => pure .symmetric | "S" => pure .shape
  | "R" => do let i ← pNat; let j ← pNat; pure (.read i j)
  | "W" => do let i ← pNat; let j ← pNat; let x ← pRat; pure (.write i j x)
  | "+" => do let b ← pMat; pure (.addA b)
  | "-" => do let b ← pMat; pure (.subA b)
  | "=" => do let b ← pMat; pure (.set b)
  | "C" => do let b ← pMat; pure (.copySub b)
  | "Z" => do let r ← pNat; let c ← pNat; pure (.resize r c)
  | "A" => do let r ← pNat; let c ← pNat; let e ← pRat; pure (.assign r c e)
  | "DR" => do let i ← pNat; pure (.delRow i)
  | "DC" => do let j ← pNat; pure (.delCol j)
  | "RR" => do let i ← pNat; pure (.retRow i)
  | "RC" => do let j ← pNat; pure (.retCol j)
  | "SM" => do let i ← pNat; let j ← pNat; pure (.subM i j)
  | "O" => pure .orthogonal | "I" => pure .invertible | "AY" => pure .antisym | "DG" => pure .diag
  | _ => failure

def ansL : Except Err (List Rat) → String
  | .ok l => "ok" ++ (if l.isEmpty then "" else " " ++ showRats l)
  | .error .diag => "err"
  | .error .undef => "undef"

def handle : Handler := fun op args =>
  match op with
  -- object histories: one object, a sequence of member calls, every observer's value
  | "c04.vhist" => withArgs (do let v ← pRats; let ops ← pList pVOp; pure (v, ops)) args fun (v, ops) => ansL (vRun v ops)
  | "c04.mhist" => withArgs (do let a ← pMat; let ops ← pList pMOp; pure (a, ops)) args fun (a, ops) => ansL (mRun a ops)
  -- chained compound assignment: signs, x, then one operand per sign.  Answer: x after the whole chain,
  -- the value of the first step's expression, x after the first step alone
  | "c04.mchain" => withArgs (do let sg ← tok; let x ← pMat; let bs ← pMany pMat sg.length; pure (sg, x, bs)) args fun (sg, x, bs) =>
      let steps := (sg.toList.map (· == '+')).zip bs
      if sg.toList.any (fun c => c ≠ '+' ∧ c ≠ '-') ∨ steps.isEmpty then "bad-args" else
      match mChain x steps, mChain x (steps.take 1) with
      | .ok y, .ok y1 => "ok " ++ showMat y ++ " " ++ showMat y1 ++ " " ++ showMat y1
      | .error .undef, _ => "undef"
      | _, _ => "err"
  | "c04.vchain" => withArgs (do let sg ← tok; let x ← pRats; let bs ← pMany pRats sg.length; pure (sg, x, bs)) args fun (sg, x, bs) =>
      let steps := (sg.toList.map (· == '+')).zip bs
      if sg.toList.any (fun c => c ≠ '+' ∧ c ≠ '-') ∨ steps.isEmpty then "bad-args" else
      match vChain x steps, vChain x (steps.take 1) with
      | .ok y, .ok y1 => "ok " ++ showVec y ++ " " ++ showVec y1 ++ " " ++ showVec y1
      | .error .undef, _ => "undef"
      | _, _ => "err"
  | "c04.plus" => withArgs (do let s ← pSp; let a ← pMat; let b ← pMat; pure (s, a, b)) args fun (s, a, b) =>
      if s = "a" then ansM (plusAssign a b) else if s = "m" ∨ s = "o" then ansM (plus a b) else "bad-args"
  | "c04.minus" => withArgs (do let s ← pSp; let a ← pMat; let b ← pMat; pure (s, a, b)) args fun (s, a, b) =>
      if s = "a" then ansM (minusAssign a b) else if s = "m" ∨ s = "o" then ansM (minus a b) else "bad-args"
  | "c04.mul" => withArgs (do let s ← pSp; let a ← pMat; let b ← pMat; pure (s, a, b)) args fun (s, a, b) =>
      if s = "m" ∨ s = "o" then ansM (mul a b) else "bad-args"
  | "c04.smul" => withArgs (do let s ← pSp; let a ← pMat; let x ← pRat; pure (s, a, x)) args fun (s, a, x) =>
      if s = "m" ∨ s = "o" ∨ s = "f" then "ok " ++ showMat (smul x a) else "bad-args"
  | "c04.sdiv" => withArgs (do let s ← pSp; let a ← pMat; let x ← pRat; pure (s, a, x)) args fun (s, a, x) =>
      if s = "m" ∨ s = "o" then (if x = 0 then "undef" else "ok " ++ showMat (sdiv a x)) else "bad-args"
  | "c04.matvec" => withArgs (do let s ← pSp; let a ← pMat; let v ← pRats; pure (s, a, v)) args fun (s, a, v) =>
      if s = "m" ∨ s = "o" then ansV (matVec a v) else "bad-args"
  | "c04.vecmat" => withArgs (do let v ← pRats; let a ← pMat; pure (v, a)) args fun (v, a) => ansV (vecMat v a)
  | "c04.transpose" => withArgs pMat args fun a => "ok " ++ showMat (transpose a)
  | "c04.trace" => withArgs pMat args fun a => ansR (trace a)
  | "c04.subm" => withArgs (do let a ← pMat; let r ← pInt; let c ← pInt; pure (a, r, c)) args fun (a, r, c) =>
      ansM (subMatrix a r c)
  | "c04.delrow" => withArgs (do let a ← pMat; let r ← pNat; pure (a, r)) args fun (a, r) => ansM (deleteRow a r)
  | "c04.delcol" => withArgs (do let a ← pMat; let r ← pNat; pure (a, r)) args fun (a, r) => ansM (deleteCol a r)
  | "c04.retrow" => withArgs (do let a ← pMat; let r ← pNat; pure (a, r)) args fun (a, r) => ansV (returnRow a r)
  | "c04.retcol" => withArgs (do let a ← pMat; let r ← pNat; pure (a, r)) args fun (a, r) => ansV (returnCol a r)
  | "c04.preds" => withArgs pMat args fun a =>
      "ok " ++ b01 (square a) ++ " " ++ b01 (symmetric a) ++ " " ++ b01 (antisymmetric a) ++ " " ++ b01 (diagonal a)
  | "c04.identity" => withArgs pNat args fun n => "ok " ++ showMat (identity n)
  | "c04.diag" => withArgs pRats args fun d => "ok " ++ showMat (diagM d)
  | "c04.const" => withArgs (do let r ← pNat; let c ← pNat; let e ← pRat; pure (r, c, e)) args fun (r, c, e) =>
      "ok " ++ showMat (Mat.const r c e)
  | "c04.ctor" => withArgs (pList pRats) args fun e => ansM (ofRows e)
  | "c04.block" => withArgs (do let r ← pNat; let c ← pNat; pMany (pMany pMat c) r) args fun g => ansM (blockCtor g)
  -- block constructor on an arbitrary (possibly empty or ragged) list of rows of blocks: <#rows> then per row <#blocks> blocks…
  | "c04.blockr" => withArgs (pList (pList pMat)) args fun g => ansM (blockCtor g)
  | "c04.outer" => withArgs (do let u ← pRats; let v ← pRats; pure (u, v)) args fun (u, v) => "ok " ++ showMat (outer u v)
  | "c04.dot" => withArgs (do let s ← pSp; let u ← pRats; let v ← pRats; pure (s, u, v)) args fun (s, u, v) =>
      if s = "m" ∨ s = "o" then ansR (dot u v) else "bad-args"
  | "c04.cross" => withArgs (do let u ← pRats; let v ← pRats; pure (u, v)) args fun (u, v) => ansV (cross u v)
  | "c04.vadd" => withArgs (do let s ← pSp; let u ← pRats; let v ← pRats; pure (s, u, v)) args fun (s, u, v) =>
      if s = "a" then ansV (vaddAssign u v) else if s = "o" then ansV (vadd u v) else "bad-args"
  | "c04.vsub" => withArgs (do let s ← pSp; let u ← pRats; let v ← pRats; pure (s, u, v)) args fun (s, u, v) =>
      if s = "a" then ansV (vsubAssign u v) else if s = "o" then ansV (vsub u v) else "bad-args"
  | "c04.vsmul" => withArgs (do let s ← pSp; let u ← pRats; let x ← pRat; pure (s, u, x)) args fun (s, u, x) =>
      if s = "o" ∨ s = "f" then "ok " ++ showVec (vsmul u x) else "bad-args"
  | "c04.vsdiv" => withArgs (do let u ← pRats; let x ← pRat; pure (u, x)) args fun (u, x) =>
      if x = 0 then "undef" else "ok " ++ showVec (vsdiv u x)
  | "c04.veq" => withArgs (do let u ← pRats; let v ← pRats; pure (u, v)) args fun (u, v) => "ok " ++ b01 (veq u v)
  | "c04.meq" => withArgs (do let a ← pMat; let b ← pMat; pure (a, b)) args fun (a, b) => "ok " ++ b01 (meq a b)
  | "c04.vnorm" => withArgs pRats args fun u => "ok " ++ showRat (vnormScaledSq 0 u)     -- the square (as coded, 8a680df)
  | "c04.mnorm" => withArgs pMat args fun a => "ok " ++ showRat (normScaledSq 0 a)       -- the square (as coded, 75466a1)
  | "c04.vget" => withArgs (do let u ← pRats; let i ← pNat; pure (u, i)) args fun (u, i) => ansR (vget u i)
  | "c04.mget" => withArgs (do let a ← pMat; let i ← pNat; let j ← pNat; pure (a, i, j)) args fun (a, i, j) => ansR (mget a i j)
  -- algebraic laws evaluated by the harness on the implementation: (A·B)ᵀ = BᵀAᵀ, A·1 = A, 1·A = A,
  -- Aᵀᵀ = A (exactly).  The model says: all hold whenever the product is defined (theorems
  -- `mul_transpose`, `mul_identity`, `identity_mul`, `transpose_transpose`).
  -- A·v = A·column(v), w·A = row(w)·A, outer(w,v) = column(w)·row(v), v·v = row(v)·column(v): evaluated on the model
  | "c04.rowcol" => withArgs (do let a ← pMat; let v ← pRats; let w ← pRats; pure (a, v, w)) args fun (a, v, w) =>
      let colv : Mat := ⟨v.length, 1, v.map (fun x => [x])⟩
      let rowv : Mat := ⟨1, v.length, [v]⟩
      let colw : Mat := ⟨w.length, 1, w.map (fun x => [x])⟩
      let roww : Mat := ⟨1, w.length, [w]⟩
      match matVec a v, mul a colv, vecMat w a, mul roww a with
      | .ok av, .ok ac, .ok wa, .ok ra =>
        match mul colw rowv, mul rowv colv, dot v v with
        | .ok cr, .ok rc, .ok d =>
          "ok " ++ b01 (decide (ac.data = av.map (fun x => [x]))) ++ " " ++ b01 (decide (ra.data = [wa])) ++ " "
            ++ b01 (meq (outer w v) cr) ++ " " ++ b01 (decide (rc.data = [[d]]))
        | _, _, _ => "err"
      | .error .undef, _, _, _ => "undef"
      | _, _, _, _ => "err"
  -- Cross(u,v) = skew(u)·v and Dot(p,q) = row(p)·column(q), evaluated on the model
  | "c04.crossdot" => withArgs (do let u ← pRats; let v ← pRats; let p ← pRats; let q ← pRats; pure (u, v, p, q)) args fun (u, v, p, q) =>
      let sk : Mat := ⟨3, 3, [[0, -(u.getD 2 0), u.getD 1 0], [u.getD 2 0, 0, -(u.getD 0 0)], [-(u.getD 1 0), u.getD 0 0, 0]]⟩
      match cross u v, matVec sk v, dot p q, mul ⟨1, p.length, [p]⟩ ⟨q.length, 1, q.map (fun x => [x])⟩ with
      | .ok c, .ok s, .ok d, .ok rc => "ok " ++ b01 (decide (c = s)) ++ " " ++ b01 (decide (rc.data = [[d]]))
      | _, _, _, _ => "err"
  -- aliasing spellings
  | "c04.alias" => withArgs (do let k ← tok; let a ← pMat; let v ← pRats; pure (k, a, v)) args fun (k, a, v) =>
      if k = "pa" ∨ k = "ma" ∨ k = "ss" then ansM (aliasM k a)
      else if k = "vs" ∨ k = "vv" then ansV (aliasV k v a) else "bad-args"
  -- moves: swap / move-construct / push_back of temporaries / return of a by-value parameter / block list
  | "c04.moves" => withArgs (do let k ← tok; let a ← pMat; let b ← pMat; pure (k, a, b)) args fun (k, a, b) =>
      match mMoves k a b with
      | .ok l => "ok " ++ " ".intercalate (l.map showMat)
      | .error .diag => "err"
      | .error .undef => "bad-args"
  | "c04.vmoves" => withArgs (do let k ← tok; let u ← pRats; let v ← pRats; pure (k, u, v)) args fun (k, u, v) =>
      match vMoves k u v with
      | .ok l => "ok " ++ " ".intercalate (l.map showVec)
      | .error .diag => "err"
      | .error .undef => "bad-args"
  | "c04.fenv" => some "ok 1"   -- the rounding mode is left as it was found, whatever the operand (inf operands included)
  | "c04.laws" => withArgs (do let a ← pMat; let b ← pMat; pure (a, b)) args fun (a, b) =>
      match mul a b, mul (transpose b) (transpose a), mul a (identity a.cols), mul (identity a.rows) a with
      | .ok ab, .ok btat, .ok ai, .ok ia =>
        "ok " ++ b01 (meq (transpose ab) btat) ++ " " ++ b01 (meq ai a) ++ " " ++ b01 (meq ia a) ++ " "
          ++ b01 (meq (transpose (transpose a)) a)
      | .error .undef, _, _, _ => "undef"
      | _, _, _, _ => "err"
  | _ => none

def main : IO Unit := driverMain handle
