import LpModel.DriverLib
import LpModel.C18
open Lp Lp.C18

abbrev MTS := Lp.MT.State
def mtU01 : U01 MTS := Lp.MT.canonical

/-- generator counting canonical variates -/
structure CG where
  g : MTS
  n : Nat := 0
def CG.u01 : U01 CG := fun c => let (u, g) := Lp.MT.canonical c.g; (u, { g := g, n := c.n + 1 })

def pGen : P CG := do let sd ← pNat; let sk ← pNat; pure { g := Lp.MT.mk sd sk }

def b2s (b : Bool) : String := if b then "1" else "0"

def pOptRat : P (Option Rat) := do
  let f ← pNat
  let v ← pRat
  pure (if f = 1 then some v else none)

/-- 1-D replay step with knife-edge detection -/
def stepK1 (pdf : Rat → Rat) (dom : Option (Rat × Rat)) (x : Rat) (r : Replay) : Rat × Replay :=
  let c := r.cand
  let ap := match dom with
    | some (lo, hi) => if c.1 < lo ∨ c.1 > hi then 0 else accProb (pdf c.1) (pdf x)
    | none => accProb (pdf c.1) (pdf x)
  let u := (c.2.u01).1
  let res := metroStep1 Replay.u01 (fun r _ => r.cand) pdf dom x r
  (res.1, { res.2 with knife := res.2.knife || margin40 u ap })

def Lp.C18.Replay.cand2 (r : Replay) : (Rat × Rat) × Replay :=
  let a := r.cand
  let b := a.2.cand
  ((a.1, b.1), b.2)

def stepK2 (pdf : Rat → Rat → Rat) (dom : Option Dom2) (x : Rat × Rat) (r : Replay) : (Rat × Rat) × Replay :=
  let c := r.cand2
  let ap := match dom with
    | some d => if c.1.1 < d.x0 ∨ c.1.1 > d.x1 ∨ c.1.2 < d.y0 ∨ c.1.2 > d.y1 then 0
                else accProb (pdf c.1.1 c.1.2) (pdf x.1 x.2)
    | none => accProb (pdf c.1.1 c.1.2) (pdf x.1 x.2)
  let u := (c.2.u01).1
  let res := metroStep2 Replay.u01 (fun r _ => r.cand2) pdf dom x r
  (res.1, { res.2 with knife := res.2.knife || margin40 u ap })

def handle : Handler := fun op args =>
  match op with
  | "c18.mt" => withArgs (do let sd ← pNat; let n ← pNat; pure (sd, n)) args fun (sd, n) =>
      "ok " ++ showNats (Lp.MT.outputs n (Lp.MT.seed (UInt32.ofNat sd)) []).1
  | "c18.canon" => withArgs (do let g ← pGen; let n ← pNat; pure (g, n)) args fun (g, n) =>
      "ok " ++ showRats (Lp.MT.canonicals n g.g []).1
  | "c18.canonz" => withArgs (do let sd ← pNat; let ks ← pList pNat; let n ← pNat; pure (sd, ks, n)) args fun (sd, ks, n) =>
      if ks.any (fun k => 1 + 2 * k + 1 ≥ 624) then "bad-args" else
      "ok " ++ showRats (Lp.MT.canonicals n (Lp.MT.zeroed sd ks) []).1
  | "c18.uniform" => withArgs (do let g ← pGen; let a ← pRat; let b ← pRat; pure (g, a, b)) args fun (g, a, b) =>
      match sampleUniformG CG.u01 g a b with
      | .ok r => "ok " ++ showRat r.1 ++ " " ++ toString r.2.n
      | .error _ => "err"
  | "c18.gauss" => withArgs (do let g ← pGen; let m ← pRat; let s ← pRat; pure (g, m, s)) args fun (g, m, s) =>
      -- the quantile is a parameter: the model predicts the uniform fed to Quantile_Gauss (`gq := fun p _ _ => p`) and the draw count
      match sampleGaussG CG.u01 (fun p _ _ => p) g m s with
      | .ok r => "ok " ++ showRat r.1 ++ " " ++ toString r.2.n
      | .error _ => "err"
  | "c18.itrans" => withArgs (do let g ← pGen; let id ← pNat; let a ← pRat; let b ← pRat; pure (g, id, a, b)) args fun (g, _, _, _) =>
      let r := sampleUniform CG.u01 g 0 1
      "ok " ++ showRat r.1 ++ " " ++ toString r.2.n
  | "c18.poisson" => withArgs (do let g ← pGen; let lam ← pRat; pure (g, lam)) args fun (g, lam) =>
      if lam < 0 then "err" else      -- samplePoissonG: the guard precedes the first draw
      let rf := (lam / 500).floor.toNat + 2
      let run (e : Rat → Rat) := samplePoisson CG.u01 e (rndK 1200) 500 rf 200000 g lam
      let d : Rat := 1 / (2 : Rat) ^ (30 : Nat)
      match run expApprox with
      | some (k, g') =>
        -- knife-edge detection: the same run with exp scaled by (1 ± 2^-30) must give the same k
        let same (e : Rat → Rat) := match run e with | some (k2, _) => k2 == k | none => false
        let knife := !(same (fun x => expApprox x * (1 + d)) && same (fun x => expApprox x * (1 - d)))
        "ok " ++ toString k ++ " " ++ toString g'.n ++ " " ++ b2s knife
      | none => "undef"
  | "c18.poissonv" => withArgs (do let g ← pGen; let ls ← pRats; pure (g, ls)) args fun (g, ls) =>
      match samplePoissonListG CG.u01 expApprox (rndK 1200) 500 12 200000 g ls with
      | .error _ => "err"
      | .ok (some (ks, g')) => "ok " ++ toString ks.length ++ " " ++ showNats ks ++ " " ++ toString g'.n
      | .ok none => "undef"
  | "c18.reject1" => withArgs (do let g ← pGen; let id ← pNat; let a ← pRat; let b ← pRat; let y ← pRat; pure (g, id, a, b, y)) args
      fun (g, id, a, b, y) =>
      match rejectionG CG.u01 (pdf1 id) a b y g with
      | .error _ => "err"
      | .ok (.ok (x, c, g')) => "ok " ++ showRat x ++ " " ++ toString c ++ " " ++ toString g'.n
      | .ok (.error .fuel) => "undef"
      | .ok (.error _) => "err"
  | "c18.reject2" => withArgs (do let g ← pGen; let id ← pNat; let a ← pRat; let b ← pRat; let c ← pRat; let d ← pRat; let z ← pRat
                                  pure (g, id, a, b, c, d, z)) args
      fun (g, id, a, b, c, d, z) =>
      match rejection2G CG.u01 (pdf2 id) a b c d z g with
      | .error _ => "err"
      | .ok (.ok (x, n, g')) => "ok " ++ showRat x.1 ++ " " ++ showRat x.2 ++ " " ++ toString n ++ " " ++ toString g'.n
      | .ok (.error .fuel) => "undef"
      | .ok (.error _) => "err"
  | "c18.mcount" =>
      -- seed skip dim bounded sample thin burn : bookkeeping only (count of pushes, uniforms consumed)
      withArgs (do let _ ← pNat; let _ ← pNat; let dim ← pNat; let bd ← pNat; let s ← pNat; let t ← pNat; let b ← pNat; pure (dim, bd, s, t, b)) args
      fun (dim, _, s, t, b) =>
      if t = 0 then "undef" else
      -- the bookkeeping loop itself, on a trivial chain whose step consumes the uniforms of one iteration
      let per := if dim = 1 then 2 else 3
      let r := metroLoop (G := Nat) (X := Unit) (fun _ n => ((), n + per)) b t (b + t * s) 0 () (if dim = 1 then 1 else 2) []
      "ok " ++ toString r.1.length ++ " " ++ toString r.2
  | "c18.metro1" =>
      -- seed skip sample thin burn sigma pdfid  ndom dom…  hasx0 x0  ncand cand…
      withArgs (do let sd ← pNat; let sk ← pNat; let s ← pNat; let t ← pNat; let b ← pNat; let sg ← pRat; let id ← pNat
                   let dom ← pRats; let x0 ← pOptRat; let cs ← pRats; pure (sd, sk, s, t, b, sg, id, dom, x0, cs)) args
      fun (sd, sk, s, t, b, sg, id, dom, x0, cs) =>
      if dom.length ≠ 0 ∧ dom.length ≠ 2 then "err" else
      if t = 0 then "undef" else
      let r0 : Replay := { g := Lp.MT.mk sd sk, cands := cs }
      let d : Option (Rat × Rat) := match dom with | [lo, hi] => some (lo, hi) | _ => none
      -- parameter guards inherited from Sample_Uniform / Sample_Gauss (metropolis1G; the chain itself is replayed below)
      if (match metropolis1G (G := Nat) (fun n => (0, n)) (fun _ _ _ => 0) (fun _ => 1) sg 0 t 0 d 0 with | .error _ => true | .ok _ => false)
         || (match metropolis1G (G := Nat) (fun n => (0, n)) (fun _ _ _ => 0) (fun _ => 1) sg (min s 1) t (min b 1) d 0 with | .error _ => true | .ok _ => false)
      then "err" else
      -- start: bounded → uniform on the domain (predicted exactly); unbounded → Gaussian (recorded)
      let st : Rat × Replay := match d with
        | some (lo, hi) => sampleUniform Replay.u01 r0 lo hi
        | none => ((x0.getD 0), (r0.u01).2)
      let xs := match x0 with | some v => v | none => st.1     -- chain runs on the recorded double
      let r := metroLoop (stepK1 (pdf1 id) d) b t (b + t * s) 0 xs st.2 []
      if r.2.short then "undef" else
      "ok " ++ toString r.1.length ++ " " ++ showRats r.1 ++ " u " ++ toString r.2.uniforms ++ " x0 " ++ showRat st.1
        ++ " knife " ++ b2s r.2.knife ++ " left " ++ toString r.2.cands.length
  | "c18.metro2" =>
      withArgs (do let sd ← pNat; let sk ← pNat; let s ← pNat; let t ← pNat; let b ← pNat; let s1 ← pRat; let s2 ← pRat; let id ← pNat
                   let dom ← pRats; let x0 ← pOptRat; let y0 ← pOptRat; let cs ← pRats; pure (sd, sk, s, t, b, s1, s2, id, dom, x0, y0, cs)) args
      fun (sd, sk, s, t, b, s1, s2, id, dom, x0, y0, cs) =>
      if dom.length ≠ 0 ∧ dom.length ≠ 4 then "err" else
      if t = 0 then "undef" else
      let r0 : Replay := { g := Lp.MT.mk sd sk, cands := cs }
      let d : Option Dom2 := match dom with | [a, b, c, e] => some ⟨a, b, c, e⟩ | _ => none
      if (match metropolis2G (G := Nat) (fun n => (0, n)) (fun _ _ _ => 0) (fun _ _ => 1) s1 s2 (min s 1) t (min b 1) d 0 with | .error _ => true | .ok _ => false)
      then "err" else
      let st : (Rat × Rat) × Replay := match d with
        | some dd =>
          let a := sampleUniform Replay.u01 r0 dd.x0 dd.x1
          let b := sampleUniform Replay.u01 a.2 dd.y0 dd.y1
          ((a.1, b.1), b.2)
        | none => ((x0.getD 0, y0.getD 0), ((r0.u01).2.u01).2)
      let xs : Rat × Rat := (x0.getD st.1.1, y0.getD st.1.2)
      let r := metroLoop (stepK2 (pdf2 id) d) b t (b + t * s) 0 xs st.2 []
      if r.2.short then "undef" else
      "ok " ++ toString r.1.length ++ " " ++ showRats (r.1.flatMap (fun p => [p.1, p.2])) ++ " u " ++ toString r.2.uniforms
        ++ " x0 " ++ showRat st.1.1 ++ " " ++ showRat st.1.2 ++ " knife " ++ b2s r.2.knife ++ " left " ++ toString r.2.cands.length
  | _ => none

def main : IO Unit := driverMain handle
