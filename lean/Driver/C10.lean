import LpModel.DriverLib
import LpModel.C10
open Lp Lp.C10

/-- answer of a guard; when it passes, the checked reads of the model must all succeed -/
def ans (g : G) (reads : List (Option Rat) := []) : String :=
  if g.stops then "err" else if noOOB reads then "ok" else "model-oob"

def pNats : P (List Nat) := pList pNat
def pOptRat : P (Option Rat) := do
  let t ← tok
  if t = "nan" then pure none
  else match parseRat t with
    | some r => pure (some r)
    | none => failure
/-- method token `m:<name>` (so that the empty name is a token) -/
def pMethod : P String := do
  let t ← tok
  if t.startsWith "m:" then pure (t.drop 2).toString else failure
def pBool : P Bool := do let n ← pNat; if n = 0 then pure false else if n = 1 then pure true else failure

/-- one call of a history in one process: `F<n>` = `Factorial(n)`, `B<n>:<k>` = `Binomial_Coefficient(n,k)` -/
def pItem : P G := do
  let t ← tok
  if t.startsWith "F" then
    match (t.drop 1).toString.toNat? with
    | some n => pure (factorialGuard n)
    | none => failure
  else if t.startsWith "B" then
    match (t.drop 1).toString.splitOn ":" with
    | [a, b] => match a.toInt?, b.toInt? with
      | some n, some k => pure (binomialGuard n k)
      | _, _ => failure
    | _ => failure
  else failure

def splitNats (t : String) : Option (String × List Nat) :=
  match t.splitOn ":" with
  | [] => none
  | nm :: rest =>
    let ns := rest.map String.toNat?
    if ns.all Option.isSome then some (nm, ns.map (fun o => o.getD 0)) else none

/-- one step of a matrix history; `at:i:j` carries the inner index: `none` for the guard means
    "inner index not meaningful" (unguarded std::vector index: outside the quantifier) -/
def pMatOp : P (MatOp × Option Nat) := do
  let t ← tok
  match splitNats t with
  | some ("resize", [r, c]) => pure (.resize r c, none)
  | some ("assign", [r, c]) => pure (.assign r c, none)
  | some ("set", [r, c]) => pure (.set r c, none)
  | some ("delrow", [i]) => pure (.delRow i, none)
  | some ("delcol", [j]) => pure (.delCol j, none)
  | some ("at", [i, j]) => pure (.at i, some j)
  | some ("plus", [r, c]) | some ("minus", [r, c]) | some ("addeq", [r, c]) | some ("subeq", [r, c]) => pure (.sum r c, none)
  | some ("prod", [r, c]) => pure (.prod r c, none)
  | some ("prodv", [n]) => pure (.prodv n, none)
  | some ("trace", []) => pure (.trace, none)
  | some ("transpose", []) => pure (.transpose, none)
  | some ("row", [i]) => pure (.row i, none)
  | some ("col", [j]) => pure (.col j, none)
  | _ => failure

def pVecOp : P VecOp := do
  let t ← tok
  match splitNats t with
  | some ("resize", [n]) => pure (.resize n)
  | some ("assign", [n]) => pure (.assign n)
  | some ("set", [n]) => pure (.set n)
  | some ("at", [i]) => pure (.at i)
  | some ("dot", [n]) | some ("add", [n]) | some ("sub", [n]) | some ("addeq", [n]) | some ("subeq", [n]) => pure (.pair n)
  | some ("cross", [n]) => pure (.cross n)
  | _ => failure

/-- does a history contain an `at:i:j` whose outer index is accepted but whose inner index is out of range? -/
def innerOOB : Nat × Nat → List (MatOp × Option Nat) → Bool
  | _, [] => false
  | s, (op, j) :: rest =>
    if (matOpGuard s op).stops then false
    else
      (match j with
        | some j => decide (j ≥ s.2)
        | none => false) || innerOOB (matOpShape s op) rest

/-- a step of a move history: only the relative requests have a guard; moves, swaps and copies always return -/
def pMoveStep : P (Option RelReq) := do
  let t ← tok
  match splitNats t with
  | some ("mc", [_, _]) | some ("ma", [_, _]) | some ("pb", [_, _]) | some ("sw", [_, _]) | some ("cp", [_, _]) => pure none
  | some ("use", [_]) => pure (some .useAll)
  | some ("atsize", [_]) => pure (some .atSize)
  | some ("grow", [_, k]) => pure (some (.grow k))
  | _ => failure

def ones (n : Nat) : List Rat := List.replicate n 1
def p2 : P (Nat × Nat) := do let a ← pNat; let b ← pNat; pure (a, b)
def p3 : P (Nat × Nat × Nat) := do let a ← pNat; let b ← pNat; let c ← pNat; pure (a, b, c)
def p4 : P (Nat × Nat × Nat × Nat) := do let a ← pNat; let b ← pNat; let c ← pNat; let d ← pNat; pure (a, b, c, d)

/-- a fresh `Interpolation` object on `xs` (function values do not matter for the guards) -/
def withObj (xs : List Rat) (xd fd : Rat) (k : Interp.Obj → String) : String :=
  match Interp.mk xs (xs.map fun _ => 0) xd fd with
  | .ok o => k o
  | .error _ => "err"

def handle : Handler := fun op args =>
  match op with
  -- 1. Vector
  | "c10.vec.index" | "c10.vec.cindex" => withArgs p2 args fun (d, i) => ans (vecIndexGuard d i) (vecIndexReads (ones d) i)
  | "c10.vec.dot" | "c10.vec.add" | "c10.vec.sub" | "c10.vec.addeq" | "c10.vec.subeq" | "c10.vec.mul" =>
      withArgs p2 args fun (n, m) => ans (vecPairGuard n m) (vecPairReads (ones n) (ones m))
  | "c10.vec.cross" => withArgs p2 args fun (n, m) => ans (crossGuard n m) (crossReads (ones n) (ones m))
  -- 2. Matrix
  | "c10.vec.move" => withArgs (do let dims ← pNats; let st ← pList pMoveStep; pure (dims, st)) args fun (_, st) =>
      -- the objects are in states the model does not know (moved-from: unspecified but self-consistent); by
      -- `vecRel_shape_free` the guards of the relative requests do not depend on them: evaluated at size 0
      ans (seqGuard (st.filterMap id |>.map (vecRelGuard 0)))
  | "c10.mat.move" => withArgs (do let sh ← pList p2; let st ← pList pMoveStep; pure (sh, st)) args fun (_, st) =>
      ans (seqGuard (st.filterMap id |>.map (matRelGuard (0, 0))))
  | "c10.mat.hist" => withArgs (do let r ← pNat; let c ← pNat; let ops ← pList pMatOp; pure (r, c, ops)) args fun (r, c, ops) =>
      if innerOOB (r, c) ops then "undef" else ans (matHistGuard (r, c) (ops.map (·.1)))
  | "c10.vec.hist" => withArgs (do let d ← pNat; let ops ← pList pVecOp; pure (d, ops)) args fun (d, ops) => ans (vecHistGuard d ops)
  | "c10.mat.index" | "c10.mat.cindex" => withArgs p3 args fun (r, c, i) => ans (matIndexGuard r i) (matIndexReads (Mat.const r c 1) i)
  | "c10.mat.entries" => withArgs pNats args fun lens => ans (matEntriesGuard lens)
  | "c10.mat.block" | "c10.mat.block.empty" => withArgs (do let R ← pNat; let C ← pNat; let l ← pMany p2 (R * C); pure (R, C, l)) args fun (R, C, l) =>
      if R = 0 ∨ C = 0 then ans (blockLayoutGuard (List.replicate R C)) else
      let rws (r c : Nat) : Nat := (l.getD (r * C + c) (0, 0)).1
      let cls (r c : Nat) : Nat := (l.getD (r * C + c) (0, 0)).2
      ans (blockGuard R C rws cls)
  | "c10.mat.blockr" => withArgs (pList (pList p2)) args fun rows =>
      -- ragged / empty list of blocks: the layout test comes first, then the block dimensions of the rectangular grid
      if (blockLayoutGuard (rows.map List.length)).stops then "err" else
      let C := (rows.headD []).length
      let rws (r c : Nat) : Nat := ((rows.getD r []).getD c (0, 0)).1
      let cls (r c : Nat) : Nat := ((rows.getD r []).getD c (0, 0)).2
      ans (blockGuard rows.length C rws cls)
  | "c10.mat.delrow" | "c10.mat.row" => withArgs p3 args fun (r, c, i) => ans (matRowGuard r i) (matRowReads (Mat.const r c 1) i)
  | "c10.mat.delcol" | "c10.mat.col" => withArgs p3 args fun (r, c, j) => ans (matColGuard c j) (matColReads (Mat.const r c 1) j)
  | "c10.mat.plus" | "c10.mat.minus" | "c10.mat.addeq" | "c10.mat.subeq" | "c10.mat.opplus" | "c10.mat.opminus" =>
      withArgs p4 args fun (r1, c1, r2, c2) => ans (matSumGuard r1 c1 r2 c2) (matSumReads (Mat.const r1 c1 1) (Mat.const r2 c2 1))
  | "c10.mat.prod" | "c10.mat.opprod" =>
      withArgs p4 args fun (r1, c1, r2, c2) => ans (matProdGuard r1 c1 r2 c2) (matProdReads (Mat.const r1 c1 1) (Mat.const r2 c2 1))
  | "c10.mat.prodv" | "c10.mat.opprodv" => withArgs p3 args fun (r, c, n) => ans (matVecGuard r c n) (matVecReads (Mat.const r c 1) (ones n))
  | "c10.mat.vprod" => withArgs p3 args fun (n, r, c) => ans (vecMatGuard n r c) (vecMatReads (ones n) (Mat.const r c 1))
  | "c10.mat.trace" => withArgs p2 args fun (r, c) => ans (squareGuard r c) (traceReads (Mat.const r c 1))
  | "c10.mat.det" => withArgs p2 args fun (r, c) => ans (squareGuard r c) (detReads (Mat.const r c 1))
  | "c10.mat.inv" => withArgs (do let r ← pNat; let c ← pNat; let e ← pMany pRat (r * c); pure (r, c, e)) args fun (r, c, e) =>
      let m : List (List Rat) := (List.range r).map (fun i => (List.range c).map (fun j => e.getD (i * c + j) 0))
      ans (inverseGuard r c (if r = c then detAsCoded m else 0))
  | "c10.rot" => withArgs (do let d ← pInt; let n ← pNat; pure (d, n)) args fun (d, n) => ans (rotationGuard d n) (rotationReads d (ones n))
  -- 3. Interpolation
  | "c10.interp.ctor" => withArgs (do let xs ← pRats; let ys ← pRats; let xd ← pRat; let fd ← pRat; pure (xs, ys, xd, fd)) args fun (xs, ys, xd, fd) => ans (interpCtorGuard xs ys xd fd)
  | "c10.interp.ctornan" => withArgs p2 args fun (_, _) => "err"   -- a NaN abscissa is never meaningful (fix f6c66e5: `!(x[i] > x[i-1])`)
  | "c10.interp.table" => withArgs (do let t ← pList pRats; let xd ← pRat; let fd ← pRat; pure (t, xd, fd)) args fun (t, xd, fd) => ans (interpTableGuard t xd fd)
  | "c10.interp.locate" | "c10.interp.eval" => withArgs (do let xs ← pRats; let xd ← pRat; let fd ← pRat; let v ← pRat; pure (xs, xd, fd, v)) args fun (xs, xd, fd, v) =>
      withObj xs xd fd fun o =>
        match Interp.locate o.N o.x o.st v with
        | .ok (j, _) => ans (locateGuard o.N o.x o.st v) (interpolateReads o.N j)
        | .error _ => ans (locateGuard o.N o.x o.st v)
  | "c10.interp.deriv" => withArgs (do let xs ← pRats; let xd ← pRat; let fd ← pRat; let v ← pRat; let k ← pNat; pure (xs, xd, fd, v, k)) args fun (xs, xd, fd, v, _k) =>
      withObj xs xd fd fun o =>
        match Interp.locate o.N o.x o.st v with
        | .ok (j, _) => ans (locateGuard o.N o.x o.st v) (interpolateReads o.N j)
        | .error _ => ans (locateGuard o.N o.x o.st v)
  | "c10.interp.hist" => withArgs (do let xs ← pRats; let xd ← pRat; let fd ← pRat; let vs ← pRats; pure (xs, xd, fd, vs)) args fun (xs, xd, fd, vs) =>
      withObj xs xd fd fun o => ans (historyGuard o.N o.x o.st vs)
  | "c10.interp.integ" => withArgs (do let xs ← pRats; let xd ← pRat; let fd ← pRat; let a ← pRat; let b ← pRat; pure (xs, xd, fd, a, b)) args fun (xs, xd, fd, a, b) =>
      withObj xs xd fd fun o => ans (integrateGuard o.N o.x o.st a b)
  | "c10.interp.lmin" | "c10.interp.lmax" => withArgs (do let xs ← pRats; let xd ← pRat; let fd ← pRat; let a ← pRat; let b ← pRat; pure (xs, xd, fd, a, b)) args fun (xs, xd, fd, a, b) =>
      withObj xs xd fd fun o => ans (localExtGuard o.N o.x o.st a b)
  | "c10.interp2.ctor" => withArgs (do let xs ← pRats; let ys ← pRats; let lens ← pNats; pure (xs, ys, lens)) args fun (xs, ys, lens) =>
      ans (interp2CtorGuard xs ys (lens.map ones) (-1) (-1) (-1))
  | "c10.interp2.table" => withArgs (pList pRats) args fun t => ans (interp2TableGuard t (-1) (-1) (-1))
  | "c10.interp2.eval" => withArgs (do let xs ← pRats; let ys ← pRats; let xd ← pRat; let yd ← pRat; let a ← pRat; let b ← pRat; pure (xs, ys, xd, yd, a, b)) args fun (xs, ys, xd, yd, a, b) =>
      -- the 2-D constructor converts the units, then builds the two 1-D index objects from the converted lists
      withObj xs xd (-1) fun ox => withObj ys yd (-1) fun oy =>
        match Interp.locate ox.N ox.x ox.st a, Interp.locate oy.N oy.x oy.st b with
        | .ok (i, _), .ok (j, _) => ans (interp2EvalGuard ox.N ox.x ox.st oy.N oy.x oy.st a b) (interp2EvalReads ox.N oy.N i j)
        | _, _ => ans (interp2EvalGuard ox.N ox.x ox.st oy.N oy.x oy.st a b)
  | "c10.mat.resize" | "c10.mat.assign" => withArgs (do let r ← pInt; let c ← pInt; pure (r, c)) args fun (r, c) => ans (matDimsGuard r c)
  | "c10.integmc.shape" => withArgs (do let m ← pMethod; let n ← pInt; let rs ← pNat; pure (m, n, rs)) args fun (m, n, rs) => ans (integrateMCShapeGuard rs n m)
  | "c10.simplex.delta" => withArgs pNat args fun n => ans (simplexDeltasGuard n n)
  | "c10.simplex.deltas" => withArgs p2 args fun (n, m) => ans (simplexDeltasGuard n m)
  | "c10.simplex.pp" => withArgs pNats args fun lens => ans (simplexGuard lens)
  | "c10.mean" | "c10.median" => withArgs pNat args fun n => ans (dataLengthGuard 1 n)
  | "c10.variance" | "c10.stddev" | "c10.wavg" => withArgs pNat args fun n => ans (dataLengthGuard 2 n)
  -- 4. Find_Root
  | "c10.findroot" => withArgs (do let a ← pOptRat; let b ← pOptRat; pure (a, b)) args fun (a, b) => ans (findRootGuard a b)
  -- 5. Integration
  | "c10.integ1" => withArgs (do let m ← pMethod; let a ← pRat; let b ← pRat; pure (m, a, b)) args fun (m, a, b) => ans (integrate1Guard a b m)
  | "c10.integ2" | "c10.integ3" | "c10.integ3s" => withArgs pMethod args fun m => ans (integrateNDGuard m)
  | "c10.integmc" => withArgs pMethod args fun m => ans (integrateMCGuard m)
  | "c10.integmc.hist" => withArgs (pList pMethod) args fun ms => ans (seqGuard (ms.map integrateMCGuard))
  | "c10.glrows" => withArgs (do let n ← pNat; let lens ← pNats; pure (n, lens)) args fun (n, lens) => ans (gaussLegendreRowsGuard n lens)
  | "c10.glfunc" => withArgs pNats args fun lens => ans (gaussLegendreFuncGuard lens)
  | "c10.gl" => withArgs p2 args fun (n, m) => ans (gaussLegendreGuard n m) (gaussLegendreReads (ones n) (List.replicate m [1, 1]))
  -- 6. Special functions
  | "c10.factorial" => withArgs pNat args fun n => ans (factorialGuard n)
  | "c10.factorial.hist" => withArgs (pList pItem) args fun items => ans (seqGuard items)
  | "c10.binom" => withArgs (do let n ← pInt; let k ← pInt; pure (n, k)) args fun (n, k) => ans (binomialGuard n k)
  | "c10.gammaln" => withArgs pRat args fun x => ans (gammaLnGuard x)
  | "c10.gammaq" => withArgs (do let x ← pRat; let a ← pRat; pure (x, a)) args fun (x, a) => ans (gammaQGuard x a)
  | "c10.invgammap" | "c10.invgammap.p" => withArgs (do let p ← pRat; let a ← pRat; pure (p, a)) args fun (p, a) => ans (invGammaPFullGuard p a)
  | "c10.invgammaq" => withArgs (do let q ← pRat; let a ← pRat; pure (q, a)) args fun (q, a) => ans (invGammaPFullGuard (1 - q) a)
  | "c10.gamma" => withArgs pRat args fun x => ans (gammaLnGuard x)
  | "c10.uppergamma" | "c10.lowergamma" => withArgs (do let x ← pRat; let s ← pRat; pure (x, s)) args fun (x, s) => ans (incompleteGammaGuard x s)
  | "c10.round" => withArgs (do let x ← pRat; let d ← pNat; pure (x, d)) args fun (x, d) => ans (roundGuard x d)
  | "c10.vshy" | "c10.vshpsi" => withArgs pInt args fun c => ans (vshGuard c)
  | "c10.inverf" => withArgs pRat args fun p => ans (invErfGuard p)
  -- 7. Statistics
  | "c10.pmfbinom" | "c10.cdfbinom" => withArgs (do let t ← pNat; let p ← pRat; let x ← pNat; pure (t, p, x)) args fun (_, p, _) => ans (probabilityGuard p)
  | "c10.pmfpoisson" | "c10.cdfpoisson" => withArgs (do let mu ← pRat; let n ← pNat; pure (mu, n)) args fun (mu, _) => ans (poissonMeanGuard mu)
  | "c10.invcdfpoisson" => withArgs (do let n ← pNat; let c ← pRat; pure (n, c)) args fun (_, c) => ans (probabilityGuard c)
  | "c10.pdfexp" | "c10.cdfexp" | "c10.pdfmb" | "c10.cdfmb" => withArgs (do let x ← pRat; let a ← pRat; pure (x, a)) args fun (_, a) => ans (positiveGuard a)
  | "c10.pdfuniform" | "c10.cdfuniform" => withArgs (do let x ← pRat; let a ← pRat; let b ← pRat; pure (x, a, b)) args fun (_, a, b) => ans (intervalGuard a b)
  | "c10.pdfgauss" | "c10.cdfgauss" => withArgs (do let x ← pRat; let m ← pRat; let s ← pRat; pure (x, m, s)) args fun (_, _, sg) => ans (positiveGuard sg)
  | "c10.quantilegauss" => withArgs (do let p ← pRat; let m ← pRat; let s ← pRat; pure (p, m, s)) args fun (p, _, sg) => ans (quantileGaussGuard p sg)
  | "c10.pdfgauss2d" => withArgs (do let a ← pRat; let b ← pRat; pure (a, b)) args fun (a, b) => ans (gauss2DGuard a b)
  | "c10.pdfchisq" | "c10.cdfchisq" => withArgs (do let x ← pRat; let d ← pRat; pure (x, d)) args fun (_, d) => ans (poissonMeanGuard d)
  | "c10.llpoisson" | "c10.lpoisson" => withArgs (do let a ← pRat; let n ← pNat; let b ← pRat; pure (a, n, b)) args fun (a, _, b) => ans (likelihoodPoissonGuard a b)
  | "c10.sampleuniform" => withArgs (do let a ← pRat; let b ← pRat; pure (a, b)) args fun (a, b) => ans (weakIntervalGuard a b)
  | "c10.samplegauss" => withArgs (do let m ← pRat; let s ← pRat; pure (m, s)) args fun (_, sg) => ans (poissonMeanGuard sg)
  | "c10.samplepoisson" => withArgs pRat args fun mu => ans (poissonMeanGuard mu)
  | "c10.samplepoissonv" => withArgs pRats args fun mus => ans (seqGuard (mus.map poissonMeanGuard))
  | "c10.metropolissigma" => withArgs pRat args fun sg => ans (poissonMeanGuard sg)
  | "c10.pdfchibar" | "c10.cdfchibar" => withArgs (do let x ← pRat; let ws ← pRats; pure (x, ws)) args fun (_, ws) => ans (chiBarGuard ws)
  | "c10.llbinned" | "c10.lbinned" => withArgs p3 args fun (n, m, k) => ans (binnedGuard n m k) (binnedReads (ones n) (ones m) (ones k))
  | "c10.metropolis" => withArgs pNat args fun n => ans (metropolisGuard 2 n) (metropolisReads 2 (ones n))
  | "c10.metropolis2d" => withArgs pNat args fun n => ans (metropolisGuard 4 n) (metropolisReads 4 (ones n))
  -- 8. lists, utilities, units
  | "c10.transpose" | "c10.transpose.empty" => withArgs pNats args fun lens =>
      ans (transposeAllGuard lens) (if lens.length = 0 then [] else transposeReads (lens.map ones))
  | "c10.transpose2" => withArgs p2 args fun (n, m) => ans (transposeGuard n [m]) (transposeReads [ones n, ones m])
  | "c10.closest" | "c10.closest.empty" => withArgs (do let l ← pRats; let t ← pRat; pure (l, t)) args fun (l, t) =>
      ans (closestAllGuard l) (closestReads l (l.takeWhile (fun x => decide (x ≤ t))).length)
  | "c10.sublist" => withArgs (do let n ← pNat; let a ← pInt; let b ← pNat; pure (n, a, b)) args fun (n, a, b) =>
      ans (subListGuard n a b) (subListReads (ones n) a b)
  | "c10.inunits" => withArgs (do let l ← pNats; let nd ← pNat; pure (l, nd)) args fun (l, nd) => ans (inUnitsGuard l nd) (inUnitsReads (l.map ones) (ones nd))
  | "c10.exporttable" => withArgs (do let l ← pNats; let nd ← pNat; pure (l, nd)) args fun (l, nd) => ans (exportTableGuard l nd)
  | "c10.importlist" => withArgs pBool args fun e => ans (importListGuard e)
  | "c10.importtable" | "c10.importtable.empty" => withArgs (do let e ← pBool; let r ← pNat; let c ← pNat; let nd ← pNat; pure (e, r, c, nd)) args fun (e, r, c, nd) =>
      ans (importTableRowsGuard e r c nd)
  | "c10.importtable.fill" => withArgs (do let lens ← pNats; let blank ← pNat; let nd ← pNat; pure (lens, blank, nd)) args fun (lens, _, nd) =>
      -- a file whose lines hold `lens` numbers each, followed by blank lines: rows = lines up to the last non-blank one
      let rows := (lens.reverse.dropWhile (· = 0)).length
      ans (importTableFillGuard (lens.foldl (· + ·) 0) rows nd)
  | "c10.checkerr" => withArgs pBool args fun c => ans (checkForErrorGuard c)
  | _ => none

def main : IO Unit := driverMain handle
