#!/usr/bin/env python3
"""Single entry point of the /verif machinery.

  python3 check.py Cxx --tier quick|thorough     decide property Cxx on /repo's current tree
  python3 check.py Cxx --replay FILE             re-run the requests of a replay file
  python3 check.py --setup                       build the Lean side and the library cache

Per run, for property P (DESIGN.md §5):
  1. Lean side: `lake build LpProofs.P drv_p`, axiom audit of every name in
     lean/obligations/P.txt, forbidden-token scan of the Lean sources.
  2. Library (ASan+UBSan) and harness are rebuilt from /repo's *current* sources (cache keyed by
     a hash of the source files, so an edited tree is always rebuilt).
  3. props/p.py generates requests from VERIF_SEED; the harness runs them on the implementation,
     the compiled Lean driver on the model; props/p.py compares (classes A–D) and evaluates the
     property oracle on the implementation's own output.
  4. Evidence is written to evidence/P.json; VIOLATION / KNOWN-FINDING lines and the exit status
     follow the interface contract.
"""
import argparse, fcntl, hashlib, importlib.util, json, os, re, shutil, subprocess, sys, time
from concurrent.futures import ThreadPoolExecutor

VERIF = os.path.dirname(os.path.abspath(__file__))
REPO = os.environ.get("LP_REPO", "/repo")
LEAN = os.path.join(VERIF, "lean")
CACHE = os.path.join(VERIF, ".cache")
NCPU = min(16, os.cpu_count() or 4)

CXX = os.environ.get("LP_CXX", "g++")
CXXFLAGS = ["-std=c++14", "-O1", "-g", "-fno-omit-frame-pointer", "-fsanitize=address,undefined",
            "-fno-sanitize-recover=all", "-w"]
if os.environ.get("LP_COVERAGE") == "1":   # tools/coverage.py: line coverage of /repo/src under the correspondence runs
    CXXFLAGS = [f for f in CXXFLAGS if not f.startswith("-fsanitize") and f != "-fno-sanitize-recover=all"] + ["--coverage", "-DHZ_COVERAGE"]
ACCEPTED_AXIOMS = {"propext", "Classical.choice", "Quot.sound"}
FORBIDDEN = re.compile(r"\bsorry\b|\badmit\b|^\s*axiom\s|\bnative_decide\b|\bbv_decide\b|implemented_by|\bunsafe\s|maxHeartbeats\s+0\b|\bofReduceBool\b", re.M)

TRUSTED_BASE = [
    "Lean 4.33.0 kernel (thorough tier: leanchecker re-check of the property's compiled modules)",
    "axioms accepted by the audit: propext, Classical.choice, Quot.sound only (no sorry/admit/native_decide/bv_decide/user axioms)",
    "hand-written Lean model is tied to /repo by the correspondence run of this check (harness on the real library vs compiled Lean driver), within the generator's reach",
    "exact real (rational) arithmetic in the model in place of IEEE-754; rounding is absorbed and measured by the stated tolerances",
    "check.py, props/*.py comparators (exact Fraction arithmetic), harness/*.cpp, g++/libstdc++/glibc libm, ASan/UBSan",
]


def log(*a):
    print(*a, file=sys.stderr, flush=True)


class Lock:
    """flock-based lock, re-entrant within this process (check() holds "lake" across pre_build, lake build,
    audit and the copy of the driver; the functions it calls take the same lock again)"""
    _held = {}     # path -> [file, depth]

    def __init__(self, name):
        os.makedirs(CACHE, exist_ok=True)
        self.path = os.path.join(CACHE, name + ".lock")

    def __enter__(self):
        h = Lock._held.get(self.path)
        if h:
            h[1] += 1
            return self
        f = open(self.path, "w")
        fcntl.flock(f, fcntl.LOCK_EX)
        Lock._held[self.path] = [f, 1]
        return self

    def __exit__(self, *a):
        h = Lock._held[self.path]
        h[1] -= 1
        if h[1] == 0:
            del Lock._held[self.path]
            fcntl.flock(h[0], fcntl.LOCK_UN)
            h[0].close()


# ----------------------------------------------------------------------------------------------
# library + harness build from the current working tree
# ----------------------------------------------------------------------------------------------

def repo_files():
    fs = []
    for sub in ("src", "include"):
        for d, _, names in os.walk(os.path.join(REPO, sub)):
            for n in sorted(names):
                if n.endswith((".cpp", ".hpp", ".h", ".in")):
                    fs.append(os.path.join(d, n))
    return sorted(fs)


def repo_hash():
    h = hashlib.sha256()
    for f in repo_files():
        h.update(os.path.relpath(f, REPO).encode())
        h.update(open(f, "rb").read())
    h.update(" ".join(CXXFLAGS).encode())
    return h.hexdigest()[:16]


def gen_version_hpp(dst):
    src = os.path.join(REPO, "include", "version.hpp.in")
    txt = open(src).read() if os.path.exists(src) else ""
    txt = re.sub(r"@[A-Za-z_]*DIR@", CACHE + "/scratch", txt)
    txt = re.sub(r"@[A-Za-z_]+@", "verif", txt)
    os.makedirs(os.path.dirname(dst), exist_ok=True)
    with open(dst, "w") as f:
        f.write(txt)


def run_cmd(cmd, **kw):
    return subprocess.run(cmd, stdout=subprocess.PIPE, stderr=subprocess.STDOUT, text=True, **kw)


def build_lib():
    """Compile every src/*.cpp of the current tree with the sanitizers. Returns (libdir, error)."""
    h = repo_hash()
    libdir = os.path.join(CACHE, "lib-" + h)
    with Lock("lib"):
        if os.path.exists(os.path.join(libdir, "OK")):
            return libdir, None
        # remove stale library caches (disk space): keep the 8 most recent, never one younger than 45 min
        if os.path.isdir(CACHE):
            olds = sorted((os.path.getmtime(os.path.join(CACHE, n)), n) for n in os.listdir(CACHE)
                          if n.startswith("lib-") and n != "lib-" + h)
            for mt, n in olds[:-8] if len(olds) > 8 else []:
                if time.time() - mt > 2700:
                    shutil.rmtree(os.path.join(CACHE, n), ignore_errors=True)
        os.makedirs(os.path.join(libdir, "obj"), exist_ok=True)
        gen_version_hpp(os.path.join(libdir, "gen", "version.hpp"))
        srcs = sorted(f for f in os.listdir(os.path.join(REPO, "src")) if f.endswith(".cpp") and f != "main.cpp")

        def cc(s):
            o = os.path.join(libdir, "obj", s[:-4] + ".o")
            r = run_cmd([CXX] + CXXFLAGS + ["-I" + os.path.join(REPO, "include"), "-I" + os.path.join(libdir, "gen"),
                                            "-c", os.path.join(REPO, "src", s), "-o", o])
            return s, r.returncode, r.stdout
        with ThreadPoolExecutor(NCPU) as ex:
            res = list(ex.map(cc, srcs))
        bad = [(s, out) for s, rc, out in res if rc != 0]
        if bad:
            return libdir, "library does not compile: " + bad[0][0] + "\n" + bad[0][1][-2000:]
        open(os.path.join(libdir, "OK"), "w").write(h)
        return libdir, None


def build_harness(prop, libdir):
    src = os.path.join(VERIF, "harness", prop.lower() + ".cpp")
    hh = hashlib.sha256()
    for f in [src, os.path.join(VERIF, "harness", "common.hpp")]:
        hh.update(open(f, "rb").read())
    exe = os.path.join(libdir, "hz_%s_%s" % (prop.lower(), hh.hexdigest()[:10]))
    with Lock("harness-" + prop):
        if os.path.exists(exe):
            return exe, None
        for n in os.listdir(libdir):
            if n.startswith("hz_%s_" % prop.lower()):
                os.unlink(os.path.join(libdir, n))
        objs = [os.path.join(libdir, "obj", o) for o in sorted(os.listdir(os.path.join(libdir, "obj"))) if o.endswith(".o")]
        r = run_cmd([CXX] + CXXFLAGS + ["-I" + os.path.join(REPO, "include"), "-I" + os.path.join(libdir, "gen"),
                                        "-I" + os.path.join(VERIF, "harness"), src] + objs + ["-lconfig++", "-o", exe + ".tmp"])
        if r.returncode != 0:
            return None, "harness does not compile against the current tree:\n" + r.stdout[-3000:]
        os.rename(exe + ".tmp", exe)
        return exe, None


# ----------------------------------------------------------------------------------------------
# Lean side
# ----------------------------------------------------------------------------------------------

def strip_lean_comments(s):
    out, i, depth = [], 0, 0
    while i < len(s):
        if s.startswith("/-", i):
            depth += 1; i += 2; continue
        if depth and s.startswith("-/", i):
            depth -= 1; i += 2; continue
        if depth:
            if s[i] == "\n":
                out.append("\n")
            i += 1; continue
        if s.startswith("--", i):
            while i < len(s) and s[i] != "\n":
                i += 1
            continue
        out.append(s[i]); i += 1
    return "".join(out)


def lean_sources():
    fs = []
    for d, dirs, names in os.walk(LEAN):
        dirs[:] = [x for x in dirs if x != ".lake"]
        fs += [os.path.join(d, n) for n in names if n.endswith(".lean")]
    return sorted(fs)


def import_closure(prop):
    """Lean source files of this project reachable from LpProofs.<prop> and Driver.<prop> (other properties'
    files are scanned by their own checks; a worker's transient edit elsewhere must not fail this one)."""
    seen, todo = set(), ["LpProofs." + prop, "Driver." + prop, "LpModel." + prop]
    while todo:
        m = todo.pop()
        f = os.path.join(LEAN, *m.split(".")) + ".lean"
        if m in seen or not os.path.exists(f):
            continue
        seen.add(m)
        for im in re.findall(r"^\s*import\s+((?:LpModel|LpProofs|Driver)\.[A-Za-z0-9_.]+)", strip_lean_comments(open(f).read()), re.M):
            todo.append(im)
    return sorted(os.path.join(LEAN, *m.split(".")) + ".lean" for m in seen)


def forbidden_scan(prop=None):
    hits = []
    for f in (import_closure(prop) if prop else lean_sources()):
        txt = strip_lean_comments(open(f).read())
        for m in FORBIDDEN.finditer(txt):
            line = txt.count("\n", 0, m.start()) + 1
            hits.append("%s:%d: %s" % (os.path.relpath(f, VERIF), line, m.group(0).strip()))
    return hits


def obligations(prop):
    p = os.path.join(LEAN, "obligations", prop + ".txt")
    if not os.path.exists(p):
        return []
    return [l.split("#")[0].strip() for l in open(p) if l.split("#")[0].strip()]


def lean_build(prop, clean=False):
    """Build proofs and driver of one property. Returns (ok, log)."""
    targets = ["LpProofs." + prop, "drv_" + prop.lower()]
    with Lock("lake"):
        if clean:
            for root in ("LpProofs",):
                for sub in ("lib/lean", "ir"):
                    base = os.path.join(LEAN, ".lake", "build", sub, root)
                    if os.path.isdir(base):
                        for n in os.listdir(base):
                            if n.startswith(prop):
                                pth = os.path.join(base, n)
                                shutil.rmtree(pth, ignore_errors=True) if os.path.isdir(pth) else os.unlink(pth)
        r = run_cmd(["lake", "build"] + targets, cwd=LEAN)
    return r.returncode == 0, r.stdout


def audit(prop):
    """#print axioms for every obligation. Returns dict name -> (ok, detail)."""
    names = obligations(prop)
    os.makedirs(CACHE, exist_ok=True)
    res = {}
    f = os.path.join(CACHE, "audit_%s_%d.lean" % (prop, os.getpid()))
    with open(f, "w") as fh:
        fh.write("import LpProofs.%s\n" % prop)
        for n in names:
            fh.write("#print axioms %s\n" % n)
    with Lock("lake"):   # a concurrent thorough run of another property may be rebuilding imported modules
        r = run_cmd(["lake", "env", "lean", f], cwd=LEAN)
    os.unlink(f)
    out = r.stdout
    for n in names:
        m = re.search(r"'%s' depends on axioms: \[([^\]]*)\]" % re.escape(n), out, re.S)
        if m:
            ax = {a.strip() for a in m.group(1).replace("\n", " ").split(",") if a.strip()}
            badax = ax - ACCEPTED_AXIOMS
            res[n] = (not badax, "axioms: " + ", ".join(sorted(ax)))
        elif re.search(r"'%s' does not depend on any axioms" % re.escape(n), out):
            res[n] = (True, "no axioms")
        else:
            res[n] = (False, "theorem missing or does not check")
    return res, out


def leanchecker(prop):
    with Lock("lake"):
        r = run_cmd(["lake", "env", "leanchecker", "LpProofs." + prop], cwd=LEAN)
    return r.returncode == 0, r.stdout[-1500:]


# ----------------------------------------------------------------------------------------------
# running requests
# ----------------------------------------------------------------------------------------------

def run_lines(cmd, lines, env=None, timeout=3600):
    inp = "".join("%d %s\n" % (i, l) for i, l in lines)
    e = dict(os.environ)
    if env:
        e.update(env)
    p = subprocess.run(cmd, input=inp, stdout=subprocess.PIPE, stderr=subprocess.PIPE, text=True, env=e, timeout=timeout)
    out = {}
    for l in p.stdout.splitlines():
        if l.startswith("#") or not l.strip():
            continue
        k, _, v = l.partition(" ")
        try:
            out[int(k)] = v.strip()
        except ValueError:
            pass
    return out, p.returncode, p.stderr


def run_impl(exe, reqs, workdir, env=None):
    """Run the harness; if it dies in-process (sanitizer abort on an inline request) re-run the
    remainder with every request forked so that the crash becomes an observation."""
    lines = list(enumerate(reqs))
    logf = os.path.join(workdir, "harness.log")
    out, rc, err = run_lines([exe, logf], lines, env=env)
    if len(out) < len(lines):
        rest = [(i, l) for i, l in lines if i not in out]
        out2, rc2, err2 = run_lines([exe, logf], rest, env=dict(env or {}, HZ_FORK_ALL="1"))
        out.update(out2)
    return out


ENV_CLAUSE_READS = ("the answer depends on process-global state the library does not own: with every sticky floating-point "
                    "exception flag raised and a stale errno (ERANGE or EDOM) before the call it differs from the answer in a clean environment")
ENV_CLAUSE_LEAVES = "the library leaves process-global state changed behind a call (rounding mode / stream formatting / global locale)"


def environment_replica(mod, exe, reqs, impl, model, workdir, ctx, judge):
    """DESIGN.md section 16 (sixth wave): the same requests once more in a 'dirty' environment (HZ_DIRTY_ENV: sticky FP flags
    raised, errno = ERANGE or EDOM before every request body). Every model is a function of the arguments and the modelled state only,
    so the two runs must agree bit for bit; where they do not, the property's own oracle judges the dirty answer (`judge`), so
    that a violated clause is reported with its request as a concrete input. Returns the list of failures."""
    if os.environ.get("LP_NO_ENV_REPLICA") == "1" or not reqs:
        return []
    skip = getattr(mod, "ENV_REPLICA_SKIP", None)          # regex of ops whose observation is not a function of the request
    dirty = run_impl(exe, reqs, workdir, env={"HZ_DIRTY_ENV": "1"})
    out, ndiff = [], 0
    for i, rq in enumerate(reqs):
        a, b = impl.get(i, "harness-no-answer"), dirty.get(i, "harness-no-answer")
        for ans, how in ((a, "clean"), (b, "dirty")):
            if " env-changed:" in ans:
                out.append(dict(kind="corr", clause=ENV_CLAUSE_LEAVES, detail="%s run: %s" % (how, ans[ans.index(" env-changed:"):][:200]),
                                req=rq, impl=ans, model=model.get(i, "") if model else ""))
                break
        if a == b or (skip and re.search(skip, rq)) or "timeout" in (a.split(" ")[0], b.split(" ")[0]):
            continue
        ndiff += 1
        sub = []
        try:
            sub = judge(rq, b, i) or []
        except Exception as e:
            sub = [dict(kind="corr", clause="comparator exception (environment replica)", detail=repr(e))]
        for f in sub:
            f["clause"] = f["clause"] + " [with sticky FP flags raised / stale errno (ERANGE or EDOM) before the call]"
            f.update(req=rq, impl=b, model=model.get(i, "") if model else "")
            out.append(f)
        out.append(dict(kind="corr", clause=ENV_CLAUSE_READS, detail="clean: %s | dirty: %s" % (a[:300], b[:300]), req=rq, impl=b,
                        model=model.get(i, "") if model else ""))
    ctx["stats"]["environment-replica: requests re-run with FP flags raised and errno set"] = len(reqs)
    ctx["stats"]["environment-replica: answers that differ"] = ndiff
    return out


def regenerate_constants():
    """anchored constants (translators/constants.py) are shared through LpModel/Interp.lean: every check
    that builds Lean code first makes them those of the tree it checks.  Call with the lake lock held."""
    spec = importlib.util.spec_from_file_location("lp_constants_tr", os.path.join(VERIF, "translators", "constants.py"))
    m = importlib.util.module_from_spec(spec)
    spec.loader.exec_module(m)
    n = m.regenerate_all(REPO, LEAN)
    return {p: dict(generated_rewritten=v["generated_rewritten"], changed_from_default=v["changed_from_default"],
                    anchor_missing=v["anchor_missing"]) for p, v in n.items()}


def run_model(prop, reqs, exe=None):
    exe = exe or os.path.join(LEAN, ".lake", "build", "bin", "drv_" + prop.lower())
    lines = list(enumerate(reqs))
    # split across processes for speed
    n = max(1, min(NCPU, len(lines) // 200))
    chunks = [lines[i::n] for i in range(n)]
    out = {}
    with ThreadPoolExecutor(n) as ex:
        for o, rc, err in ex.map(lambda c: run_lines([exe], c), chunks):
            out.update(o)
    return out


def load_props(prop):
    p = os.path.join(VERIF, "props", prop.lower() + ".py")
    spec = importlib.util.spec_from_file_location("props_" + prop.lower(), p)
    m = importlib.util.module_from_spec(spec)
    sys.path.insert(0, os.path.join(VERIF, "props"))
    spec.loader.exec_module(m)
    return m


def known_findings(prop):
    p = os.path.join(VERIF, "known_findings.json")
    if not os.path.exists(p):
        return []
    return [k for k in json.load(open(p)).get("findings", []) if k.get("property") == prop and k.get("status") == "known"]


def matches_finding(k, fail):
    m = k.get("match", {})
    if "op" in m and not fail.get("req", "").split(" ")[0] == m["op"]:
        return False
    if "op_prefix" in m and not fail.get("req", "").startswith(m["op_prefix"]):
        return False
    if "clause" in m and fail.get("clause") != m["clause"]:
        return False
    if "req_regex" in m and not re.search(m["req_regex"], fail.get("req", "")):
        return False
    return True


# ----------------------------------------------------------------------------------------------

def write_evidence(prop, ev):
    # runs against a scratch copy of the repository (LP_REPO) never touch the committed evidence
    evdir = os.path.join(VERIF, "evidence") if os.path.realpath(REPO) == "/repo" else os.path.join(CACHE, "evidence-scratch")
    os.makedirs(evdir, exist_ok=True)
    with open(os.path.join(evdir, prop + ".json"), "w") as f:
        json.dump(ev, f, indent=1, default=str)


def check(prop, tier, seed, replay=None):
    t0 = time.time()
    os.makedirs(os.path.join(VERIF, "replays"), exist_ok=True)
    workdir = os.path.join(CACHE, "work-%s-%d" % (prop, os.getpid()))
    os.makedirs(workdir, exist_ok=True)
    mod = load_props(prop)
    fails = []          # dicts: kind ('proof'|'corr'|'prop'|'build'), clause, req, impl, model, detail
    notes = {}

    # 0.+1. ONE critical section: the generated Lean sources live in the shared tree lean/, so regeneration,
    # build, audit, leanchecker and the copy of the driver must not interleave with another check (which may
    # run on a different LP_REPO and rewrite the generated files / rebuild the same oleans and binaries).
    lake_cs = Lock("lake")
    lake_cs.__enter__()
    # 0. translator tie: regenerate model sources from /repo's current text (DESIGN.md §4.5) ------
    try:
        notes["constants"] = regenerate_constants()
    except Exception as e:
        fails.append(dict(kind="corr", clause="translator (anchored constants) failed on the current source", detail=repr(e), req="", impl="", model=""))
    if hasattr(mod, "pre_build"):
        try:
            with Lock("lake"):
                notes["pre_build"] = mod.pre_build(dict(repo=REPO, verif=VERIF, lean=LEAN, tier=tier))
        except Exception as e:
            fails.append(dict(kind="corr", clause="translator (pre_build) failed on the current source", detail=repr(e), req="", impl="", model=""))

    # 1. Lean side ---------------------------------------------------------------------------
    ok, blog = lean_build(prop, clean=(tier == "thorough" and not replay))
    obl = obligations(prop)
    discharged = 0
    audit_detail = {}
    drv = None
    if ok:
        drv = os.path.join(workdir, "drv_" + prop.lower())     # private copy: a later build cannot swap it
        shutil.copy2(os.path.join(LEAN, ".lake", "build", "bin", "drv_" + prop.lower()), drv)
        res, aout = audit(prop)
        for n in obl:
            good, det = res.get(n, (False, "missing"))
            audit_detail[n] = det
            if good:
                discharged += 1
            else:
                fails.append(dict(kind="proof", clause="theorem " + n, detail=det, req="", impl="", model=""))
    else:
        m = re.findall(r"error: ([^\n]*\n(?:[^\n]*\n){0,6})", blog)
        fails.append(dict(kind="proof", clause="lake build LpProofs.%s / drv_%s" % (prop, prop.lower()),
                          detail=("".join(m)[:3000] or blog[-3000:]), req="", impl="", model=""))
    hits = forbidden_scan(prop)
    for h in hits:
        fails.append(dict(kind="proof", clause="forbidden token in Lean sources", detail=h, req="", impl="", model=""))
    lc = None
    if ok and tier == "thorough" and not replay:
        lc_ok, lc_out = leanchecker(prop)
        lc = lc_ok
        if not lc_ok:
            fails.append(dict(kind="proof", clause="leanchecker LpProofs." + prop, detail=lc_out, req="", impl="", model=""))
    lake_cs.__exit__()

    # 2. library + harness ---------------------------------------------------------------------
    libdir, err = build_lib()
    exe = None
    if err:
        fails.append(dict(kind="build", clause="library build", detail=err, req="", impl="", model=""))
    else:
        exe, err = build_harness(prop, libdir)
        if err:
            fails.append(dict(kind="build", clause="harness build", detail=err, req="", impl="", model=""))

    # 3. correspondence + oracle -----------------------------------------------------------------
    ctx = dict(tier=tier, seed=seed, workdir=workdir, repo=REPO, verif=VERIF, libdir=libdir, cxxflags=CXXFLAGS,
               stats={}, samples=[], nontrivial=set(), excused=0)
    reqs = []
    force_oracle = os.environ.get("LP_ORACLE_ONLY") == "1"   # self-test of the oracle-only search path
    if force_oracle:
        ok = False
    if exe and ok:
        if replay:
            rp = json.load(open(replay))
            reqs = [c["req"] for c in rp.get("cases", []) if c.get("req")]
        else:
            reqs = list(mod.generate(tier, seed, ctx))
        impl = run_impl(exe, reqs, workdir)
        model = run_model(prop, reqs, drv)
        for i, rq in enumerate(reqs):
            im, mo = impl.get(i, "harness-no-answer"), model.get(i, "driver-no-answer")
            try:
                r = mod.compare(rq, im, mo, ctx)
            except Exception as e:  # a comparator bug must not pass silently
                r = [dict(kind="corr", clause="comparator exception", detail=repr(e))]
            for f in (r or []):
                f.update(req=rq, impl=im, model=mo)
                fails.append(f)
            if len(ctx["samples"]) < 6 and i % max(1, len(reqs) // 6) == 0:
                ctx["samples"].append(dict(req=rq[:400], impl=im[:300], model=mo[:300]))
        fails += environment_replica(mod, exe, reqs, impl, model, workdir, ctx,
                                     lambda rq, ans, i: mod.compare(rq, ans, model.get(i, "driver-no-answer"), ctx))
        if hasattr(mod, "finalize") and not replay:
            for f in (mod.finalize(ctx, exe) or []):
                f.setdefault("req", ""); f.setdefault("impl", ""); f.setdefault("model", "")
                fails.append(f)
    elif exe and not ok and hasattr(mod, "oracle_only") and not replay:
        # proofs broken: still search the implementation for a concrete failing input
        reqs = list(mod.generate(tier, seed, ctx))
        impl = run_impl(exe, reqs, workdir)
        for i, rq in enumerate(reqs):
            try:
                r = mod.oracle_only(rq, impl.get(i, "harness-no-answer"), ctx)
            except Exception as e:   # an oracle bug must neither pass silently nor kill the check
                r = [dict(kind="corr", clause="oracle_only exception", detail=repr(e))]
            for f in (r or []):
                f.update(req=rq, impl=impl.get(i, ""), model="")
                fails.append(f)
        fails += environment_replica(mod, exe, reqs, impl, None, workdir, ctx, lambda rq, ans, i: mod.oracle_only(rq, ans, ctx))

    # 4. verdict ------------------------------------------------------------------------------------
    kf = known_findings(prop)
    printed_kf, real = [], []
    for f in fails:
        k = next((k for k in kf if f["kind"] in ("prop", "corr") and matches_finding(k, f)), None)
        if k:
            if k["id"] not in printed_kf:
                printed_kf.append(k["id"])
                print("KNOWN-FINDING: property=%s %s" % (prop, k["what"]))
        else:
            real.append(f)
    status = 0
    if real:
        status = 1
        concrete = [f for f in real if f["kind"] == "prop"]
        if hasattr(mod, "shrink") and concrete:
            try:
                concrete = mod.shrink(concrete, exe, ctx) or concrete
            except Exception:
                pass
        rpdir = os.path.join(VERIF, "replays") if os.path.realpath(REPO) == "/repo" else os.path.join(CACHE, "replays-scratch")
        os.makedirs(rpdir, exist_ok=True)
        rp = os.path.join(rpdir, "%s-%s-%d.json" % (prop, "replay" if replay else tier, seed))
        body = dict(property=prop, tier=tier, seed=seed,
                    replay_cmd="python3 check.py %s --replay %s" % (prop, os.path.relpath(rp, VERIF)),
                    repo_hash=repo_hash(),
                    summary=dict(proof=len([f for f in real if f["kind"] == "proof"]),
                                 correspondence=len([f for f in real if f["kind"] == "corr"]),
                                 property=len(concrete), build=len([f for f in real if f["kind"] == "build"])),
                    no_longer_checks=sorted({f["clause"] for f in real if f["kind"] in ("proof", "corr", "build")})[:50],
                    cases=(concrete + [f for f in real if f["kind"] != "prop"])[:40])
        with open(rp, "w") as fh:
            json.dump(body, fh, indent=1, default=str)
        line = "VIOLATION property=%s replay=%s" % (prop, rp)
        if not concrete:
            line += " no-failing-input-found"
        print(line)
        hist = {}
        for f in real:
            hist[(f["kind"], f["clause"])] = hist.get((f["kind"], f["clause"]), 0) + 1
        for (k, c), n in sorted(hist.items(), key=lambda x: -x[1])[:25]:
            log("  %5d x [%s] %s" % (n, k, c))
        for f in (concrete + [f for f in real if f["kind"] != "prop"])[:5]:
            log("  [%s] %s :: %s\n      req  : %s\n      impl : %s\n      model: %s" % (
                f["kind"], f["clause"], str(f.get("detail", ""))[:400], f["req"][:300], f["impl"][:300], f["model"][:300]))

    ev = dict(property_id=prop, tier=tier, seed=seed, level="proof",
              coverage=dict(
                  obligations=max(len(obl), 1), discharged=discharged,
                  checker_cmd="cd lean && lake build LpProofs.%s drv_%s && lake env lean <(#print axioms of lean/obligations/%s.txt)%s" % (
                      prop, prop.lower(), prop, " && lake env leanchecker LpProofs." + prop if tier == "thorough" else ""),
                  trusted_base=TRUSTED_BASE + getattr(mod, "TRUSTED", []),
                  theorems=audit_detail, leanchecker=lc, forbidden_token_hits=hits,
                  evaluations=len(reqs), distinct_nontrivial=len(ctx["nontrivial"]),
                  rule=getattr(mod, "RULE", ""),
                  traces_validated_against_impl=len(reqs),
                  samples=ctx["samples"] or [dict(note="no request was run (build failure)")],
                  input_distribution=ctx["stats"], excused_by_margin=ctx["excused"],
                  correspondence_only_clauses=getattr(mod, "CORR_ONLY", []),
                  known_findings_printed=printed_kf, repo_hash=repo_hash(), notes=notes),
              assumptions=getattr(mod, "ASSUMPTIONS", []) + ["see DESIGN.md §3 for the trusted base"],
              wall_s=round(time.time() - t0, 2), violations=len(real))
    if not replay and os.environ.get("LP_EVIDENCE_SKIP") != "1":
        write_evidence(prop, ev)
    shutil.rmtree(workdir, ignore_errors=True)
    log("%s %s seed=%d: %d requests, %d/%d obligations, %d failures (%d known), %.1fs" % (
        prop, tier, seed, len(reqs), discharged, len(obl), len(real), len(fails) - len(real), time.time() - t0))
    return status


def setup():
    """Build what the registered checks need (Lean proofs + drivers of every claimed property, library
    cache). A failure for one property is reported but does not stop the others: each check rebuilds
    its own targets anyway and reports a broken build as a broken proof obligation."""
    try:
        props = [c["property_id"] for c in json.load(open(os.path.join(VERIF, "MANIFEST.json")))["checks"]]
    except Exception:
        props = []
    rc = 0
    with Lock("lake"):
        for p in props:
            r = run_cmd(["lake", "build", "LpProofs." + p, "drv_" + p.lower()], cwd=LEAN)
            print("setup: lake build %s: %s" % (p, "ok" if r.returncode == 0 else "FAILED\n" + r.stdout[-2000:]))
    libdir, err = build_lib()
    if err:
        print(err)   # not fatal for setup: the checks report it
    else:
        with ThreadPoolExecutor(NCPU) as ex:
            for p, (exe, e) in zip(props, ex.map(lambda p: build_harness(p, libdir), props)):
                if e:
                    print("setup: harness %s: %s" % (p, e[-500:]))
    return rc


def main():
    # the tooling venv (python3-vt) carries mpmath/numpy/scipy used by some comparators as references
    if os.environ.get("LP_REEXEC") != "1" and shutil.which("python3-vt"):
        try:
            import mpmath  # noqa: F401
        except ImportError:
            os.environ["LP_REEXEC"] = "1"
            os.execvp("python3-vt", ["python3-vt"] + sys.argv)
    ap = argparse.ArgumentParser()
    ap.add_argument("prop", nargs="?")
    ap.add_argument("--tier", default=os.environ.get("VERIF_TIER", "quick"), choices=["quick", "thorough"])
    ap.add_argument("--replay")
    ap.add_argument("--setup", action="store_true")
    a = ap.parse_args()
    if a.setup:
        sys.exit(setup())
    seed = int(os.environ.get("VERIF_SEED", "1"))
    sys.exit(check(a.prop, a.tier, seed, a.replay))


if __name__ == "__main__":
    main()
