"""C18 — samplers are reproducible from the generator state and draw from the stated law."""
import glob, math, os, random, subprocess
from fractions import Fraction
from common import *

RULE = ("requests are drawn from VERIF_SEED (generator seeds/offsets, parameters) or enumerated (the (sample, thinning, "
        "burn_in) grid); a case is non-trivial when the sampler ran and its outcome was compared (model answers ok/err) or "
        "when a statistical test had >= 2000 samples; counted once per (op, parameter class)")
CORR_ONLY = ["the empirical law of every sampler (KS / chi-square / moment tests at significance 1e-9, fixed seeds): oracle on the implementation only",
             "Sample_Gauss value: Quantile_Gauss of the predicted uniform, compared against scipy's normal quantile within the 1e-4 root accuracy of Inv_Erf",
             "Metropolis Gaussian proposals are taken from the implementation's recorded PDF arguments (the model replays decisions, bookkeeping and draws)"]
ASSUMPTIONS = ["std::mt19937 / generate_canonical<double,53> / uniform_real_distribution as in libstdc++ 12 (re-validated every run against the real generator: c18.mt, c18.canon)",
               "exp x = exp STEP * exp(x - STEP) for STEP < x <= mean and exp >= 1 on (0, mean] (poisson_knuth, every mean incl. several rescalings); "
               "no exact tie p == 1 at the exit test while lambda_left > 0 (poisson_tie_witness: there the code stops although Knuth's rule has not fired)",
               "thinning >= 1 and burn_in + thinning*sample < 2^32 (metropolis_count)"]
TRUSTED = ["scipy.stats distribution functions as reference laws", "driver-side expApprox (Taylor + squaring, 2^-200) as numerical oracle for the Poisson decisions"]

SQRT2 = math.sqrt(2.0)


# --------------------------------------------------------------------------------------------------
# a Python copy of mt19937 + generate_canonical: used ONLY to approximate Gaussian proposals when
# reconstructing/validating the Metropolis log (the exact prediction is the Lean model's)
class MT:
    def __init__(self, seed, skip=0):
        mt = [seed & 0xffffffff]
        for i in range(1, 624):
            mt.append((1812433253 * (mt[-1] ^ (mt[-1] >> 30)) + i) & 0xffffffff)
        self.mt, self.i = mt, 624
        for _ in range(skip):
            self.next()

    def next(self):
        if self.i >= 624:
            mt = self.mt
            for k in range(624):
                y = (mt[k] & 0x80000000) | (mt[(k + 1) % 624] & 0x7fffffff)
                mt[k] = mt[(k + 397) % 624] ^ (y >> 1) ^ (0x9908b0df if y & 1 else 0)
            self.i = 0
        y = self.mt[self.i]; self.i += 1
        y ^= y >> 11; y ^= (y << 7) & 0x9d2c5680; y ^= (y << 15) & 0xefc60000; y ^= y >> 18
        return y & 0xffffffff

    def u01(self):
        lo = self.next(); hi = self.next()
        s = float(lo) + float(hi) * 4294967296.0
        r = s / 18446744073709551616.0
        return r if r < 1.0 else math.nextafter(1.0, 0.0)


def ndtri(u):
    from scipy.special import ndtri as f
    return float(f(u))


# --------------------------------------------------------------------------------------------------
def _exe(ctx):
    c = [p for p in glob.glob(os.path.join(ctx.get("libdir") or "", "hz_c18_*")) if os.access(p, os.X_OK) and "." not in os.path.basename(p)]
    return max(c, key=os.path.getmtime) if c else None


def _run_harness(exe, reqs):
    inp = "".join("%d %s\n" % (i, r) for i, r in enumerate(reqs))
    p = subprocess.run([exe, "/dev/null"], input=inp, stdout=subprocess.PIPE, stderr=subprocess.PIPE, text=True, timeout=1800)
    out = {}
    for l in p.stdout.splitlines():
        if l.startswith("#") or not l.strip():
            continue
        k, _, v = l.partition(" ")
        try:
            out[int(k)] = v.strip()
        except ValueError:
            pass
    return [out.get(i, "harness-no-answer") for i in range(len(reqs))]


def parse_metro(impl, dim):
    """harness answer -> (samples, uniforms, log) ; log = list of (ucount, point)"""
    t = toks(impl)
    n = int(t[0]); p = 1
    vals = [fl(x) for x in t[p:p + n * dim]]; p += n * dim
    samples = vals if dim == 1 else [(vals[2 * i], vals[2 * i + 1]) for i in range(n)]
    assert t[p] == "u"; u = int(t[p + 1]); p += 2
    assert t[p] == "log"; m = int(t[p + 1]); p += 2
    log = []
    for _ in range(m):
        c = int(t[p])
        pt = fl(t[p + 1]) if dim == 1 else (fl(t[p + 1]), fl(t[p + 2]))
        log.append((c, pt)); p += 1 + dim
    return samples, u, log


def x0_guess(m, dim):
    """approximate chain start from the predicted uniforms: (point, tolerance per coordinate)"""
    g = MT(m["seed"], m["skip"])
    us = [g.u01() for _ in range(dim)]
    dom = m["dom"]
    if dom:
        pt = [dom[2 * k] + (dom[2 * k + 1] - dom[2 * k]) * us[k] for k in range(dim)]
        tol = [1e-9 * (abs(dom[2 * k]) + abs(dom[2 * k + 1])) for k in range(dim)]
    else:
        pt = [m["sig"][k] * ndtri(min(max(us[k], 1e-300), 1 - 1e-16)) for k in range(dim)]
        tol = [m["sig"][k] * SQRT2 * 1.2e-4 for k in range(dim)]
    return pt, tol


def reconstruct(samples, log, dim, imax, start_u, per_step, m):
    """Canonical reading of the PDF-call log, independent of HOW OFTEN the implementation evaluates the density
    (the property leaves that free: an implementation may cache PDF(x)): the chain only ever sits at its start or at
    an earlier proposal, so the proposal of a step is the argument that has not been seen before; a step without any
    evaluation had its proposal outside the bounded domain.  Returns dict(cands, x0, calls_per_step) or an error string."""
    as_l = (lambda p: [p]) if dim == 1 else (lambda p: list(p))
    guess, gtol = x0_guess(m, dim)
    near0 = lambda p: all(abs(as_l(p)[k] - guess[k]) <= gtol[k] for k in range(dim))
    steps, early = {}, {}
    for c, pt in log:
        k = c - start_u
        if k < 0:
            return "PDF called before the chain start was drawn (uniform count %d)" % c
        i, r = divmod(k, per_step)
        if i >= imax and not (i == imax and r == 0):
            return "PDF called after the last step (uniform count %d)" % c
        (steps if r >= dim else early).setdefault(i, []).append(pt)     # r >= dim: the step's proposal has been drawn
    x0 = None
    for i in sorted(early):                      # evaluations before a proposal is drawn can only be at the current point
        if i == 0 and early[i]:
            x0 = early[i][0]
    seen = []
    cands = [None] * imax
    calls = {}
    for i in sorted(steps):
        pts = steps[i]
        calls[len(pts)] = calls.get(len(pts), 0) + 1
        new = []
        for p_ in pts:
            if p_ not in seen and p_ not in new and p_ != x0:
                new.append(p_)
        if x0 is None and not seen:
            # first evaluated step: the start is among the arguments unless it was never evaluated
            st = [p_ for p_ in new if near0(p_)]
            if len(st) >= 1 and len(new) >= 2:
                x0 = min(st, key=lambda p_: sum(abs(as_l(p_)[k] - guess[k]) for k in range(dim)))
                new = [p_ for p_ in new if p_ != x0]
        if len(new) > 1:
            return "PDF evaluated at %d new points in step %d (one proposal per step)" % (len(new), i)
        cands[i] = new[0] if new else pts[0]      # no new point: the proposal coincides with an earlier point
        if cands[i] not in seen:
            seen.append(cands[i])
    if x0 is None:
        x0 = next((p_ for p_ in samples if near0(p_)), None)
    return dict(cands=cands, x0=x0, calls_per_step=calls, early=sum(len(v) for v in early.values()))


def metro_request(base, dim, dom, rec):
    """append the recorded start and proposals to the request"""
    hi = [dom[1] + 1.0] if dim == 1 else [dom[1] + 1.0, dom[3] + 1.0]
    if dim == 1:
        x0 = "1 %s" % hx(rec["x0"]) if rec["x0"] is not None else "0 0x0p+0"
        cs = [c if c is not None else hi[0] for c in rec["cands"]]
    else:
        x0 = ("1 %s 1 %s" % (hx(rec["x0"][0]), hx(rec["x0"][1]))) if rec["x0"] is not None else "0 0x0p+0 0 0x0p+0"
        cs = []
        for c in rec["cands"]:
            cs += list(c) if c is not None else hi
    return "%s %s %s" % (base, x0, lst(cs))


def split_metro(rq, dim):
    a = rq.split()[1:]
    seed, skip, s, t, b = (int(x) for x in a[:5])
    p = 5
    sig = [fl(a[p + i]) for i in range(dim)]; p += dim
    pid = int(a[p]); p += 1
    nd = int(a[p]); dom = [fl(x) for x in a[p + 1:p + 1 + nd]]; p += 1 + nd
    base = " ".join([rq.split()[0]] + a[:p])
    rest = a[p:]
    x0 = None; cands = None
    if rest:
        q = 0
        xs = []
        for _ in range(dim):
            xs.append((int(rest[q]), fl(rest[q + 1]))); q += 2
        x0 = None if not xs[0][0] else (xs[0][1] if dim == 1 else (xs[0][1], xs[1][1]))
        n = int(rest[q]); cands = [fl(x) for x in rest[q + 1:q + 1 + n]]
    return dict(seed=seed, skip=skip, s=s, t=t, b=b, sig=sig, pid=pid, dom=dom, base=base, x0=x0, cands=cands)


# --------------------------------------------------------------------------------------------------
STAT = []   # filled by generate: (request, spec)


def generate(tier, seed, ctx):
    rng = random.Random(seed * 7919 + 18)
    th = tier == "thorough"
    R = []
    # --- generator validation (class A) --------------------------------------------------------------
    for sd in [5489, 0, 1, 0xffffffff, rng.randrange(2 ** 32), rng.randrange(2 ** 32)] + ([rng.randrange(2 ** 32) for _ in range(6)] if th else []):
        R.append("c18.mt %d 1000" % sd)
        R.append("c18.canon %d %d %d" % (sd, rng.choice([0, 1, 623, 624, 625, rng.randrange(5000)]), 700 if th else 300))
    def gen():
        return "%d %d" % (rng.randrange(2 ** 32), rng.choice([0, 1, 2, 623, 624, rng.randrange(3000)]))
    # --- uniform / gauss / inverse transform ------------------------------------------------------------
    for k in range(400 if th else 120):
        c = k % 4
        if c == 0:
            a, b = dyadic(rng), dyadic(rng)
        elif c == 1:
            a = mixed_magnitude(rng, -6, 6); b = a + abs(mixed_magnitude(rng, -3, 6))
        elif c == 2:
            a = rng.uniform(-1e3, 1e3); b = rng.uniform(-1e3, 1e3)
        else:
            a, b = 0.0, 1.0
        R.append("c18.uniform %s %s %s" % (gen(), hx(a), hx(b)))
        R.append("c18.gauss %s %s %s" % (gen(), hx(rng.uniform(-5, 5)), hx(10.0 ** rng.uniform(-3, 3))))
        if k % 2 == 0:
            R.append("c18.itrans %s %d %s %s" % (gen(), rng.choice([0, 1, 2]), hx(0.0), hx(1.0)))
        else:
            lo = dyadic(rng, -8, 8, 2)
            R.append("c18.itrans %s 21 %s %s" % (gen(), hx(lo), hx(lo + rng.choice([0.25, 1.0, 3.0, 100.0]))))
    # --- inverse transform on narrow domains far from the origin (offset/width up to 1e12), non-linear CDFs of the relative position
    for k in range(120 if th else 40):
        w = rng.choice([1.0, 2.0, 0.5, 10.0 ** rng.uniform(-3, 3)])
        off = rng.choice([-1.0, 1.0]) * w * 10.0 ** rng.uniform(0, 12 if k % 3 else 9.5)
        lo_ = off; hi_ = off + w
        if hi_ > lo_:
            R.append("c18.itrans %s %d %s %s" % (gen(), rng.choice([22, 23, 24]), hx(lo_), hx(hi_)))
    # --- parameter guards: reversed limits, negative width, negative mean must stop with a diagnostic before any draw;
    #     the boundaries x_min == x_max, sigma == 0, mean == 0 are meaningful
    for k in range(60 if th else 24):
        a = mixed_magnitude(rng, -3, 3); w = abs(mixed_magnitude(rng, -3, 3))
        R.append("c18.uniform %s %s %s" % (gen(), hx(a + w), hx(a)))                       # reversed
        R.append("c18.uniform %s %s %s" % (gen(), hx(a), hx(a)))                           # one-point domain
        R.append("c18.gauss %s %s %s" % (gen(), hx(a), hx(-w)))                            # negative width
        R.append("c18.gauss %s %s %s" % (gen(), hx(a), hx(0.0)))
        R.append("c18.poisson %s %s" % (gen(), hx(-10.0 ** rng.uniform(-3, 3))))           # negative mean
        R.append("c18.poissonv %s %s" % (gen(), lst([1.5, -0.25] if k % 2 else [-2.0, 3.0, 1.0])))
        pid = rng.choice([0, 1, 3])
        R.append("c18.reject1 %s %d %s %s %s" % (gen(), pid, hx(1.0), hx(-1.0), hx(2.0)))  # reversed domain
        R.append("c18.reject1 %s %d %s %s %s" % (gen(), pid, hx(-1.0), hx(1.0), hx(-2.0))) # negative envelope
        R.append("c18.reject2 %s 0 %s %s %s %s %s" % (gen(), hx(0.0), hx(1.0), hx(2.0), hx(1.0), hx(1.0)))
        R.append("c18.reject2 %s 0 %s %s %s %s %s" % (gen(), hx(1.0), hx(0.0), hx(0.0), hx(1.0), hx(1.0)))
        s_, t_, b_ = rng.choice([(0, 1, 0), (2, 1, 0), (0, 2, 3), (3, 2, 1)])
        tail1, tail2 = " 0 0x0p+0 0", " 0 0x0p+0 0 0x0p+0 0"
        R.append("c18.metro1 %s %d %d %d %s 1 %s%s" % (gen(), s_, t_, b_, hx(1.0), lst([1.0, -1.0]), tail1))       # reversed domain
        R.append("c18.metro1 %s %d %d %d %s 1 %s%s" % (gen(), s_, t_, b_, hx(-1.0), lst([]), tail1))               # negative sigma, unbounded
        R.append("c18.metro1 %s %d %d %d %s 1 %s%s" % (gen(), s_, t_, b_, hx(-1.0), lst([-1.0, 1.0]), tail1))      # negative sigma, bounded: only if a step is made
        R.append("c18.metro2 %s %d %d %d %s %s 1 %s%s" % (gen(), s_, t_, b_, hx(1.0), hx(1.0), lst([0.0, 1.0, 2.0, 1.0]), tail2))
        R.append("c18.metro2 %s %d %d %d %s %s 1 %s%s" % (gen(), s_, t_, b_, hx(1.0), hx(-0.5), lst([]), tail2))
        R.append("c18.metro2 %s %d %d %d %s %s 1 %s%s" % (gen(), s_, t_, b_, hx(-1.0), hx(0.5), lst([0.0, 1.0, 0.0, 1.0]), tail2))
    # --- CRAFTED generator states (the property quantifies over all states): loaded through operator>> with the state words of
    #     chosen canonical uniforms zeroed, so that deviates of exactly 0.0 occur - validated against the MT19937 model (canonz),
    #     then Metropolis with EVERY accept/reject deviate equal to 0.0: count, containment, uniforms consumed
    for k in range(30 if th else 12):
        ks = sorted(rng.sample(range(0, 300), rng.randint(1, 12)))
        R.append("c18.canonz %d %s %d" % (rng.randrange(2 ** 32), ilst(ks), rng.choice([310, 700])))
    for k in range(90 if th else 36):
        dim = 1 + k % 2
        s_, t_, b_ = rng.randint(1, 40), rng.randint(1, 3), rng.randint(0, 10)
        imax = b_ + t_ * s_
        if dim == 1:
            acc = [2 + 2 * i for i in range(imax) if 2 + 2 * i < 311]
            lo = dyadic(rng, -2, 2, 2); dom = [lo, lo + rng.choice([0.25, 1.0, 2.0])]
            R.append("c18.metroz %d 1 %d %d %d %s %d %s %s" % (rng.randrange(2 ** 32), s_, t_, b_, hx(rng.choice([0.5, 1.0, 3.0])), rng.choice([0, 1, 2, 3]), lst(dom), ilst(acc)))
        else:
            acc = [4 + 3 * i for i in range(imax) if 4 + 3 * i < 311]
            lo = dyadic(rng, -2, 2, 2); l2 = dyadic(rng, -2, 2, 2)
            dom = [lo, lo + rng.choice([0.5, 1.0]), l2, l2 + rng.choice([0.5, 2.0])]
            R.append("c18.metroz %d 2 %d %d %d %s %s %d %s %s" % (rng.randrange(2 ** 32), s_, t_, b_, hx(rng.choice([0.5, 2.0])), hx(rng.choice([0.5, 2.0])), rng.choice([0, 1, 2, 3]), lst(dom), ilst(acc)))
    # --- Poisson ----------------------------------------------------------------------------------------
    means = [1e-2, 0.1, 0.5, 1.0, 2.5, 10.0, 37.0, 100.0, 499.0, 500.0, 501.0, 709.0, 750.0, 1000.0, 1500.5, 3000.0, 5000.0]
    for k in range(260 if th else 90):
        lam = means[k % len(means)] if k < 2 * len(means) else 10.0 ** rng.uniform(-2, math.log10(5e3))
        if lam > 1200 and k >= len(means) and not th:
            lam = lam / 10
        R.append("c18.poisson %s %s" % (gen(), hx(lam)))
    for k in range(30 if th else 10):
        ls = [10.0 ** rng.uniform(-2, 2.5) for _ in range(rng.randint(0, 6))]
        R.append("c18.poissonv %s %s" % (gen(), lst(ls)))
    R.append("c18.poisson %s %s" % (gen(), hx(0.0)))
    # --- rejection ---------------------------------------------------------------------------------------
    for k in range(300 if th else 100):
        pid = rng.choice([0, 1, 2, 3, 4, 5])
        lo = dyadic(rng, -3, 1, 2); hi = lo + rng.choice([0.25, 1.0, 2.0, 3.5])
        mx = max(_pdf1(pid, lo), _pdf1(pid, hi), _pdf1(pid, 0.0) if lo <= 0 <= hi else 0, _pdf1(pid, 0.5) if lo <= 0.5 <= hi else 0)
        c = k % 10
        if c < 6:
            ym = mx * rng.choice([1.0, 1.0, 1.5, 4.0, 30.0]) + (0.0 if mx > 0 else 1.0)   # tight … loose envelope
        elif c < 8:
            ym = mx * rng.choice([0.5, 0.9, 0.995]) if mx > 0 else 1.0                     # envelope too low → exit or 1 % grace
        else:
            ym = mx * 20000.0 if mx > 0 else 1.0                                           # hopeless → inefficiency exit
        if c == 9:
            pid = 6; lo = -2.0; hi = -1.0; ym = 1.0                                        # negative "density" → exit
        R.append("c18.reject1 %s %d %s %s %s" % (gen(), pid, hx(lo), hx(hi), hx(ym)))
        pid2 = rng.choice([0, 1, 2, 3, 4])
        x0 = dyadic(rng, -2, 1, 2); x1 = x0 + rng.choice([0.5, 1.0, 3.0]); y0 = dyadic(rng, -2, 1, 2); y1 = y0 + rng.choice([0.5, 2.0])
        mx2 = max(_pdf2(pid2, x, y) for x in (x0, x1, min(max(0.0, x0), x1)) for y in (y0, y1, min(max(0.0, y0), y1)))
        zm = (mx2 if mx2 > 0 else 1.0) * (rng.choice([1.0, 1.2, 5.0]) if c < 7 else (rng.choice([0.5, 0.995]) if c < 9 else 30000.0))
        R.append("c18.reject2 %s %d %s %s %s %s %s" % (gen(), pid2, hx(x0), hx(x1), hx(y0), hx(y1), hx(zm)))
    # --- Metropolis: the (sample, thinning, burn_in) grid (class A: count, draws; oracle: domain) ------------
    if th:
        gs = [0, 1, 2, 3, 4, 5, 7, 10, 16, 25, 50, 64, 100, 150, 199, 200]
        gt = [1, 2, 3, 4, 5, 6, 7, 10, 16, 25, 50, 64, 100, 150, 199, 200]
    else:
        gs = [0, 1, 2, 3, 5, 8, 13, 50, 200]
        gt = [1, 2, 3, 4, 5, 7, 10, 31, 200]
    gb = gs
    k = 0
    for s in gs:
        for t in gt:
            for b in gb:
                k += 1
                R.append("c18.mcount %s %d %d %d %d %d" % (gen(), 1 + k % 2, (k // 2) % 2, s, t, b))
    for _ in range(300 if th else 80):
        R.append("c18.mcount %s %d %d %d %d %d" % (gen(), rng.randint(1, 2), rng.randint(0, 1), rng.randint(0, 200), rng.randint(1, 200), rng.randint(0, 200)))
    R.append("c18.mcount %s 1 0 3 0 2" % gen())     # thinning = 0: outside the quantifier (model: undef)
    # --- Metropolis replay (class C): phase 1 records the proposals on the implementation --------------------
    exe = _exe(ctx)
    bases = []
    for k in range(240 if th else 80):
        dim = 1 + k % 2
        s, t, b = rng.randint(0, 12), rng.randint(1, 6), rng.randint(0, 10)
        if k % 9 == 0:
            s, t, b = rng.randint(20, 60), rng.randint(1, 4), rng.randint(0, 30)
        bounded = k % 4 < 2
        if dim == 1:
            pid = rng.choice([1, 2, 3, 4, 5] if bounded else [1, 4, 3])
            dom = []
            if bounded:
                lo = dyadic(rng, -2, 0, 2); dom = [lo, lo + rng.choice([0.5, 1.0, 2.0, 3.0])]
            sig = rng.choice([0.1, 0.5, 1.0, 3.0])
            bases.append((dim, dom, "c18.metro1 %s %d %d %d %s %d %s" % (gen(), s, t, b, hx(sig), pid, lst(dom))))
        else:
            pid = rng.choice([1, 2, 3, 4] if bounded else [1, 4, 3])
            dom = []
            if bounded:
                lo = dyadic(rng, -2, 0, 2); l2 = dyadic(rng, -2, 0, 2)
                dom = [lo, lo + rng.choice([0.5, 1.0, 3.0]), l2, l2 + rng.choice([0.5, 2.0])]
            bases.append((dim, dom, "c18.metro2 %s %d %d %d %s %s %d %s" % (gen(), s, t, b, hx(rng.choice([0.2, 1.0, 2.0])), hx(rng.choice([0.3, 1.0])), pid, lst(dom))))
    # malformed domains (diagnostic expected)
    for nd in (1, 3, 5):
        R.append("c18.metro1 %s 2 1 1 %s 1 %s 0 0x0p+0 0" % (gen(), hx(1.0), lst([0.5 * i for i in range(nd)])))
        R.append("c18.metro2 %s 2 1 1 %s %s 1 %s 0 0x0p+0 0 0x0p+0 0" % (gen(), hx(1.0), hx(1.0), lst([0.5 * i for i in range(nd)])))
    if exe:
        ans = _run_harness(exe, [b for _, _, b in bases])
        for (dim, dom, base), im in zip(bases, ans):
            if tag(im) != "ok":
                R.append(base + (" 0 0x0p+0 0" if dim == 1 else " 0 0x0p+0 0 0x0p+0 0"))   # compare() reports the crash
                continue
            m = split_metro(base, dim)
            samples, u, log = parse_metro(im, dim)
            rec = reconstruct(samples, log, dim, m["b"] + m["t"] * m["s"], dim, dim + 1, m)
            if isinstance(rec, str):
                R.append(base + (" 0 0x0p+0 0" if dim == 1 else " 0 0x0p+0 0 0x0p+0 0"))
                continue
            R.append(metro_request(base, dim, dom if dom else [0.0, 0.0, 0.0, 0.0], rec))
    else:
        bump(ctx, "metro-replay-skipped-no-harness", len(bases))
    # --- class D: scripts of interleaved samplers ---------------------------------------------------------------
    for k in range(120 if th else 40):
        n = rng.randint(1, 14)
        ops = [rng.randrange(12) for _ in range(n)]
        if k < 12:
            ops = [k] * 3
        R.append("c18.det %s %s" % (gen(), ilst(ops)))
    # --- statistical oracle (fixed seeds) ---------------------------------------------------------------------
    N = 20000 if th else 6000
    def st(kind, n, params):
        R.append("c18.stat %s %s %d %s" % (kind, gen(), n, lst(params)))
    for a, b in [(0.0, 1.0), (-3.0, 7.5), (1e-3, 2e-3)] + ([(-1e6, 1e6)] if th else []):
        st("uniform", N, [a, b])
    for mu, sg in [(0.0, 1.0), (-2.0, 0.01), (5.0, 300.0)]:
        st("gauss", N, [mu, sg])
    for lam in [1e-2, 0.3, 1.0, 4.5, 30.0, 499.0, 600.0, 1700.0, 5000.0] + ([0.05, 12.0, 120.0, 1000.5, 3300.0] if th else []):
        st("poisson", (N if lam < 100 else (N // 4 if lam < 1000 else N // 10)), [lam])
    for cid, lo, hi in [(0, 0.0, 1.0), (1, 0.0, 1.0), (20, 0.0, 20.0), (21, -2.0, 5.0)]:
        st("itrans", N // 2, [cid, lo, hi])
    for cid, lo, hi in [(22, 1e9, 1e9 + 1.0), (23, -3e8 - 2.0, -3e8), (24, 7e10, 7e10 + 64.0), (22, 0.0, 1.0)]:
        st("itrans", N // 2, [cid, lo, hi])
    for pid, lo, hi, ym in [(1, -4.0, 4.0, 1.0), (2, -1.5, 1.5, 1.0), (22, -5.0, 5.0, 4.0), (22, -5.0, 5.0, 6.0), (3, -1.0, 2.0, 4.125), (3, -1.0, 2.0, 40.0)]:
        st("rej1", N, [pid, lo, hi, ym])
    for pid, x0, x1, y0, y1, zm in [(22, -4.0, 4.0, -4.0, 4.0, 3.0), (3, -1.0, 1.0, 0.0, 1.0, 2.125), (3, -1.0, 1.0, 0.0, 1.0, 10.0), (0, 0.0, 1.0, 2.0, 4.0, 1.0)]:
        st("rej2", N // 2, [pid, x0, x1, y0, y1, zm])
    M = 5000 if th else 2500
    for pid, sg, thin, burn, dom in [(20, 2.4, 30, 200, []), (21, 3.0, 40, 200, []), (2, 0.8, 30, 100, [-1.0, 1.0]), (3, 1.5, 30, 100, [-1.0, 2.0]),
                                     (20, 1.5, 30, 100, [-1.0, 2.0]), (0, 0.5, 40, 0, [2.0, 3.0])]:
        st("metro1", M, [pid, sg, thin, burn] + dom)
    # bounded domains with appreciable density within one proposal width of a boundary: a proposal rule that is not
    # symmetric near the boundary (re-drawing instead of rejecting) depletes the mass there (KS D = 0.02-0.07)
    NB = 100000 if th else 60000
    for pid, sg, thin, burn, dom in [(0, 0.5, 10, 100, [0.0, 1.0]), (21, 1.0, 10, 100, [0.0, 2.0]), (6, 0.3, 10, 100, [0.0, 1.0])] + \
                                    ([(0, 2.0, 10, 100, [-1.0, 1.0]), (3, 1.0, 10, 100, [-1.0, 2.0])] if th else []):
        st("metro1", NB, [pid, sg, thin, burn] + dom)
    st("metro2", NB // 2, [0, 0.5, 1.0, 10, 100, 0.0, 1.0, 0.0, 2.0])
    # targets with an EXACT-zero plateau next to the edges of a bounded domain (narrow peak in a wide domain; support
    # smaller than the domain): the chain starts on the plateau, short or no burn-in - containment clause, many seeds
    for k in range(60 if th else 24):
        thin, burn = rng.choice([1, 1, 2, 3]), rng.choice([0, 0, 1, 5])
        if k % 2 == 0:
            st("metro1", 50, [23, 2.0, thin, burn, 0.0, 100.0])
            st("metro2", 50, [23, 2.0, 2.0, thin, burn, 0.0, 100.0, 0.0, 100.0])
        else:
            st("metro1", 50, [2, 2.0, thin, burn, -10.0, 10.0])
            st("metro2", 50, [2, 2.0, 3.0, thin, burn, -10.0, 10.0, -8.0, 8.0])
    # support much smaller than the bounded domain: the chain starts where the target is exactly 0 (0/0 -> acceptance 1 in
    # the C++: it random-walks on the plateau) and must have found the support after a long burn-in; then law of the target
    for k in range(16 if th else 6):
        st("metro1", 3000, [24, 0.3, 60, 20000, 0.0, 10.0])
        st("metro1", 3000, [25, 0.3, 40, 20000, 0.0, 10.0])
        # peaks whose tails underflow to exactly 0 (start >= 7 proposal widths from the support with high probability), 1-D and 2-D
        st("metro1", 2000, [26, 2.0, 40, 30000, 0.0, 100.0])
        st("metro2", 2000, [25, 2.0, 2.0, 40, 30000, 0.0, 100.0, -10.0, 10.0])
        st("metro2", 2000, [24, 0.5, 0.5, 40, 60000, 0.0, 10.0, -5.0, 5.0])
    for pid, s1, s2, thin, burn, dom in [(20, 1.7, 3.4, 40, 200, []), (3, 1.0, 0.6, 40, 100, [-1.0, 1.0, 0.0, 1.0]), (0, 0.5, 1.0, 40, 50, [0.0, 1.0, 2.0, 4.0])]:
        st("metro2", M, [pid, s1, s2, thin, burn] + dom)
    return R


def _pdf1(i, x):
    return [1.0, 1 / (1 + x * x), max(0.0, 1 - abs(x)), x * x + 0.125, 1 / (1 + x ** 4), x * x * (1 - x) ** 2, x][i]


def _pdf2(i, x, y):
    return [1.0, 1 / (1 + x * x + y * y), max(0.0, 1 - abs(x)) * max(0.0, 1 - abs(y)), x * x + y * y + 0.125, 1 / ((1 + x * x) * (1 + y ** 4))][i]


def _cdf1F(i, x):
    x = Fraction(x)
    return [x, x * x, x * x * x][i]


# --------------------------------------------------------------------------------------------------
def compare(rq, impl, model, ctx):
    op = rq.split(" ", 1)[0]
    a = rq.split()[1:]
    bump(ctx, op)
    if tag(impl) == "timeout" and _exe(ctx):
        # the 20 s alarm of a forked child can fire on an overloaded machine: ask once more before believing it
        impl = _run_harness(_exe(ctx), [rq])[0]
        bump(ctx, "timeout-retried")
    if op == "c18.metroz":
        return cmp_metroz(a, impl, ctx)
    if op == "c18.det":
        return cmp_det(a, impl, ctx)
    if op == "c18.stat":
        return cmp_stat(a, impl, ctx)
    fs, both = std_outcome(rq, impl, model)
    if tag(model) in ("ok", "err"):
        ctx["nontrivial"].add(_key(op, a, model))
    if op in ("c18.metro1", "c18.metro2") and tag(impl) == "ok" and tag(model) == "undef" and int(a[3]) >= 1:
        # the model could not replay (e.g. the proposals could not be reconstructed from the PDF log): the checks on the
        # implementation's own record (sample count, domain, number and arguments of the PDF evaluations) still run
        return fs + cmp_metro(rq, op, impl, None, ctx)
    if not both:
        return fs
    ti, tm = toks(impl), toks(model)
    out = []
    if op == "c18.mt":
        if [int(x) for x in ti] != [int(x) for x in tm]:
            out.append(fail("corr", "mt19937 model differs from std::mt19937 (model assumption broken, not the library)", ""))
    elif op == "c18.canonz":
        vi, vm = [Fraction(fl(x)) for x in ti], [fr(x) for x in tm]
        nz = int(a[1]); ks = [int(x) for x in a[2:2 + nz]]
        if any(vi[k] != 0 for k in ks if k < len(vi)):
            out.append(fail("corr", "crafted generator state: a zeroed uniform is not exactly 0.0 (harness/libstdc++ assumption)", ""))
        elif vi != vm:
            out.append(fail("corr", "Sample_Uniform(0,1) from a crafted generator state differs from the MT19937 model", ""))
    elif op == "c18.canon":
        vi, vm = [Fraction(fl(x)) for x in ti], [fr(x) for x in tm]
        if vi != vm:
            k = next((i for i, (p, q) in enumerate(zip(vi, vm)) if p != q), -1)
            o = any(not (0 <= v < 1) for v in vi)
            out.append(fail("prop" if o else "corr", "Sample_Uniform(0,1): " + ("value outside [0,1)" if o else "variate %d differs from generate_canonical of the passed generator" % k), ""))
    elif op == "c18.uniform":
        lo, hi = fl(a[2]), fl(a[3])
        x, m = fl(ti[0]), fr(tm[0])
        if int(ti[1]) != int(tm[1]):
            out.append(fail("prop", "Sample_Uniform consumed %s uniforms of the passed generator, expected %s" % (ti[1], tm[1]), ""))
        elif not close(x, m, abs(Fraction(lo)) + abs(Fraction(hi)), 4):
            o = not (min(lo, hi) <= x <= max(lo, hi))
            out.append(fail("prop" if o else "corr", "Sample_Uniform: " + ("value outside the requested interval" if o else "not a + (b-a)*u of the predicted uniform"), "%r vs %s" % (x, float(m))))
    elif op == "c18.gauss":
        mu, sg = fl(a[2]), fl(a[3])
        x, u = fl(ti[0]), float(fr(tm[0]))
        if int(ti[1]) != int(tm[1]):
            out.append(fail("prop", "Sample_Gauss consumed %s uniforms of the passed generator, expected %s" % (ti[1], tm[1]), ""))
        elif 1e-12 < u < 1 - 1e-12:
            ref = mu + sg * ndtri(u)
            if abs(x - ref) > sg * SQRT2 * 1.2e-4 + 1e-12 * abs(mu):
                out.append(fail("corr", "Sample_Gauss is not Quantile_Gauss of the predicted uniform (within the 1e-4 accuracy of Inv_Erf)", "%r vs %r" % (x, ref)))
    elif op == "c18.itrans":
        cid, lo, hi = int(a[2]), fl(a[3]), fl(a[4])
        x, u = fl(ti[0]), fr(tm[0])
        if int(ti[1]) != int(tm[1]):
            out.append(fail("prop", "Inverse_Transform_Sampling consumed %s uniforms, expected %s" % (ti[1], tm[1]), ""))
        else:
            tol = Fraction(2e-10) * (Fraction(hi) - Fraction(lo)) + Fraction(abs(x)) * 2 * EPS
            rel = lambda t: (Fraction(t) - Fraction(lo)) / (Fraction(hi) - Fraction(lo))
            cdf = {0: lambda t: _cdf1F(0, t), 1: lambda t: _cdf1F(1, t), 2: lambda t: _cdf1F(2, t), 21: rel,
                   22: lambda t: rel(t) ** 8, 23: lambda t: rel(t) ** 2, 24: lambda t: 1 - (1 - rel(t)) ** 3}[cid]
            xl, xr = max(Fraction(lo), Fraction(x) - tol), min(Fraction(hi), Fraction(x) + tol)
            if not (lo <= x <= hi):
                out.append(fail("prop", "Inverse_Transform_Sampling: value outside [xMin,xMax]", repr(x)))
            elif not (cdf(xl) - 4 * EPS <= u <= cdf(xr) + 4 * EPS):
                out.append(fail("prop", "Inverse_Transform_Sampling: CDF(x) is not the predicted uniform within 1e-10 (xMax-xMin)", "x=%r u=%r" % (x, float(u))))
    elif op in ("c18.poisson", "c18.poissonv"):
        if op == "c18.poisson":
            ki, km, di, dm, knife = [int(ti[0])], [int(tm[0])], int(ti[1]), int(tm[1]), tm[2] == "1"
        else:
            n = int(ti[0]); ki = [int(x) for x in ti[1:1 + n]]; di = int(ti[1 + n])
            n2 = int(tm[0]); km = [int(x) for x in tm[1:1 + n2]]; dm = int(tm[1 + n2]); knife = False
        if ki != km or di != dm:
            if knife:
                ctx["excused"] += 1
            else:
                o = any(d != k + 1 for d, k in zip([di], ki)) if op == "c18.poisson" else di != sum(k + 1 for k in ki)
                out.append(fail("prop" if o else "corr", "Sample_Poisson: " + ("uniforms consumed is not k+1" if o else "result differs from the Knuth rule on the predicted uniforms"),
                                "impl k=%s u=%d model k=%s u=%d" % (ki, di, km, dm)))
    elif op == "c18.reject1":
        lo, hi = fl(a[3]), fl(a[4])
        x, calls, u = fl(ti[0]), int(ti[1]), int(ti[2])
        m, cm, um = fr(tm[0]), int(tm[1]), int(tm[2])
        if not (lo <= x <= hi):
            out.append(fail("prop", "Rejection_Sampling: value outside [xMin,xMax]", repr(x)))
        elif u != 2 * calls:
            out.append(fail("prop", "Rejection_Sampling: %d uniforms of the passed generator for %d trials (expected two per trial)" % (u, calls), ""))
        elif calls != cm or u != um or not close(x, m, abs(Fraction(lo)) + abs(Fraction(hi)), 4):
            out.append(fail("corr", "Rejection_Sampling: accepted trial / value differs from the accept rule y <= PDF(x) on the predicted uniforms", "impl %r n=%d model %s n=%d" % (x, calls, float(m), cm)))
    elif op == "c18.reject2":
        x0, x1, y0, y1 = (fl(t) for t in a[3:7])
        x, y, calls, u = fl(ti[0]), fl(ti[1]), int(ti[2]), int(ti[3])
        mx, my, cm, um = fr(tm[0]), fr(tm[1]), int(tm[2]), int(tm[3])
        if not (x0 <= x <= x1 and y0 <= y <= y1):
            out.append(fail("prop", "Rejection_Sampling_2D: value outside the rectangle", "%r %r" % (x, y)))
        elif u != 3 * calls:
            out.append(fail("prop", "Rejection_Sampling_2D: %d uniforms for %d trials (expected three per trial)" % (u, calls), ""))
        elif calls != cm or not close(x, mx, abs(Fraction(x0)) + abs(Fraction(x1)), 4) or not close(y, my, abs(Fraction(y0)) + abs(Fraction(y1)), 4):
            out.append(fail("corr", "Rejection_Sampling_2D: accepted trial / value differs from the accept rule on the predicted uniforms", ""))
    elif op == "c18.mcount":
        s = int(a[4])
        n, u, inside = int(ti[0]), int(ti[1]), int(ti[2])
        if n != s:
            out.append(fail("prop", "Sample_Metropolis%s returned %d samples, %d requested (thinning %s, burn-in %s)" % ("_2D" if a[2] == "2" else "", n, s, a[5], a[6]), ""))
        elif not inside:
            out.append(fail("prop", "Sample_Metropolis: sample outside the bounded domain", ""))
        elif n != int(tm[0]) or u != int(tm[1]):
            out.append(fail("corr", "Sample_Metropolis: samples/uniforms consumed differ from the bookkeeping model", "impl %d %d model %s %s" % (n, u, tm[0], tm[1])))
    elif op in ("c18.metro1", "c18.metro2"):
        out += cmp_metro(rq, op, impl, tm, ctx)
    return fs + out


def _key(op, a, model):
    if op in ("c18.mcount",):
        return (op, a[2], a[3], min(int(a[4]), 3), min(int(a[5]), 4), min(int(a[6]), 3))
    if op in ("c18.metro1", "c18.metro2"):
        return (op, a[2], a[3], a[4], tag(model))
    if op == "c18.poisson":
        return (op, int(math.log10(max(fl(a[2]), 1e-3)) * 2))
    if op in ("c18.reject1", "c18.reject2"):
        return (op, a[2], tag(model), model.split()[2] if tag(model) == "ok" and op == "c18.reject1" else "")
    return (op, a[2] if len(a) > 2 else "", tag(model))


def cmp_metro(rq, op, impl, tm, ctx):
    dim = 1 if op == "c18.metro1" else 2
    m = split_metro(rq, dim)
    out = []
    name = "Sample_Metropolis" + ("" if dim == 1 else "_2D")
    try:
        samples, u, log = parse_metro(impl, dim)
    except Exception as e:
        return [fail("corr", "protocol: unparsable harness answer", repr(e))]
    imax = m["b"] + m["t"] * m["s"]
    if len(samples) != m["s"]:
        return [fail("prop", "%s returned %d samples, %d requested (thinning %d, burn-in %d)" % (name, len(samples), m["s"], m["t"], m["b"]), "")]
    dom = m["dom"]
    def inside(p):
        if not dom:
            return True
        return dom[0] <= p <= dom[1] if dim == 1 else (dom[0] <= p[0] <= dom[1] and dom[2] <= p[1] <= dom[3])
    if any(not inside(p) for p in samples):
        return [fail("prop", name + ": sample outside the bounded domain", "")]
    if any(not inside(p) for _, p in log):
        bump(ctx, "metro_pdf_evaluated_outside_domain")      # not forbidden by the property: informational
    rec = reconstruct(samples, log, dim, imax, dim, dim + 1, m)
    if isinstance(rec, str):
        return out + [fail("corr", name + ": " + rec, "")]
    # how often the density is evaluated is left free by the property (an implementation may cache PDF(x)): statistics only
    for k_, v_ in rec["calls_per_step"].items():
        bump(ctx, "metro_pdf_calls_per_evaluated_step=%d" % k_, v_)
    if rec["early"]:
        bump(ctx, "metro_pdf_calls_before_a_proposal", rec["early"])
    # class D: the proposals recorded in the first run (generate) are reproduced by this second run
    if m["cands"] is not None and m["cands"]:
        hi = [dom[1] + 1.0] if (dom and dim == 1) else ([dom[1] + 1.0, dom[3] + 1.0] if dom else [1.0] * dim)
        flat = []
        for c in rec["cands"]:
            flat += (list(c) if dim == 2 else [c]) if c is not None else hi
        if flat != m["cands"]:
            return out + [fail("prop", name + ": two runs from equal generator states gave different proposals/outputs", "")]
    # validate the proposals against the predicted uniforms (approximately: Quantile_Gauss has 1e-4 accuracy): the chain
    # sits at its start or at an earlier proposal, so each proposal must be Sample_Gauss(s, sigma) for one of those points s
    g = MT(m["seed"], m["skip"])
    us0 = [g.u01() for _ in range(dim)]
    as_l = (lambda p: [p]) if dim == 1 else (lambda p: list(p))
    pts = [as_l(rec["x0"])] if rec["x0"] is not None else []
    for i in range(imax):
        uc = [g.u01() for _ in range(dim)]
        g.u01()
        if not pts:
            c = rec["cands"][i]
            if c is not None:
                pts.append(as_l(c))
            continue
        step = [m["sig"][k] * ndtri(min(max(uc[k], 1e-300), 1 - 1e-16)) for k in range(dim)]
        c = rec["cands"][i]
        if c is not None:
            cc = as_l(c)
            okp = any(all(abs(cc[k] - (s_[k] + step[k])) <= m["sig"][k] * (SQRT2 * 1.2e-4) + 1e-12 * abs(s_[k]) for k in range(dim)) for s_ in pts)
            if not okp and all(1e-9 < uc[k] < 1 - 1e-9 for k in range(dim)):
                out.append(fail("corr", name + ": proposal is not Sample_Gauss(x, sigma) of the predicted uniform for any earlier chain point x", "step %d: %r" % (i, cc)))
                break
            if cc not in pts:
                pts.append(cc)
        elif dom:
            # density not evaluated: the proposal must be outside the domain (beyond the approximation error) for SOME possible x
            def ins(s_):
                return all(dom[2 * k] + m["sig"][k] * 2e-4 + 1e-12 * abs(s_[k]) < s_[k] + step[k] < dom[2 * k + 1] - m["sig"][k] * 2e-4 - 1e-12 * abs(s_[k]) for k in range(dim))
            if all(ins(s_) for s_ in pts):
                out.append(fail("corr", name + ": a proposal inside the domain was treated as outside", "step %d" % i)); break
    if out:
        return out
    if tm is None:
        return [fail("corr", name + ": the model could not replay this run (proposals missing from the request)", "")]
    # model replay (bookkeeping, decisions with the exactly predicted acceptance uniforms, draws)
    n = int(tm[0])
    vals = [fr(t) for t in tm[1:1 + n * dim]]
    p = 1 + n * dim
    um = int(tm[p + 1]); x0m = [fr(t) for t in tm[p + 3:p + 3 + dim]]; knife = tm[p + 4 + dim] == "1"
    flat_s = []
    for s_ in samples:
        flat_s += [s_] if dim == 1 else list(s_)
    if u != um:
        out.append(fail("prop", name + ": consumed %d uniforms of the passed generator, the loop needs exactly %d" % (u, um), ""))
    elif n != len(samples) or [Fraction(v) for v in flat_s] != vals:
        if knife:
            ctx["excused"] += 1
        else:
            out.append(fail("corr", name + ": samples differ from the replay of the acceptance rule u < min(1, PDF(y)/PDF(x)) / the push rule i >= burn_in && i % thinning == 0", ""))
    if dom and rec["x0"] is not None and not out:
        x0 = [rec["x0"]] if dim == 1 else list(rec["x0"])
        for k in range(dim):
            if not close(x0[k], x0m[k], abs(Fraction(dom[2 * k])) + abs(Fraction(dom[2 * k + 1])), 4):
                out.append(fail("corr", name + ": start is not uniform on the domain from the predicted uniform", "%r vs %s" % (x0[k], float(x0m[k]))))
    return out


def cmp_metroz(a, impl, ctx):
    """Metropolis from a crafted state whose accept/reject deviates are exactly 0.0 (oracle on the implementation):
    an acceptance probability of 0 (proposal outside the bounded domain, zero density) must never accept"""
    dim = int(a[1]); s_, t_, b_ = int(a[2]), int(a[3]), int(a[4])
    p = 5 + dim + 1
    nd = int(a[p]); dom = [fl(x) for x in a[p + 1:p + 1 + nd]]
    name = "Sample_Metropolis" + ("" if dim == 1 else "_2D")
    ctx["nontrivial"].add(("c18.metroz", dim, a[5 + dim], min(s_, 3)))
    if tag(impl) != "ok":
        return [fail("prop", name + " crashed / exited on a valid request with a crafted generator state: " + tag(impl), impl[:200])]
    t = toks(impl)
    n = int(t[0]); v = [fl(x) for x in t[1:1 + n]]
    u = int(t[t.index("u") + 1])
    out = []
    if n != s_ * dim:
        out.append(fail("prop", "%s returned %d samples, %d requested (crafted generator state)" % (name, n // dim, s_), ""))
    pts = v if dim == 1 else list(zip(v[0::2], v[1::2]))
    ins = (lambda q: dom[0] <= q <= dom[1]) if dim == 1 else (lambda q: dom[0] <= q[0] <= dom[1] and dom[2] <= q[1] <= dom[3])
    bad = [q for q in pts if not ins(q)]
    if bad:
        out.append(fail("prop", name + ": sample outside the bounded domain (generator state whose accept/reject deviates are exactly 0.0)", "%r not in %r" % (bad[0], dom)))
    imax = b_ + t_ * s_
    if u != dim + (dim + 1) * imax:
        out.append(fail("prop", name + ": consumed %d uniforms of the passed generator, the loop needs exactly %d" % (u, dim + (dim + 1) * imax), ""))
    return out


def cmp_det(a, impl, ctx):
    ctx["nontrivial"].add(("c18.det", a[2], a[3] if len(a) > 3 else ""))
    if tag(impl) != "ok":
        return [fail("prop", "sampler script crashed / exited on valid requests: " + tag(impl), impl[:200])]
    first_diff, states, not_adv, total = (int(t) for t in toks(impl))
    names = ["Sample_Uniform", "Sample_Gauss", "Sample_Poisson", "Sample_Poisson(>500)", "Sample_Poisson(vector)", "Inverse_Transform_Sampling", "Rejection_Sampling",
             "Rejection_Sampling_2D", "Sample_Metropolis", "Sample_Metropolis(bounded)", "Sample_Metropolis_2D", "Sample_Metropolis_2D(bounded)"]
    ops = [int(t) for t in a[3:]]
    out = []
    if first_diff >= 0:
        out.append(fail("prop", "equal generator states gave different outputs: " + names[ops[first_diff]], "script position %d" % first_diff))
    if not states:
        out.append(fail("prop", "equal generator states were left unequal by the same sampler calls", ""))
    if not_adv >= 0:
        out.append(fail("prop", "sampler did not consume the passed generator: " + names[ops[not_adv]], ""))
    return out


# --------------------------------------------------------------------------------------------------
ALPHA = 1e-9


def _ks(x, cdf, what, out, n_eff=None):
    import numpy as np
    from scipy import stats
    x = np.sort(np.asarray(x, dtype=float))
    n = len(x)
    F = cdf(x)
    d = max(np.max(np.arange(1, n + 1) / n - F), np.max(F - np.arange(0, n) / n))
    ne = n if n_eff is None else n_eff
    p = float(stats.kstwobign.sf(d * math.sqrt(ne)))
    if not (p >= ALPHA):
        out.append(fail("prop", "law of %s: Kolmogorov-Smirnov p < 1e-9" % what, "D=%.4g n=%d p=%.3g" % (d, n, p)))


def _z(val, ref, se, what, out):
    from scipy import stats
    if se <= 0:
        return
    z = (val - ref) / se
    p = 2 * float(stats.norm.sf(abs(z)))
    if not (p >= ALPHA):
        out.append(fail("prop", "law of %s: moment test p < 1e-9" % what, "value %.6g reference %.6g z=%.2f" % (val, ref, z)))


def cmp_stat(a, impl, ctx):
    import numpy as np
    from scipy import stats, special
    kind = a[0]; n = int(a[3]); npar = int(a[4]); p = [fl(t) for t in a[5:5 + npar]]
    if tag(impl) != "ok":
        return [fail("prop", "sampler crashed / exited / hung on a valid request (%s): %s" % (kind, tag(impl)), impl[:200])]
    t = toks(impl)
    out = []
    ctx["nontrivial"].add(("c18.stat", kind, tuple(p[:1]), len(p)))
    if kind == "poisson":
        k = np.array([int(v) for v in t]); lam = p[0]
        if len(k) != n:
            return [fail("prop", "Sample_Poisson loop returned %d values for %d calls" % (len(k), n), "")]
        _z(k.mean(), lam, math.sqrt(lam / n), "Sample_Poisson(%g) mean" % lam, out)
        # variance: Var(s^2) ≈ (mu4 - sigma^4)/n, mu4 = lam + 3 lam^2
        _z(k.var(ddof=1), lam, math.sqrt((lam + 2 * lam * lam) / n) * 1.05, "Sample_Poisson(%g) variance" % lam, out)
        # chi-square on cells with expectation >= 8
        lo, hi = int(stats.poisson.ppf(1e-4, lam)), int(stats.poisson.ppf(1 - 1e-4, lam))
        edges = list(range(lo, hi + 2))
        # merge to cells of expected count >= 8
        cells = []; acc_lo = None; acc_p = 0.0
        cdf_prev = 0.0
        for e in range(lo, hi + 1):
            c = float(stats.poisson.cdf(e, lam))
            pr = c - cdf_prev if e > lo else c
            cdf_prev = c
            if acc_lo is None:
                acc_lo = -1 if e == lo else e - 1
            acc_p += pr
            if acc_p * n >= 8:
                cells.append((acc_lo, e, acc_p)); acc_lo = None; acc_p = 0.0
        rest = 1.0 - sum(c[2] for c in cells)
        if cells:
            l0, h0, p0 = cells[-1]
            cells[-1] = (l0, 10 ** 12, p0 + rest)
            obs = np.array([np.sum((k > l) & (k <= h)) for l, h, _ in cells], dtype=float)
            ex = np.array([c[2] * n for c in cells])
            if len(cells) >= 2:
                chi = float(np.sum((obs - ex) ** 2 / ex))
                pv = float(stats.chi2.sf(chi, len(cells) - 1))
                if not (pv >= ALPHA):
                    out.append(fail("prop", "law of Sample_Poisson(%g): chi-square p < 1e-9" % lam, "chi2=%.1f dof=%d p=%.3g" % (chi, len(cells) - 1, pv)))
            elif obs[0] != n:
                out.append(fail("prop", "law of Sample_Poisson(%g): values outside the support" % lam, ""))
        return out
    v = np.array([fl(x) for x in t])
    if not np.all(np.isfinite(v)):
        return [fail("prop", "sampler returned a non-finite value (%s)" % kind, "")]
    two = kind in ("rej2", "metro2")
    if len(v) != n * (2 if two else 1):
        return [fail("prop", "%s returned %d values, %d requested" % (kind, len(v) // (2 if two else 1), n), "")]

    def tnorm(lo, hi, mu=0.0, sg=1.0):
        a_, b_ = stats.norm.cdf((lo - mu) / sg), stats.norm.cdf((hi - mu) / sg)
        return lambda x: (stats.norm.cdf((x - mu) / sg) - a_) / (b_ - a_)

    def poly_x(lo, hi, c):      # density ∝ x^2 + c on [lo,hi]
        Fq = lambda x: x ** 3 / 3 + c * x
        return lambda x: (Fq(x) - Fq(lo)) / (Fq(hi) - Fq(lo))
    tri = lambda x: np.where(x < 0, (1 + np.clip(x, -1, 0)) ** 2 / 2, 1 - (1 - np.clip(x, 0, 1)) ** 2 / 2)
    if kind == "uniform":
        lo, hi = p
        if np.any(v < lo) or np.any(v > hi):
            out.append(fail("prop", "Sample_Uniform: value outside [x_min,x_max]", ""))
        _ks(v, lambda x: (x - lo) / (hi - lo), "Sample_Uniform(%g,%g)" % (lo, hi), out)
        _z(v.mean(), (lo + hi) / 2, (hi - lo) / math.sqrt(12 * n), "Sample_Uniform mean", out)
    elif kind == "gauss":
        mu, sg = p
        _ks(v, lambda x: stats.norm.cdf((x - mu) / sg), "Sample_Gauss(%g,%g)" % (mu, sg), out)
        _z(v.mean(), mu, sg / math.sqrt(n), "Sample_Gauss mean", out)
        _z(v.var(ddof=1), sg * sg, sg * sg * math.sqrt(2.0 / (n - 1)), "Sample_Gauss variance", out)
    elif kind == "itrans":
        cid, lo, hi = int(p[0]), p[1], p[2]
        trel = lambda x: (x - lo) / (hi - lo)
        cdf = {0: lambda x: x, 1: lambda x: x * x, 20: lambda x: (1 - np.exp(-x)) / (1 - math.exp(-hi)), 21: trel,
               22: lambda x: trel(x) ** 8, 23: lambda x: trel(x) ** 2, 24: lambda x: 1 - (1 - trel(x)) ** 3}[cid]
        if np.any(v < lo) or np.any(v > hi):
            out.append(fail("prop", "Inverse_Transform_Sampling: value outside [xMin,xMax]", ""))
        _ks(v, cdf, "Inverse_Transform_Sampling(cdf %d)" % cid, out)
    elif kind == "rej1":
        pid, lo, hi = int(p[0]), p[1], p[2]
        if np.any(v < lo) or np.any(v > hi):
            out.append(fail("prop", "Rejection_Sampling: value outside [xMin,xMax]", ""))
        cdf = {1: lambda x: (np.arctan(x) - math.atan(lo)) / (math.atan(hi) - math.atan(lo)), 2: tri, 22: tnorm(lo, hi), 3: poly_x(lo, hi, 0.125)}[pid]
        _ks(v, cdf, "Rejection_Sampling(pdf %d, yMax %g)" % (pid, p[3]), out)
    elif kind == "metro1":
        pid, dom = int(p[0]), p[4:]
        if dom and (np.any(v < dom[0]) or np.any(v > dom[1])):
            out.append(fail("prop", "Sample_Metropolis: sample outside the bounded domain", ""))
        if pid == 20:
            cdf = tnorm(dom[0], dom[1]) if dom else stats.norm.cdf
        elif pid == 21:
            if dom:
                La, Lb = stats.laplace.cdf(dom[0]), stats.laplace.cdf(dom[1])
                cdf = lambda x: (stats.laplace.cdf(x) - La) / (Lb - La)
            else:
                cdf = stats.laplace.cdf
        elif pid in (24, 25, 26):
            zero = (np.abs(v - 5.0) >= 1.0) if pid == 24 else (((v < 2.0) | (v > 3.0)) if pid == 25 else (np.exp(-0.5 * (v - 90.0) ** 2) == 0.0))
            if np.any(zero):
                out.append(fail("prop", "Sample_Metropolis: sample in a region of zero target density after burn-in",
                                "%d of %d samples, e.g. x = %r (pdf %d, burn-in %d)" % (int(np.sum(zero)), n, float(v[zero][0]), pid, int(p[3]))))
                return out
            cdf = (lambda x: tri(x - 5.0)) if pid == 24 else ((lambda x: np.clip(x - 2.0, 0.0, 1.0)) if pid == 25 else tnorm(dom[0], dom[1], 90.0, 1.0))
        elif pid == 6:       # density ∝ x on [lo,hi], lo >= 0
            cdf = lambda x: (x * x - dom[0] ** 2) / (dom[1] ** 2 - dom[0] ** 2)
        elif pid == 2:
            cdf = tri
        elif pid == 3:
            cdf = poly_x(dom[0], dom[1], 0.125)
        else:
            cdf = lambda x: (x - dom[0]) / (dom[1] - dom[0])
        if n >= 2000 and pid != 23:
            _ks(v, cdf, "Sample_Metropolis(pdf %d%s)" % (pid, ", bounded" if dom else ""), out, n_eff=n / 1.5)
    else:
        x, y = v[0::2], v[1::2]
        pid = int(p[0])
        if kind == "rej2":
            x0, x1, y0, y1 = p[1:5]; dom = [x0, x1, y0, y1]; what = "Rejection_Sampling_2D(pdf %d, zMax %g)" % (pid, p[5]); ne = None
        else:
            dom = p[5:]; what = "Sample_Metropolis_2D(pdf %d%s)" % (pid, ", bounded" if dom else ""); ne = n / 1.5
        if dom and (np.any(x < dom[0]) or np.any(x > dom[1]) or np.any(y < dom[2]) or np.any(y > dom[3])):
            out.append(fail("prop", what + ": sample outside the domain", ""))
        if pid == 22:
            cx, cy = tnorm(dom[0], dom[1]), tnorm(dom[2], dom[3])
        elif pid == 20:
            cx, cy = stats.norm.cdf, (lambda t_: stats.norm.cdf(t_ / 2.0))
        elif pid == 3:
            # density x^2+y^2+1/8 on [-1,1]x[0,1]: marginals ∝ x^2 + 11/24 and ∝ 2y^2 + 11/12
            cx = poly_x(dom[0], dom[1], 11.0 / 24.0)
            cy = poly_x(dom[2], dom[3], 11.0 / 24.0)
        else:
            cx = lambda t_: (t_ - dom[0]) / (dom[1] - dom[0]); cy = lambda t_: (t_ - dom[2]) / (dom[3] - dom[2])
        if n < 2000 or pid == 23:
            return out          # short plateau runs: containment only
        if kind == "metro2" and pid in (24, 25):
            zero = ((np.abs(x - 5.0) >= 1.0) | (np.abs(y) >= 1.0)) if pid == 24 else (np.exp(-0.5 * ((x - 90.0) ** 2 + y ** 2)) == 0.0)
            if np.any(zero):
                out.append(fail("prop", "Sample_Metropolis_2D: sample in a region of zero target density after burn-in",
                                "%d of %d samples, e.g. (%r, %r) (pdf %d, burn-in %d)" % (int(np.sum(zero)), n, float(x[zero][0]), float(y[zero][0]), pid, int(p[4]))))
                return out
            cx, cy = ((lambda t_: tri(t_ - 5.0)), tri) if pid == 24 else (tnorm(dom[0], dom[1], 90.0, 1.0), tnorm(dom[2], dom[3]))
        _ks(x, cx, what + " x-marginal", out, n_eff=ne)
        _ks(y, cy, what + " y-marginal", out, n_eff=ne)
        if pid in (22, 20, 0):
            r = float(np.corrcoef(x, y)[0, 1])
            _z(r, 0.0, 1.5 / math.sqrt(n), what + " correlation", out)
    return out


def oracle_only(rq, impl, ctx):
    op = rq.split(" ", 1)[0]
    a = rq.split()[1:]
    if op == "c18.metroz":
        return cmp_metroz(a, impl, ctx)
    if op == "c18.det":
        return cmp_det(a, impl, ctx)
    if op == "c18.stat":
        return cmp_stat(a, impl, ctx)
    if op == "c18.mcount" and tag(impl) == "ok" and int(a[5]) >= 1:
        if int(toks(impl)[0]) != int(a[4]):
            return [fail("prop", "Sample_Metropolis returned %s samples, %s requested" % (toks(impl)[0], a[4]), "")]
    return []
