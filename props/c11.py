"""C11 — minimisers never end worse than they started and converge on convex bowls.

Requests carry the objective as a reverse-Polish program (one rounding per arithmetic op), so the
harness (double), the Lean driver (round-to-double rationals) and this file (Python floats for the
bit-exact re-evaluation, Fractions for the exact value) all evaluate the same function.
A trailing length-prefixed `meta` list (ignored by harness and driver) names the objective class,
its exact minimiser(s) and minimum value for the convergence clause."""
import math, random
from fractions import Fraction
from common import *

RULE = ("requests are drawn from VERIF_SEED: objective class x starting point/offset decade x step decade x tolerance "
        "decade x dimension x overload; a case is non-trivial when the implementation returns or exits with a "
        "diagnostic and it is counted once per distinct (op, class, dimension, offset decade, step decade, tolerance decade, "
        "outcome, trace-length bucket)")
CORR_ONLY = ["convergence 'within the distance implied by the tolerance' (no theorem: Nelder-Mead has no general convergence "
             "proof): decided by the oracle on the implementation's output. 1-D (Find_Minimum/Find_Maximum on quadratic, quartic-flat, "
             "rational, asymmetric, Lennard-Jones-like, cosh-like bowls, centres and starts up to 1e9): |x - x*| <= 2*(tol*|x*| + 2^-52)/(1 - 2*tol) "
             "+ 2^-50*|x*| (Brent's own stopping bound; worst observed 1.24 of the 2) or f(x) within 8 running rounding-error bounds of the "
             "minimum (worst observed 2.73). n-D quadratic bowls, proper simplex of ndim+1 vertices (other vertex counts are outside the "
             "documented use of the general overload): f(result) - f* <= 256*ftol*(|f(result)| + |f*| + 1e-10) + rounding, or the result "
             "within 16*ndim*eps*|x*_j| of the minimiser (the resolution of the doubles around it). The stopping rule of the method "
             "(theorem nm_exit_rule: the VALUES of the vertices agree to ftol) implies no bound on that excess, so every failure of the "
             "clause with the rule obeyed is the known defect of the rule, emitted under three fixed clauses: initial simplex much smaller "
             "than its distance to the minimiser (step/distance < 0.03), three or more dimensions, and dimensions 1-2 with a well-sized "
             "simplex whose vertex values tie (CL_TIE); a failure with the rule NOT obeyed is an unexcused violation (CL_CONV / CL_STOP)",
             "an 'NMAX exceeded' exit on a quadratic bowl is a violation: dimensions 1-2 under the clause of the 1-D exits, dimensions >= 3 "
             "under a clause of its own (a degenerate simplex creeping at the resolution of the doubles can still exhaust NMAX there)",
             "cosh-like bowls: evaluated by the harness only (the rational model answers undef), oracle clauses only",
             "brent_in_bracket under IEEE rounding (theorem brent_in_bracket is for exact arithmetic; bookkeeping half for every rnd)",
             "psum = column sums under IEEE rounding (theorem nm_psum_colsums is for exact arithmetic)"]
ASSUMPTIONS = ["the objective handed to the library is the double-precision function described by the request; "
               "'not worse than the start' is evaluated on that function (bit-exact re-evaluation), the convergence clause on "
               "its exact rational value with a running rounding-error allowance",
               "no FMA contraction / excess precision in the harness build (x86-64 SSE2, -O1)"]
TRUSTED = ["translators/constants.py (regenerates lean/LpModel/C11/Constants.lean from the anchored numeric literals of the current source before every lake build; a missing anchor falls back to the committed default and is recorded in notes.pre_build.anchor_missing)",
           "props/c11.py reverse-Polish interpreters (float and Fraction), harness/c11.cpp interpreter"]

# ---------------------------------------------------------------------------------------------------
# translator tie (DESIGN.md §4.5): the numeric literals of src/Numerics.cpp (Bracket, Brent, Nelder-Mead) the model depends on
# ---------------------------------------------------------------------------------------------------

def _constants_translator(verif):
    import importlib.util, os
    spec = importlib.util.spec_from_file_location("lp_constants_tr", os.path.join(verif, "translators", "constants.py"))
    m = importlib.util.module_from_spec(spec)
    spec.loader.exec_module(m)
    return m


def pre_build(c):
    """regenerate lean/LpModel/C11/Constants.lean from the repository under check (called by check.py with
    the lake lock held, before `lake build`); a missing anchor is recorded, never an alarm"""
    notes = _constants_translator(c["verif"]).regenerate("C11", c["repo"], c["lean"])
    notes["features"] = _regenerate_features(c["repo"], c["lean"])
    return notes


def _regenerate_features(repo, lean):
    """lean/LpModel/C11/Features.lean: optional code paths of the source (present -> mirrored by the model)"""
    import os, re
    src = open(os.path.join(repo, "src", "Numerics.cpp")).read()
    m = re.search(r"const\s+double\s+resolution\s*=\s*([0-9.eE+-]+)\s*\*\s*ndim\s*\*\s*std::numeric_limits<double>::epsilon\(\)\s*;", src)
    val = "none"
    if m:
        fr = Fraction(m.group(1))
        val = "some (%d / %d)" % (fr.numerator, fr.denominator)
    path = os.path.join(lean, "LpModel", "C11", "Features.lean")
    old = open(path).read()
    new = re.sub(r"abbrev collapseFactor : Option Rat := .*", "abbrev collapseFactor : Option Rat := " + val, old)
    if new != old:
        with open(path, "w") as fh:
            fh.write(new)
    return {"collapseFactor": val, "rewritten": new != old}


TINY_BITS = 30          # a model margin below 2^-30 excuses a divergence (DESIGN.md §4, class C)
U = Fraction(1, 2 ** 53)


# ------------------------------------------------------------------------------------------------
# objective programs
# ------------------------------------------------------------------------------------------------
def k(c):
    return "k" + hx(float(c))


def p_quad1(c, a, off):
    return ["x0", k(c), "-", "sq", k(a), "*", k(off), "+"]


def p_pow4(c, s, off):
    return ["x0", k(c), "-", "sq", "sq", k(s), "*", k(off), "+"]


def p_ratbowl(c, a, b, off):
    return ["x0", k(c), "-", "sq", "dup", k(a), "*", "swap", k(b), "*", k(1.0), "+", "/", k(off), "+"]


def p_pw(c, a, b, off):
    return ["x0", k(c), "-", "dup", k(a), k(b), "sel", "swap", "sq", "*", k(off), "+"]


def p_lj(s, e):
    return [k(s), "x0", "/", "sq", "dup", "dup", "*", "*", "dup", "sq", "swap", k(2.0), "*", "-", k(e), "*"]


def p_cosh(c, w):
    return ["x0", k(c), "-", k(w), "*", "cosh"]


def p_poly(cs):
    """Horner, cs[0] + cs[1] x + ..."""
    p = [k(cs[-1])]
    for c in reversed(cs[:-1]):
        p += ["x0", "*", k(c), "+"]
    return p


def p_quadN(B, d, c, off):
    """sum_k d_k (sum_j B_kj (x_j - c_j))^2 + off"""
    n = len(c)
    p = []
    first_k = True
    for kk in range(n):
        first = True
        for j in range(n):
            if B[kk][j] == 0:
                continue
            p += ["x%d" % j, k(c[j]), "-", k(B[kk][j]), "*"]
            if not first:
                p.append("+")
            first = False
        p += ["sq", k(d[kk]), "*"]
        if not first_k:
            p.append("+")
        first_k = False
    p += [k(off), "+"]
    return p


def p_multiN(n, cs):
    """sum_j ((x_j^2 - a_j)^2 + b_j x_j): multimodal, bounded below"""
    p = []
    for j in range(n):
        a, b = cs[j]
        p += ["x%d" % j, "sq", k(a), "-", "sq", "x%d" % j, k(b), "*", "+"]
        if j:
            p.append("+")
    return p


def ev_float(prog, x):
    st = []
    for t in prog:
        if t[0] == "x" and t[1:].isdigit():
            st.append(x[int(t[1:])])
        elif t[0] == "k":
            st.append(float.fromhex(t[1:]))
        elif t == "+":
            b = st.pop(); st[-1] = st[-1] + b
        elif t == "-":
            b = st.pop(); st[-1] = st[-1] - b
        elif t == "*":
            b = st.pop(); st[-1] = st[-1] * b
        elif t == "/":
            b = st.pop()
            try:
                st[-1] = st[-1] / b
            except ZeroDivisionError:
                st[-1] = math.nan
        elif t == "neg":
            st[-1] = -st[-1]
        elif t == "dup":
            st.append(st[-1])
        elif t == "sq":
            st[-1] = st[-1] * st[-1]
        elif t == "abs":
            st[-1] = abs(st[-1])
        elif t == "swap":
            st[-1], st[-2] = st[-2], st[-1]
        elif t == "sel":
            b = st.pop(); a = st.pop(); st[-1] = a if st[-1] < 0.0 else b
        elif t == "cosh":
            try:
                st[-1] = math.cosh(st[-1])
            except OverflowError:
                st[-1] = math.inf
        else:
            raise ValueError(t)
    assert len(st) == 1
    return st[0]


def ev_exact(prog, x):
    """exact value (Fraction) of the program at the doubles x, and a running bound of the rounding error
    of its double evaluation. cosh is evaluated in floating point (value then only approximate)."""
    st = []
    for t in prog:
        if t[0] == "x" and t[1:].isdigit():
            st.append((Fraction(x[int(t[1:])]), Fraction(0)))
        elif t[0] == "k":
            st.append((Fraction(float.fromhex(t[1:])), Fraction(0)))
        elif t in ("+", "-"):
            b, eb = st.pop(); a, ea = st.pop()
            r = a + b if t == "+" else a - b
            st.append((r, ea + eb + U * abs(r)))
        elif t == "*":
            b, eb = st.pop(); a, ea = st.pop()
            r = a * b
            st.append((r, abs(a) * eb + abs(b) * ea + ea * eb + U * abs(r)))
        elif t == "/":
            b, eb = st.pop(); a, ea = st.pop()
            if b == 0 or abs(b) <= eb:
                return None, None
            r = a / b
            st.append((r, (ea + abs(r) * eb) / (abs(b) - eb) + U * abs(r)))
        elif t == "neg":
            a, ea = st.pop(); st.append((-a, ea))
        elif t == "dup":
            st.append(st[-1])
        elif t == "sq":
            a, ea = st.pop(); r = a * a
            st.append((r, 2 * abs(a) * ea + ea * ea + U * abs(r)))
        elif t == "abs":
            a, ea = st.pop(); st.append((abs(a), ea))
        elif t == "swap":
            st[-1], st[-2] = st[-2], st[-1]
        elif t == "sel":
            b = st.pop(); a = st.pop(); c, _ = st.pop(); st.append(a if c < 0 else b)
        elif t == "cosh":
            a, ea = st.pop()
            try:
                v = math.cosh(float(a)); s = abs(math.sinh(float(a)))
            except OverflowError:
                return None, None
            st.append((Fraction(v), Fraction(s) * ea + 8 * U * Fraction(v)))
        else:
            raise ValueError(t)
    assert len(st) == 1
    return st[0]


# ------------------------------------------------------------------------------------------------
# request construction / parsing
# ------------------------------------------------------------------------------------------------
def toklist(ts):
    return "%d %s" % (len(ts), " ".join(ts)) if ts else "0"


def meta_tokens(cls, xs=None, fs=None, alt=None, extra=None):
    m = ["cls=" + cls]
    if xs is not None:
        m.append("xs=" + ",".join(hx(v) for v in xs))
    if alt is not None:
        m.append("alt=" + ",".join(hx(v) for v in alt))
    if fs is not None:
        m.append("fs=" + hx(fs))
    for kk, v in (extra or {}).items():
        m.append("%s=%s" % (kk, v))
    return m


class Cur:
    def __init__(self, ts):
        self.t = ts; self.i = 0

    def tok(self):
        self.i += 1
        return self.t[self.i - 1]

    def dbl(self):
        return fl(self.tok())

    def dbls(self):
        n = int(self.tok())
        return [self.dbl() for _ in range(n)]

    def toks(self):
        n = int(self.tok())
        return [self.tok() for _ in range(n)]


def parse_member(op, ftol, c):
    """parse body + program + meta of one (n-D) request from the cursor"""
    R = dict(op=op, ftol=ftol)
    if op == "c11.nm":
        n = int(c.tok())
        R["pp"] = [c.dbls() for _ in range(n)]
    elif op == "c11.nmd":
        R["start"] = c.dbls(); R["deltas"] = c.dbls()
    elif op == "c11.nm1":
        R["start"] = c.dbls(); R["delta"] = c.dbl()
    elif op == "c11.rs":        # aliased restarts (members of c11.nmseq only): the simplex is the object's own
        R["restart"] = "rs"; R["op"] = "c11.nm"; R["pp"] = None
    elif op == "c11.rsd":
        R["restart"] = "rsd"; R["op"] = "c11.nmd"; R["start"] = None; R["deltas"] = c.dbls()
    elif op == "c11.rs1":
        R["restart"] = "rs1"; R["op"] = "c11.nm1"; R["start"] = None; R["delta"] = c.dbl()
    else:
        raise ValueError(op)
    finish_parse(R, c)
    return R


def finish_parse(R, c):
    R["prog"] = c.toks()
    meta = {}
    for m in c.toks():
        kk, _, v = m.partition("=")
        meta[kk] = v
    R["meta"] = meta
    R["cls"] = meta.get("cls", "?")
    for key in ("xs", "alt"):
        if key in meta:
            R[key] = [fl(t) for t in meta[key].split(",")]
    if "fs" in meta:
        R["fs"] = fl(meta["fs"])


def parse_req(rq):
    ts = rq.split()
    op = ts[0]
    c = Cur(ts[1:])
    if op in ("c11.min", "c11.max"):
        R = dict(op=op)
        R["xl"] = c.dbl(); R["xr"] = c.dbl(); R["tol"] = c.dbl()
        finish_parse(R, c)
        return R
    if op in ("c11.mindef", "c11.maxdef"):      # default tolerance argument (documented: 3e-8)
        R = dict(op=op[:-3], deftol=True)
        R["xl"] = c.dbl(); R["xr"] = c.dbl(); R["tol"] = 3e-8
        finish_parse(R, c)
        return R
    ftol = c.dbl()
    if op == "c11.nmre":
        R = dict(op="c11.nm1", ftol=ftol, nested=True)
        R["start"] = c.dbls(); R["delta"] = c.dbl()
        R["ftol_in"] = c.dbl(); R["t0"] = c.dbls(); R["delta_in"] = c.dbl()
        finish_parse(R, c)
        return R
    if op == "c11.nmseq":
        n = int(c.tok())
        members = [parse_member("c11." + c.tok(), ftol, c) for _ in range(n)]
        return dict(op=op, ftol=ftol, members=members, cls="seq", meta={})
    return parse_member(op, ftol, c)


def simplex_of(R):
    """documented initial simplex of the delta/deltas overloads (float arithmetic as the library's)"""
    if R["op"] == "c11.nm":
        return [list(r) for r in R["pp"]]
    st = R["start"]
    ds = R["deltas"] if R["op"] == "c11.nmd" else [R["delta"]] * len(st)
    pp = []
    for i in range(len(st) + 1):
        row = list(st)
        if i:
            row[i - 1] = st[i - 1] + ds[i - 1]
        pp.append(row)
    return pp


BOWL_1D = ("quad1", "pow4", "ratbowl", "pw", "lj", "cosh")
BOWL_ND = ("quadN",)


# ------------------------------------------------------------------------------------------------
# generator
# ------------------------------------------------------------------------------------------------
def logu(rng, lo, hi):
    return 10.0 ** rng.uniform(lo, hi)


def dy(rng, lo, hi, bits=3):
    return rng.randint(int(lo * 2 ** bits), int(hi * 2 ** bits)) / 2 ** bits


def jacobi_cond(A):
    """condition number of a small symmetric positive definite matrix (cyclic Jacobi, floats)"""
    n = len(A)
    a = [list(map(float, r)) for r in A]
    for _ in range(60):
        off = sum(a[i][j] ** 2 for i in range(n) for j in range(n) if i != j)
        if off < 1e-26 * sum(a[i][i] ** 2 for i in range(n)):
            break
        for p in range(n):
            for q in range(p + 1, n):
                if abs(a[p][q]) < 1e-300:
                    continue
                th = (a[q][q] - a[p][p]) / (2 * a[p][q])
                t = (1 if th >= 0 else -1) / (abs(th) + math.sqrt(th * th + 1))
                c = 1 / math.sqrt(t * t + 1); s = t * c
                for kk in range(n):
                    akp, akq = a[kk][p], a[kk][q]
                    a[kk][p] = c * akp - s * akq; a[kk][q] = s * akp + c * akq
                for kk in range(n):
                    apk, aqk = a[p][kk], a[q][kk]
                    a[p][kk] = c * apk - s * aqk; a[q][kk] = s * apk + c * aqk
    ev = [a[i][i] for i in range(n)]
    return max(ev) / min(ev) if min(ev) > 0 else math.inf


def gen_quadN(rng, n):
    while True:
        B = [[0.0] * n for _ in range(n)]
        for i in range(n):
            B[i][i] = 1.0
            for j in range(i):
                B[i][j] = rng.choice([0, 0, 0.5, -0.5, 1, -1, 0.25])
        kind = rng.random()
        span = rng.choice([0, 1, 2, 4, 6])
        d = [2.0 ** rng.randint(-span, span) * rng.choice([1, 1.5, 1.25]) for _ in range(n)]
        A = [[sum(d[kk] * B[kk][i] * B[kk][j] for kk in range(n)) for j in range(n)] for i in range(n)]
        cond = jacobi_cond(A)
        if cond <= 1e4:
            return B, d, cond


def gen_1d_objective(rng, cls):
    """returns (prog, meta tokens, centre used to place the starting points, positive-domain flag)"""
    c = rng.choice([0.0, dy(rng, -8, 8), dy(rng, -100, 100), rng.uniform(-3, 3), rng.uniform(-1e3, 1e3),
                    rng.choice([1, -1]) * logu(rng, 3, 9) if cls != "ratbowl" else rng.uniform(-1e3, 1e3)])
    off = rng.choice([0.0, 0.0, 1.0, dy(rng, -8, 8), rng.uniform(-100, 100)])
    if cls == "quad1":
        a = rng.choice([1.0, 0.5, 2.0, logu(rng, -2, 2)])
        return p_quad1(c, a, off), meta_tokens(cls, [c], off), c
    if cls == "pow4":
        s = rng.choice([1.0, 0.25, logu(rng, -2, 2)])
        return p_pow4(c, s, off), meta_tokens(cls, [c], off), c
    if cls == "ratbowl":
        a = rng.choice([1.0, logu(rng, -1, 2)]); b = rng.choice([0.0, 0.25, 1.0, logu(rng, -3, 1)])
        return p_ratbowl(c, a, b, off), meta_tokens(cls, [c], off), c
    if cls == "pw":
        a = logu(rng, -1, 1.5); b = logu(rng, -1, 1.5)
        return p_pw(c, a, b, off), meta_tokens(cls, [c], off), c
    if cls == "lj":
        s = rng.choice([1.0, 2.0, logu(rng, -1, 1)]); e = rng.choice([1.0, 4.0, logu(rng, -1, 1)])
        return p_lj(s, e), meta_tokens(cls, [s], -e, alt=[-s]), s
    if cls == "cosh":
        w = rng.choice([1.0, 0.5, logu(rng, -1.5, 0.5)])
        return p_cosh(c, w), meta_tokens(cls, [c], 1.0), c
    if cls == "multi":
        deg = rng.choice([4, 6])
        cs = [dy(rng, -4, 4) for _ in range(deg)] + [rng.choice([0.25, 0.5, 1.0])]
        return p_poly(cs), meta_tokens(cls), 0.0
    raise ValueError(cls)


def req_1d(op, xl, xr, tol, prog, meta):
    return "%s %s %s %s %s %s" % (op, hx(xl), hx(xr), hx(tol), toklist(prog), toklist(meta))


def gen_1d(rng, n, R, ctx):
    classes = ["quad1", "pow4", "ratbowl", "pw", "lj", "cosh", "multi", "quad1"]
    for i in range(n):
        cls = classes[i % len(classes)]
        prog, meta, ctr = gen_1d_objective(rng, cls)
        od = rng.uniform(-3, 3); hd = rng.uniform(-3, 3)
        tol = rng.choice([3e-8, logu(rng, -12, -3), logu(rng, -12, -3), 10.0 ** -rng.randint(3, 12)])
        if cls == "lj":
            # start on the positive side of the pole; offsets relative to the well position
            x0 = ctr * (1 + logu(rng, -3, 1.5)) if rng.random() < 0.6 else ctr * rng.uniform(0.6, 1.0)
            h = min(10.0 ** hd, 0.5 * x0) * rng.choice([1, -1]) if rng.random() < 0.7 else 10.0 ** hd
            if x0 + h <= 0:
                h = abs(h)
        elif cls == "cosh":
            x0 = ctr + rng.choice([1, -1]) * logu(rng, -3, 1.3); h = rng.choice([1, -1]) * logu(rng, -3, 1)
        elif cls == "multi":
            x0 = rng.uniform(-6, 6); h = rng.choice([1, -1]) * logu(rng, -3, 1)
        else:
            x0 = ctr + rng.choice([1, -1]) * 10.0 ** od; h = rng.choice([1, -1]) * 10.0 ** hd
        if rng.random() < 0.1 and cls != "lj":
            x0 = float(round(x0 * 8)) / 8; h = float(round(h * 8) or 1) / 8   # dyadic: ties are possible
        xl, xr = x0, x0 + h
        if xl == xr:
            xr = xl + 1.0
        op = "c11.max" if i % 5 == 4 else "c11.min"
        if op == "c11.max":
            prog = prog + ["neg"]
        if i % 9 == 3:      # the overloads with the default tolerance argument
            R.append("%sdef %s %s %s %s" % (op, hx(xl), hx(xr), toklist(prog), toklist(meta + ["od=%d" % math.floor(od), "hd=%d" % math.floor(hd)])))
        else:
            R.append(req_1d(op, xl, xr, tol, prog, meta + ["od=%d" % math.floor(od), "hd=%d" % math.floor(hd)]))
    # exact ties between the two starting values, in both orders of the abscissae (xLeft > xRight included): symmetric
    # objectives with dyadic centre and half-width, so that f(xLeft) == f(xRight) bit-for-bit
    for t in range(max(8, n // 16)):
        c = dy(rng, -16, 16, 2)
        h = 2.0 ** rng.randint(-3, 3) * rng.choice([1, 1.5, 1.25])
        kind = t % 4
        if kind == 0:
            prog, meta = p_quad1(c, rng.choice([1.0, 0.5, 2.0]), dy(rng, -4, 4)), meta_tokens("quad1", [c])
        elif kind == 1:
            prog, meta = p_pow4(c, rng.choice([1.0, 0.25]), 0.0), meta_tokens("pow4", [c], 0.0)
        elif kind == 2:
            prog, meta = p_ratbowl(c, 1.0, rng.choice([0.25, 1.0]), 0.0), meta_tokens("ratbowl", [c], 0.0)
        else:
            a_ = rng.choice([0.5, 2.0]); prog, meta = p_pw(c, a_, a_, 0.0), meta_tokens("pw", [c], 0.0)
        if kind == 0:
            meta = meta_tokens("quad1", [c], float.fromhex(prog[-2][1:]))
        xl, xr = (c + h, c - h) if t % 3 else (c - h, c + h)
        tol = rng.choice([3e-8, 1e-5, 1e-10])
        if t % 2:
            R.append(req_1d("c11.max", xl, xr, tol, prog + ["neg"], meta + ["tie=1"]))
        else:
            R.append(req_1d("c11.min", xl, xr, tol, prog, meta + ["tie=1"]))
    # fixed corner cases: equal values at the two starts, start at the minimiser, symmetric start, tol = 0
    q = p_quad1(0.0, 1.0, 0.0)
    for xl, xr, tol in [(-1.0, 1.0, 3e-8), (0.0, 1.0, 3e-8), (1.0, 0.0, 3e-8), (2.0, 2.5, 1e-3), (-3.0, 5.0, 1e-12),
                        (1.0, 1.0, 3e-8), (0.0, 0.0, 3e-8), (1e-3, 2e-3, 0.0), (5.0, 4.0, 1e-6)]:
        R.append(req_1d("c11.min", xl, xr, tol, q, meta_tokens("quad1", [0.0], 0.0) + ["fixed=1"]))
    R.append(req_1d("c11.min", 0.0, 1.0, 3e-8, [k(1.0)], meta_tokens("const")))           # constant objective
    R.append(req_1d("c11.max", 0.0, 1.0, 3e-8, p_quad1(1.0, 1.0, 0.0) + ["neg"], meta_tokens("quad1", [1.0], 0.0)))


def gen_1d_origin(rng, n, R):
    """minimiser AT the origin: there tol1 = tol*|x| + ZEPS shrinks to ZEPS, so the requested accuracy is absolute
    (2^-52) whatever the scale of the start - starting abscissae and steps at both ends of the stated range 1e-3..1e3"""
    classes = ["pow4", "quad1", "pow4", "ratbowl", "pw", "pow4", "cosh", "quad1"]
    for i in range(n):
        cls = classes[i % len(classes)]
        od = rng.choice([rng.uniform(-3, -2), rng.uniform(2, 3), rng.uniform(-3, 3)])
        hd = rng.choice([rng.uniform(2, 3), rng.uniform(-3, -2), rng.uniform(-3, 3)])
        off = rng.choice([0.0, 0.0, 1.0, dy(rng, -8, 8)])
        if cls == "pow4" and rng.random() < 0.6:
            # smallest start with the widest step: the longest way for the bracket to shrink (quartic: flat, slow parabolas)
            od, hd, off = rng.uniform(-3, -2), rng.uniform(2, 3), 0.0
        if cls == "quad1":
            prog, meta = p_quad1(0.0, logu(rng, -2, 2), off), meta_tokens(cls, [0.0], off)
        elif cls == "pow4":
            prog, meta = p_pow4(0.0, logu(rng, -2, 2), off), meta_tokens(cls, [0.0], off)
        elif cls == "ratbowl":
            prog, meta = p_ratbowl(0.0, logu(rng, -1, 2), rng.choice([0.0, 0.25, logu(rng, -3, 1)]), off), meta_tokens(cls, [0.0], off)
        elif cls == "pw":
            prog, meta = p_pw(0.0, logu(rng, -1, 1.5), logu(rng, -1, 1.5), off), meta_tokens(cls, [0.0], off)
        else:
            od, hd = min(od, 1.3), min(hd, 1.0)
            prog, meta = p_cosh(0.0, rng.choice([1.0, 0.5, logu(rng, -1.5, 0.5)])), meta_tokens(cls, [0.0], 1.0)
        x0 = rng.choice([1, -1]) * 10.0 ** od
        h = rng.choice([1, -1]) * 10.0 ** hd
        tol = rng.choice([3e-8, 3e-8, logu(rng, -12, -3)])
        op = "c11.max" if i % 6 == 5 else "c11.min"
        R.append(req_1d(op, x0, x0 + h, tol, prog + (["neg"] if op == "c11.max" else []),
                        meta + ["od=%d" % math.floor(od), "hd=%d" % math.floor(hd), "origin=1"]))


def req_nd(op, ftol, body, prog, meta):
    return "%s %s %s %s %s" % (op, hx(ftol), body, toklist(prog), toklist(meta))


def gen_nd(rng, n, R, ctx, maxdim=6):
    for i in range(n):
        dim = 1 + (i % maxdim)
        multi = (i % 7 == 6)
        if multi:
            cs = [(dy(rng, 0, 4), dy(rng, -1, 1)) for _ in range(dim)]
            prog = p_multiN(dim, cs); c = [0.0] * dim
            meta = meta_tokens("multiN")
        else:
            if dim == 2 and rng.random() < 0.35:
                # rotated narrow valley: orthogonal rows (1,t),(-t,1), curvatures 1 and kappa in 1e3..1e4
                t_ = rng.choice([0.25, 0.5, 1.0, -0.5, rng.uniform(-1, 1)])
                kap = logu(rng, 3, 4)
                B, d, cond = [[1.0, t_], [-t_, 1.0]], [1.0, kap], kap
            else:
                B, d, cond = gen_quadN(rng, dim)
            c = [rng.choice([0.0, dy(rng, -8, 8), rng.uniform(-3, 3), rng.uniform(-300, 300)]) for _ in range(dim)]
            off = rng.choice([0.0, 0.0, 1.0, dy(rng, -8, 8), rng.uniform(-100, 100)])
            prog = p_quadN(B, d, c, off)
            meta = meta_tokens("quadN", c, off, extra={"cond": "%.3g" % cond})
        od = rng.uniform(-3, 3) if not multi else rng.uniform(-1, 0.7)
        hd = rng.uniform(-3, 3) if not multi else rng.uniform(-2, 0.5)
        ftol = rng.choice([logu(rng, -12, -3), 10.0 ** -rng.randint(3, 12), 1e-6])
        start = [c[j] + rng.choice([1, -1]) * 10.0 ** od * rng.uniform(0.3, 1) for j in range(dim)]
        meta = meta + ["od=%d" % math.floor(od), "hd=%d" % math.floor(hd), "dim=%d" % dim]
        kind = rng.randrange(4)      # independent of the dimension: every overload meets every dimension
        if kind == 0:      # delta overload + its two companions (same documented simplex)
            delta = rng.choice([1, -1]) * 10.0 ** hd
            g = "g%d" % i
            R.append(req_nd("c11.nm1", ftol, "%s %s" % (lst(start), hx(delta)), prog, meta + ["grp=" + g]))
            R.append(req_nd("c11.nmd", ftol, "%s %s" % (lst(start), lst([delta] * dim)), prog, meta + ["grp=" + g]))
            pp = [list(start) for _ in range(dim + 1)]
            for r in range(1, dim + 1):
                pp[r][r - 1] = start[r - 1] + delta
            R.append(req_nd("c11.nm", ftol, "%d %s" % (len(pp), " ".join(lst(r) for r in pp)), prog, meta + ["grp=" + g]))
        elif kind == 1:    # deltas overload (+ general companion); sometimes a longer deltas vector
            deltas = [rng.choice([1, -1]) * 10.0 ** (hd + rng.uniform(-0.5, 0.5)) for _ in range(dim)]
            g = "g%d" % i
            extra = [1.0] if rng.random() < 0.2 else []
            R.append(req_nd("c11.nmd", ftol, "%s %s" % (lst(start), lst(deltas + extra)), prog, meta + ["grp=" + g]))
            pp = [list(start) for _ in range(dim + 1)]
            for r in range(1, dim + 1):
                pp[r][r - 1] = start[r - 1] + deltas[r - 1]
            R.append(req_nd("c11.nm", ftol, "%d %s" % (len(pp), " ".join(lst(r) for r in pp)), prog, meta + ["grp=" + g]))
        else:              # general overload: random simplex, sometimes more/fewer than dim+1 vertices
            m = dim + 1 if rng.random() < 0.8 else rng.randint(2, dim + 3)
            pp = [[start[j] + (10.0 ** hd) * rng.uniform(-1, 1) for j in range(dim)] for _ in range(m)]
            R.append(req_nd("c11.nm", ftol, "%d %s" % (len(pp), " ".join(lst(r) for r in pp)), prog, meta))
    # fixed corner cases: all vertices equal in value (ilo == ihi path), ftol = 0, symmetric ties
    q2 = p_quadN([[1.0, 0.0], [0.0, 1.0]], [1.0, 1.0], [0.0, 0.0], 0.0)
    mq = meta_tokens("quadN", [0.0, 0.0], 0.0) + ["dim=2", "fixed=1"]
    for ftol, pp in [(1e-6, [[1.0, 0.0], [-1.0, 0.0], [0.0, 1.0]]), (0.0, [[1.0, 0.0], [-1.0, 0.0], [0.0, 1.0]]),
                     (1e-8, [[1.0, 1.0], [1.0, 1.0], [1.0, 1.0]]), (1e-4, [[2.0, 0.0], [0.0, 2.0]]),
                     (1e-10, [[0.0, 0.0], [1.0, 0.0], [0.0, 1.0]]), (1e-3, [[3.0, 4.0], [3.5, 4.0], [3.0, 4.5], [3.5, 4.5]])]:
        R.append(req_nd("c11.nm", ftol, "%d %s" % (len(pp), " ".join(lst(r) for r in pp)), q2, mq))
    R.append(req_nd("c11.nm1", 1e-6, "%s %s" % (lst([1.0, 2.0]), hx(0.5)), [k(1.0)], meta_tokens("const") + ["dim=2"]))
    # exact ties: the reflected point has exactly the value of the highest vertex (decides `ytry < y[ihi]` vs `<=`),
    # equal vertex values (decide the `<=` / `>` of the ilo / ihi / inhi scan)
    dw = p_multiN(1, [(1.0, 0.0)])          # (x^2 - 1)^2: vertices 2 and 0, reflection of 2 through 0 is -2
    R.append(req_nd("c11.nm", 1e-6, "2 %s %s" % (lst([2.0]), lst([0.0])), dw, meta_tokens("tie") + ["dim=1"]))
    R.append(req_nd("c11.nm", 1e-4, "2 %s %s" % (lst([0.0]), lst([2.0])), dw, meta_tokens("tie") + ["dim=1"]))
    for t in range(10):
        n = 1 + t % 4
        c = [dy(rng, -4, 4, 2) for _ in range(n)]
        h = 2.0 ** rng.randint(-2, 2)
        off_t = rng.choice([0.0, 1.0])
        prog = p_quadN([[1.0 if i == j else 0.0 for j in range(n)] for i in range(n)], [1.0] * n, c, off_t)
        top = list(c); top[0] = c[0] + 2 * h
        others = []
        if n == 1:
            others = [list(c)]
            top[0] = c[0] + h
            others = [[c[0]]]
            # reflection of c+h through c is c-h: same value
        else:
            a = list(c); a[1] = c[1] + h
            b = list(c); b[1] = c[1] - h
            others = [a, b] + [list(c) for _ in range(n - 2)]
            for i, o in enumerate(others[2:]):
                o[(2 + i) % n] = c[(2 + i) % n]      # extra vertices at the centre (value 0)
        pp = [top] + others
        rng.shuffle(pp)
        R.append(req_nd("c11.nm", rng.choice([1e-3, 1e-6, 1e-9]), "%d %s" % (len(pp), " ".join(lst(r) for r in pp)), prog,
                        meta_tokens("quadN", c, off_t) + ["dim=%d" % n, "tie=1"]))
    # minimal witness of the known finding C11-nm-premature-termination: x^2+y^2 from (1000,1000), delta 1e-3, ftol 1e-5
    R.append(req_nd("c11.nm1", 1e-5, "%s %s" % (lst([1000.0, 1000.0]), hx(1e-3)), q2, meta_tokens("quadN", [0.0, 0.0], 0.0) + ["dim=2"]))


def nm_float(f, pp, ftol, maxit=300):
    """double-precision replica of Minimization::minimize (same operation order), used by the GENERATOR only to learn the
    highest / lowest vertex value at the head of every pass: [(y_hi, y_lo), ...]"""
    p = [list(r) for r in pp]
    m, n = len(p), len(p[0])
    y = [f(list(r)) for r in p]

    def colsums():
        out = []
        for j in range(n):
            sm = 0.0
            for i in range(m):
                sm += p[i][j]
            out.append(sm)
        return out
    psum = colsums()
    nfunc = 0
    heads = []

    def amotry(ihi, fac):
        fac1 = (1.0 - fac) / n
        fac2 = fac1 - fac
        ptry = [psum[j] * fac1 - p[ihi][j] * fac2 for j in range(n)]
        ytry = f(list(ptry))
        if ytry < y[ihi]:
            y[ihi] = ytry
            for j in range(n):
                psum[j] += ptry[j] - p[ihi][j]
                p[ihi][j] = ptry[j]
        return ytry
    while True:
        ilo = 0
        ihi, inhi = (0, 1) if y[0] > y[1] else (1, 0)
        for i in range(m):
            if y[i] <= y[ilo]:
                ilo = i
            if y[i] > y[ihi]:
                inhi = ihi; ihi = i
            elif y[i] > y[inhi] and i != ihi:
                inhi = i
        heads.append((y[ihi], y[ilo]))
        rtol = 2.0 * abs(y[ihi] - y[ilo]) / (abs(y[ihi]) + abs(y[ilo]) + 1e-10)
        if rtol < ftol or nfunc >= 5000 or len(heads) > maxit:
            return heads
        nfunc += 2
        ytry = amotry(ihi, -1.0)
        if ytry <= y[ilo]:
            amotry(ihi, 2.0)
        elif ytry >= y[inhi]:
            ysave = y[ihi]
            ytry = amotry(ihi, 0.5)
            if ytry >= ysave:
                for i in range(m):
                    if i != ilo:
                        for j in range(n):
                            p[i][j] = psum[j] = 0.5 * (p[i][j] + p[ilo][j])
                        y[i] = f(list(psum))
                nfunc += n
                psum = colsums()
        else:
            nfunc -= 1


def gen_straddle(rng, n, R, ctx):
    """convex bowls whose minimum VALUE is negative, the offset chosen so that at pass k of the run the highest and the
    lowest vertex value are (to rounding) opposite numbers: offset = -(y_hi + y_lo)/2 of the simplex at the head of pass k
    (k = 0: the start simplex).  There |y_hi| = |y_lo| while y_hi - y_lo is as large as it gets: the stopping rule must see
    the DIFFERENCE of the values, not of their magnitudes."""
    for i in range(n):
        dim = 1 + i % 3
        B, d, cond = gen_quadN(rng, dim)
        while cond > 100:
            B, d, cond = gen_quadN(rng, dim)
        c = [rng.choice([0.0, dy(rng, -8, 8), rng.uniform(-3, 3)]) for _ in range(dim)]
        start = [c[j] + rng.choice([1, -1]) * rng.uniform(0.5, 4) for j in range(dim)]
        delta = rng.choice([1, -1]) * rng.uniform(0.3, 2)
        pp = [list(start) for _ in range(dim + 1)]
        for r in range(1, dim + 1):
            pp[r][r - 1] = start[r - 1] + delta
        ftol = 10.0 ** -rng.randint(3, 8)
        prog0 = p_quadN(B, d, c, 0.0)
        heads = nm_float(lambda x: ev_float(prog0, x), pp, ftol)
        ks = [kk for kk in (0, 0, 1, 2, 3, 5, 8, 13) if kk < len(heads) - 1] or [0]
        kk = rng.choice(ks)
        off = -(heads[kk][0] + heads[kk][1]) / 2
        prog = p_quadN(B, d, c, off)
        # how the run with this offset meets the straddle (statistics only)
        hit = any(2.0 * abs(abs(h) - abs(l)) / (abs(h) + abs(l) + 1e-10) < ftol <= 2.0 * abs(h - l) / (abs(h) + abs(l) + 1e-10)
                  for h, l in nm_float(lambda x: ev_float(prog, x), pp, ftol))
        bump(ctx, "straddle.forced" + (".hit" if hit else ".missed"))
        meta = meta_tokens("quadN", c, off, extra={"cond": "%.3g" % cond}) + ["dim=%d" % dim, "straddle=%d" % kk, "hd=0", "od=0"]
        if i % 2:
            R.append(req_nd("c11.nm", ftol, "%d %s" % (len(pp), " ".join(lst(r) for r in pp)), prog, meta))
        else:
            R.append(req_nd("c11.nm1", ftol, "%s %s" % (lst(start), hx(delta)), prog, meta))


def p_nested(n, m, c, a, b, w, off):
    """g(x,t) = sum_j (x_j-c_j)^2 + sum_k w_k (t_k - (a_k.x + b_k))^2 + off over the variables x_0..x_{n-1}, t = x_n..x_{n+m-1}:
    jointly convex; min over t is sum (x-c)^2 + off"""
    p = []
    for j in range(n):
        p += ["x%d" % j, k(c[j]), "-", "sq"]
        if j:
            p.append("+")
    for kk in range(m):
        p += ["x%d" % (n + kk)]
        first = True
        for j in range(n):
            p += ["x%d" % j, k(a[kk][j]), "*"]
            if not first:
                p.append("+")
            first = False
        p += [k(b[kk]), "+", "-", "sq", k(w[kk]), "*", "+"]
    p += [k(off), "+"]
    return p


def gen_re(rng, n, R):
    """re-entrant use: the outer objective F(x) = min_t g(x,t) is computed by an inner Minimization::minimize run inside
    the callback (on an object of its own)"""
    for i in range(n):
        nd = 1 + i % 3
        md = 1 + (i // 3) % 2
        c = [dy(rng, -4, 4) for _ in range(nd)]
        a = [[rng.choice([0.0, 0.5, -0.5, 1.0]) for _ in range(nd)] for _ in range(md)]
        b = [dy(rng, -2, 2) for _ in range(md)]
        w = [rng.choice([1.0, 2.0, 0.5]) for _ in range(md)]
        off = rng.choice([0.0, 1.0, dy(rng, -4, 4)])
        prog = p_nested(nd, md, c, a, b, w, off)
        start = [c[j] + rng.choice([1, -1]) * rng.uniform(0.5, 2) for j in range(nd)]
        t0 = [rng.uniform(-2, 2) for _ in range(md)]
        R.append("c11.nmre %s %s %s %s %s %s %s %s" % (
            hx(10.0 ** -rng.randint(3, 5)), lst(start), hx(rng.choice([1, -1]) * rng.uniform(0.3, 1.2)),
            hx(10.0 ** -rng.randint(4, 6)), lst(t0), hx(rng.choice([1, -1]) * rng.uniform(0.3, 1.2)),
            toklist(prog), toklist(meta_tokens("nested") + ["dim=%d" % nd, "inner=%d" % md])))


def gen_nd_bigc(rng, n, R):
    """quadratic bowls whose minimum VALUE is 0 and whose minimiser has large coordinates (|c_j| in 1e3..1e9): the
    fractional stopping rule then needs |y_hi - y_lo| < 5e-11*ftol, below the granularity lambda*ulp(c)^2 of the objective
    around the minimiser - 'from any starting point and scale'.  Dimensions 5-6, cond > 1e3 and ftol <= 1e-11 boosted."""
    for i in range(n):
        dim = rng.choice([1, 2, 2, 3, 4, 5, 5, 6, 6])
        B, d, cond = gen_quadN(rng, dim)
        if dim > 1 and rng.random() < 0.5:
            for _ in range(40):
                if cond > 1e3:
                    break
                B, d, cond = gen_quadN(rng, dim)
        c = [rng.choice([1, -1]) * logu(rng, 3, 9) for _ in range(dim)]
        prog = p_quadN(B, d, c, 0.0)
        ftol = rng.choice([1e-12, 1e-11, 1e-12, logu(rng, -12, -9)])
        od, hd = rng.uniform(-3, 3), rng.uniform(-3, 3)
        start = [c[j] + rng.choice([1, -1]) * 10.0 ** od * rng.uniform(0.3, 1) for j in range(dim)]
        meta = meta_tokens("quadN", c, 0.0, extra={"cond": "%.3g" % cond}) + ["od=%d" % math.floor(od), "hd=%d" % math.floor(hd), "dim=%d" % dim, "bigc=1"]
        kind = rng.randrange(3)
        if kind == 0:
            R.append(req_nd("c11.nm1", ftol, "%s %s" % (lst(start), hx(rng.choice([1, -1]) * 10.0 ** hd)), prog, meta))
        elif kind == 1:
            R.append(req_nd("c11.nmd", ftol, "%s %s" % (lst(start), lst([rng.choice([1, -1]) * 10.0 ** (hd + rng.uniform(-0.5, 0.5)) for _ in range(dim)])), prog, meta))
        else:
            pp = [list(start) for _ in range(dim + 1)]
            for r in range(1, dim + 1):
                pp[r][r - 1] = start[r - 1] + rng.choice([1, -1]) * 10.0 ** (hd + rng.uniform(-0.5, 0.5))
            R.append(req_nd("c11.nm", ftol, "%d %s" % (len(pp), " ".join(lst(r) for r in pp)), prog, meta))


def gen_multi(rng, n, R):
    """small multimodal objectives (sums of double wells): non-convex, so the shrink step occurs while the best vertex
    is not stored first - the descent / consistency clauses on 'arbitrary multimodal objectives'"""
    for i in range(n):
        dim = 1 + i % 4
        cs = [(dy(rng, 0, 4), dy(rng, -2, 2)) for _ in range(dim)]
        prog = p_multiN(dim, cs)
        start = [rng.uniform(-2.5, 2.5) for _ in range(dim)]
        ftol = 10.0 ** -rng.randint(3, 10)
        meta = meta_tokens("multiN") + ["dim=%d" % dim, "hd=%d" % 0]
        kind = i % 3
        if kind == 0:
            R.append(req_nd("c11.nm1", ftol, "%s %s" % (lst(start), hx(rng.choice([1, -1]) * logu(rng, -0.5, 0.6))), prog, meta))
        elif kind == 1:
            ds = [rng.choice([1, -1]) * logu(rng, -0.5, 0.6) for _ in range(dim)]
            R.append(req_nd("c11.nmd", ftol, "%s %s" % (lst(start), lst(ds)), prog, meta))
        else:
            pp = [[start[j] + rng.uniform(-2, 2) for j in range(dim)] for _ in range(dim + 1)]
            R.append(req_nd("c11.nm", ftol, "%d %s" % (len(pp), " ".join(lst(r) for r in pp)), prog, meta))


def gen_seq(rng, nlong, nshort, R):
    """object reuse: ONE Minimization object runs a sequence of easy 2-3-D bowls (long sequences: cumulative evaluation
    count well above NMAX = 5000, almost all through the explicit-simplex overload; short ones: all three overloads mixed)"""
    def member(kind, dim, ftol):
        B, d, cond = gen_quadN(rng, dim)
        while cond > 20:
            B, d, cond = gen_quadN(rng, dim)
        c = [dy(rng, -8, 8) for _ in range(dim)]
        off = rng.choice([0.0, 1.0, dy(rng, -8, 8)])
        prog = p_quadN(B, d, c, off)
        meta = meta_tokens("quadN", c, off, extra={"cond": "%.3g" % cond}) + ["dim=%d" % dim]
        start = [c[j] + rng.choice([1, -1]) * rng.uniform(0.5, 2) for j in range(dim)]
        delta = rng.choice([1, -1]) * rng.uniform(0.3, 1.5)
        if kind == "nm1":
            body = "%s %s" % (lst(start), hx(delta))
        elif kind == "nmd":
            body = "%s %s" % (lst(start), lst([delta * rng.uniform(0.5, 1.5) for _ in range(dim)]))
        else:
            pp = [list(start) for _ in range(dim + 1)]
            for r in range(1, dim + 1):
                pp[r][r - 1] = start[r - 1] + delta * rng.uniform(0.5, 1.5)
            body = "%d %s" % (len(pp), " ".join(lst(r) for r in pp))
        return "%s %s %s %s" % (kind, body, toklist(prog), toklist(meta))
    for i in range(nlong + nshort):
        long_ = i < nlong
        ftol = rng.choice([1e-10, 1e-11, 1e-12]) if long_ else 10.0 ** -rng.randint(4, 10)
        n = rng.randint(64, 80) if long_ else rng.randint(2, 6)
        ms = []
        for j in range(n):
            kind = rng.choice(["nm", "nm1", "nmd"]) if (not long_ or j < 3) else "nm"
            dim = rng.choice([1, 2, 2, 3, 3, 4] + ([5, 6] if (not long_ or rng.random() < 0.08) else [2, 3]))
            mtxt = member(kind, dim, ftol)
            ms.append(mtxt)
            # argument aliasing: restart from the object's own state (the Numerical-Recipes restart idiom), with the same
            # objective; `rs` passes current_simplex itself, `rs1`/`rsd` its row 0 as starting point
            if rng.random() < (0.12 if long_ else 0.6):
                toks_ = mtxt.split()
                # program + meta are the tail of the member text: find it by re-parsing
                c = Cur(toks_[1:])
                Rm = parse_member("c11." + kind, ftol, c)
                tail = "%s %s" % (toklist(Rm["prog"]), toklist(["%s=%s" % kv for kv in Rm["meta"].items()] + ["fixed=restart"]))
                rk = rng.choice(["rs", "rs", "rs1", "rsd"])
                if rk == "rs":
                    ms.append("rs " + tail)
                elif rk == "rs1":
                    ms.append("rs1 %s %s" % (hx(rng.choice([1, -1]) * rng.uniform(0.05, 0.5)), tail))
                else:
                    ms.append("rsd %s %s" % (lst([rng.choice([1, -1]) * rng.uniform(0.05, 0.5) for _ in range(dim)]), tail))
        n = len(ms)
        R.append("c11.nmseq %s %d %s" % (hx(ftol), n, " ".join(ms)))


def generate(tier, seed, ctx):
    rng = random.Random(seed * 7919 + 11)
    R = []
    if tier == "thorough":
        gen_1d(rng, 2400, R, ctx)
        gen_1d_origin(rng, 480, R)
        gen_nd(rng, 900, R, ctx)
        gen_multi(rng, 400, R)
        gen_nd_bigc(rng, 160, R)
        gen_seq(rng, 8, 24, R)
        gen_straddle(rng, 120, R, ctx)
        gen_re(rng, 40, R)
    else:
        gen_1d(rng, 400, R, ctx)
        gen_1d_origin(rng, 96, R)
        gen_nd(rng, 84, R, ctx)
        gen_multi(rng, 48, R)
        gen_nd_bigc(rng, 14, R)
        gen_seq(rng, 2, 5, R)
        gen_straddle(rng, 24, R, ctx)
        gen_re(rng, 6, R)
    ctx["results"] = {}
    ctx["groups"] = {}
    return R


# ------------------------------------------------------------------------------------------------
# comparison
# ------------------------------------------------------------------------------------------------
def mval(tok):
    """model value token -> float (exact for the driver's round-to-double values), Fraction fallback"""
    if "p-" in tok:
        n, e = tok.split("p-")
        return math.ldexp(int(n), -int(e)) if abs(int(n)) < 2 ** 63 else float(Fraction(int(n), 2 ** int(e)))
    if "/" in tok:
        n, d = tok.split("/")
        return float(Fraction(int(n), int(d)))
    return float(int(tok))


def decade(x):
    return int(math.floor(math.log10(abs(x)))) if x not in (0.0,) and math.isfinite(x) else -99


def trace_compare(ti, tm, bits, stopbits, ctx, what):
    """ti: list of points (tuples of floats) of the implementation, tm: of the model, bits[k]: margin bits of the
    model's k-th evaluation.  Returns (failures, agreed_fully)."""
    n = min(len(ti), len(tm))
    for kk in range(n):
        if ti[kk] == tm[kk]:
            continue
        worst = bits[kk]            # margin of the decisions that led to this evaluation
        prev = tm[kk - 1] if kk else tm[kk]
        step = max(abs(a - b) for a, b in zip(tm[kk], prev))
        mag = max(abs(a) for a in tm[kk])
        tol = 2.0 ** -20 * step + 2.0 ** -40 * mag + 1e-300
        d = max(abs(a - b) for a, b in zip(ti[kk], tm[kk]))
        if not (d <= tol):
            if worst >= TINY_BITS:
                ctx["excused"] += 1
                bump(ctx, "trace.excused")
                return [], False
            return [fail("corr", "%s: evaluation trace leaves the model's at a decision with a healthy margin" % what,
                         "evaluation %d: impl %r model %r (margin bits %d)" % (kk, ti[kk], tm[kk], worst))], False
    if len(ti) != len(tm):
        nxt = bits[n] if len(tm) > n else stopbits
        if nxt >= TINY_BITS:
            ctx["excused"] += 1
            bump(ctx, "trace.excused")
            return [], False
        return [fail("corr", "%s: number of evaluations differs from the model's at a decision with a healthy margin" % what,
                     "impl %d model %d" % (len(ti), len(tm)))], False
    return [], True


def sf(x):
    """float() that does not raise on huge rationals"""
    try:
        return float(x)
    except OverflowError:
        return math.inf if x > 0 else -math.inf


def conv_1d(R, x, ctx):
    """convergence clause on the unimodal classes: within the distance implied by the tolerance of a minimiser,
    or inside the set where the double objective cannot tell the difference"""
    prog = R["prog"][:-1] if R["op"] == "c11.max" else R["prog"]
    tol = R["tol"]
    cands = list(R.get("xs", [])) + list(R.get("alt", []))
    if not cands or not (tol >= 0):
        return None
    best = None
    for xs in cands:
        # Brent stops when max(x-a, b-x) <= tol2 = 2*(tol*|x| + ZEPS) with the minimiser inside [a,b]:
        # |x - x*| <= 2*(tol*|x*| + 2^-52)/(1 - 2*tol)  (|x| <= |x*| + |x - x*|); plus 2^-50 |x*| for the roundings of x
        if not (Fraction(tol) < Fraction(1, 4)):
            return None
        D = 2 * (Fraction(tol) * abs(Fraction(xs)) + Fraction(1, 2 ** 52)) / (1 - 2 * Fraction(tol)) + abs(Fraction(xs)) / 2 ** 50
        dist = abs(Fraction(x) - Fraction(xs))
        if dist <= D:
            bump(ctx, "conv1d.within-distance")
            return None
        best = (sf(dist), sf(D)) if best is None or sf(dist) < best[0] else best
    v, e = ev_exact(prog, [x])
    if v is None:
        return "objective undefined at the returned point"
    fs = Fraction(R["fs"])
    _, es = ev_exact(prog, [cands[0]])
    if v - fs <= 8 * (e + (es or 0)) + Fraction(1, 10 ** 300):
        bump(ctx, "conv1d.within-rounding-flat")
        return None
    return "returned point %r is %.3g away from the minimiser (allowed %.3g) and f exceeds the minimum by %.3g (rounding allowance %.3g)" % (
        x, best[0], best[1], sf(v - fs), sf(8 * (e + (es or 0))))


KCONV_ND = 256          # empirical (the stopping rule bounds the spread of the vertex values, not the excess over the minimum):
                        # worst observed 156 over 22401 bowl runs (dims 1-2, step/distance >= 0.03); 64 is exceeded by 0.05% of the runs
SD_MIN = 0.03
CL_PREMATURE = ("minimize: stops far from the minimiser of a quadratic bowl when the initial simplex is much smaller than "
                "its distance to the minimiser (fractional function-value stopping rule)")
CL_COLLAPSE = ("minimize: stops far from the minimiser of a quadratic bowl in three or more dimensions (simplex collapses, "
               "fractional function-value stopping rule)")
CL_CONV = "minimize: not within the tolerance-implied distance of the minimiser (quadratic bowl, dimension 1-2)"


def conv_nd(R, I, ctx):
    """convergence clause on strictly convex quadratic bowls, evaluated on exact values: the excess of f(result) over
    the minimum is at most K*ftol*(|f(result)| + |f*| + TINY) plus a rounding allowance - or the returned point is as close
    to the minimiser as the doubles around it allow (16*ndim*eps*|x*_j| per coordinate).  Claimed for proper simplices
    (ndim+1 vertices, the documented use of the general overload).  Returns (clause, message) or None."""
    prog = R["prog"]
    pp = simplex_of(R)
    nd = I["nd"]
    if len(pp) != nd + 1 or not (R["ftol"] > 0):
        return None
    v, e = ev_exact(prog, I["pmin"])
    fs = Fraction(R["fs"])
    _, es = ev_exact(prog, R["xs"])
    gap = v - fs - 64 * (e + es)
    allow = Fraction(KCONV_ND) * Fraction(R["ftol"]) * (abs(v) + abs(fs) + Fraction(1, 10 ** 10))
    size0 = max(max(abs(a - b) for a, b in zip(r, pp[0])) for r in pp)
    dist0 = max(abs(a - b) for a, b in zip(pp[0], R["xs"]))
    small = dist0 > 0 and size0 < SD_MIN * dist0
    regime = "small-simplex" if small else ("dim>=3" if nd >= 3 else "dim<=2")
    bump(ctx, "convND." + regime)
    if gap <= allow:
        return None
    if all(abs(Fraction(a) - Fraction(b)) <= 16 * nd * Fraction(1, 2 ** 52) * abs(Fraction(b)) for a, b in zip(I["pmin"], R["xs"])):
        bump(ctx, "convND.at-resolution-of-doubles")
        return None
    bump(ctx, "convND." + regime + ".exceeds")
    msg = "f(result) exceeds the minimum by %.3g, allowed %.3g (ftol %.3g, dim %d, step/distance %.3g, %d evaluations)" % (
        sf(gap), sf(allow), R["ftol"], nd, size0 / dist0 if dist0 else math.inf, len(I["tr"]))
    if small:
        return CL_PREMATURE, msg
    if nd >= 3:
        return CL_COLLAPSE, msg
    # dimensions 1-2, well-sized simplex: if the implementation obeyed its stopping rule (theorem nm_exit_rule: the
    # vertex values tie within the band 2|y_hi-y_lo| < ftol(|y_hi|+|y_lo|+TINY)), the stop is the rule's doing - the values
    # tie although the vertices do not; anything else is an unexplained failure
    if stopping_rule(R["ftol"], I["y"], I["rows"]) is None:
        return CL_TIE, msg
    return CL_CONV, msg


CL_TIE = ("minimize: stops far from the minimiser of a quadratic bowl because the vertex values tie within the band of the "
          "stopping rule although the vertices are far apart (fractional function-value stopping rule)")
CL_EXIT_NMAX_3D = ("minimize: terminates the process ('NMAX exceeded') on a quadratic bowl in three or more dimensions "
                   "(degenerate simplex creeping at the resolution of the doubles)")
CL_EXIT_BOWL = ("terminates the process (iteration-limit diagnostic) on an objective of the stated bowl classes instead of "
                "returning a point")
CL_HISTORY = "minimize: the result depends on earlier runs of the same Minimization object"
CL_NMAX_RETURN = ("minimize: returns an unconverged point where the evaluation limit (NMAX exceeded) must stop with a "
                  "diagnostic")


def split_answers(s):
    return [t.strip() for t in s.split(" | ")] if s.strip() else []


def compare_seq(R, rq, impl, model, ctx):
    """class D (justified by theorem nmSeqOn_eq_fresh): every run on the shared object is bit-identical to the run on a
    fresh object; each fresh run is compared with the model and passes the oracle as a stand-alone request"""
    out = []
    ti, tm = tag(impl), tag(model)
    if tm in ("bad-op", "bad-args", "driver-no-answer") or ti != "ok" or " FRESH" not in impl:
        return [fail("corr", "protocol", "impl=%s model=%s" % (impl[:80], tm))]
    body = impl.split(" ", 1)[1]
    seqpart, freshpart = body.split(" FRESH", 1)
    seqpart = seqpart[len("SEQ "):].strip()
    fresh = split_answers(freshpart)
    mem = R["members"]
    models = split_answers(model.split(" ", 1)[1]) if tm == "ok" and " " in model else []
    if len(fresh) != len(mem):
        return [fail("corr", "protocol: number of fresh answers", "%d vs %d" % (len(fresh), len(mem)))]
    seqtag = tag(seqpart)
    seq = split_answers(seqpart.split(" ", 1)[1]) if seqtag == "ok" and " " in seqpart else []
    seq = ["ok " + a for a in seq]
    ctx["nontrivial"].add(("c11.nmseq", min(len(mem) // 10, 8), seqtag))
    bump(ctx, "seq.members", len(mem))
    total = 0
    first_diff = point_diff = None
    for i, (Rm, fr) in enumerate(zip(mem, fresh)):
        mo = models[i] if i < len(models) else "driver-no-answer"
        sub = []
        if Rm.get("restart"):
            # the shared-object answer carries a copy of the aliased argument (`IN mpts ndim values`)
            if seqtag != "ok" or i >= len(seq) or not seq[i].startswith("ok IN ") or tag(fr) == "skip":
                continue
            t = seq[i].split()
            mp, nd = int(t[2]), int(t[3])
            vals = [fl(v) for v in t[4:4 + mp * nd]]
            IN = [vals[r * nd:(r + 1) * nd] for r in range(mp)]
            seq[i] = "ok " + " ".join(t[4 + mp * nd:])
            if Rm["restart"] == "rs":
                Rm["pp"] = IN
            else:
                Rm["start"] = IN[0]
            bump(ctx, "seq.restart." + Rm["restart"])
            # descent / consistency judged on the ALIASED run itself
            for f in oracle_nd(Rm, seq[i], ctx, rq):
                f["detail"] = "member %d, %s restart with the object's own simplex as argument: %s" % (i, Rm["restart"], f.get("detail", ""))
                if f["kind"] == "prop":
                    sub.append(f)
        if crashed(fr):
            sub.append(fail("prop", "crash/sanitizer/silent exit: " + tag(fr), fr[:100]))
        elif tag(fr) == "ok":
            total += len(parse_impl_nd(fr)["tr"])
            sub += oracle_nd(Rm, fr, ctx, rq)
            if tag(mo) == "ok":
                sub += corr_nd(Rm, fr, mo, ctx)
            elif tag(mo) == "err":
                sub += nmax_return(Rm, fr, ctx, mo)
        elif tag(fr) == "err":
            sub.append(fail("prop", CL_EXIT_BOWL, "class %s, ftol %r; model: %s" % (Rm["cls"], Rm["ftol"], tag(mo))))
        for f in sub:
            if "restart with the object's own simplex" not in f.get("detail", ""):
                f["detail"] = "member %d (fresh object%s): %s" % (i, ", given a copy of the aliased argument" if Rm.get("restart") else "", f.get("detail", ""))
        out += sub
        # the shared object
        if seqtag != "ok":
            continue
        if i >= len(seq):
            out.append(fail("corr", "protocol: shared-object answer missing", "member %d" % i)); break
        if tag(fr) != "ok":
            continue
        Is, If = parse_impl_nd(seq[i]), parse_impl_nd(fr)
        ns, nf = (Is["trh"][0] if Is["tr"] is None else len(Is["tr"])), len(If["tr"])
        if Is["tr"] is None:        # the shared-object run reports a digest of its trace
            Is = dict(Is, tr=[()] * ns, trd=Is["trh"]); If = dict(If, trd=trace_digest(If["tr"]))
        else:
            Is = dict(Is, trd=Is["tr"]); If = dict(If, trd=If["tr"])
        what = [kk for kk in ("pmin", "fmin", "nfunc", "y", "rows", "fre", "yre", "trd")
                if Is[kk] != If[kk] and not (kk in ("fmin", "fre") and same(Is[kk], If[kk])) and not (kk in ("y", "yre") and all(same(a, b) for a, b in zip(Is[kk], If[kk])) and len(Is[kk]) == len(If[kk]))]
        if what:
            d = "run %d of %d on one object (%d evaluations in earlier runs)%s differs from the fresh-object run in %s: nfunc %d vs %d, %d vs %d evaluations" % (
                i + 1, len(mem), total - len(If["tr"]), " [%s restart: argument aliases the object's own simplex; fresh object given a copy]" % Rm["restart"] if Rm.get("restart") else "",
                ",".join(what).replace("trd", "trace"), Is["nfunc"], If["nfunc"], ns, nf)
            if first_diff is None:
                first_diff = d
            if "pmin" in what and point_diff is None:
                point_diff = d + ", returned %r vs %r" % (Is["pmin"], If["pmin"])
                if Rm["cls"] in BOWL_ND and "fs" in Rm:
                    r = conv_nd(Rm, Is, ctx)
                    if r:
                        point_diff += "; the shared-object result is unconverged: " + r[1]
    if first_diff is not None:
        out.append(fail("prop", CL_HISTORY, first_diff + (" || first run returning another point: " + point_diff if point_diff else "")))
    if seqtag != "ok":
        if crashed(seqpart):
            out.append(fail("prop", "crash/sanitizer/silent exit on a reused Minimization object: " + seqtag, seqpart[:100]))
        elif all(tag(f) == "ok" for f in fresh):
            out.append(fail("prop", CL_HISTORY, "the sequence on one object ends with '%s' although every run succeeds on a fresh object" % seqtag))
    elif all(tag(f) == "ok" for f in fresh) and not out:
        bump(ctx, "seq.bit-identical-to-fresh")
        ctx["stats"]["seq.max_cumulative_evaluations"] = max(ctx["stats"].get("seq.max_cumulative_evaluations", 0), total)
    return out


CL_SHAPE = ("minimize: accepts a malformed request (initial simplex not n+1 vertices of n >= 1 coordinates, empty starting point, "
            "or a displacement vector of another length) without a diagnostic")


def malformed(R):
    """the request violates the shape contract of the minimize overloads (decided from the request alone)"""
    if R["op"] == "c11.nm":
        pp = R.get("pp")
        return pp is not None and (len(pp) < 2 or len(pp) != len(pp[0]) + 1 or any(len(r) != len(pp[0]) for r in pp))
    if R["op"] == "c11.nmd":
        return R.get("start") is not None and (len(R["start"]) == 0 or len(R["deltas"]) != len(R["start"]))
    if R["op"] == "c11.nm1":
        return R.get("start") is not None and len(R["start"]) == 0
    return False


def nmax_return(R, impl, ctx, model=""):
    """the model stops with a diagnostic but the implementation returns a point"""
    if model.startswith("err shape"):
        return [fail("prop", CL_SHAPE, "")]
    r = conv_nd(R, parse_impl_nd(impl), ctx) if R["cls"] in BOWL_ND and "fs" in R else None
    if r:
        return [fail("prop", CL_NMAX_RETURN, r[1])]
    return [fail("corr", "model exits with 'NMAX exceeded', implementation returns", "")]


def compare(rq, impl, model, ctx):
    R = parse_req(rq)
    op = R["op"]
    bump(ctx, op)
    if op == "c11.nmseq":
        return compare_seq(R, rq, impl, model, ctx)
    bump(ctx, "class." + R["cls"])
    if R.get("nested"):
        bump(ctx, "c11.nmre")
    ti, tm = tag(impl), tag(model)
    ctx.setdefault("results", {})[rq] = impl
    if tm in ("bad-op", "bad-args", "driver-no-answer") or ti in ("bad-op", "bad-args", "harness-no-answer"):
        return [fail("corr", "protocol", "impl=%s model=%s" % (ti, tm))]
    if crashed(impl):
        if ti == "timeout":
            return [fail("prop", "minimiser does not terminate (timeout)", impl[:100])]
        return [fail("prop", "crash/sanitizer/silent exit: " + ti, impl[:200])]
    out = []
    if ti == "err" and malformed(R):
        bump(ctx, "exit.shape-guard")
        ctx["nontrivial"].add((op, "shape-guard"))
        if tm != "err":
            out.append(fail("corr", "the implementation rejects a malformed request that the model accepts", model[:60]))
        return out
    if ti == "ok" and malformed(R):
        return [fail("prop", CL_SHAPE, "")]
    if ti == "err":
        bump(ctx, "exit.diagnostic")
        if tm == "err":
            bump(ctx, "exit.diagnostic.model-agrees")      # a statistic only: the model copies ITMAX / NMAX from the source
            ctx["nontrivial"].add((op, R["cls"], "exit"))
        # the property promises a point for every objective of the stated classes, from any start and scale, at the stated
        # tolerances: terminating the process there is a violation whatever the model (which mirrors the limit) does
        stated_tol = 0 < (R.get("tol") if "tol" in R else R.get("ftol", 0))
        bowl = (R["cls"] in BOWL_1D + BOWL_ND + ("nested",)) and "fixed" not in R["meta"] and stated_tol
        if bowl and R["cls"] in BOWL_ND and len(simplex_of(R)) != len(simplex_of(R)[0]) + 1:
            bowl = False          # not a proper simplex: outside the documented use of the general overload
        if bowl:
            cl = CL_EXIT_NMAX_3D if (R["cls"] in BOWL_ND and len(simplex_of(R)[0]) >= 3) else CL_EXIT_BOWL
            out.append(fail("prop", cl, "class %s, tolerance %r; model: %s" % (R["cls"], R.get("tol", R.get("ftol")), tm)))
        elif tm == "ok":
            out.append(fail("corr", "iteration-limit exit (diagnostic) on a request where the model converges", ""))
        return out
    if ti != "ok":
        return [fail("corr", "unknown harness tag " + ti)]
    if op in ("c11.min", "c11.max"):
        out += oracle_1d(R, impl, ctx)
        if tm == "ok":
            out += corr_1d(R, impl, model, ctx)
        elif tm == "err":
            out.append(fail("corr", "model exits with 'Too many iterations', implementation returns", ""))
        else:
            bump(ctx, "model.undef")
    else:
        out += oracle_nd(R, impl, ctx, rq)
        if tm == "ok":
            out += corr_nd(R, impl, model, ctx)
        elif tm == "err":
            out += nmax_return(R, impl, ctx, model)
        else:
            bump(ctx, "model.undef")
    return out


def oracle_only(rq, impl, ctx):
    R = parse_req(rq)
    if R["op"] == "c11.nmseq":
        return [f for f in compare_seq(R, rq, impl, "undef", ctx) if f["kind"] == "prop"]
    if crashed(impl):
        return [fail("prop", "crash/sanitizer/silent exit: " + tag(impl), impl[:200])]
    if tag(impl) != "ok":
        return []
    return oracle_1d(R, impl, ctx) if R["op"] in ("c11.min", "c11.max") else oracle_nd(R, impl, ctx, rq)


def parse_impl_1d(R, impl):
    t = toks(impl)
    x = fl(t[0]); fx = fl(t[1]); n = int(t[2])
    tr = [fl(v) for v in t[3:3 + n]]
    rest = t[3 + n:]
    second = None
    if R["op"] == "c11.max":
        x2 = fl(rest[0]); fx2 = fl(rest[1]); n2 = int(rest[2])
        second = (x2, fx2, [fl(v) for v in rest[3:3 + n2]])
        rest = rest[3 + n2:]
    if R.get("deftol"):
        x3 = fl(rest[0]); n3 = int(rest[2])
        R["_explicit"] = (x3, [fl(v) for v in rest[3:3 + n3]])
    return x, fx, tr, second


def oracle_1d(R, impl, ctx):
    out = []
    x, fx, tr, second = parse_impl_1d(R, impl)
    prog = R["prog"]
    mx = R["op"] == "c11.max"
    name = "Find_Maximum" if mx else "Find_Minimum"
    if math.isnan(x) or math.isinf(x):
        return [fail("prop", name + ": returned point is not finite", repr(x))]
    fpy = ev_float(prog, [x])
    if not (fpy == fx or (math.isnan(fpy) and math.isnan(fx))):
        out.append(fail("corr", "objective interpreters of harness and comparator disagree", "%r vs %r" % (fx, fpy)))
    fl_, fr_ = ev_float(prog, [R["xl"]]), ev_float(prog, [R["xr"]])
    if not any(math.isnan(v) for v in (fl_, fr_, fx)):
        if (not mx and not (fx <= min(fl_, fr_))) or (mx and not (fx >= max(fl_, fr_))):
            out.append(fail("prop", name + ": result is worse than the better of the two starting points",
                            "f(result)=%r f(xLeft)=%r f(xRight)=%r" % (fx, fl_, fr_)))
    # the returned point is one of the evaluated abscissae and no evaluated point with a better value was dropped
    if tr:
        if x not in tr:
            out.append(fail("prop", name + ": returned point was never evaluated", repr(x)))
        # Brent's phase starts with the re-evaluation of bx (the first repeated abscissa); within it fx is the
        # best value seen (Bracket itself may legitimately drop a lower outer point)
        kb = next((i for i in range(2, len(tr)) if tr[i] in tr[:i]), None)
        vals = [ev_float(prog, [u]) for u in tr[kb:]] if kb is not None else []
        if vals and not any(math.isnan(v) for v in vals):
            best = max(vals) if mx else min(vals)
            if (not mx and fx > best) or (mx and fx < best):
                out.append(fail("prop", name + ": a better evaluated point was discarded (best-so-far bookkeeping)",
                                "f(result)=%r best evaluated=%r" % (fx, best)))
    if R.get("deftol") and "_explicit" in R:
        x3, tr3 = R["_explicit"]
        bump(ctx, "default-tolerance")
        if not same(x3, x) or tr3 != tr:
            out.append(fail("prop", name + ": the default tolerance is not the documented 3e-8 (differs from the call with 3e-8 written out)",
                            "%r (%d evals) vs %r (%d evals)" % (x, len(tr), x3, len(tr3))))
    if mx and second is not None:
        x2, fx2, tr2 = second
        if not same(x2, x):
            # the clause of the property: the two RESULTS are the same double
            out.append(fail("prop", "Find_Maximum(f) is not Find_Minimum(-f) bit-for-bit",
                            "max: %r (%d evals)  min of -f: %r (%d evals)" % (x, len(tr), x2, len(tr2))))
        elif distinct_first([(u,) for u in tr])[0] != distinct_first([(u,) for u in tr2])[0]:
            # same result through other evaluation points: not what the property states, reported as correspondence
            out.append(fail("corr", "Find_Maximum(f) reaches the result of Find_Minimum(-f) through other evaluation points",
                            "%d vs %d evaluations" % (len(tr), len(tr2))))
        elif len(tr) != len(tr2):
            bump(ctx, "maxmin.raw-count-differs-by-repeats")
    if R["cls"] in BOWL_1D and "fs" in R and not math.isnan(fx) and R["xl"] != R["xr"]:
        msg = conv_1d(R, x, ctx)
        if msg:
            out.append(fail("prop", name + ": not within the tolerance-implied distance of the minimiser (class %s)" % R["cls"], msg))
    ctx["nontrivial"].add((R["op"], R["cls"], R["meta"].get("od"), R["meta"].get("hd"), decade(R["tol"]), min(len(tr) // 8, 8)))
    return out


def distinct_first(points, bits=None):
    """the observations of a 1-D run: the DISTINCT abscissae in order of first occurrence (the objective is a function:
    an abscissa evaluated again returns the same value and is the same observation; theorems findMinimum_memoised,
    brentNR_eq).  The margin of a dropped repeat is carried to the next kept observation (or to the stop decision)."""
    seen, out, ob, pend = set(), [], [], 0
    for i, pnt in enumerate(points):
        b = bits[i] if bits is not None else 0
        if pnt in seen:
            pend = max(pend, b)
            continue
        seen.add(pnt)
        out.append(pnt); ob.append(max(pend, b)); pend = 0
    return out, ob, pend


def corr_1d(R, impl, model, ctx):
    out = []
    x, fx, tr, second = parse_impl_1d(R, impl)
    t = toks(model)
    xm = mval(t[0]); fm = mval(t[1]); stopbits = int(t[2]); n = int(t[3])
    trm_raw = [(mval(t[4 + 2 * i]),) for i in range(n)]
    bits_raw = [int(t[5 + 2 * i]) for i in range(n)]
    # the property does not fix the number of evaluations in one dimension: compare the distinct evaluation points
    tri, _, _ = distinct_first([(u,) for u in tr])
    trm, bits, pend = distinct_first(trm_raw, bits_raw)
    stopbits = max(stopbits, pend)
    if len(tr) != len(trm_raw):
        bump(ctx, "trace1d.raw-count-differs-by-repeats" if len(tri) == len(trm) else "trace1d.raw-count-differs")
    bump(ctx, "trace1d.repeats.impl", len(tr) - len(tri))
    bump(ctx, "trace1d.repeats.model", len(trm_raw) - len(trm))
    fs, full = trace_compare(tri, trm, bits, stopbits, ctx, "Find_Maximum" if R["op"] == "c11.max" else "Find_Minimum")
    out += fs
    if full:
        bump(ctx, "trace.identical" if tri == trm else "trace.within-tolerance")
        if x != xm:
            d = abs(x - xm)
            if not (d <= 2.0 ** -40 * abs(xm) + 1e-300):
                out.append(fail("corr", "result differs from the model although the traces agree", "%r vs %r" % (x, xm)))
        mfx = -fm if R["op"] == "c11.max" else fm
        if x == xm and mfx != fx:
            out.append(fail("corr", "model f_min is not the objective at the returned point", "%r vs %r" % (mfx, fx)))
    elif not fs:
        # diverged by rounding: final points still compared at the algorithm's own tolerance
        tol1 = R["tol"] * abs(xm) + 2.0 ** -52
        if abs(x - xm) > 8 * tol1:
            prog = R["prog"]
            vi, ei = ev_exact(prog, [x]); vm, em = ev_exact(prog, [xm])
            if vi is not None and vm is not None and abs(vi - vm) > 64 * (ei + em):
                out.append(fail("corr", "after a rounding-level divergence the final point is not within the tolerance of the model's",
                                "%r vs %r" % (x, xm)))
    return out


def trace_digest(tr):
    """the harness's digest of a trace: (length, 64-bit hash of the doubles)"""
    import struct
    h = 1469598103934665603
    for pnt in tr:
        for v in pnt:
            h = ((h ^ struct.unpack("<Q", struct.pack("<d", v))[0]) * 1099511628211) & 0xFFFFFFFFFFFFFFFF
    return (len(tr), "%016x" % h)


def parse_impl_nd(impl):
    t = toks(impl)
    i = 0
    nd = int(t[i]); i += 1
    pmin = [fl(v) for v in t[i:i + nd]]; i += nd
    fmin = fl(t[i]); i += 1
    nfunc = int(t[i]); i += 1
    m = int(t[i]); i += 1
    y = [fl(v) for v in t[i:i + m]]; i += m
    rows = []
    for _ in range(m):
        rows.append([fl(v) for v in t[i:i + nd]]); i += nd
    fre = fl(t[i]); i += 1
    yre = [fl(v) for v in t[i:i + m]]; i += m
    n = int(t[i]); i += 1
    tr = []
    trh = None
    if i < len(t) and t[i].startswith("H"):      # digest of the trace (shared-object runs of c11.nmseq)
        trh = (n, t[i][1:]); i += 1
        tr = None
    else:
        for _ in range(n):
            tr.append(tuple(fl(v) for v in t[i:i + nd])); i += nd
    tv = None
    if i < len(t):          # c11.nmre: the value the callback returned at every evaluation
        nv = int(t[i]); i += 1
        tv = [fl(v) for v in t[i:i + nv]]
    return dict(nd=nd, pmin=pmin, fmin=fmin, nfunc=nfunc, y=y, rows=rows, fre=fre, yre=yre, tr=tr, tv=tv, trh=trh)


def same(a, b):
    return a == b or (isinstance(a, float) and isinstance(b, float) and math.isnan(a) and math.isnan(b))


CL_STOP = ("minimize: returns although the fractional spread 2|y_hi-y_lo|/(|y_hi|+|y_lo|+1e-10) of the reported vertex "
           "values is not below ftol (stopping rule, theorem nm_exit_rule)")


def stopping_rule(ftol, y, rows=None):
    """on return the highest and lowest reported vertex values satisfy the documented stopping rule (evaluated exactly,
    2^-45 relative slack for the four roundings of the double computation) - or the reported simplex has shrunk to the
    resolution of the doubles around its best vertex (every coordinate within 8*ndim*eps*|p_0j| of it), where no step of
    the method can resolve anything any more"""
    if not y or any(math.isnan(v) or math.isinf(v) for v in y) or math.isnan(ftol):
        return None
    yh, yl = Fraction(max(y)), Fraction(min(y))
    rt = 2 * abs(yh - yl) / (abs(yh) + abs(yl) + Fraction(1e-10))
    if rt > Fraction(ftol) * (1 + Fraction(1, 2 ** 45)):
        if rows:
            nd = len(rows[0])
            if all(abs(Fraction(a) - Fraction(b)) <= 8 * nd * Fraction(1, 2 ** 52) * abs(Fraction(b)) for r in rows for a, b in zip(r, rows[0])):
                return None
        return "y_hi=%r y_lo=%r: spread %.3g, ftol %.3g" % (max(y), min(y), sf(rt), ftol)
    return None


def oracle_nd(R, impl, ctx, rq):
    out = []
    I = parse_impl_nd(impl)
    prog = R["prog"]
    name = "minimize"
    nested = bool(R.get("nested"))
    if not nested:
        fpy = ev_float(prog, I["pmin"])
        if not same(fpy, I["fre"]):
            out.append(fail("corr", "objective interpreters of harness and comparator disagree", "%r vs %r" % (I["fre"], fpy)))
    if not same(I["fmin"], I["fre"]):
        out.append(fail("prop", name + ": fmin is not the objective at the returned point", "fmin=%r f(pmin)=%r" % (I["fmin"], I["fre"])))
    if any(not same(a, b) for a, b in zip(I["y"], I["yre"])):
        kk = [same(a, b) for a, b in zip(I["y"], I["yre"])].index(False)
        out.append(fail("prop", name + ": y[i] is not the objective at simplex vertex i", "i=%d y=%r f=%r" % (kk, I["y"][kk], I["yre"][kk])))
    if I["rows"] and I["pmin"] != I["rows"][0]:
        out.append(fail("prop", name + ": returned point is not vertex 0 of the reported simplex", ""))
    if I["y"] and not same(I["y"][0], I["fmin"]):
        out.append(fail("prop", name + ": fmin is not y[0]", "%r vs %r" % (I["fmin"], I["y"][0])))
    if any(v < I["y"][0] for v in I["y"]):
        out.append(fail("prop", name + ": reported simplex is not best-first", "y=%r" % (I["y"][:8],)))
    msg = stopping_rule(R["ftol"], I["y"], I["rows"])
    if msg:
        out.append(fail("prop", CL_STOP, msg))
    # nfunc accounting: for a proper simplex every evaluation after the first mpts is counted (reflection 1, reflection +
    # expansion / contraction 2, shrink ndim more)
    if len(I["y"]) == I["nd"] + 1 and I["nfunc"] != len(I["tr"]) - len(I["y"]):
        out.append(fail("prop", name + ": nfunc is not the number of evaluations after the initial simplex",
                        "nfunc=%d evaluations=%d mpts=%d" % (I["nfunc"], len(I["tr"]), len(I["y"]))))
    pp = simplex_of(R)
    # nested objective (re-entrant use): the values are those the callback itself returned
    vals = (I["tv"] or [])[:len(pp)] if nested else [ev_float(prog, r) for r in pp]
    if nested and (I["tv"] is None or len(I["tv"]) != len(I["tr"]) or len(vals) < len(pp)):
        out.append(fail("corr", "protocol: values of the nested objective missing", ""))
        vals = [math.nan]
    if not any(math.isnan(v) for v in vals + [I["fre"]]):
        if not (I["fre"] <= min(vals)):
            out.append(fail("prop", name + ": result is worse than the best vertex of the initial simplex",
                            "f(result)=%r best start=%r" % (I["fre"], min(vals))))
        # overloads build the documented simplex: the first evaluations are its vertices in order
        if [tuple(r) for r in pp] != list(I["tr"][:len(pp)]):
            out.append(fail("prop", name + ": the overload does not start from the documented initial simplex", ""))
        allv = list(I["tv"]) if nested else [ev_float(prog, list(u)) for u in I["tr"]]
        if allv and not any(math.isnan(v) for v in allv) and I["fre"] > min(allv):
            # a better point was seen but lost: legal only through the shrink step (vertices other than the best are
            # replaced) - the best vertex itself must never be lost
            out.append(fail("prop", name + ": a better evaluated point was discarded (best vertex lost)",
                            "f(result)=%r best evaluated=%r" % (I["fre"], min(allv))))
    if R["cls"] in BOWL_ND and "fs" in R and not math.isnan(I["fre"]):
        r = conv_nd(R, I, ctx)
        if r:
            out.append(fail("prop", r[0], r[1]))
    g = R["meta"].get("grp")
    if g:
        ctx.setdefault("groups", {}).setdefault(g, []).append((R["op"], rq, impl))
    ctx["nontrivial"].add((R["op"], R["cls"], I["nd"], R["meta"].get("od"), R["meta"].get("hd"), decade(R["ftol"]), min(len(I["tr"]) // 50, 10)))
    return out


def corr_nd(R, impl, model, ctx):
    out = []
    I = parse_impl_nd(impl)
    t = toks(model)
    i = 0
    stopbits = int(t[i]); i += 1
    nd = int(t[i]); i += 1
    pmin = [mval(v) for v in t[i:i + nd]]; i += nd
    fmin = mval(t[i]); i += 1
    nfunc = int(t[i]); i += 1
    m = int(t[i]); i += 1
    y = [mval(v) for v in t[i:i + m]]; i += m
    rows = []
    for _ in range(m):
        rows.append([mval(v) for v in t[i:i + nd]]); i += nd
    n = int(t[i]); i += 1
    trm, bits = [], []
    for _ in range(n):
        trm.append(tuple(mval(v) for v in t[i:i + nd])); i += nd
        bits.append(int(t[i])); i += 1
    fs, full = trace_compare(I["tr"], trm, bits, stopbits, ctx, "minimize")
    out += fs
    if full:
        bump(ctx, "trace.identical" if I["tr"] == trm else "trace.within-tolerance")
        if I["nfunc"] != nfunc:
            out.append(fail("corr", "nfunc accounting differs from the model", "%d vs %d" % (I["nfunc"], nfunc)))
        if I["tr"] == trm:
            if I["pmin"] != pmin or I["rows"] != rows:
                out.append(fail("corr", "returned point / simplex differs from the model although the traces are identical", ""))
            if I["y"] != y or I["fmin"] != fmin:
                out.append(fail("corr", "reported values differ from the model although the traces are identical", ""))
    elif not fs and not R.get("nested"):
        vi, ei = ev_exact(R["prog"], I["pmin"]); vm, em = ev_exact(R["prog"], pmin)
        if vi is not None and vm is not None:
            allow = Fraction(KCONV_ND) * Fraction(R["ftol"]) * (abs(vi) + abs(vm) + Fraction(1, 10 ** 10)) + 64 * (ei + em)
            if abs(vi - vm) > allow:
                out.append(fail("corr", "after a rounding-level divergence the final value is not within the tolerance of the model's",
                                "%r vs %r" % (sf(vi), sf(vm))))
    return out


def finalize(ctx, exe):
    """nm_three_overloads on the implementation: companions built from the same documented simplex are bit-identical"""
    out = []
    for g, members in ctx.get("groups", {}).items():
        if len(members) < 2:
            continue
        base = members[0]
        for other in members[1:]:
            if tag(base[2]) != "ok" or tag(other[2]) != "ok":
                if tag(base[2]) != tag(other[2]):
                    out.append(dict(fail("prop", "minimize overloads disagree on the outcome", "%s: %s vs %s: %s" % (base[0], tag(base[2]), other[0], tag(other[2]))), req=base[1]))
                continue
            if toks(base[2]) != toks(other[2]):
                out.append(dict(fail("prop", "minimize overloads (delta / deltas / general) differ on the same documented simplex",
                                     "%s vs %s" % (base[0], other[0])), req=base[1], impl=base[2][:300], model=other[2][:300]))
            else:
                bump(ctx, "overloads.bit-identical")
    return out
