"""Helpers shared by the per-property generators/comparators."""
import math, random
from fractions import Fraction

EPS = Fraction(1, 2 ** 53)


def hx(x):
    """exact C99 hex float of a Python float"""
    x = float(x)
    if math.isnan(x):
        return "nan"
    if math.isinf(x):
        return "inf" if x > 0 else "-inf"
    return x.hex()


def fl(tok):
    """hex-float token -> Python float (exact)"""
    if tok in ("nan", "-nan"):
        return math.nan
    if tok == "inf":
        return math.inf
    if tok == "-inf":
        return -math.inf
    return float.fromhex(tok)


def fr(tok):
    """model token num/den (or int, or hex float) -> Fraction (exact)"""
    if "/" in tok:
        n, d = tok.split("/")
        return Fraction(int(n), int(d))
    if "x" in tok or "X" in tok:
        return Fraction(float.fromhex(tok))
    return Fraction(int(tok))


def F(x):
    return Fraction(x)


def lst(xs):
    xs = list(xs)
    return "%d %s" % (len(xs), " ".join(hx(x) for x in xs)) if xs else "0"


def ilst(xs):
    xs = list(xs)
    return "%d %s" % (len(xs), " ".join(str(int(x)) for x in xs)) if xs else "0"


def close(impl, model, scale, K, atol=0):
    """|impl - model| <= K*eps*scale + atol  with exact arithmetic; impl float, model Fraction"""
    if isinstance(impl, float):
        if math.isnan(impl) or math.isinf(impl):
            return False
        impl = Fraction(impl)
    return abs(impl - model) <= K * EPS * abs(Fraction(scale)) + Fraction(atol)


def fail(kind, clause, detail=""):
    return dict(kind=kind, clause=clause, detail=detail)


def tag(s):
    return s.split(" ", 1)[0] if s else ""


def toks(s):
    return s.split()[1:]


def bump(ctx, key, n=1):
    ctx["stats"][key] = ctx["stats"].get(key, 0) + n


def dyadic(rng, lo=-64, hi=64, bits=4):
    """random dyadic rational with few bits: arithmetic on these is exact in double"""
    return rng.randint(lo * 2 ** bits, hi * 2 ** bits) / 2 ** bits


def mixed_magnitude(rng, emin=-20, emax=20):
    s = rng.choice([-1.0, 1.0])
    return s * rng.uniform(1, 10) * 10.0 ** rng.randint(emin, emax)


def crashed(impl):
    return tag(impl) in ("asan", "signal", "timeout", "harness-no-answer", "exit-nodiag", "exit0")


def std_outcome(rq, impl, model, clause_prefix=""):
    """Class A on the outcome tag. Returns (failures, both_ok)."""
    ti, tm = tag(impl), tag(model)
    if tm in ("bad-op", "bad-args", "driver-no-answer") or ti in ("bad-op", "bad-args"):
        return [fail("corr", clause_prefix + "protocol", "impl=%s model=%s" % (ti, tm))], False
    if crashed(impl):
        # memory error, signal, silent exit: never acceptable (C10), concrete input at hand
        return [fail("prop", clause_prefix + "crash/sanitizer/silent exit: " + ti, impl[:200])], False
    if tm == "undef" or tm == "nonterm":
        return [], False
    if tm == "err":
        if ti == "err":
            return [], False
        return [fail("prop", clause_prefix + "meaningless request did not stop with a diagnostic", impl[:200])], False
    if tm == "ok":
        if ti == "err":
            return [fail("prop", clause_prefix + "meaningful request terminated the process", "")], False
        return [], ti == "ok"
    return [fail("corr", clause_prefix + "unknown model tag " + tm)], False
