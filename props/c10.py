"""C10 — meaningless requests stop the program with a diagnostic; valid ones never do.

For each guarded entry point the generator emits argument values on both sides of the guard; every
request is executed in a forked child of the ASan+UBSan build.  Comparator (class A, outcome only):
model `ok` <-> implementation returned normally, model `err` <-> exit status != 0 AND a non-empty
diagnostic; `asan`, `signal`, `exit-nodiag`, `exit0`, `timeout` are always violations of the property
with the request as the concrete input.
"""
import math, os, random
from fractions import Fraction
from common import *

RULE = ("boundary enumeration per guarded entry point (index = size-1, size, size+1, UINT_MAX, 0 on empty; x at, "
        "just inside, just outside the 1% edge tolerance with a 2^-30 relative margin and exact knife edges where "
        "0.01*h is exact; shapes equal/transposed/off-by-one/zero-sized; tables of length 0..3; NaN bracket ends; "
        "method names valid/invalid/empty/case-changed; parameters at/inside/outside their range) plus seeded random "
        "shapes and tables; a case is non-trivial when the model answers ok or err; distinct = distinct request lines; "
        "per-entry-point counts are in input_distribution as '<op> <model tag>'")
# environment replica (check.py): these requests draw their seed from std::random_device, so the value is not a function of the request
ENV_REPLICA_SKIP = r"^c10\.integ\S* .*m:(Monte-Carlo|Miser|Vegas)"
CORR_ONLY = ["real memory safety is observed by the sanitizers on the compiled program; the theorems prove the index arithmetic",
             "Interpolation_2D(data_table) sort/unique step: std::sort + std::unique modelled by mergeSort + eraseDups (guard_iff for this constructor is correspondence-only)",
             "values returned by accepted requests are not compared here (C01-C09, C12-C20 do that)"]
ASSUMPTIONS = ["Import_Table: a ragged file whose number of entries is divisible by its number of rows (\"1 2 3\\n4\\n\" -> 2x2) is reshaped silently by the code (audit2 P10, not repaired by c62bfe8); such files are not requested",
               "the property names the matrix ROW index: the inner (column) index of M[i][j] is a plain std::vector index, unchecked by the library (M[1][3] on a 2x3 matrix is a heap overflow); only meaningful inner indices are requested",
               "1e-2 of Interpolation::Locate is modelled as exactly 1/100 and unit products exactly; abscissae are probed at ZERO margin (the edge itself, 1/2/4 ulps and 2^-50, 2^-40 relative beside it): a request is left out only if the domain test evaluated in double arithmetic differs from its exact evaluation AND the abscissa lies within 2^-44 (relative) of the edge (counted in input_distribution; 0 of ~6200 quick, 200 of ~45000 thorough requests)",
               "Matrix::Inverse: with exact arithmetic the third exit (zero pivot after partial pivoting) is unreachable for det != 0; inputs are small integer matrices on which double arithmetic is exact",
               "std::is_sorted / std::sort / std::unique behave as specified by the C++ standard"]
TRUSTED = ["harness/c10.cpp builds the operands (constant-filled vectors/matrices/tables of the requested shape) for each request",
           "translators/guards.py (anchoring regexes, condition parser, per-entry operand/type table, Lean emitter; regenerates lean/LpModel/C10/GeneratedGuards.lean from the current source before every lake build; cross-checked by the gen_*_eq proofs against the hand-written model and by the correspondence run against the compiled code)"]

UMAX = 4294967295
IMAX = 2147483647
P30 = 2.0 ** -30
P50 = 2.0 ** -50

METHODS_1D = ["Trapezoidal", "Gauss-Legendre", "Gauss-Kronrod", "Tanh-Sinh", "Gauss-Legendre_2", "Adaptive-Simpson"]
METHODS_MC = ["Monte-Carlo", "Vegas", "Miser"]
BAD_METHODS = ["", "gauss-legendre", "GAUSS-LEGENDRE", "Gauss_Legendre", "Gauss-Legendre_3", "Gauss-Legendre_", "Simpson",
               "trapezoidal", "Trapezoidal.", "vegas", "VEGAS", "miser", "MonteCarlo", "Monte-carlo", "Tanh-sinh", "x"]


def idx_values(size):
    s = {0, size, size + 1, UMAX}
    if size > 0:
        s.add(size - 1)
    if size > 2:
        s.add(size // 2)
    return sorted(s)


def ends_probe(xs):
    """abscissae at, just inside and just outside the extrapolation tolerance at both ends (the boundary itself, its
    neighbours 1, 2 and 4 ulps away and 2^-50 / 2^-40 relative away), and interior points.  No margin is built in:
    `band_filter` afterwards drops only those abscissae on which double and exact evaluation of the test differ."""
    d0, d1 = xs[0], xs[-1]
    tl = 1e-2 * (xs[1] - xs[0])
    tr = 1e-2 * (xs[-1] - xs[-2])
    out = [d0, d1, xs[1], xs[-2], (xs[0] + xs[1]) / 2, (xs[-1] + xs[-2]) / 2, (d0 + d1) / 2]
    for e, t, s in ((d0, tl, -1.0), (d1, tr, 1.0)):
        out += [e + s * t * (1 - P50), e + s * t * (1 + P50), e + s * t * 0.5, e + s * t * 0.99, e + s * t * 1.01,
                e + s * t * 2, e + s * t * 100, e + s * t * 1e-9, e + s * (d1 - d0), e - s * t * 0.5,
                e + s * t * (1 - 2.0 ** -40), e + s * t * (1 + 2.0 ** -40)]
        b = e + s * t                       # the boundary as the doubles give it
        out.append(b)
        for k in (1, 2, 4):
            lo = hi = b
            for _ in range(k):
                lo, hi = math.nextafter(lo, -math.inf), math.nextafter(hi, math.inf)
            out += [lo, hi]
    return out


def _dom_cpp(cx, v):
    """the domain test of Interpolation::Locate evaluated in double arithmetic, as the C++ does"""
    d0, d1 = cx[0], cx[-1]
    if v < d0 or v > d1:
        return abs(v - d0) <= 1e-2 * (cx[1] - cx[0]) or abs(v - d1) <= 1e-2 * (cx[-1] - cx[-2])
    return True


def _dom_exact(ex, v):
    """the same test in exact arithmetic (1e-2 = 1/100, exact unit products), as the model evaluates it; also returns
    the relative distance of |v - end| from the tolerance"""
    v = F(v)
    d0, d1 = ex[0], ex[-1]
    if v < d0 or v > d1:
        tl, tr = (ex[1] - ex[0]) / 100, (ex[-1] - ex[-2]) / 100
        rel = min(abs(abs(v - d0) - tl) / tl, abs(abs(v - d1) - tr) / tr)
        return (abs(v - d0) <= tl or abs(v - d1) <= tr), rel
    return True, min(abs(v - d0), abs(v - d1)) / (d1 - d0)


def _interp_axes(rq):
    """(grid, unit factor, abscissae) per axis of an interpolation query request; None for the other requests"""
    t = rq.split()
    op = t[0]
    if not op.startswith("c10.interp") or op in ("c10.interp.ctor", "c10.interp.ctornan", "c10.interp.table", "c10.interp2.ctor", "c10.interp2.table"):
        return None
    pos = 1
    def lst_():
        nonlocal pos
        n = int(t[pos]); v = [fl(x) for x in t[pos + 1:pos + 1 + n]]; pos += 1 + n
        return v
    if op == "c10.interp2.eval":
        xs, ys = lst_(), lst_()
        xd, yd = fl(t[pos]), fl(t[pos + 1]); pos += 2
        return [(xs, xd, [fl(t[pos])]), (ys, yd, [fl(t[pos + 1])])]
    xs = lst_()
    xd = fl(t[pos]); pos += 2
    if op == "c10.interp.hist":
        vs = lst_()
    elif op == "c10.interp.deriv":
        vs = [fl(t[pos])]
    else:
        vs = [fl(x) for x in t[pos:]]
    return [(xs, xd, vs)]


def band_filter(reqs, ctx):
    """Drop the interpolation requests with an abscissa on which the double evaluation of the domain test differs from
    the exact one (possible only within a few ulps of the tolerance edge / the domain end); everything else is compared
    at zero margin.  A disagreement farther than 2^-44 (relative) from the edge is NOT dropped."""
    out = []
    for rq in reqs:
        axes = _interp_axes(rq)
        if axes is None:
            out.append(rq); continue
        drop = False
        for raw, d, vs in axes:
            cx = [x * d for x in raw] if d > 0 else list(raw)
            ex = [F(x) * F(d) for x in raw] if d > 0 else [F(x) for x in raw]
            for v in vs:
                me, rel = _dom_exact(ex, v)
                if _dom_cpp(cx, v) != me and rel < Fraction(1, 2 ** 44):
                    drop = True
        if drop:
            bump(ctx, "interp requests dropped: double and exact evaluation of the 1% test differ (within 2^-44 of the edge)")
        else:
            out.append(rq)
    return out


def shapes_near(r, c):
    s = {(r, c), (c, r), (r + 1, c), (r, c + 1), (0, 0), (0, c), (r, 0), (r + 1, c + 1)}
    if r > 0:
        s.add((r - 1, c))
    if c > 0:
        s.add((r, c - 1))
    return sorted(s)


def generate(tier, seed, ctx):
    rng = random.Random(seed * 1000003 + 10)
    thorough = tier == "thorough"
    R = []
    add = R.append

    # ---- 1. Vector ------------------------------------------------------------------------------
    dims = [0, 1, 2, 3, 5, 17] + ([rng.randint(4, 200) for _ in range(6)] if thorough else [rng.randint(4, 64)])
    for d in dims:
        for i in idx_values(d):
            add("c10.vec.index %d %d" % (d, i))
            add("c10.vec.cindex %d %d" % (d, i))
    pairs = {(n, m) for n in range(0, 5) for m in range(0, 5)} | {(17, 17), (17, 18), (18, 17), (3, 17), (17, 3)}
    for _ in range(20 if thorough else 4):
        n = rng.randint(0, 40)
        pairs |= {(n, n), (n, n + 1), (n + 1, n)}
    for n, m in sorted(pairs):
        for o in ("dot", "cross", "add", "sub", "addeq", "subeq", "mul"):
            add("c10.vec.%s %d %d" % (o, n, m))
    # ---- 2. Matrix ------------------------------------------------------------------------------
    shapes = [(0, 0), (0, 3), (3, 0), (1, 1), (2, 3), (3, 2), (3, 3), (1, 4)]
    shapes += [(rng.randint(1, 6), rng.randint(1, 6)) for _ in range(8 if thorough else 2)]
    for r, c in shapes:
        for i in idx_values(r):
            add("c10.mat.index %d %d %d" % (r, c, i))
            add("c10.mat.cindex %d %d %d" % (r, c, i))
            add("c10.mat.delrow %d %d %d" % (r, c, i))
            add("c10.mat.row %d %d %d" % (r, c, i))
        for j in idx_values(c):
            add("c10.mat.delcol %d %d %d" % (r, c, j))
            add("c10.mat.col %d %d %d" % (r, c, j))
    lens_list = [[], [0], [0, 0], [2], [2, 2], [2, 3], [3, 2], [2, 2, 2], [2, 2, 1], [1, 2, 2], [0, 1], [1, 0], [3, 3, 3, 4], [3, 3, 3, 3]]
    for _ in range(30 if thorough else 6):
        n = rng.randint(1, 6); w = rng.randint(0, 5)
        l = [w] * n
        if rng.random() < 0.6:
            l[rng.randrange(n)] = max(0, w + rng.choice([-1, 1]))
        lens_list.append(l)
    for l in lens_list:
        add("c10.mat.entries %s" % ilst(l))
    # block constructor: heights per block row, widths per block column, optionally one block perturbed
    for k in range(60 if thorough else 24):
        Rb, Cb = rng.randint(1, 3), rng.randint(1, 3)
        hs = [rng.randint(0, 3) for _ in range(Rb)]
        ws = [rng.randint(0, 3) for _ in range(Cb)]
        sh = [[(hs[r], ws[c]) for c in range(Cb)] for r in range(Rb)]
        if k % 3:
            r, c = rng.randrange(Rb), rng.randrange(Cb)
            a, b = sh[r][c]
            sh[r][c] = (a + rng.choice([-1, 1]), b) if rng.random() < 0.5 else (a, b + rng.choice([-1, 1]))
            sh[r][c] = (max(sh[r][c][0], 0), max(sh[r][c][1], 0))
        add("c10.mat.block %d %d %s" % (Rb, Cb, " ".join("%d %d" % p for row in sh for p in row)))
    sum_shapes = [(2, 3), (3, 3), (1, 1), (0, 0)] + ([(2, 2), (1, 3)] if thorough else []) + [(rng.randint(1, 5), rng.randint(1, 5)) for _ in range(6 if thorough else 1)]
    for r1, c1 in sum_shapes:
        for r2, c2 in shapes_near(r1, c1):
            for o in ("plus", "minus", "addeq", "subeq", "opplus", "opminus"):
                add("c10.mat.%s %d %d %d %d" % (o, r1, c1, r2, c2))
            # products: conformable partner and its neighbours
            add("c10.mat.prod %d %d %d %d" % (r1, c1, r2, c2))
            add("c10.mat.opprod %d %d %d %d" % (r1, c1, r2, c2))
        for r2, c2 in ((c1, r1), (c1, 4), (c1 + 1, 2), (max(c1 - 1, 0), 2), (c1, 0), (r1, c1)):
            add("c10.mat.prod %d %d %d %d" % (r1, c1, r2, c2))
            add("c10.mat.opprod %d %d %d %d" % (r1, c1, r2, c2))
        for n in sorted({c1, c1 + 1, max(c1 - 1, 0), r1, 0, r1 + 1}):
            add("c10.mat.prodv %d %d %d" % (r1, c1, n))
            add("c10.mat.opprodv %d %d %d" % (r1, c1, n))
            add("c10.mat.vprod %d %d %d" % (n, r1, c1))
    for r in range(0, 6):
        for c in range(0, 6):
            add("c10.mat.trace %d %d" % (r, c))
            if r <= 5 and c <= 5:
                add("c10.mat.det %d %d" % (r, c))
    # Inverse: small integer matrices (double arithmetic exact)
    inv = [(0, 0, []), (1, 1, [0]), (1, 1, [2]), (2, 2, [0, 1, 1, 0]), (2, 2, [1, 2, 2, 4]), (2, 2, [1, 2, 3, 4]), (2, 2, [0, 0, 0, 0]),
           (2, 3, [1, 0, 0, 0, 1, 0]), (3, 2, [1, 0, 0, 1, 0, 0]), (1, 2, [1, 1]), (3, 3, [1, 2, 3, 4, 5, 6, 7, 8, 9]), (3, 3, [2, 0, 0, 0, 3, 0, 0, 0, 4]),
           (3, 3, [0, 0, 1, 1, 0, 0, 0, 1, 0]), (3, 3, [1, 1, 0, 1, 1, 0, 0, 0, 1])]
    for _ in range(40 if thorough else 10):
        n = rng.randint(1, 4)
        e = [rng.randint(-3, 3) for _ in range(n * n)]
        if rng.random() < 0.3 and n > 1:   # duplicate a row -> singular
            i, j = rng.sample(range(n), 2)
            e[i * n:(i + 1) * n] = e[j * n:(j + 1) * n]
        inv.append((n, n, e))
    for r, c, e in inv:
        add("c10.mat.inv %d %d %s" % (r, c, " ".join(str(x) for x in e)))
    for dim in (-1, 0, 1, 2, 3, 4, IMAX, -IMAX - 1):
        for n in (0, 1, 2, 3, 4):
            add("c10.rot %d %d" % (dim, n))
    # ---- 2b. objects with state: mutators, then guarded requests on both sides of the NEW bounds, in one process -------
    def mshape(sh, m):
        nm, *n = m.split(":")
        n = [int(x) for x in n]
        if nm in ("resize", "assign", "set"):
            return (n[0], n[1])
        if nm == "delrow":
            return (sh[0] - 1, sh[1])
        if nm == "delcol":
            return (sh[0], sh[1] - 1)
        return sh
    def mat_hist(sh0, muts, variants=None):
        sh = sh0
        for m in muts:
            sh = mshape(sh, m)
        r, c = sh
        ok = []
        if r > 0 and c > 0:
            ok += ["at:%d:%d" % (r - 1, c - 1), "at:0:0", "row:%d" % (r - 1), "col:%d" % (c - 1)]
        ok += ["plus:%d:%d" % sh, "minus:%d:%d" % sh, "addeq:%d:%d" % sh, "subeq:%d:%d" % sh, "transpose", "prodv:%d" % c, "prod:%d:2" % c]
        if r == c:
            ok.append("trace")
        H = lambda steps: add("c10.mat.hist %d %d %d %s" % (sh0[0], sh0[1], len(steps), " ".join(steps)))
        H(muts + ok)
        H(muts + ["transpose"])
        bad = ["at:%d:0" % r, "row:%d" % r, "col:%d" % c, "delrow:%d" % r, "delcol:%d" % c, "prodv:%d" % (c + 1), "prod:%d:2" % (c + 1),
               "plus:%d:%d" % (r + 1, c), "addeq:%d:%d" % (r, c + 1)]
        if sh0 != sh:
            bad += ["plus:%d:%d" % sh0, "minus:%d:%d" % sh0, "addeq:%d:%d" % sh0, "subeq:%d:%d" % sh0]   # an operand of the OLD shape
        if r != c:
            bad.append("trace")
        for b in (bad if (thorough or variants is None) else rng.sample(bad, variants)):
            H(muts + ok[:2] + [b])
    for sh0 in ((2, 3), (3, 3)):
        for dr in (-1, 0, 1):
            for dc in (-1, 0, 1):
                mat_hist(sh0, ["resize:%d:%d" % (sh0[0] + dr, sh0[1] + dc)], 6 if dc == 0 else 3)
                mat_hist(sh0, ["assign:%d:%d" % (sh0[0] + dr, sh0[1] + dc)], 2)
    for muts in (["resize:1:3", "resize:3:3"], ["resize:0:3", "resize:2:3"], ["resize:2:0", "resize:2:3"], ["delrow:0", "resize:3:3"], ["delrow:1", "resize:4:3"],
                 ["delcol:0", "resize:3:2"], ["delcol:1", "resize:3:3"], ["set:1:3", "resize:4:3"], ["set:4:4", "resize:2:4"], ["assign:1:3", "resize:2:3"],
                 ["resize:5:3", "delrow:4", "resize:6:3"], ["resize:3:4", "set:3:3"], ["addeq:3:3", "resize:5:3"]):
        mat_hist((3, 3), muts, 4)
    for _ in range(30 if thorough else 6):
        sh0 = (rng.randint(0, 4), rng.randint(0, 4))
        sh, muts = sh0, []
        for _k in range(rng.randint(2, 4)):
            kind = rng.choice(["resize", "resize", "assign", "set", "delrow", "delcol"])
            if kind == "delrow" and sh[0] > 0:
                m = "delrow:%d" % rng.randrange(sh[0])
            elif kind == "delcol" and sh[1] > 0:
                m = "delcol:%d" % rng.randrange(sh[1])
            else:
                kind = kind if kind in ("resize", "assign", "set") else "resize"
                m = "%s:%d:%d" % (kind, max(0, sh[0] + rng.choice([-1, 0, 0, 1, 2])), max(0, sh[1] + rng.choice([-1, 0, 0, 1])))
            muts.append(m); sh = mshape(sh, m)
        mat_hist(sh0, muts, 3)
    def vec_hist(d0, muts, d):
        ok = (["at:%d" % (d - 1), "at:0"] if d > 0 else []) + ["dot:%d" % d, "add:%d" % d, "sub:%d" % d, "addeq:%d" % d, "subeq:%d" % d] + (["cross:3"] if d == 3 else [])
        add("c10.vec.hist %d %d %s" % (d0, len(muts + ok), " ".join(muts + ok)))
        bad = ["at:%d" % d, "at:%d" % UMAX, "dot:%d" % (d + 1), "addeq:%d" % (d + 1), "cross:%d" % d if d != 3 else "cross:4"] + (["add:%d" % d0, "subeq:%d" % d0] if d0 != d else [])
        for b in (bad if thorough else bad[:1] + rng.sample(bad[1:], 2)):
            add("c10.vec.hist %d %d %s" % (d0, len(muts) + 1, " ".join(muts + [b])))
    for d0 in (0, 3, 5):
        for d in sorted({0, max(d0 - 1, 0), d0, d0 + 1, 3}):
            for mi, mk in enumerate(("resize", "assign", "set")):
                if thorough or mk == "resize" or (mi + d + d0 + seed) % 2:
                    vec_hist(d0, ["%s:%d" % (mk, d)], d)
        vec_hist(d0, ["resize:0", "resize:%d" % (d0 + 2)], d0 + 2)
        vec_hist(d0, ["assign:7", "resize:2", "set:3"], 3)
    # ---- 2c. moved / swapped / container-held objects: requests relative to the shape the object REPORTS -------------------------
    def move_hists(op, shapes_txt, npool):
        base = "%s %d %s" % (op, npool, shapes_txt)
        H = lambda steps: add("%s %d %s" % (base, len(steps), " ".join(steps)))
        use_all = ["use:%d" % s_ for s_ in range(npool)]
        for mv in ("mc:0:1", "ma:0:1", "pb:0:1", "sw:0:1", "cp:0:1", "mc:0:0", "ma:2:0", "pb:1:1"):
            H([mv] + use_all)
            H([mv, "use:0", "grow:0:2", "use:0", "use:1"])
            H([mv, "grow:1:1", "use:1", "use:0"])
            H([mv, "use:0", "atsize:0"])
            H([mv, "use:1", "atsize:1"])
        H(["mc:0:1", "mc:1:2", "mc:2:0"] + use_all)
        H(["ma:0:1", "sw:1:2", "pb:2:0", "pb:0:1"] + use_all + ["atsize:2"])
        H(["pb:0:1", "pb:1:2", "pb:2:0", "grow:0:1"] + use_all)
        for _ in range(12 if thorough else 4):
            st = []
            for _k in range(rng.randint(2, 5)):
                st.append("%s:%d:%d" % (rng.choice(["mc", "ma", "pb", "sw", "cp"]), rng.randrange(npool), rng.randrange(npool)))
                if rng.random() < 0.5:
                    st.append(rng.choice(["use:%d" % rng.randrange(npool), "grow:%d:%d" % (rng.randrange(npool), rng.randint(0, 2))]))
            st += use_all
            if rng.random() < 0.4:
                st.append("atsize:%d" % rng.randrange(npool))
            H(st)
    for dims in ((3, 0, 5), (1, 4, 2), (0, 0, 3)):
        move_hists("c10.vec.move", " ".join(str(d) for d in dims), 3)
    for shp in (((2, 3), (3, 2), (1, 1)), ((3, 1), (0, 0), (2, 2)), ((4, 2), (2, 4), (0, 3))):
        move_hists("c10.mat.move", " ".join("%d %d" % p_ for p_ in shp), 3)
    # ---- 3. Interpolation ---------------------------------------------------------------------------
    def inc(n, uniform=False):
        x = float(rng.randint(-8, 8))
        xs = []
        for _ in range(n):
            xs.append(x)
            x += 1.0 if uniform else rng.choice([0.25, 0.5, 1.0, 2.0, 3.0])
        return xs
    # unit factors (x_dim, f_dim): -1 = no conversion; powers of two and 1e3 give exact products on the small dyadic
    # tables used here, 1e-3 gives rounded ones (the probes keep their 2^-30 margin in the CONVERTED units)
    FACT = [(-1.0, -1.0), (1e-3, 2.0), (1e3, 0.5), (0.5, 1e3), (2.0, 1e-3), (2.0 ** -10, -1.0), (1.0, 1.0), (2.0 ** 10, 2.0 ** -10)]
    fsel = lambda k: FACT[(k + seed) % len(FACT)]
    conv = lambda xs, d: [x * d for x in xs] if d > 0 else list(xs)
    dd = lambda f: "%s %s" % (hx(f[0]), hx(f[1]))
    tables = [inc(n) for n in (0, 1, 2, 3, 3, 4, 5)] + [inc(rng.randint(4, 12)) for _ in range(12 if thorough else 3)]
    for ti, xs in enumerate(tables):
        n = len(xs)
        ys = [float(i % 3) for i in range(n)]
        f = dd(fsel(ti))
        add("c10.interp.ctor %s %s %s" % (lst(xs), lst(ys), f))
        add("c10.interp.ctor %s %s %s" % (lst(xs), lst(ys + [1.0]), f))
        if n:
            add("c10.interp.ctor %s %s %s" % (lst(xs), lst(ys[:-1]), f))
            add("c10.interp.ctor %s %s %s" % (lst(xs[:-1]), lst(ys), f))
        add("c10.interp.table %d %s %s" % (n, " ".join(lst([x, y]) for x, y in zip(xs, ys)), f))
        if n >= 2:
            for k in sorted({0, min(n // 2, n - 2), n - 2}):
                bad = list(xs); bad[k + 1] = bad[k]                      # duplicate abscissa
                add("c10.interp.ctor %s %s %s" % (lst(bad), lst(ys), f))
                bad = list(xs); bad[k], bad[k + 1] = bad[k + 1], bad[k]   # decreasing pair
                add("c10.interp.ctor %s %s %s" % (lst(bad), lst(ys), f))
                add("c10.interp.table %d %s %s" % (n, " ".join(lst([x, y]) for x, y in zip(bad, ys)), f))
                rows = [[x, y] for x, y in zip(xs, ys)]
                rows[k] = rows[k] + [0.5]                                  # a row of three entries
                add("c10.interp.table %d %s %s" % (n, " ".join(lst(r) for r in rows), f))
                rows[k] = rows[k][:1]                                      # a row of one entry
                add("c10.interp.table %d %s %s" % (n, " ".join(lst(r) for r in rows), f))
                rows[k] = []
                add("c10.interp.table %d %s %s" % (n, " ".join(lst(r) for r in rows), f))
    for n in (3, 4, 6):
        for k in range(n):
            add("c10.interp.ctornan %d %d" % (n, k))
    grids = [[0.0, 100.0, 200.0], [-100.0, 0.0, 200.0, 300.0], [1.0, 1.5, 3.5, 4.0, 8.0]]
    grids += [inc(rng.randint(3, 20)) for _ in range(10 if thorough else 1)]
    ctx["grids"] = len(grids)
    for gi, raw in enumerate(grids):
        fac = (-1.0, -1.0) if gi == 0 else fsel(gi)
        for fac in ([fac] if not thorough else [fac, fsel(gi + 3)]):
            xs = conv(raw, fac[0])           # the table in converted units: every abscissa below is measured in these
            G = "%s %s" % (lst(raw), dd(fac))
            pr = ends_probe(xs)
            for x in pr:
                add("c10.interp.locate %s %s" % (G, hx(x)))
                add("c10.interp.eval %s %s" % (G, hx(x)))
                add("c10.interp.deriv %s %s %d" % (G, hx(x), rng.randint(0, 4)))
            for k in range(5):
                add("c10.interp.deriv %s %s %d" % (G, hx(pr[4]), k))
            sel = pr[::2] + pr[-6:] if thorough else rng.sample(pr, 6) + pr[:2]
            for x1 in sel:
                for x2 in (rng.sample(pr, 4) if not thorough else pr[1::4] + pr[-4:]):
                    add("c10.interp.integ %s %s %s" % (G, hx(x1), hx(x2)))
                    add("c10.interp.lmin %s %s %s" % (G, hx(x1), hx(x2)))
                    add("c10.interp.lmax %s %s %s" % (G, hx(x1), hx(x2)))
            # histories on one object: calls in the first / last interval (search state correlated) followed by
            # abscissae on both sides of the tolerance at either end
            d0, d1 = xs[0], xs[-1]
            tl, tr = 1e-2 * (xs[1] - xs[0]), 1e-2 * (xs[-1] - xs[-2])
            mid_first, mid_last = (xs[0] + xs[1]) / 2, (xs[-1] + xs[-2]) / 2
            outs = [d1 + tr * (1 + P50), d1 + tr * 2, d1 + (d1 - d0), d0 - tl * (1 + P50), d0 - tl * 2, d0 - (d1 - d0)]
            ins = [d1 + tr * (1 - P50), d1, d0 - tl * (1 - P50), d0, mid_first, mid_last]
            pres = [[mid_last], [mid_first], [d1], [d0], [mid_last, mid_last], [mid_first, mid_last], [mid_last, d1 + tr * 0.5], [mid_first, d0 - tl * 0.5], [xs[1], xs[-2], mid_last]]
            for pre in (pres if thorough else pres[:2] + rng.sample(pres[2:], 3)):
                for v in outs + ins:
                    add("c10.interp.hist %s %s" % (G, lst(pre + [v])))
            for v in outs[:3] + ins[:2]:
                add("c10.interp.integ %s %s %s" % (G, hx(mid_last), hx(v)))
                add("c10.interp.integ %s %s %s" % (G, hx(v), hx(mid_last)))
                add("c10.interp.lmin %s %s %s" % (G, hx(mid_last), hx(v)))
                add("c10.interp.lmax %s %s %s" % (G, hx(mid_last), hx(v)))
            for v in outs[3:] + ins[2:4]:
                add("c10.interp.integ %s %s %s" % (G, hx(v), hx(mid_first)))
                add("c10.interp.lmin %s %s %s" % (G, hx(v), hx(mid_first)))
                add("c10.interp.lmax %s %s %s" % (G, hx(v), hx(mid_first)))
            add("c10.interp.lmin %s %s %s" % (G, hx(pr[4]), hx(pr[4])))
            add("c10.interp.lmax %s %s %s" % (G, hx(pr[5]), hx(pr[4])))
    # every unit factor, every query, both ends: 0.5% / just inside, just outside / 2% / 50% / three intervals outside
    for ri, raw in enumerate(([0.0, 1.0, 2.0, 4.0], [-3.0, -1.0, 0.0, 0.5, 1.0])):
        for fi, fac in enumerate(FACT):
            if not thorough and (fi + ri + seed) % 2:
                continue                     # quick: each factor on one of the two tables
            xs = conv(raw, fac[0])
            G = "%s %s" % (lst(raw), dd(fac))
            mid = (xs[1] + xs[2]) / 2
            for e, t, sg in ((xs[0], 1e-2 * (xs[1] - xs[0]), -1.0), (xs[-1], 1e-2 * (xs[-1] - xs[-2]), 1.0)):
                for m in (0.5, 1 - P50, 1.0, 1 + P50, 2.0, 50.0, 300.0):
                    v = e + sg * t * m
                    lo, hi = (v, mid) if v < mid else (mid, v)
                    add("c10.interp.locate %s %s" % (G, hx(v)))
                    add("c10.interp.eval %s %s" % (G, hx(v)))
                    add("c10.interp.deriv %s %s %d" % (G, hx(v), 1 + int(m * 2) % 3))
                    add("c10.interp.integ %s %s %s" % (G, hx(mid), hx(v)))
                    add("c10.interp.%s %s %s %s" % ("lmin" if sg < 0 else "lmax", G, hx(lo), hx(hi)))
                    add("c10.interp.hist %s %s" % (G, lst([mid, v])))
    # 2-D
    g2 = [([0.0, 1.0, 2.0], [0.0, 100.0, 200.0, 300.0]), (inc(4), inc(3)), (inc(3), inc(5))]
    for g2i, (xs, ys) in enumerate(g2):
        nx, ny = len(xs), len(ys)
        for lens in ([ny] * nx, [nx] * ny, [ny] * (nx - 1), [ny] * (nx + 1), [ny] * (nx - 1) + [ny - 1], [ny + 1] + [ny] * (nx - 1), [], [ny - 1] * nx, [0] * nx):
            add("c10.interp2.ctor %s %s %s" % (lst(xs), lst(ys), ilst(lens)))
        add("c10.interp2.ctor %s %s %s" % (lst(xs[:2]), lst(ys), ilst([ny] * 2)))
        add("c10.interp2.ctor %s %s %s" % (lst(xs), lst(ys[:2]), ilst([2] * nx)))
        add("c10.interp2.ctor %s %s %s" % (lst([xs[1], xs[0]] + xs[2:]), lst(ys), ilst([ny] * nx)))
        add("c10.interp2.ctor %s %s %s" % (lst(xs), lst(ys[:-1] + [ys[-2]]), ilst([ny] * nx)))
        rows = [[x, y, 1.0] for x in xs for y in ys]
        tb = lambda rr: "c10.interp2.table %d %s" % (len(rr), " ".join(lst(r) for r in rr))
        add(tb(rows))
        add(tb(rows[:-1]))
        add(tb(rows + [rows[0]]))
        add(tb([[x, y, 1.0] for y in ys for x in xs]))            # y-major order
        add(tb(rows[:3] + [rows[3][:2]] + rows[4:]))
        add(tb(rows[:3] + [rows[3] + [1.0]] + rows[4:]))
        add(tb(rows[:1] + [rows[2], rows[1]] + rows[3:]))          # two rows swapped
        add(tb([r for r in rows if r[0] != xs[0]]))                 # one x removed: complete but maybe too short
        add(tb([r for r in rows if r[0] in xs[:2]]))                # only two x values
        add(tb([]))
        fx, fy = fsel(g2i)[0], fsel(g2i + 2)[0]
        px, py = ends_probe(conv(xs, fx)), ends_probe(conv(ys, fy))
        for x in (px if thorough else px[:3] + rng.sample(px, 8)):
            for y in (py if thorough else py[:2] + rng.sample(py, 5)):
                add("c10.interp2.eval %s %s %s %s %s %s" % (lst(xs), lst(ys), hx(fx), hx(fy), hx(x), hx(y)))
    # ---- 4. Find_Root -----------------------------------------------------------------------------------
    vals = [-1.0, 1.0, 0.0, -0.0, P30, -P30, 3.0, -2.5, 2.0 ** -400, -(2.0 ** -400), 2.0 ** -600, -(2.0 ** -600), float("nan")]
    for a_ in vals:
        for b_ in vals:
            add("c10.findroot %s %s" % (hx(a_), hx(b_)))
    # ---- 5. Integration -----------------------------------------------------------------------------------
    for m in METHODS_1D + METHODS_MC + BAD_METHODS:
        for a_, b_ in ((0.0, 1.0), (1.0, 0.0), (0.5, 0.5)):
            add("c10.integ1 m:%s %s %s" % (m, hx(a_), hx(b_)))
        add("c10.integ2 m:%s" % m)
        add("c10.integ3 m:%s" % m)
        add("c10.integ3s m:%s" % m)
        add("c10.integmc m:%s" % m)
    for n in range(0, 4):
        for m in range(0, 4):
            add("c10.gl %d %d" % (n, m))
    add("c10.gl 30 30"); add("c10.gl 30 31"); add("c10.gl 31 30")
    # rules whose rows are not (root, weight) pairs (fix 455b721): rows of length 0, 1, 2, 3, at every position
    for lens in ([], [2], [0], [1], [3], [2, 2], [2, 1], [1, 2], [2, 0], [0, 2], [2, 3], [3, 2], [2, 2, 2], [2, 2, 1], [2, 0, 2], [3, 2, 2], [2, 2, 2, 2, 3]):
        add("c10.glfunc %s" % ilst(lens))
        for n in sorted({len(lens), len(lens) + 1, max(len(lens) - 1, 0)}):
            add("c10.glrows %d %s" % (n, ilst(lens)))
    # ---- 6. Special functions -------------------------------------------------------------------------------
    for n in [0, 1, 2, 20, 169, 170, 171, 172, 1000, IMAX, UMAX] + [rng.randint(0, 340) for _ in range(10)]:
        add("c10.factorial %d" % n)
    # histories in ONE process (static memo table of Factorial): valid calls, then a call beyond 170
    for v in (0, 1, 100, 159, 160, 165, 170):
        for w in (171, 172, 173, 174, 175, 176, 200, UMAX):
            add("c10.factorial.hist 2 F%d F%d" % (v, w))
        add("c10.factorial.hist 3 F%d F170 F%d" % (v, max(v - 1, 0)))
    for b in ("B170:85", "B165:3", "B160:160", "B100:50", "B200:100"):
        for w in (171, 173, 175, 176):
            add("c10.factorial.hist 2 %s F%d" % (b, w))
        add("c10.factorial.hist 3 %s F170 %s" % (b, b))
    for h in (["F160", "F170", "F171"], ["F170", "B-1:2"], ["F170", "B5:-1"], ["F165", "B171:3", "F171"], ["F3", "B170:2", "F172", "F1"]):
        add("c10.factorial.hist %d %s" % (len(h), " ".join(h)))
    for h in (["Vegas", "Vegas"], ["Vegas", "Miser", "Monte-Carlo", "Vegas"], ["Vegas", "bogus"], ["Miser", "vegas"], ["Monte-Carlo", ""], ["Vegas", "Vegas", "Gauss-Legendre"]):
        add("c10.integmc.hist %d %s" % (len(h), " ".join("m:" + m for m in h)))
    for n in (-IMAX - 1, -1, 0, 1, 5, 170, 171, 200):
        for k in sorted({-IMAX - 1, -1, 0, 1, 3, n, n + 1 if n < IMAX else n}):
            add("c10.binom %d %d" % (n, k))
    reals_around_zero = [-1.0, -P30, -5e-324, -0.0, 0.0, 5e-324, P30, 0.5, 1.0, 7.25, 50.0]
    for x in reals_around_zero + [1e10]:
        add("c10.gammaln %s" % hx(x))
    for x in reals_around_zero:
        for a_ in reals_around_zero:
            if abs(a_) == 5e-324 and x > 0:
                continue   # Q(x, a -> 0+): series with ~1e300 terms; the guard sides are covered by a = 2^-30
            add("c10.gammaq %s %s" % (hx(x), hx(a_)))
    for p in (0.0, 0.3, 0.9, 1.0):
        for a_ in (-1.0, -P30, -0.0, 0.0, P30, 0.5, 1.0, 3.0, 50.0):
            add("c10.invgammap %s %s" % (hx(p), hx(a_)))
    for N in (0.0, -0.0, 1.2345678, -9876.54321, 1e-300, 1e300, 5e-324):
        for d in (0, 1, 2, 3, 7, 8, 9, 100, UMAX):
            add("c10.round %s %d" % (hx(N), d))
    for c in (-IMAX - 1, -2, -1, 0, 1, 2, 3, 4, IMAX):
        add("c10.vshy %d" % c)
        add("c10.vshpsi %d" % c)
    for p in (-2.0, -1.0 - 2.0 ** -52, -1.0, -1.0 + 2.0 ** -53, -0.5, -P30, 0.0, P30, 0.5, 1.0 - 2.0 ** -53, 1.0, 1.0 + 2.0 ** -52, 2.0, 1e300):
        add("c10.inverf %s" % hx(p))
    # ---- 7. Statistics -------------------------------------------------------------------------------------------
    probs = [-1.0, -P30, -5e-324, -0.0, 0.0, 5e-324, P30, 0.5, 1.0 - 2.0 ** -53, 1.0, 1.0 + 2.0 ** -52, 1.0 + P30, 2.0]
    for p in probs:
        for t, x in ((0, 0), (1, 0), (1, 1), (5, 2), (20, 20), (20, 7)):
            add("c10.pmfbinom %d %s %d" % (t, hx(p), x))
            add("c10.cdfbinom %d %s %d" % (t, hx(p), x))
        for n in (0, 1, 5):
            add("c10.invcdfpoisson %d %s" % (n, hx(p)))
    for mu in (-1.0, -P30, -5e-324, -0.0, 0.0, 5e-324, P30, 1.0, 50.0):
        for n in (0, 1, 5):
            add("c10.pmfpoisson %s %d" % (hx(mu), n))
            add("c10.cdfpoisson %s %d" % (hx(mu), n))
    for a_ in (-1.0, -P30, -5e-324, -0.0, 0.0, 5e-324, P30, 1.0, 1e10):
        for x in (-1.0, 0.0, 1.0):
            for o in ("pdfexp", "cdfexp", "pdfmb", "cdfmb"):
                add("c10.%s %s %s" % (o, hx(x), hx(a_)))
    for n in range(0, 4):
        for m in sorted({n, n + 1, max(n - 1, 0), 0}):
            for k in sorted({0, n, n + 1, max(n - 1, 0)}):
                add("c10.llbinned %d %d %d" % (n, m, k))
                add("c10.lbinned %d %d %d" % (n, m, k))
    for n in range(0, 7):
        add("c10.metropolis %d" % n)
        add("c10.metropolis2d %d" % n)
    # ---- 8. lists, utilities, units -----------------------------------------------------------------------------------
    for l in lens_list:
        if l:
            add("c10.transpose %s" % ilst(l))
        for nd in sorted({0, 1, 2, 3, (l[0] if l else 0)}):
            add("c10.inunits %s %d" % (ilst(l), nd))
            add("c10.exporttable %s %d" % (ilst(l), nd))
    for n in range(0, 4):
        for m in range(0, 4):
            add("c10.transpose2 %d %d" % (n, m))
    srt = [[1.0], [1.0, 1.0], [1.0, 2.0], [2.0, 1.0], [1.0, 2.0, 2.0, 3.0], [1.0, 3.0, 2.0], [3.0, 2.0, 1.0], [1.0, 2.0, 3.0, 2.5], [0.5, 1.0, 0.75, 2.0]]
    for _ in range(20 if thorough else 5):
        l = sorted(dyadic(rng, -8, 8, 2) for _ in range(rng.randint(2, 9)))
        srt.append(l)
        l2 = list(l); i = rng.randrange(len(l2) - 1); l2[i], l2[i + 1] = l2[i + 1] + 0.25, l2[i]
        srt.append(l2)
    for l in srt:
        for t in (l[0] - 1, l[0], (l[0] + l[-1]) / 2, l[-1] + 1):
            add("c10.closest %s %s" % (lst(l), hx(t)))
    for n in range(0, 5 if thorough else 4):
        for i1 in sorted(set(range(-2, n + 3)) | {-IMAX - 1, IMAX}):
            for i2 in sorted(set(range(0, n + 3)) | {UMAX, IMAX}):
                add("c10.sublist %d %d %d" % (n, i1, i2))
    for e in (0, 1):
        add("c10.importlist %d" % e)
        for rows in (1, 2, 3):
            for cols in (0, 1, 2, 3):
                for nd in sorted({0, cols, cols + 1, max(cols - 1, 0)}):
                    add("c10.importtable %d %d %d %d" % (e, rows, cols, nd))
        add("c10.checkerr %d" % e)
    # ---- distribution / sampler parameters on both sides of their range (audit defect 18) ---------------------------------
    around0 = [-1.0, -P50, -5e-324, -0.0, 0.0, 5e-324, P50, 1.0, 7.5]
    for a_, b_ in ((0.0, 1.0), (1.0, 1.0), (1.0, 0.0), (-2.0, -1.0), (-1.0, -2.0), (0.0, 5e-324), (5e-324, 0.0), (1.0, 1.0 + 2.0 ** -52), (1.0 + 2.0 ** -52, 1.0), (-0.0, 0.0)):
        for x in (a_, (a_ + b_) / 2, b_ + 1.0):
            add("c10.pdfuniform %s %s %s" % (hx(x), hx(a_), hx(b_)))
            add("c10.cdfuniform %s %s %s" % (hx(x), hx(a_), hx(b_)))
        add("c10.sampleuniform %s %s" % (hx(a_), hx(b_)))
    for sg in around0:
        for x, mu in ((0.0, 0.0), (1.0, 0.0), (-2.0, 0.5)):
            add("c10.pdfgauss %s %s %s" % (hx(x), hx(mu), hx(sg)))
            add("c10.cdfgauss %s %s %s" % (hx(x), hx(mu), hx(sg)))
        for pq in (0.25, 0.5, 0.75, 1.0, 0.0, -0.5, 1.5, 2.0 ** -54):
            add("c10.quantilegauss %s %s %s" % (hx(pq), hx(0.5), hx(sg)))
        add("c10.samplegauss %s %s" % (hx(0.5), hx(sg)))
        add("c10.metropolissigma %s" % hx(sg))
        for sg2 in ((-1.0, -0.0, 0.0, 5e-324, 2.0) if thorough else (-1.0, 0.0, 2.0)):
            add("c10.pdfgauss2d %s %s" % (hx(sg), hx(sg2)))
            add("c10.pdfgauss2d %s %s" % (hx(sg2), hx(sg)))
        for x in (-1.0, 0.0, 1.0, 3.0):
            add("c10.pdfchisq %s %s" % (hx(x), hx(sg)))
            add("c10.cdfchisq %s %s" % (hx(x), hx(sg)))
        for n in ((0, 3) if thorough else (3,)):
            for bk in ((-1.0, -P50, -0.0, 0.0, 0.5) if thorough else (-1.0, -0.0, 0.5)):
                add("c10.llpoisson %s %d %s" % (hx(sg), n, hx(bk)))
                add("c10.lpoisson %s %d %s" % (hx(sg), n, hx(bk)))
        add("c10.samplepoisson %s" % hx(sg))
        add("c10.samplepoissonv %s" % lst([1.0, sg]))
        add("c10.samplepoissonv %s" % lst([sg, 2.0, 0.0]))
        add("c10.gamma %s" % hx(sg))
    # meaningful arguments near the overflow of the Gamma function: a FINITE number wherever Gamma(x) is finite
    for xg in (0.5, 1.0, 4.0, 100.0, 170.0, 171.0, 171.5, 171.6, 171.6 + 2.0 ** -40, 171.61, 171.62, 171.624, 171.6243, 171.7, 200.0):
        add("c10.gamma %s" % hx(xg))
        for x in ((-1.0, -P50, -0.0, 0.0, 1.0, 4.0) if thorough else (-1.0, 0.0, 1.0)):
            add("c10.uppergamma %s %s" % (hx(x), hx(sg)))
            add("c10.lowergamma %s %s" % (hx(x), hx(sg)))
    for ws in ([], [1.0], [0.5, 0.5], [0.0, 1.0, 0.0], [-P50, 1.0], [1.0 + 2.0 ** -52, 0.0], [0.25, -1.0, 0.75], [0.5, 0.25, 2.0], [-0.0, 0.5, 0.5], [5e-324, 1.0 - 2.0 ** -53], [0.3, -5e-324, 0.7]):
        for x in (-1.0, 0.0, 2.5):
            add("c10.pdfchibar %s %s" % (hx(x), lst(ws)))
            add("c10.cdfchibar %s %s" % (hx(x), lst(ws)))
    # Import_Table: the entries must fill the rows; blank lines at the end are not rows (fix c62bfe8).  Ragged files whose
    # number of entries happens to be divisible by the number of rows are reshaped silently (audit2 P10): not requested, see ASSUMPTIONS
    for lens in ([3, 3], [3, 3, 2], [3, 2, 3], [2, 3], [1, 2, 3], [3, 3, 3], [2], [2, 2, 2, 1], [3, 3, 3, 3, 1], [0, 0], []):
        rows_ = len(lens)
        while rows_ and lens[rows_ - 1] == 0:
            rows_ -= 1
        e_ = sum(lens)
        if rows_ and e_ % rows_ == 0 and len(set(lens[:rows_])) > 1:
            continue            # ragged but divisible: the silent reshape
        for blank in (0, 2):
            cols_ = e_ // rows_ if rows_ else 0
            for nd in sorted({0, cols_, cols_ + 1}):
                add("c10.importtable.fill %s %d %d" % (ilst(lens), blank, nd))
    add("c10.samplepoissonv 0")
    add("c10.samplepoisson %s" % hx(50.0))
    for pq in (-1.0, -P50, -5e-324, -0.0, 0.0, P50, 0.5, 1.0 - 2.0 ** -53, 1.0, 1.0 + 2.0 ** -52, 2.0):
        for a_ in ((-1.0, -0.0, 0.0, 5e-324, 0.5, 1.0, 3.0) if thorough else (-1.0, 0.0, 0.5, 3.0)):
            add("c10.invgammap.p %s %s" % (hx(pq), hx(a_)))
            add("c10.invgammaq %s %s" % (hx(pq), hx(a_)))
    # ---- tables of length 0 and ragged lists of blocks (audit defect 19, length-0 quantifier) ---------------------------------
    add("c10.transpose.empty 0")
    for t_ in (0.0, 1.5):
        add("c10.closest.empty 0 %s" % hx(t_))
    for cols in (0, 1, 2):
        for nd in (0, 1, 2):
            add("c10.importtable.empty 1 0 %d %d" % (cols, nd))
    add("c10.mat.block.empty 0 0"); add("c10.mat.block.empty 0 2"); add("c10.mat.block.empty 2 0")
    blk = lambda rows: "c10.mat.blockr %d %s" % (len(rows), " ".join("%d %s" % (len(r), " ".join("%d %d" % b for b in r)) if r else "0" for r in rows))
    A, B_, C_, D_ = (2, 2), (2, 1), (1, 2), (1, 1)
    for rows in ([], [[]], [[], []], [[A], []], [[], [A]], [[A, B_], [C_]], [[A], [C_, D_]], [[A, B_], [C_, D_]], [[A, B_], [C_, D_], [C_]],
                 [[A, B_], [C_, D_], [C_, D_, D_]], [[A]], [[A, B_]], [[A], [C_]], [[A, B_], [C_, (1, 2)]], [[(0, 0)]], [[(0, 2), (0, 1)], [(1, 2), (1, 1)]]):
        add(blk(rows))
    # ---- second audit: list lengths of Minimization::minimize and of the summary statistics, UINT_MAX event counts -------------
    if True:   # repair 23 is in /repo
        for n in range(0, 4):
            add("c10.simplex.delta %d" % n)
            for m in sorted({0, n, n + 1, max(n - 1, 0)}):
                add("c10.simplex.deltas %d %d" % (n, m))
        for lens in ([], [0], [1], [1, 1], [1, 1, 1], [2, 2], [2, 2, 2], [2, 2, 1], [2, 1, 2], [1, 2, 2], [2, 2, 2, 2], [3, 3, 3, 3], [3, 3, 3], [0, 0], [2, 2, 3], [2, 2, 0]):
            add("c10.simplex.pp %s" % ilst(lens))
    if True:   # repair 26 is in /repo
        for r in (-IMAX - 1, -1, 0, 1, 3):
            for c in (-IMAX - 1, -1, 0, 2):
                add("c10.mat.resize %d %d" % (r, c)); add("c10.mat.assign %d %d" % (r, c))
    if True:   # repair 27 is in /repo
        for m in METHODS_MC + ["bogus"]:
            for n_ in (-1, 0, 1, 2, 3, 50):
                add("c10.integmc.shape m:%s %d 4" % (m, n_))
            for rs in (0, 1, 2, 3, 5, 6):
                add("c10.integmc.shape m:%s 50 %d" % (m, rs))
    if True:   # repair 24 is in /repo
        for n in (0, 1, 2, 3, 8):
            for o in ("mean", "median", "variance", "stddev", "wavg"):
                add("c10.%s %d" % (o, n))
    if True:   # repair 25 is in /repo
        for mu in (0.0, 1.0, 50.0):
            add("c10.cdfpoisson %s %d" % (hx(mu), UMAX)); add("c10.cdfpoisson %s %d" % (hx(mu), UMAX - 1))
        for c in (0.0, 0.5, 1.0):
            add("c10.invcdfpoisson %d %s" % (UMAX, hx(c)))
    # deterministic order, duplicates removed; interpolation requests inside the rounding band of the 1% test are dropped
    seen, out = set(), []
    for r in R:
        if r not in seen:
            seen.add(r); out.append(r)
    return band_filter(out, ctx)


_TRANSLATOR_PROBLEMS = []


def pre_build(env):
    """Translator tie (DESIGN.md §4.5): regenerate lean/LpModel/C10/GeneratedGuards.lean from the guard texts of the
    tree under check (runs with the lake lock held).  LpProofs/C10/Generated.lean proves every regenerated guard equal
    to the hand-written model's guard; a guard that can no longer be anchored or parsed keeps its last definition and is
    reported by `finalize` as a correspondence failure."""
    import importlib.util
    spec = importlib.util.spec_from_file_location("c10_guards", os.path.join(env["verif"], "translators", "guards.py"))
    g = importlib.util.module_from_spec(spec)
    spec.loader.exec_module(g)
    r = g.regenerate(env["repo"], os.path.join(env["lean"], "LpModel", "C10", "GeneratedGuards.lean"))
    _TRANSLATOR_PROBLEMS[:] = r["problems"]
    return dict(guards_regenerated=r["entries"], constants=r["constants"], generated_rewritten=r["generated_rewritten"],
                cannot_anchor_or_parse=r["problems"])


def finalize(ctx, exe):
    return [fail("corr", "translator: cannot anchor/parse guard " + p.split(":", 1)[0], p) for p in _TRANSLATOR_PROBLEMS]


def compare(rq, impl, model, ctx):
    op = rq.split(" ", 1)[0]
    fs, both = std_outcome(rq, impl, model)
    bump(ctx, "%s %s" % (op, tag(model)))
    if tag(model) in ("ok", "err"):
        ctx["nontrivial"].add(rq)
    fs = fs + finite_where_finite(rq, impl)
    mf = meaningful(rq)
    if mf is not None and tag(model) in ("ok", "err") and mf != (tag(model) == "ok"):
        return fs + [fail("corr", "model and the direct predicate of props/c10.py disagree on the meaningfulness of a request", "direct: %s" % mf)]
    if tag(model) == "model-oob":
        return [fail("corr", "model: a meaningful request takes an out-of-range index in the checked-access model", model)]
    return fs


def meaningful(rq):
    """The property's own predicate, evaluated directly on the request (no model): True / False / None (not decided
    here).  Used as the search oracle when the Lean side does not build, and as a cross-check of the model otherwise."""
    t = rq.split()
    op, a = t[0][4:], t[1:]
    axes = _interp_axes(rq)
    if axes is not None:
        # inside the tabulated domain or outside by at most one percent of the edge interval (exact arithmetic; the
        # generator has left out the requests on which the double evaluation differs); Local_Minimum/Maximum: x_1 <= x_2
        for raw, d, vs in axes:
            ex = [F(x) * F(d) for x in raw] if d > 0 else [F(x) for x in raw]
            if len(ex) < 3 or any(ex[i] >= ex[i + 1] for i in range(len(ex) - 1)):
                return None
            if not all(_dom_exact(ex, v)[0] for v in vs):
                return False
            if op in ("interp.lmin", "interp.lmax") and vs[1] < vs[0]:
                return False
        return True
    try:
        n = lambda k: int(a[k])
        x = lambda k: Fraction(fl(a[k]))
        if op in ("vec.index", "vec.cindex"):
            return n(1) < n(0)
        if op in ("vec.dot", "vec.add", "vec.sub", "vec.addeq", "vec.subeq", "vec.mul"):
            return n(0) == n(1)
        if op == "vec.cross":
            return n(0) == 3 and n(1) == 3
        if op in ("mat.index", "mat.cindex", "mat.delrow", "mat.row"):
            return n(2) < n(0)
        if op in ("mat.delcol", "mat.col"):
            return n(2) < n(1)
        if op in ("mat.plus", "mat.minus", "mat.addeq", "mat.subeq", "mat.opplus", "mat.opminus"):
            return (n(0), n(1)) == (n(2), n(3))
        if op in ("mat.prod", "mat.opprod"):
            return n(1) == n(2)
        if op in ("mat.prodv", "mat.opprodv"):
            return n(2) == n(1)
        if op == "mat.vprod":
            return n(0) == n(1)
        if op in ("mat.trace", "mat.det"):
            return n(0) == n(1)
        if op == "mat.entries":
            return len(set(a[1:])) <= 1
        if op == "rot":
            return n(0) == 2 or (n(0) == 3 and n(1) == 3)
        if op == "gl":
            return n(0) == n(1)
        if op in ("mat.resize", "mat.assign"):
            return n(0) >= 0 and n(1) >= 0
        if op == "integmc.shape":
            return a[0][2:] in METHODS_MC and n(2) > 0 and n(2) % 2 == 0 and n(1) >= (2 if a[0][2:] == "Vegas" else 1)
        if op in ("vec.move", "mat.move"):
            return not any(v.startswith("atsize:") for v in a)
        if op == "interp.ctornan":
            return False
        if op == "simplex.delta":
            return n(0) >= 1
        if op == "simplex.deltas":
            return n(0) >= 1 and n(1) == n(0)
        if op == "simplex.pp":
            return n(0) >= 2 and all(int(v) == n(0) - 1 for v in a[1:])
        if op in ("mean", "median"):
            return n(0) >= 1
        if op in ("variance", "stddev", "wavg"):
            return n(0) >= 2
        if op == "glrows":
            return n(0) == n(1) and all(v == "2" for v in a[2:])
        if op == "glfunc":
            return all(v == "2" for v in a[1:])
        if op == "factorial":
            return n(0) <= 170
        if op == "factorial.hist":
            return all((int(i[1:]) <= 170) if i[0] == "F" else all(int(v) >= 0 for v in i[1:].split(":")) for i in a[1:])
        if op == "binom":
            return n(0) >= 0 and n(1) >= 0
        if op == "gammaln":
            return x(0) > 0
        if op == "gammaq":
            return x(0) >= 0 and x(1) > 0
        if op in ("invgammap", "invgammap.p"):
            return x(1) > 0 and 0 <= x(0) <= 1
        if op == "invgammaq":
            return x(1) > 0 and 0 <= 1 - x(0) <= 1
        if op == "gamma":
            return x(0) > 0
        if op in ("uppergamma", "lowergamma"):
            return x(0) >= 0 and x(1) > 0
        if op in ("pdfuniform", "cdfuniform"):
            return x(1) < x(2)
        if op == "sampleuniform":
            return x(0) <= x(1)
        if op in ("pdfgauss", "cdfgauss"):
            return x(2) > 0
        if op == "quantilegauss":
            return x(2) >= 0 and -1 - Fraction(1, 10 ** 16) < 2 * x(0) - 1 < 1 + Fraction(1, 10 ** 16)
        if op == "pdfgauss2d":
            return x(0) > 0 and x(1) > 0
        if op in ("pdfchisq", "cdfchisq"):
            return x(1) >= 0
        if op in ("llpoisson", "lpoisson"):
            return x(0) >= 0 and x(2) >= 0
        if op in ("samplegauss", "metropolissigma"):
            return x(-1) >= 0
        if op == "samplepoisson":
            return x(0) >= 0
        if op == "samplepoissonv":
            return all(Fraction(fl(v)) >= 0 for v in a[1:])
        if op == "closest.empty":
            return False
        if op == "round":
            return 1 <= n(1) <= 7
        if op in ("pdfchibar", "cdfchibar"):
            return all(0 <= Fraction(fl(v)) <= 1 for v in a[2:])
        if op == "importtable.fill":
            k = n(0); lens = [int(v) for v in a[1:1 + k]]; nd = int(a[-1])
            rows_ = len(lens)
            while rows_ and lens[rows_ - 1] == 0:
                rows_ -= 1
            if rows_ == 0:
                return True
            return len(set(lens[:rows_])) == 1 and nd in (0, lens[0])
        if op in ("vshy", "vshpsi"):
            return n(0) in (0, 1, 2)
        if op == "inverf":
            return -1 - Fraction(1, 10 ** 16) < x(0) < 1 + Fraction(1, 10 ** 16)
        if op in ("pmfbinom", "cdfbinom"):
            return 0 <= x(1) <= 1
        if op == "invcdfpoisson":
            return 0 <= x(1) <= 1
        if op in ("pmfpoisson", "cdfpoisson"):
            return x(0) >= 0
        if op in ("pdfexp", "cdfexp", "pdfmb", "cdfmb"):
            return x(1) > 0
        if op in ("llbinned", "lbinned"):
            return n(1) == n(0) and n(2) in (0, n(0))
        if op == "metropolis":
            return n(0) in (0, 2)
        if op == "metropolis2d":
            return n(0) in (0, 4)
        if op in ("transpose", "transpose.empty"):
            return len(set(a[1:])) <= 1
        if op == "transpose2":
            return n(0) == n(1)
        if op == "inunits":
            return all(v == a[-1] for v in a[1:-1])
        if op == "exporttable":
            return a[-1] == "0" or all(v == a[-1] for v in a[1:-1])
        if op == "importlist":
            return n(0) == 1
        if op in ("importtable", "importtable.empty"):
            return n(0) == 1 and (n(1) == 0 or n(2) == 0 or n(3) == 0 or n(3) == n(2))
        if op == "checkerr":
            return n(0) == 0
        if op == "sublist":
            return True
        if op == "integ1":
            return a[0][2:] in METHODS_1D
        if op in ("integ2", "integ3", "integ3s"):
            return a[0][2:] in METHODS_1D + METHODS_MC
        if op == "integmc":
            return a[0][2:] in METHODS_MC
        if op == "integmc.hist":
            return all(m[2:] in METHODS_MC for m in a[1:])
    except (ValueError, IndexError):
        return None
    return None


def finite_where_finite(rq, impl):
    """a meaningful request returns a FINITE number wherever the mathematical value is finite (Gamma below its overflow)"""
    t = rq.split()
    if t[0] == "c10.gamma" and tag(impl) == "ok":
        x = fl(t[1])
        try:
            ref_finite = x > 0 and math.isfinite(math.gamma(x)) and x <= 171.62
        except (OverflowError, ValueError):
            ref_finite = False
        v = fl(toks(impl)[0])
        if ref_finite and not math.isfinite(v):
            return [fail("prop", "meaningful request returned a non-finite number where the function is finite", impl[:120])]
    return []


def oracle_verdict(rq, impl):
    extra = finite_where_finite(rq, impl)
    if extra:
        return extra
    mf = meaningful(rq)
    if mf is None or tag(impl) not in ("ok", "err"):
        return []
    if mf and tag(impl) == "err":
        return [fail("prop", "meaningful request terminated the process", "")]
    if not mf and tag(impl) == "ok":
        return [fail("prop", "meaningless request did not stop with a diagnostic", impl[:200])]
    return []


def oracle_only(rq, impl, ctx):
    """Without the model (the Lean side does not build, e.g. a regenerated guard no longer equals the model's):
    crashes, sanitizer reports and silent exits are violations by themselves; for the entry points whose
    meaningfulness is a direct function of the request the property's own predicate is evaluated."""
    if crashed(impl):
        return [fail("prop", "crash/sanitizer/silent exit: " + tag(impl), impl[:200])]
    return oracle_verdict(rq, impl)
