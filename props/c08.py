"""C08 — interpolation integrals and extrema are those of the interpolated curve.

Class B: Integrate / Local_* / Global_* (1-D and 2-D) / Interpolate / Derivative against the exact
Lean model, tolerance K*2^-53*scale with the scale (sum of |terms added|) supplied by the model.
Property oracle on the implementation's own outputs: dense sampling never outside
[Local_Minimum, Local_Maximum] / [Global_Minimum, Global_Maximum] and the extrema are attained;
Integrate additive and exactly antisymmetric; difference quotient of the integral = Simpson mean of
Interpolate (exact for the cubic pieces); everything under prefactors of either sign.
"""
import math, os, random, sys
from fractions import Fraction
from common import *
import c09 as _T   # table / abscissa generators shared with C09 (same owner)
import c01 as _C1  # 'tables as in C01': offsets to 1e8, spacing ratios to 1e9, ordinates 1e-20..1e20

if hasattr(sys, "set_int_max_str_digits"):
    sys.set_int_max_str_digits(0)   # exact integrals over hundreds of segments have numerators of >4300 digits


class T:
    """C09's generators, with denormal abscissae (next-representable neighbours of a knot at 0) mapped to 0:
    products with denormals lose bits before the prefactor rescales them — underflow is not in the model"""
    fix_increasing = staticmethod(_T.fix_increasing)
    make_xs = staticmethod(_T.make_xs)
    make_ys = staticmethod(_T.make_ys)
    nclass = staticmethod(_T.nclass)

    @staticmethod
    def nd(x):
        return 0.0 if 0 < abs(x) < 1e-200 else x

    @staticmethod
    def point(rng, xs, k, kind=None):
        return T.nd(_T.point(rng, xs, k, kind))

    @staticmethod
    def outside_ok(rng, xs):
        return T.nd(_T.outside_ok(rng, xs))

    @staticmethod
    def outside_bad(rng, xs):
        return _T.outside_bad(rng, xs)


RULE = ("requests are drawn from VERIF_SEED: half of the tables as in C01 (gen_xs/gen_ys of props/c01.py: offsets to 1e8, spacing ratios to 1e9, ordinates 1e-20..1e20, plateaus, spikes, near-flat), half as in C09 (3..1000 knots, plus a deterministic family with the unique extreme on every knot around multiples of 32/64 and at the ends, four spacing laws, four ordinate laws, "
        "power-of-two unit factors), limit pairs inside one interval / spanning many / at knots / reversed / in the 1% "
        "zone, prefactors (+,-,tiny,huge) set by Set_Prefactor and Multiply before and between queries; a case is "
        "non-trivial when the model answers ok/err and is counted once per distinct (family, call kind, table-size "
        "class, sign class of the prefactor, span class of the limits)")
CORR_ONLY = ["the square root of Stationary_Values (fix 51ca844) is a parameter of the model (class SqrtFn); the theorems for limits in the 1% zone "
             "(localExt_curve_zone, integ_bounds_zone, edge_monotone_between_candidates) assume only that it is correct at the discriminant actually "
             "passed to it (SqrtOk); the driver uses a 256-bit square root (exact on rational squares), validated by this correspondence run",
             "slack that remains: one evaluation is compared with Local_* at 64 eps x (sum of |terms| of the cubic), with Global_* at 32 eps (1-D) / "
             "8 eps (2-D) x max|table| x |prefactor| (rounding of the evaluation itself); Integrate at 16 eps x sum of |terms| relative to the left "
             "abscissa; scaling by Set_Prefactor/Multiply is demanded bit-for-bit (Integrate: for factors +-2^k, otherwise 128 eps x scale)"]
ASSUMPTIONS = ["NaN arguments are outside the statement (every `<` guard lets NaN pass): not generated",
               "joint-scale tables (spacing 2^+-200..330) keep the ordinates and the coefficients y/h^3 inside the normal double range (IEEE overflow/underflow is outside the model)",
               "repair C08-2 (audit2 P2/P7) is applied as 441bef8 and the strict Integrate clauses are on (scale proportional to the width, bit-exact scaling from the unit prefactor, bounds at 16 eps x max|curve| x length, joint-scale tables); for a rehearsal against older trees: before it the Integrate clauses were judged at the scale of the stem-function difference as coded (16 eps x sum of |terms at the limits|, which does not shrink with the width of the range: vacuous for ranges much shorter than their interval), Integrate scales bit-for-bit only for factors +-2^k, and the joint-scale tables (spacing 1e-100..1e100, where pow(t,4) under/overflows) are not generated; LP_ASSUME_FIXED=C08-2 switches to the strict clauses (scale proportional to the width, bit-exact scaling from the unit prefactor, bounds at 16 eps x max|curve| x length, joint-scale tables)",
               "std::min_element/std::max_element/std::min/std::max return an extremal element",
               "unit factors in the generated requests are powers of two (exact in double), so model and code see the same table",
               "abscissae with 0 < |x| < 1e-200 are mapped to 0 by the generator (underflow of products is not in the model); absolute slack 2^-1000"]
TRUSTED = []

# Pending repair C08-2 (/tmp/fixprop-C08-2: Integrate integrates each piece from its left limit, prefactor applied once).
# While it is pending the Integrate clauses keep the scale of the code as it is (stem-function difference: eps*|terms at x_left|,
# which does not shrink with the width of the range) and the joint-scale family is not generated; with the repair applied
# (PENDING_C08_2 = False, or LP_ASSUME_FIXED=C08-2 for a rehearsal) the scale is proportional to the width, Integrate scales
# bit-for-bit with every factor and the bounds clause is judged at 16 eps x max|curve| x length.
PENDING_C08_2 = False   # applied in /repo as 441bef8
STRICT_INTEG = (not PENDING_C08_2) or "C08-2" in os.environ.get("LP_ASSUME_FIXED", "").split(",")

K_B = 16           # class-B factor; the scale is relative to the left abscissa of each interval (fix d3bfb03); worst observed ratio in evidence 'max_ratio'
K_GLOBAL_1D = 32   # eps: evaluation vs Global_* (audit: worst 13.5 eps)
K_GLOBAL_2D = 8    # eps (audit: worst 4.8 eps)
ZONE_CLAUSE = "extrapolation zone interior: an evaluation strictly between an extrapolated limit and the end knot lies outside [Local_Minimum, Local_Maximum]"
K_EVAL = 64        # eps x (terms of the cubic): rounding of one evaluation, the only slack of 'no evaluation falls outside Local_*'
ATOL = Fraction(1, 2 ** 1000)   # underflow to zero / denormals are not in the model


def pref_ops(rng):
    """a sequence of Set_Prefactor / Multiply calls and the resulting factor (as the code computes it)"""
    ops, p = [], 1.0
    for _ in range(rng.choice([0, 0, 1, 1, 2, 3, 3, 5, 8])):
        if rng.random() < 0.6:
            v = rng.choice([1.0, -1.0, 2.0, -0.5, 3.0, -7.25, 1e-30, -1e-30, 1e30, -1e25, rng.uniform(-5, 5), rng.uniform(-5, 5), 0.0, -0.0])
            ops.append("P %s" % hx(v)); p = v
        else:
            v = rng.choice([-1.0, 2.0, 0.5, -3.0, 1e-10, -1e10, rng.uniform(-3, 3)])
            ops.append("X %s" % hx(v)); p = p * v
    return ops, p


def table(rng, tier):
    c = rng.random()
    n = rng.randint(3, 8) if c < 0.3 else (rng.randint(9, 60) if c < 0.8 else rng.randint(61, 600 if tier == "thorough" else 250))
    if rng.random() < 0.5:   # tables as in C01
        xs = T.fix_increasing(_C1.gen_xs(rng, n, rng.choice(_C1.XKINDS)))
        ys = _C1.gen_ys(rng, xs, rng.choice(_C1.YKINDS))
    else:
        xs = T.fix_increasing(T.make_xs(rng, n, rng.choice(["uniform", "random", "geometric", "clustered"])))
        kind = rng.randrange(5)
        if kind == 4:     # the fix commit's shape: extremum at an interior knot
            ys = [float(abs(i - n // 2) ** 2 + 1) * rng.choice([1.0, -1.0]) for i in range(n)]
        else:
            ys = T.make_ys(rng, n, kind)
    xd = rng.choice([-1.0, -1.0, 2.0, 0.5, 0.25])
    fd = rng.choice([-1.0, -1.0, 4.0, 0.125])
    xs2 = [x * xd for x in xs] if xd > 0 else xs
    ys2 = [y * fd for y in ys] if fd > 0 else ys
    return xs, ys, xd, fd, xs2, ys2


def head(xs, ys, xd, fd):
    return "c08.seq %s %s %s %s" % (lst(xs), lst(ys), hx(xd), hx(fd))


def limits(rng, xs):
    """a pair x1 <= x2: inside one interval, spanning many, at knots, in the 1% zone"""
    n = len(xs)
    k = rng.randint(0, n - 2)
    c = rng.random()
    if c < 0.3:
        a = T.point(rng, xs, k); b = T.point(rng, xs, k)
    elif c < 0.6:
        a = T.point(rng, xs, k); b = T.point(rng, xs, k + rng.choice([1, 1, 2, 3, 5, 12, 40]))
    elif c < 0.75:
        a = xs[rng.randint(0, n - 1)]; b = xs[rng.randint(0, n - 1)]
    elif c < 0.85:
        a = xs[0] if rng.random() < 0.5 else T.outside_ok(rng, xs); b = xs[-1] if rng.random() < 0.5 else T.point(rng, xs, rng.randint(0, n - 2))
    elif c < 0.92:
        a = T.outside_ok(rng, xs); b = T.outside_ok(rng, xs)
    else:
        a = T.point(rng, xs, rng.randint(0, n - 2)); b = T.point(rng, xs, rng.randint(0, n - 2))
    return (a, b) if a <= b else (b, a)


def gen_ext(rng, tier, meta):
    xs, ys, xd, fd, xs2, ys2 = table(rng, tier)
    P, p = pref_ops(rng)
    x1, x2 = limits(rng, xs2)
    return build_ext(rng, meta, xs, ys, xd, fd, xs2, ys2, P, p, x1, x2)


steffen_abc = _T.steffen_abc
stationary_points = _T.stationary_points


def build_ext(rng, meta, xs, ys, xd, fd, xs2, ys2, P, p, x1, x2, fam="ext"):
    idx = [i for i, x in enumerate(xs2) if x1 <= x <= x2]
    allknots = len(idx) <= 80
    if not allknots:   # keep the knots carrying the extreme ordinates of the range, sample the others
        ext = {min(idx, key=lambda i: ys2[i]), max(idx, key=lambda i: ys2[i])}
        idx = sorted(ext | set(rng.sample(idx, 78)))
    inside = [xs2[i] for i in idx]
    samples = [x1, x2] + inside
    lo, hi = max(x1, xs2[0]), min(x2, xs2[-1])
    for _ in range(30):
        samples.append(min(max(lo + rng.random() * (hi - lo), lo), hi) if hi >= lo else x1)
    for x in inside[:20]:
        samples += [v for v in (math.nextafter(x, math.inf), math.nextafter(x, -math.inf)) if x1 <= v <= x2 and T.nd(v) == v]
    # the stationary points of the continued edge cubics inside the extrapolated part of the range (candidates since 51ca844)
    if x1 < xs2[0]:
        samples += [T.nd(v) for v in stationary_points(xs2, ys2, 0, x1, min(x2, xs2[0]))]
    if x2 > xs2[-1]:
        samples += [T.nd(v) for v in stationary_points(xs2, ys2, len(xs2) - 2, max(x1, xs2[-1]), x2)]
    nin = len(samples)
    # strictly inside the 1% zone, between an extrapolated limit and the end knot (open finding C08-zone-turning-point)
    zone_s = []
    if x1 < xs2[0]:
        top = min(x2, xs2[0])
        zone_s += [x1 + (top - x1) * (i + 1) / 9.0 for i in range(8)]
    if x2 > xs2[-1]:
        bot = max(x1, xs2[-1])
        zone_s += [bot + (x2 - bot) * (i + 1) / 9.0 for i in range(8)]
    zone_s = [T.nd(v) for v in zone_s if x1 <= v <= x2]
    samples += zone_s
    nzone = len(zone_s)
    for _ in range(15):   # anywhere in the domain: global bounds
        samples.append(T.point(rng, xs2, rng.randint(0, len(xs2) - 2)))
    samples += [xs2[0], xs2[-1]]
    ext4 = ["m %s %s" % (hx(x1), hx(x2)), "M %s %s" % (hx(x1), hx(x2)), "gm", "gM"]
    dq = ["D %s %d" % (hx(samples[i % len(samples)]), 1 + i % 3) for i in range(6)]
    # the same queries at the unit prefactor first: Set_Prefactor/Multiply must change them by exactly the factor
    nunit = min(16, len(samples))
    unit = (ext4 + ["I %s" % hx(v) for v in samples[:nunit]] + dq) if P else []
    ops = unit + P + ext4 + ["I %s" % hx(v) for v in samples] + dq + ["G %s %s" % (hx(x1), hx(x2))]
    rq = "%s %d %s" % (head(xs, ys, xd, fd), len(ops), " ".join(ops))
    meta[rq] = dict(fam="ext", gen=fam, np=len(unit) + len(P), nin=nin, nzone=nzone, nunit=nunit if P else 0, nd=len(dq), ns=len(samples),
                    allknots=allknots, p=p, n=len(xs), span=len(inside),
                    ymax=max(abs(y) for y in ys2), zone=(x1 < xs2[0] or x2 > xs2[-1]), xs=xs2, ys=ys2)
    return rq


BLOCK_SIZES = [65, 100, 130, 200, 300, 1000]


def block_ks(n):
    ks = list(range(30, 35)) + list(range(62, 67)) + list(range(126, 131)) + [n - 2, n - 1, 0, 1]
    if n > 260:
        ks += [191, 192, 255, 256]
    if n > 700:
        ks += [511, 512, 639, 640, 959, 960]
    return sorted({k for k in ks if 0 <= k < n})


def gen_block(rng, tier, meta):
    """large tables whose unique maximum / minimum sits on knot k, for every k around multiples of 32 and 64 and at
    the ends; ranges that contain k as an interior knot and start and end in other 64-knot blocks; prefactors +1, -3"""
    R = []
    sizes = BLOCK_SIZES if tier == "thorough" else [65, 100, 130, 200]
    jobs = [(n, k) for n in sizes for k in block_ks(n)]
    if tier != "thorough":
        jobs += [(300, k) for k in (63, 64, 191, 255, 256, 298)] + [(1000, k) for k in (63, 511, 639, 640, 959, 998)]
    for n, k in jobs:
        for sign in (1.0, -1.0):
            xs = [float(i) for i in range(n)] if (n + k) % 2 else T.fix_increasing(T.make_xs(rng, n, "random"))
            ys = [1.0 + 0.01 * rng.uniform(-1, 1) for _ in range(n)]
            ys[k] = 1.0 + 4.0 * sign          # the unique extreme of the whole table
            b = k // 64
            lo_i = rng.randint(max(0, 64 * b - 40), 64 * b - 1) if b > 0 else rng.randint(0, max(0, k - 1))
            hi_lo = 64 * (b + 1)
            hi_i = rng.randint(hi_lo, min(n - 2, hi_lo + 40)) if hi_lo <= n - 2 else rng.randint(min(k, n - 2), n - 2)
            ranges = [(T.point(rng, xs, lo_i, "in"), T.point(rng, xs, hi_i, "in"))]
            a_i = rng.randint(max(0, k - 70), max(0, k - 1)); b_i = rng.randint(min(k, n - 2), min(n - 2, k + 70))
            ranges.append((T.point(rng, xs, a_i), T.point(rng, xs, b_i)))
            for ri, (x1, x2) in enumerate(ranges):
                x1, x2 = min(x1, xs[k]), max(x2, xs[k])
                prefs = (([], 1.0), (["P %s" % hx(-3.0)], -3.0))
                if ri == 1 and tier != "thorough":
                    prefs = prefs[(n + k) % 2:(n + k) % 2 + 1]
                for P, p in prefs:
                    R.append(build_ext(rng, meta, xs, ys, -1.0, -1.0, xs, ys, P, p, x1, x2, fam="block"))
    # random large tables, random ranges
    for _ in range(120 if tier == "thorough" else 24):
        n = rng.randint(65, 1000)
        xs = T.fix_increasing(T.make_xs(rng, n, rng.choice(["uniform", "random", "geometric", "clustered"])))
        ys = T.make_ys(rng, n, rng.randrange(4))
        i, j = sorted((rng.randint(0, n - 2), rng.randint(0, n - 2)))
        x1, x2 = T.point(rng, xs, i), T.point(rng, xs, j)
        P, p = pref_ops(rng)
        R.append(build_ext(rng, meta, xs, ys, -1.0, -1.0, xs, ys, P, p, min(x1, x2), max(x1, x2), fam="block"))
    return R


def gen_zone(rng, tier, meta):
    """tables whose edge cubic turns inside the 1% zone (boundary slope limited to almost zero: s1 ~ 3 s0), limits in the zone"""
    R = []
    x = [0.0, 1.0, 2.0]; y = [0.0, 1.0, 3.98]     # the audit's example
    R.append(build_ext(rng, meta, x, y, -1.0, -1.0, x, y, [], 1.0, -0.009, 0.5, fam="zone"))
    # limits EXACTLY one percent of the edge interval outside the domain (meaningful since fix a411065): spacing 100*2^k,
    # for which 1e-2*h is exact in double
    for k in (0, 1, -2, 3):
        h = 100.0 * 2.0 ** k
        n = rng.randint(3, 7)
        x0 = h * rng.randint(-3, 3)
        xs = [x0 + h * i for i in range(n)]
        ys = [rng.uniform(-5, 5) for _ in range(n)]
        lo_e, hi_e = xs[0] - 0.01 * h, xs[-1] + 0.01 * h
        assert Fraction(xs[0]) - Fraction(lo_e) == Fraction(h) / 100 and Fraction(hi_e) - Fraction(xs[-1]) == Fraction(h) / 100
        for x1, x2 in ((lo_e, hi_e), (lo_e, T.point(rng, xs, rng.randint(0, n - 2))), (T.point(rng, xs, rng.randint(0, n - 2)), hi_e)):
            P, p = pref_ops(rng)
            R.append(build_ext(rng, meta, xs, ys, -1.0, -1.0, xs, ys, P, p, x1, x2, fam="zone-edge"))
        ops = ["G %s %s" % (hx(lo_e), hx(hi_e)), "G %s %s" % (hx(hi_e), hx(lo_e)), "I %s" % hx(lo_e), "D %s 1" % hx(hi_e), "L %s" % hx(lo_e), "L %s" % hx(hi_e)]
        rq = "%s %d %s" % (head(xs, ys, -1.0, -1.0), len(ops), " ".join(ops))
        meta[rq] = dict(fam="seq", gen="zone-edge", np=0, p=1.0, n=n, span=0)
        R.append(rq)
    for tb in zone_tables(rng, 60 if tier == "thorough" else 16, 24 if tier == "thorough" else 8):
        R += zone_cells(rng, meta, tb)
    return R


zone_tables = _T.zone_tables


ZONE_CELLS = ("before", "straddle", "behind", "domain")


def zone_cells(rng, meta, tb):
    """limit pairs in every ordering relative to (end knot, stationary abscissa x*, zone edge), either prefactor sign"""
    xs, ys, side0 = tb
    n = len(xs)
    R = []
    # limits in OPPOSITE zones in one call: the candidates are the stationary values of BOTH continued edge cubics
    eL, eR = xs[0] - 0.0095 * (xs[1] - xs[0]), xs[-1] + 0.0095 * (xs[-1] - xs[-2])
    sL, sR = stationary_points(xs, ys, 0, eL, xs[0]), stationary_points(xs, ys, n - 2, xs[-1], eR)
    for rep in range(2):
        def zpick(knot, edge, st):
            if len(st) == 1 and rng.random() < 0.75:   # beyond the turning point
                return st[0] + rng.uniform(0.15, 0.95) * (edge - st[0])
            return knot + rng.uniform(0.1, 0.95) * ((st[0] if len(st) == 1 else edge) - knot)
        x1, x2 = zpick(xs[0], eL, sL), zpick(xs[-1], eR, sR)
        for sign in ("pos", "neg"):
            P, p = (([], 1.0) if rep == 0 else (["X %s" % hx(2.5)], 2.5)) if sign == "pos" else ((["P %s" % hx(-3.0)], -3.0) if rep == 0 else (["P %s" % hx(2.0), "X %s" % hx(-1.5)], -3.0))
            rq = build_ext(rng, meta, xs, ys, -1.0, -1.0, xs, ys, P, p, x1, x2, fam="zone")
            meta[rq]["cell"] = (side0, "opposite", sign)
            R.append(rq)
    side = "L" if side0 == "B" else side0
    if side == "L":
        knot, edge, j = xs[0], xs[0] - 0.0095 * (xs[1] - xs[0]), 0
        st = stationary_points(xs, ys, j, edge, knot)
    else:
        knot, edge, j = xs[-1], xs[-1] + 0.0095 * (xs[-1] - xs[-2]), n - 2
        st = stationary_points(xs, ys, j, knot, edge)
    if len(st) != 1 or not (0.1 < abs(st[0] - knot) / abs(edge - knot) < 0.9):
        # no (single, well separated) turning point in the zone: one generic pair with a limit in the zone
        inner = T.point(rng, xs, rng.randint(0, n - 2))
        zl = knot + rng.uniform(0.3, 1.0) * (edge - knot)
        P, p = pref_ops(rng)
        return R + [build_ext(rng, meta, xs, ys, -1.0, -1.0, xs, ys, P, p, min(inner, zl), max(inner, zl), fam="zone")]
    xstar = st[0]
    between = lambda u, v, f: u + f * (v - u)
    for cell in ZONE_CELLS:
        if cell == "before":      # both between the end knot and x*
            a, b = between(knot, xstar, rng.uniform(0.1, 0.45)), between(knot, xstar, rng.uniform(0.55, 0.9))
        elif cell == "straddle":  # x* strictly between the limits, both in the zone
            a, b = between(knot, xstar, rng.uniform(0.1, 0.9)), between(xstar, edge, rng.uniform(0.1, 0.9))
        elif cell == "behind":    # both beyond x*
            a, b = between(xstar, edge, rng.uniform(0.1, 0.45)), between(xstar, edge, rng.uniform(0.55, 0.9))
        else:                     # one limit inside the domain, the other beyond x*
            a, b = T.point(rng, xs, rng.randint(0, n - 2)), between(xstar, edge, rng.uniform(0.1, 0.9))
        x1, x2 = min(a, b), max(a, b)
        for sign in ("pos", "neg"):
            c = rng.random()
            if sign == "pos":
                P, p = ([], 1.0) if c < 0.3 else (["P %s" % hx(4.0)], 4.0) if c < 0.6 else (["X %s" % hx(2.5)], 2.5)
            else:
                P, p = (["P %s" % hx(-3.0)], -3.0) if c < 0.5 else (["X %s" % hx(-0.5)], -0.5) if c < 0.8 else (["P %s" % hx(2.0), "X %s" % hx(-1.5)], -3.0)
            rq = build_ext(rng, meta, xs, ys, -1.0, -1.0, xs, ys, P, p, x1, x2, fam="zone")
            meta[rq]["cell"] = (side0, cell, sign)
            R.append(rq)
    return R


def exact_mid(b, b2):
    m = (b + b2) / 2
    return m if Fraction(m) * 2 == Fraction(b) + Fraction(b2) else None


def gen_add(rng, tier, meta, tb=None, pts=None, gen="add"):
    xs, ys, xd, fd, xs2, ys2 = tb or table(rng, tier)
    P, p = pref_ops(rng) if rng.random() < 0.5 else ([], 1.0)   # half of the requests start at the unit prefactor
    n = len(xs2)
    if pts is None:
        pts = []
        for _ in range(3):
            c = rng.random()
            pts.append(xs2[rng.randint(0, n - 1)] if c < 0.3 else (T.outside_ok(rng, xs2) if c < 0.36 else T.point(rng, xs2, rng.randint(0, n - 2))))
    a, b, c_ = pts
    ops = P + ["G %s %s" % (hx(u), hx(v)) for u, v in ((a, b), (b, c_), (a, c_), (b, a), (c_, b), (c_, a), (a, a))]
    # min*len <= Integrate <= max*len with the curve extrema over the range
    lo_, hi_ = min(a, b), max(a, b)
    ops += ["m %s %s" % (hx(lo_), hx(hi_)), "M %s %s" % (hx(lo_), hx(hi_))]
    q = None
    if rng.random() < 0.6:   # a factor applied BETWEEN queries: the same integrals must scale by exactly q
        q = rng.choice([-1.0, 2.0, 0.5, -3.0, -0.25, 1e-10, -1e10, 3.0, rng.uniform(-4, 4)])
        ops += ["X %s" % hx(q)] + ["G %s %s" % (hx(u), hx(v)) for u, v in ((a, b), (b, c_), (a, c_))]
    rq = "%s %d %s" % (head(xs, ys, xd, fd), len(ops), " ".join(ops))
    meta[rq] = dict(fam="add", gen=gen, np=len(P), p=p, n=n, span=0, xs=xs2, ys=ys2, q=q)
    return rq


def gen_short(rng, tier, meta):
    """ranges much shorter than their interval: (x, x + h*10^-k) for k = 1..12, (next double below a knot, the knot),
    pairs in the right and left extrapolation zone; with STRICT_INTEG also tables at joint scales (spacing 1e-100 .. 1e100)"""
    R = []
    for it in range(90 if tier == "thorough" else 30):
        tb = table(rng, tier)
        xs2 = tb[4]
        n = len(xs2)
        j = rng.randint(0, n - 2)
        h = xs2[j + 1] - xs2[j]
        kind = it % 5
        if kind <= 2:
            k = 1 + (it // 5) % 12
            x = xs2[j] + rng.random() * 0.8 * h
            d = h * 10.0 ** -k
            pts = [x, min(x + d, xs2[j + 1]), min(x + 2 * d, xs2[j + 1])]
        elif kind == 3:   # (down, knotR) and the knot's other neighbour
            kn = xs2[j + 1]
            pts = [math.nextafter(kn, -math.inf), kn, min(math.nextafter(kn, math.inf), xs2[-1])]
        else:             # both limits in one extrapolation zone
            if it % 2:
                e = xs2[-1]; hz = 0.009 * (xs2[-1] - xs2[-2])
                pts = sorted(e + hz * rng.random() for _ in range(3))
            else:
                e = xs2[0]; hz = 0.009 * (xs2[1] - xs2[0])
                pts = sorted(e - hz * rng.random() for _ in range(3))
        pts = [T.nd(v) for v in pts]
        R.append(gen_add(rng, tier, meta, tb=tb, pts=pts, gen="short"))
    if STRICT_INTEG:   # pow(t,4) of the unrepaired code under/overflows here: generated only once the repair is assumed
        for it in range(60 if tier == "thorough" else 16):
            n = rng.randint(3, 12)
            x0 = _C1.gen_xs(rng, n, rng.choice(["jitter", "uniform2"]))
            y0 = _C1.gen_ys(rng, x0, rng.choice(["smooth", "monotone", "signchange", "plateau"]))
            Ex = rng.choice([-1, 1]) * rng.randint(200, 330)      # spacings 1e-100 .. 1e100
            # the coefficients y/h^3, y/h^2 and the ordinates themselves must stay finite normal doubles (IEEE overflow is
            # outside the model): Ey inside [-800,800] and within 800 of 3*Ex
            Ey = rng.randint(max(-800, 3 * Ex - 800), min(800, 3 * Ex + 800))
            xs = [math.ldexp(v, Ex) for v in x0]; ys = [math.ldexp(v, Ey) for v in y0]
            hmin = min(b - a for a, b in zip(xs, xs[1:])); hmax = max(b - a for a, b in zip(xs, xs[1:]))
            ymax = max(abs(v) for v in ys) or 1.0
            ok = all(math.isfinite(v) for v in xs + ys) and len(set(xs)) == n and hmin > 0
            if ok:
                lg = math.log2(ymax) - 3 * math.log2(hmin)
                ok = lg < 960 and math.log2(ymax) + 3 * math.log2(hmax) < 960 and math.log2(ymax) > -900 and lg > -900
            if not ok:
                continue
            tb = (xs, ys, -1.0, -1.0, xs, ys)
            pts = [T.point(rng, xs, rng.randint(0, n - 2)) for _ in range(3)]
            if it % 2:
                pts = [xs[0], xs[-1], T.point(rng, xs, rng.randint(0, n - 2))]
            R.append(gen_add(rng, tier, meta, tb=tb, pts=pts, gen="joint-scale"))
    return R


def gen_fd(rng, tier, meta):
    xs, ys, xd, fd, xs2, ys2 = table(rng, tier)
    P, p = pref_ops(rng)
    n = len(xs2)
    k = rng.randint(0, n - 2)
    for _ in range(40):
        b = T.point(rng, xs2, k, "in"); b2 = T.point(rng, xs2, k, rng.choice(["in", "knotR", "in"]))
        if b2 < b:
            b, b2 = b2, b
        m = exact_mid(b, b2)
        if m is not None and b2 > b:
            break
    else:
        b, b2 = xs2[k], xs2[k]
        m = b
    a = T.point(rng, xs2, k + rng.choice([0, 0, -1, -2, -5, 3]))
    ops = P + ["G %s %s" % (hx(a), hx(b)), "G %s %s" % (hx(a), hx(b2)), "I %s" % hx(b), "I %s" % hx(m), "I %s" % hx(b2)]
    rq = "%s %d %s" % (head(xs, ys, xd, fd), len(ops), " ".join(ops))
    meta[rq] = dict(fam="fd", np=len(P), p=p, n=n, span=0, xs=xs2, ys=ys2)
    return rq


def gen_seq(rng, tier, meta):
    xs, ys, xd, fd, xs2, ys2 = table(rng, tier)
    n = len(xs2)
    ops = []
    p = 1.0
    for _ in range(rng.randint(4, 40)):
        c = rng.random()
        a, b = limits(rng, xs2)
        if c < 0.3:
            if rng.random() < 0.4:
                a, b = b, a           # reversed limits are legal for Integrate
            ops.append("G %s %s" % (hx(a), hx(b)))
        elif c < 0.45:
            ops.append("m %s %s" % (hx(a), hx(b)))
        elif c < 0.6:
            ops.append("M %s %s" % (hx(a), hx(b)))
        elif c < 0.66:
            ops.append(rng.choice(["gm", "gM"]))
        elif c < 0.76:
            ops.append("I %s" % hx(a))
        elif c < 0.84:
            ops.append("D %s %d" % (hx(a), rng.choice([0, 1, 2, 3, 4])))
        elif c < 0.87:
            ops.append("C")
        else:
            q, _ = pref_ops(rng)
            ops += q[:1]
    rq = "%s %d %s" % (head(xs, ys, xd, fd), len(ops), " ".join(ops))
    meta[rq] = dict(fam="seq", np=0, p=1.0, n=n, span=0)
    return rq


def gen_err(rng, tier, meta):
    xs, ys, xd, fd, xs2, ys2 = table(rng, tier)
    P, p = pref_ops(rng)
    c = rng.random()
    if c < 0.4:    # Local_* demands x1 <= x2
        a, b = T.point(rng, xs2, 1), T.point(rng, xs2, 0)
        if not b < a:
            a, b = xs2[2], xs2[1]
        ops = P + ["%s %s %s" % (rng.choice("mM"), hx(a), hx(b))]
    elif c < 0.7:
        ops = P + ["G %s %s" % (hx(xs2[1]), hx(T.outside_bad(rng, xs2)))]
    else:
        ops = P + ["%s %s %s" % (rng.choice("mM"), hx(T.outside_bad(rng, xs2) if rng.random() < 0.5 else xs2[0] - 10 * (xs2[1] - xs2[0])), hx(xs2[-1]))]
    rq = "%s %d %s" % (head(xs, ys, xd, fd), len(ops), " ".join(ops))
    meta[rq] = dict(fam="err", np=len(P), p=p, n=len(xs), span=0)
    return rq


def gen_ext2(rng, tier, meta):
    nx = rng.choice([3, 4, 6, 12, 30]); ny = rng.choice([3, 5, 9, 20])
    xs = T.fix_increasing(T.make_xs(rng, nx, rng.choice(["uniform", "random", "geometric"])))
    ys = T.fix_increasing(T.make_xs(rng, ny, rng.choice(["uniform", "random", "clustered"])))
    kind = rng.randrange(3)
    kind = rng.randrange(4)
    f = [[(rng.uniform(-10, 10) if kind == 0 else mixed_magnitude(rng, -4, 4) if kind == 1 else mixed_magnitude(rng, -20, 20) if kind == 3 else float((i - nx // 2) ** 2 + (j - ny // 2) ** 2 + 1))
          for j in range(ny)] for i in range(nx)]
    xd = rng.choice([-1.0, 2.0]); yd = rng.choice([-1.0, 0.5]); fd = rng.choice([-1.0, 4.0])
    xs2 = [x * xd for x in xs] if xd > 0 else xs
    ys2 = [y * yd for y in ys] if yd > 0 else ys
    P, p = pref_ops(rng)
    ops = list(P) + ["gm", "gM"]
    for _ in range(40):
        c = rng.random()
        x = xs2[rng.randrange(nx)] if c < 0.3 else T.point(rng, xs2, rng.randrange(nx - 1))
        y = ys2[rng.randrange(ny)] if rng.random() < 0.3 else T.point(rng, ys2, rng.randrange(ny - 1))
        ops.append("I %s %s" % (hx(x), hx(y)))
    if rng.random() < 0.5:   # change the factor between queries
        q, p2 = pref_ops(rng)
        if q:
            ops += q[:1] + ["gm", "gM"]
    rq = "c08.seq2 %s %s %d %s %s %s %s %d %s" % (lst(xs), lst(ys), nx, " ".join(lst(r) for r in f), hx(xd), hx(yd), hx(fd), len(ops), " ".join(ops))
    fm = max(abs(v) for r in f for v in r) * (fd if fd > 0 else 1.0)
    meta[rq] = dict(fam="ext2", np=len(P), p=p, n=nx * ny, span=0, ymax=fm)
    return rq


def generate(tier, seed, ctx):
    rng = random.Random(seed * 7919 + 8)
    meta = ctx["meta"] = {}
    ctx["max_ratio"] = 0.0
    R = []
    th = tier == "thorough"
    for _ in range(1500 if th else 220):
        R.append(gen_ext(rng, tier, meta))
    R += gen_block(rng, tier, meta)
    R += gen_zone(rng, tier, meta)
    R += gen_short(rng, tier, meta)
    for _ in range(1500 if th else 220):
        R.append(gen_add(rng, tier, meta))
    for _ in range(1500 if th else 220):
        R.append(gen_fd(rng, tier, meta))
    for _ in range(1200 if th else 160):
        R.append(gen_seq(rng, tier, meta))
    for _ in range(150 if th else 30):
        R.append(gen_err(rng, tier, meta))
    for _ in range(400 if th else 80):
        R.append(gen_ext2(rng, tier, meta))
    # the replay of the repaired defect (known_findings: 6f59f09): table 5,4,1,4,5
    R.append("c08.seq %s %s %s %s 4 m %s %s M %s %s P %s gM" % (lst([0.0, 1.0, 2.0, 3.0, 4.0]), lst([5.0, 4.0, 1.0, 4.0, 5.0]), hx(-1.0), hx(-1.0),
                                                              hx(0.5), hx(2.5), hx(0.5), hx(2.5), hx(-2.0)))
    meta[R[-1]] = dict(fam="seq", np=0, p=1.0, n=5, span=0)
    return R


# ------------------------------------------------------------------------------------------------

def split_ops(a, twod):
    """request tokens after the table -> list of op token lists"""
    ar = {"I": 2 if twod else 1, "L": 1, "P": 1, "X": 1, "D": 2, "G": 2, "m": 2, "M": 2, "gm": 0, "gM": 0, "C": 0}
    k = int(a[0]); pos = 1
    ops = []
    for _ in range(k):
        t = a[pos]
        ops.append(a[pos:pos + 1 + ar[t]]); pos += 1 + ar[t]
    return ops


def skip_table(a, twod):
    pos = 0
    for _ in range(2):
        pos += 1 + int(a[pos])
    if twod:
        rows = int(a[pos]); pos += 1
        for _ in range(rows):
            pos += 1 + int(a[pos])
        pos += 3
    else:
        pos += 2
    return a[pos:]


def impl_values(ti):
    out = []
    i = 0
    while i < len(ti):
        if ti[i] == "U":
            out.append(None); i += 1
        elif ti[i] == "L":
            out.append(int(ti[i + 1])); i += 2
        elif ti[i] == "V":
            out.append(fl(ti[i + 1])); i += 2
        else:
            raise ValueError("token " + ti[i])
    return out


def model_values(tm):
    out = []
    i = 0
    while i < len(tm):
        if tm[i] == "U":
            out.append(None); i += 1
        elif tm[i] == "L":
            out.append(int(tm[i + 1])); i += 2
        elif tm[i] == "V":
            val, sc = fr(tm[i + 1]), fr(tm[i + 2]); i += 3
            if i < len(tm) and tm[i] == "T":      # Integrate: the scale of the repaired code (proportional to the width)
                if STRICT_INTEG:
                    sc = fr(tm[i + 1])
                i += 2
            out.append((val, sc))
        else:
            raise ValueError("token " + tm[i])
    return out



# ------------------------------------------------------------------------------------------------
# scales computed from the request alone (mirror of LpModel/C08.lean: scaleInterp / scaleInteg), used by
# the oracle when no model answer is available (broken Lean build -> oracle_only).  Sums of non-negative
# terms in double arithmetic (relative error ~1e-13), doubled for safety.
# ------------------------------------------------------------------------------------------------

class PyScale:
    def __init__(self, xs, ys, p):
        self.x, self.y, self.p, self.n = xs, ys, abs(p), len(xs)
        self.h = [xs[i + 1] - xs[i] for i in range(self.n - 1)]
        self.s = [(abs(ys[i]) + abs(ys[i + 1])) / self.h[i] for i in range(self.n - 1)]

    def dy(self, i):
        n, s = self.n, self.s
        if i == 0:
            return 2 * s[0] + s[1]
        if i == n - 1:
            return 2 * s[n - 2] + s[n - 3]
        return s[i - 1] + s[i]

    def coef(self, j):
        h, s = self.h[j], self.s[j]
        return ((self.dy(j) + self.dy(j + 1) + 2 * s) / (h * h), (3 * s + 2 * self.dy(j) + self.dy(j + 1)) / h, self.dy(j), abs(self.y[j]))

    def index(self, v):
        import bisect
        if v < self.x[0]:
            return 0
        return min(max(bisect.bisect_right(self.x, v) - 1, 0), self.n - 2)

    def interp(self, v):
        j = self.index(v)
        a, b, c, d = self.coef(j)
        t = abs(v - self.x[j])
        return 2 * self.p * (a * t ** 3 + b * t ** 2 + c * t + d)

    def stem(self, j, X):
        a, b, c, d = self.coef(j)
        t = abs(X - self.x[j])
        return a / 4 * t ** 4 + b / 3 * t ** 3 + c / 2 * t ** 2 + d * t

    def integ(self, v1, v2):
        lo, hi = (v2, v1) if v1 > v2 else (v1, v2)
        i1, i2 = self.index(lo), self.index(hi)
        tot = 0.0
        for j in range(i1, i2 + 1):
            xl = lo if j == i1 else self.x[j]
            xr = hi if j == i2 else self.x[j + 1]
            if STRICT_INTEG:
                a, b, c, d = self.coef(j)
                t, w = abs(xl - self.x[j]), abs(xr - xl)
                tot += w * ((((a * t + b) * t + c) * t + d) + w * (((3 * a * t + 2 * b) * t + c) / 2 + w * ((3 * a * t + b) / 3 + w * a / 4)))
            else:
                tot += self.stem(j, xr) + self.stem(j, xl)
        return 2 * self.p * tot


def _finite(vals):
    return all(v is not None and not math.isnan(v) and not math.isinf(v) for v in vals)


def sgn_class(p):
    return ("neg" if p < 0 else "pos") + ("-tiny" if abs(p) < 1e-8 else "-huge" if abs(p) > 1e8 else "")


def compare(rq, impl, model, ctx):
    op = rq.split(" ", 1)[0]
    twod = op == "c08.seq2"
    meta = ctx.get("meta", {}).get(rq) or dict(fam="replay", np=0, p=1.0, n=0, span=0)
    bump(ctx, "family." + meta.get("gen", meta["fam"]))
    fs, both = std_outcome(rq, impl, model)
    if tag(model) == "err":
        ctx["nontrivial"].add((meta["fam"], "err", meta["n"] > 8))
    if crashed(impl) or tag(impl) not in ("ok",):
        return fs
    ops = split_ops(skip_table(rq.split()[1:], twod), twod)
    try:
        vi = impl_values(toks(impl))
    except (ValueError, IndexError) as e:
        return fs + [fail("corr", "implementation stream malformed", repr(e))]
    out = list(fs)
    # ---- property oracle on the implementation's own output (needs no model) -------------------
    vm = None
    if both:
        try:
            vm = model_values(toks(model))
        except (ValueError, IndexError) as e:
            return out + [fail("corr", "model stream malformed", repr(e))]
        if len(vm) != len(vi) or len(vi) != len(ops):
            return out + [fail("corr", "streams of different length", "%d %d %d" % (len(vi), len(vm), len(ops)))]
    elif len(vi) != len(ops):
        return out + [fail("corr", "implementation stream has the wrong length", "")]
    out += oracle(meta, ops, vi, vm, ctx)
    if not both:
        return out
    # ---- class B against the model ------------------------------------------------------------
    nbad = 0
    for i, (o, a, m) in enumerate(zip(ops, vi, vm)):
        if m is None:
            continue
        kind = o[0] + (o[2] if o[0] == "D" else "")
        if isinstance(m, int):
            if a != m:
                out.append(fail("corr", "Locate index differs from the model", "call %d" % i))
            continue
        val, scale = m
        ctx["nontrivial"].add((meta["fam"], kind, T.nclass(meta["n"]), sgn_class(meta["p"]), min(meta["span"], 3)))
        bump(ctx, "value." + kind)
        if math.isnan(a) or math.isinf(a):
            out.append(fail("prop", "%s returned a non-finite value on a finite table" % kind, "call %d" % i)); nbad += 1
            continue
        d = abs(Fraction(a) - val)
        if scale > 0 and d > ATOL:
            r = float(d / (EPS * scale))
            if r > ctx.get("max_ratio", 0.0):
                ctx["max_ratio"] = r
                ctx["stats"]["max_ratio_x1000"] = int(r * 1000)
        if d > K_B * EPS * scale + ATOL:
            nbad += 1
            if nbad <= 2:
                clause = {"G": "Integrate differs from the exact integral of the model's cubic pieces",
                          "m": "Local_Minimum differs from the smallest of end values and knots i1+1..i2",
                          "M": "Local_Maximum differs from the largest of end values and knots i1+1..i2",
                          "gm": "Global_Minimum differs from prefactor-scaled table extremum",
                          "gM": "Global_Maximum differs from prefactor-scaled table extremum"}.get(o[0], "%s differs from the model" % kind)
                # the model's value is the property's value (theorems integ_*, localExt_*, prefactor_scaling): a difference
                # beyond rounding on this concrete request is a failing input
                out.append(fail("prop" if o[0] in ("G", "m", "M", "gm", "gM") else "corr", clause,
                                "call %d %s: impl %r model %r scale %r" % (i, " ".join(o), a, float(val), float(scale))))
    return out


def oracle(meta, ops, vi, vm, ctx):
    fam = meta["fam"]
    out = []
    np_ = meta["np"]

    if fam == "ext":
        m, M, gm, gM = vi[np_:np_ + 4]
        ns, nin, nzone = meta["ns"], meta["nin"], meta.get("nzone", 0)
        S = vi[np_ + 4:np_ + 4 + ns]
        Dv = vi[np_ + 4 + ns:np_ + 4 + ns + meta["nd"]]
        if any(v is None or math.isnan(v) for v in [m, M, gm, gM] + S):
            return [fail("prop", "non-finite extremum or sample", "")]
        p = meta["p"]
        ymax = abs(p) * meta["ymax"]
        # the only slack: rounding of one evaluation, relative to the terms of the cubic (not to its value)
        if vm is not None:
            sc_s = [float(v[1]) for v in vm[np_ + 4:np_ + 4 + nin + nzone]]
        else:
            ps = PyScale(meta["xs"], meta["ys"], p)
            sc_s = [ps.interp(fl(o[1])) for o in ops[np_ + 4:np_ + 4 + nin + nzone]]
        tol = K_EVAL * 2.0 ** -53 * max(sc_s[:nin])
        tolg = K_GLOBAL_1D * 2.0 ** -53 * max(abs(gm), abs(gM), ymax)
        lo, hi = min(S[:nin]), max(S[:nin])
        if lo < m - tol:
            out.append(fail("prop", "an evaluation inside [x1,x2] lies below Local_Minimum", "sample %r < %r" % (lo, m)))
        if hi > M + tol:
            out.append(fail("prop", "an evaluation inside [x1,x2] lies above Local_Maximum", "sample %r > %r" % (hi, M)))
        if nzone:
            Z = S[nin:nin + nzone]
            tolz = K_EVAL * 2.0 ** -53 * max(sc_s[nin:])
            if min(Z) < m - tolz or max(Z) > M + tolz:
                out.append(fail("prop", ZONE_CLAUSE, "samples %r..%r vs [%r,%r]" % (min(Z), max(Z), m, M)))
        if meta["allknots"]:
            if lo > m + tol:
                out.append(fail("prop", "Local_Minimum is not attained on [x1,x2] (end points and knots sampled)", "min sample %r, returned %r" % (lo, m)))
            if hi < M - tol:
                out.append(fail("prop", "Local_Maximum is not attained on [x1,x2] (end points and knots sampled)", "max sample %r, returned %r" % (hi, M)))
        # the 1% zone may leave the table's range: global bounds are claimed over the domain only
        dom = S[nin + nzone:]
        if dom and (min(dom) < gm - tolg or max(dom) > gM + tolg):
            out.append(fail("prop", "an evaluation in the domain lies outside [Global_Minimum, Global_Maximum]", "%r..%r vs [%r,%r]" % (min(dom), max(dom), gm, gM)))
        if gm > gM:
            out.append(fail("prop", "Global_Minimum > Global_Maximum", "%r %r" % (gm, gM)))
        # min x length <= Integrate <= max x length, in every family that asks for the extrema of a range
        gi = np_ + 4 + ns + meta["nd"]
        if gi < len(vi) and ops[gi][0] == "G" and vi[gi] is not None and not math.isnan(vi[gi]):
            ln = Fraction(fl(ops[gi][2])) - Fraction(fl(ops[gi][1]))
            if vm is not None:
                sI, es = vm[gi][1], max(vm[np_][1], vm[np_ + 1][1])
            else:
                psb = PyScale(meta["xs"], meta["ys"], p)
                sI, es = Fraction(psb.integ(fl(ops[gi][1]), fl(ops[gi][2]))), Fraction(max(psb.interp(fl(ops[gi][1])), psb.interp(fl(ops[gi][2]))))
            if STRICT_INTEG:
                tolb = 16 * EPS * max(abs(Fraction(m)), abs(Fraction(M)), es) * ln + ATOL
            else:
                tolb = K_B * EPS * sI + 4 * EPS * max(abs(Fraction(m)), abs(Fraction(M))) * ln + ATOL
            if Fraction(vi[gi]) < Fraction(m) * ln - tolb or Fraction(vi[gi]) > Fraction(M) * ln + tolb:
                out.append(fail("prop", "Integrate is outside [minimum x length, maximum x length] of the range",
                                "I = %r, length %r, Local_Minimum %r, Local_Maximum %r" % (vi[gi], float(ln), m, M)))
        # Set_Prefactor / Multiply change every output by exactly the factor (extrema swap for a negative one)
        nu = meta.get("nunit", 0)
        if nu:
            um, uM, ugm, ugM = vi[0:4]
            uS = vi[4:4 + nu]
            uD = vi[4 + nu:4 + nu + meta["nd"]]
            pairs = [("Interpolate", S[i], uS[i]) for i in range(nu)] + [("Derivative", Dv[i], uD[i]) for i in range(len(uD))]
            if p >= 0:
                pairs += [("Local_Minimum", m, um), ("Local_Maximum", M, uM), ("Global_Minimum", gm, ugm), ("Global_Maximum", gM, ugM)]
            else:
                pairs += [("Local_Minimum", m, uM), ("Local_Maximum", M, um), ("Global_Minimum", gm, ugM), ("Global_Maximum", gM, ugm)]
            for nm, got, u in pairs:
                if u is None or got is None or not (got == p * u or (math.isnan(got) and math.isnan(p * u))):
                    out.append(fail("prop", "%s after Set_Prefactor/Multiply is not exactly the factor times the unit-prefactor output" % nm,
                                    "factor %r, unit output %r, got %r" % (p, u, got)))
                    break
        ctx["nontrivial"].add(("oracle.ext", sgn_class(meta["p"]), min(meta["span"], 4), meta["allknots"], nzone > 0, nu > 0))
        if meta.get("cell"):   # Local_Minimum AND Local_Maximum are both asked in every request of a cell
            for ext in ("min", "max"):
                ctx["nontrivial"].add(("zone-cell",) + meta["cell"] + (ext,))
            bump(ctx, "zone-cell.%s.%s.%s" % meta["cell"])
    elif fam == "ext2":
        gm, gM = vi[np_:np_ + 2]
        S = [v for v, o in zip(vi[np_ + 2:], ops[np_ + 2:]) if o[0] == "I"]
        later = [i for i, o in enumerate(ops) if i > np_ + 2 and o[0] in ("P", "X")]
        if later:
            S = [v for v, o in zip(vi[np_ + 2:later[0]], ops[np_ + 2:later[0]]) if o[0] == "I"]
        if S:
            tolg = K_GLOBAL_2D * 2.0 ** -53 * max(abs(gm), abs(gM), abs(meta["p"]) * meta["ymax"])
            if min(S) < gm - tolg or max(S) > gM + tolg:
                out.append(fail("prop", "2-D: an evaluation lies outside [Global_Minimum, Global_Maximum]", "%r..%r vs [%r,%r]" % (min(S), max(S), gm, gM)))
        if gm > gM:
            out.append(fail("prop", "2-D: Global_Minimum > Global_Maximum", "%r %r" % (gm, gM)))
        ctx["nontrivial"].add(("oracle.ext2", sgn_class(meta["p"])))
    elif fam == "add":
        ab, bc, ac, ba, cb, ca, aa = vi[np_:np_ + 7]
        if not _finite([ab, bc, ac, ba, cb, ca, aa]):
            return [fail("prop", "Integrate returned a non-finite value on a finite table", "")]
        for u, v, nm in ((ab, ba, "a,b"), (bc, cb, "b,c"), (ac, ca, "a,c")):
            if not (u == -v):
                out.append(fail("prop", "Integrate is not antisymmetric under exchange of its limits", "I(%s)=%r, reversed %r" % (nm, u, v)))
        if aa != 0:
            out.append(fail("prop", "Integrate(a,a) is not zero", repr(aa)))
        lims = [(fl(ops[np_ + k][1]), fl(ops[np_ + k][2])) for k in range(3)]
        if vm is not None:
            scs = [vm[np_ + k][1] for k in range(3)]
        else:
            ps = PyScale(meta["xs"], meta["ys"], meta["p"])
            scs = [Fraction(ps.integ(u, v)) for u, v in lims]
        scale = scs[0] + scs[1] + scs[2]
        if abs(Fraction(ab) + Fraction(bc) - Fraction(ac)) > 4 * K_B * EPS * scale + ATOL:
            out.append(fail("prop", "Integrate is not additive over adjacent intervals", "I(a,b)+I(b,c)-I(a,c) = %r" % (ab + bc - ac)))
        # min*len <= Integrate <= max*len (curve extrema over the range from Local_Minimum/Maximum and from the model)
        la, lb = lims[0]
        Iab, lo_, hi_ = (ab, la, lb) if la <= lb else (ba, lb, la)
        mn, mx = vi[np_ + 7], vi[np_ + 8]
        dom_lo, dom_hi = meta["xs"][0], meta["xs"][-1]
        if _finite([mn, mx]):
            ln = Fraction(hi_) - Fraction(lo_)
            sI = (vm[np_][1] if la <= lb else vm[np_ + 3][1]) if vm is not None else scs[0]
            if STRICT_INTEG:   # 16 eps x max|curve| x length, |curve| including the terms of the cubic at the limits
                es = max(vm[np_ + 7][1], vm[np_ + 8][1]) if vm is not None else Fraction(max(PyScale(meta["xs"], meta["ys"], meta["p"]).interp(lo_), PyScale(meta["xs"], meta["ys"], meta["p"]).interp(hi_)))
                tolb = 16 * EPS * max(abs(Fraction(mn)), abs(Fraction(mx)), es) * ln + ATOL
            else:
                tolb = K_B * EPS * sI + 4 * EPS * max(abs(Fraction(mn)), abs(Fraction(mx))) * ln + ATOL
            cands = [("Local_Minimum/Maximum", Fraction(mn), Fraction(mx))]
            if vm is not None:
                cands.append(("the model's curve extrema", vm[np_ + 7][0], vm[np_ + 8][0]))
            for nm, cmn, cmx in cands:
                if Fraction(Iab) < cmn * ln - tolb or Fraction(Iab) > cmx * ln + tolb:
                    out.append(fail("prop", "Integrate is outside [minimum x length, maximum x length] of the range",
                                    "I = %r, length %r, extrema (%s) %r..%r" % (Iab, float(ln), nm, float(cmn), float(cmx))))
                    break
            ctx["nontrivial"].add(("oracle.bounds", sgn_class(meta["p"])))
        q = meta.get("q")
        if q is not None and len(vi) >= np_ + 13:
            ab2, bc2, ac2 = vi[np_ + 10:np_ + 13]
            if not _finite([ab2, bc2, ac2]):
                return out + [fail("prop", "Integrate returned a non-finite value on a finite table", "")]
            qa = abs(Fraction(q))
            # a power of two commutes with every rounding; with the repaired code (prefactor applied once to the sum) every factor
            # gives exactly factor x unit-prefactor answer — when the first block was asked at the unit prefactor
            pow2 = math.frexp(abs(q))[0] == 0.5 or (STRICT_INTEG and np_ == 0)
            for k, (u1, u2) in enumerate(((ab, ab2), (bc, bc2), (ac, ac2))):
                if pow2:   # a power of two commutes with every rounding: bit-equal
                    bad = not (u2 == q * u1)
                else:
                    bad = abs(Fraction(u2) - Fraction(q) * Fraction(u1)) > 8 * K_B * EPS * qa * scs[k] + ATOL * max(qa, 1)
                if bad:
                    out.append(fail("prop", "Integrate does not scale by the factor of a Multiply applied between queries",
                                    "before %r, Multiply(%r), after %r" % (u1, q, u2)))
                    break
            if abs(Fraction(ab2) + Fraction(bc2) - Fraction(ac2)) > 4 * K_B * EPS * qa * scale + ATOL * max(qa, 1):
                out.append(fail("prop", "Integrate is not additive over adjacent intervals (after Multiply)", "%r" % (ab2 + bc2 - ac2)))
        ctx["nontrivial"].add(("oracle.add", sgn_class(meta["p"]), q is not None))
    elif fam == "fd":
        g1, g2, pb, pm, pb2 = vi[np_:np_ + 5]
        if not _finite([g1, g2, pb, pm, pb2]):
            return [fail("prop", "Integrate/Interpolate returned a non-finite value on a finite table", "")]
        a0 = fl(ops[np_][1])
        bf, b2f, mf = fl(ops[np_][2]), fl(ops[np_ + 1][2]), fl(ops[np_ + 3][1])
        b = Fraction(bf); b2 = Fraction(b2f)
        d = b2 - b
        lhs = Fraction(g2) - Fraction(g1)
        rhs = d * (Fraction(pb) + 4 * Fraction(pm) + Fraction(pb2)) / 6
        if vm is not None:
            scale = vm[np_][1] + vm[np_ + 1][1] + d * (vm[np_ + 2][1] + 4 * vm[np_ + 3][1] + vm[np_ + 4][1])
        else:
            ps = PyScale(meta["xs"], meta["ys"], meta["p"])
            scale = Fraction(ps.integ(a0, bf)) + Fraction(ps.integ(a0, b2f)) + d * (
                Fraction(ps.interp(bf)) + 4 * Fraction(ps.interp(mf)) + Fraction(ps.interp(b2f)))
        if abs(lhs - rhs) > 4 * K_B * EPS * scale + ATOL:
            out.append(fail("prop", "difference quotient of Integrate w.r.t. its upper limit is not the Simpson mean of Interpolate (exact on a cubic piece)",
                            "I(a,b+d)-I(a,b) = %r, d*(P+4P+P)/6 = %r" % (float(lhs), float(rhs))))
        ctx["nontrivial"].add(("oracle.fd", sgn_class(meta["p"]), d == 0))
    return out


def oracle_only(rq, impl, ctx):
    if crashed(impl):
        return [fail("prop", "crash/sanitizer/silent exit: " + tag(impl), impl[:200])]
    if tag(impl) != "ok":
        return []
    op = rq.split(" ", 1)[0]
    twod = op == "c08.seq2"
    meta = ctx.get("meta", {}).get(rq)
    if not meta:
        return []
    ops = split_ops(skip_table(rq.split()[1:], twod), twod)
    try:
        vi = impl_values(toks(impl))
    except (ValueError, IndexError):
        return []
    if len(vi) != len(ops):
        return []
    return oracle(meta, ops, vi, None, ctx)
