"""C05 — Inverse and Determinant are correct for every square matrix.

Class B against the exact rational determinant / inverse of the Lean model (Laplace expansion and
Gauss-Jordan with partial pivoting as coded), class A for the outcome (diagnostic exit for singular
and non-square requests).  Property oracle (independent of the model): exact determinant and
inverse by fraction elimination in Python; X*M = I and M*X = I evaluated with exact Fraction
arithmetic on the doubles the implementation returned.
"""
import itertools, math, random
from fractions import Fraction
from common import *

RULE = ("for every size n = 1..7 and every family (dense integer / dyadic / uniform, permutation, signed scaled "
        "permutation, zero and tiny leading principal minors, upper/lower triangular, diagonal, symmetric, exactly "
        "rank-deficient small-integer, graded condition number 1e1..1e8, row/column scaled) matrices are drawn from "
        "VERIF_SEED; non-square shapes for the guards. Invertible requests keep |det| >= 2^-36 * prod_i(sum_j |a_ij|) and "
        "kappa_inf <= 1e8 (nearly singular matrices are outside the quantifier: Invertible() tests the floating-point "
        "determinant against 0.0); exactly singular requests have small integer entries, for which the double-precision "
        "Laplace expansion is exact. A case is non-trivial when the model answers ok or err; counted once per "
        "(operation, size, family, outcome).")
CORR_ONLY = ["the constants c of the accuracy clauses (c*n*kappa*eps for X and X*M, c*n*kappa^2*eps for M*X; "
             "K*eps*permanent(|A|) for the determinant) are calibrated, not proved (floating-point backward error)"]
ASSUMPTIONS = ["no margin between 'invertible' and 'nearly singular' any more: every matrix with kappa_inf <= 1e8 is requested (audit 2, P1); "
               "should the floating-point determinant of such a matrix be exactly 0, Invertible()/Inverse() follow it and the request alarms",
               "the determinant is representable: matrices whose exact determinant is non-zero but rounds to 0 in double (|det| < 2^-1074, "
               "e.g. 2^-540 * I_2) are outside the quantifier - Determinant() returns the correctly rounded value 0 for them and "
               "Invertible()/Inverse() follow that value (audit item 15)",
               "kappa_inf = |M|_inf * |M^-1|_inf computed exactly; eps = 2^-53",
               "Invertible() is decided by the floating-point determinant: requests keep a relative margin from det = 0"]
TRUSTED = ["props/c05.py: exact fraction elimination (determinant, inverse) used by the oracle"]

C_INV = 2           # c of the inverse accuracy clause (audit 2: worst observed 0.89)
C_LU = 4            # Determinant against a pivoted-LU reference: |d - det| <= C_LU * n * kappa_inf * eps * |det|
K_LAW = 8           # determinant laws on general doubles: K_LAW * eps * permanent scale
KAPPA_MAX = 10 ** 8
# clauses that wait for a decision of the integrator (a patch applied to /repo or a known-finding entry): while an id is
# listed here its clause is only counted (evidence: input_distribution 'pending-<id>'); LP_ASSUME_FIXED=<id,...> makes it strict
PENDING = set()          # P1 decided: known finding C05-laplace-cancellation


def pending(pid):
    import os
    return pid in PENDING and pid not in os.environ.get("LP_ASSUME_FIXED", "").split(",")

# exactly singular (exact rank) AND Determinant() != 0 AND Inverse returned normally: audit defect 1
# audit 2, P1: the cofactor expansion carries an absolute error ~ eps*perm(|A|) whatever the condition number; when the exact
# determinant is smaller than that (several small singular values) the result misses the accuracy a pivoted-LU reference
# has, up to the wrong sign.  Emitted ONLY when the absolute clause (n+2)*eps*perm(|A|) holds and the relative one fails,
# i.e. only for (n+2)*eps*perm(|A|) > C_LU*n*kappa_inf*eps*|det A|.
P1_CLAUSE = ("Determinant (cofactor expansion) is within (n+2)*eps*perm(|A|) of the exact determinant but misses the accuracy of a "
             "pivoted-LU reference, C_LU*n*kappa_inf*eps*|det A|, with C_LU = 4 (cancellation in the expansion: exact |det A| < "
             "(n+2)*perm(|A|)/(4*n*kappa_inf))")
RESIDUE_CLAUSE = "exactly singular matrix whose Determinant() is a non-zero rounding residue: Inverse returned numbers instead of a diagnostic"


def mat_tok(M):
    r = len(M); c = len(M[0]) if r else 0
    return " ".join([str(r), str(c)] + [hx(x) for row in M for x in row])


# ---- exact linear algebra on Fractions -------------------------------------------------------------

def fdet(M):
    n = len(M)
    A = [[Fraction(x) for x in r] for r in M]
    d = Fraction(1)
    for i in range(n):
        p = next((r for r in range(i, n) if A[r][i] != 0), None)
        if p is None:
            return Fraction(0)
        if p != i:
            A[i], A[p] = A[p], A[i]; d = -d
        d *= A[i][i]
        for r in range(i + 1, n):
            if A[r][i] != 0:
                f = A[r][i] / A[i][i]
                A[r] = [x - f * y for x, y in zip(A[r], A[i])]
    return d


def finv(M):
    n = len(M)
    A = [[Fraction(x) for x in r] + [Fraction(int(i == j)) for j in range(n)] for i, r in enumerate(M)]
    for i in range(n):
        p = next((r for r in range(i, n) if A[r][i] != 0), None)
        if p is None:
            return None
        A[i], A[p] = A[p], A[i]
        piv = A[i][i]
        A[i] = [x / piv for x in A[i]]
        for r in range(n):
            if r != i and A[r][i] != 0:
                f = A[r][i]
                A[r] = [x - f * y for x, y in zip(A[r], A[i])]
    return [r[n:] for r in A]


def ninf(M):
    return max((sum(abs(Fraction(x)) for x in r) for r in M), default=Fraction(0))


def rowprod(M):
    p = Fraction(1)
    for r in M:
        p *= sum(abs(Fraction(x)) for x in r)
    return p


def mmul(A, B):
    return [[sum((Fraction(A[i][k]) * Fraction(B[k][j]) for k in range(len(B))), Fraction(0)) for j in range(len(B[0]))]
            for i in range(len(A))]


# ---- families ----------------------------------------------------------------------------------------

def fam_matrix(rng, n, fam):
    ri = lambda lo, hi: float(rng.randint(lo, hi))
    if fam == "int":
        return [[ri(-9, 9) for _ in range(n)] for _ in range(n)]
    if fam == "dyadic":
        return [[dyadic(rng, -8, 8, 4) for _ in range(n)] for _ in range(n)]
    if fam == "uniform":
        return [[rng.uniform(-1, 1) for _ in range(n)] for _ in range(n)]
    if fam in ("perm", "sperm"):
        p = list(range(n)); rng.shuffle(p)
        if n >= 2 and p == sorted(p):
            p[0], p[1] = p[1], p[0]
        M = [[0.0] * n for _ in range(n)]
        for i in range(n):
            M[i][p[i]] = 1.0 if fam == "perm" else rng.choice([-1, 1]) * rng.choice([0.5, 1.0, 2.0, 3.0, 0.1, 7.5])
        return M
    if fam == "zeromin":     # zero leading principal minors: zero diagonal prefix / singular leading block
        M = [[ri(-5, 5) for _ in range(n)] for _ in range(n)]
        k = rng.randint(1, n)
        for i in range(k):
            M[i][i] = 0.0
        if n >= 3 and rng.random() < 0.5:
            M[1] = M[0][:2] + M[1][2:]       # leading 2x2 block singular
        return M
    if fam == "tinymin":     # tiny leading pivots
        M = [[rng.uniform(-1, 1) for _ in range(n)] for _ in range(n)]
        k = rng.randint(1, n)
        for i in range(k):
            M[i][i] = rng.choice([1e-20, -1e-18, 1e-14, 1e-30])
        return M
    if fam in ("upper", "lower"):
        M = [[rng.uniform(-2, 2) for _ in range(n)] for _ in range(n)]
        for i in range(n):
            for j in range(n):
                if (fam == "upper" and j < i) or (fam == "lower" and j > i):
                    M[i][j] = 0.0
            M[i][i] = rng.choice([-1, 1]) * rng.uniform(0.5, 3)
        return M
    if fam == "diag":
        M = [[0.0] * n for _ in range(n)]
        for i in range(n):
            M[i][i] = rng.choice([-1, 1]) * 10.0 ** rng.uniform(-3, 3)
        return M
    if fam == "sym":
        M = [[ri(-6, 6) + rng.choice([0.0, 0.5]) for _ in range(n)] for _ in range(n)]
        for i in range(n):
            for j in range(i):
                M[i][j] = M[j][i]
        return M
    if fam == "rankdef":     # exactly singular, small integers (double Laplace expansion exact)
        M = [[ri(-2, 2) for _ in range(n)] for _ in range(n)]
        if n == 1:
            return [[0.0]]
        c = rng.random()
        r = rng.randrange(n)
        others = [i for i in range(n) if i != r]
        if c < 0.3:
            M[r] = [0.0] * n
        elif c < 0.6 or n == 2:
            p = rng.choice(others); s = rng.choice([1.0, -1.0, 2.0])
            M[r] = [s * x for x in M[p]]
        elif c < 0.8:
            p, q = rng.sample(others, 2)
            M[r] = [x + y for x, y in zip(M[p], M[q])]
        else:
            p = rng.choice(others)
            for i in range(n):
                M[i][r] = M[i][p]
        return M
    if fam == "rankdef_inexact":
        # exactly singular, small integers, but the elimination ratios (7/3, 4/9, ...) are not representable:
        # a pivot that is exactly 0 in exact arithmetic is rounded to ~1e-16 in floating point
        if n < 3:
            return fam_matrix(rng, n, "rankdef")
        while True:
            M = [[float(rng.choice([1, 2, 3, 4, 5, 6, 7, 8, 9, 3, 7])) * rng.choice([1, 1, 1, -1]) for _ in range(n)] for _ in range(n)]
            c = rng.random()
            r = rng.randrange(n); others = [i for i in range(n) if i != r]
            if c < 0.45:
                p, q = rng.sample(others, 2)
                M[r] = [x + y for x, y in zip(M[p], M[q])]
            elif c < 0.7:
                p, q = rng.sample(others, 2)
                M[r] = [2 * x - y for x, y in zip(M[p], M[q])]
            elif c < 0.85:
                p, q = rng.sample(others, 2)
                for i in range(n):
                    M[i][r] = M[i][p] + M[i][q]
            else:       # arithmetic progression rows: 1..n^2 pattern, rank 2
                s0 = rng.randint(1, 3)
                M = [[float(s0 + i * n + j) for j in range(n)] for i in range(n)]
            if n >= 5 and rng.random() < 0.5:   # lower the rank further
                r2 = rng.choice(others); o2 = [i for i in range(n) if i not in (r, r2)]
                p, q = rng.sample(o2, 2)
                M[r2] = [x - y for x, y in zip(M[p], M[q])]
            if fdet(M) == 0:
                return M
    if fam == "graded":      # rank-deficient integer matrix + t * integer matrix: kappa ~ 1/t
        B = fam_matrix(rng, n, "rankdef")
        t = 10.0 ** -rng.randint(1, 7)
        return [[B[i][j] + t * ri(-3, 3) for j in range(n)] for i in range(n)]
    if fam == "scaled":      # moderate row/column scaling of an integer matrix (powers of two)
        B = fam_matrix(rng, n, "int")
        dr = [2.0 ** rng.randint(-6, 6) for _ in range(n)]; dc = [2.0 ** rng.randint(-6, 6) for _ in range(n)]
        return [[dr[i] * B[i][j] * dc[j] for j in range(n)] for i in range(n)]
    raise ValueError(fam)



def three_scale(rng, n, k, order):
    """[[D, U], [0, B]]: at elimination step k the pivot column holds three scales (tiny ~1e-13, O(1), small ~1e-9) in the
    given order at (diagonal, a middle row, a later row); well-conditioned (kappa <= 1e3)"""
    s_ = n - k
    for _ in range(200):
        M = [[0.0] * n for _ in range(n)]
        for i in range(k):
            M[i][i] = rng.choice([-1, 1]) * rng.uniform(0.5, 2)
            for j in range(k, n):
                M[i][j] = rng.uniform(-1, 1)
        for i in range(k, n):
            for j in range(k + 1, n):
                M[i][j] = rng.uniform(-1, 1)
        rows = sorted(rng.sample(range(k + 1, n), 2))
        pos = [k] + rows
        scale = {"tiny": lambda: rng.choice([-1, 1]) * rng.uniform(1, 9) * 1e-13,
                 "one": lambda: rng.choice([-1, 1]) * rng.uniform(0.5, 1),
                 "small": lambda: rng.choice([-1, 1]) * rng.uniform(1, 9) * 1e-9}
        for i in range(k, n):
            M[i][k] = rng.choice([0.0, 1e-15 * rng.uniform(-1, 1)])
        for pp, nm in zip(pos, order):
            M[pp][k] = scale[nm]()
        ok, kap = admissible(M)
        if ok and kap is not None and kap <= 1000:
            return M
    return None


def residue_singular(rng, n):
    """exactly singular with non-dyadic entries: a row (column) is +-1, +-2, +-4, 1/2 times another one, bit for bit; the
    floating-point Laplace determinant may carry a rounding residue"""
    M = [[rng.randint(-9, 9) / 10.0 for _ in range(n)] for _ in range(n)]
    for i in range(n):
        if all(x == 0 for x in M[i]):
            M[i][0] = 0.3
    r, p_ = rng.sample(range(n), 2)
    mult = rng.choice([1.0, -1.0, 2.0, -2.0, 4.0, 0.5])
    # dependence between rows or between columns.  (Column dependence was a finding on the tree before f4da51d: the
    # residues the elimination leaves in a finished column became the pivot of the dependent column and Inverse
    # returned inf with exit status 0; replays/C05-quick-2.json.)
    if rng.random() < 0.6:
        M[r] = [mult * x for x in M[p_]]
    else:
        for i in range(n):
            M[i][r] = mult * M[i][p_]
    assert fdet(M) == 0
    return M



def rankdef_wide(rng, n):
    """exactly rank-deficient matrices whose entries need 14..24 bits (float32-sized integers, float32 values, random
    doubles): a row (column) is the exact sum / difference of two others, or an exact copy; the exact rank is decided
    with Fractions.  The floating-point Laplace determinant of these is in general a non-zero rounding residue."""
    kind = rng.choice(["int20", "int20", "f32", "f32", "dbl"])
    def e():
        if kind == "int20":
            return float(rng.randint(-2 ** 19, 2 ** 19))
        if kind == "f32":
            return float(rng.randint(-2 ** 23, 2 ** 23)) * 2.0 ** -20        # 24-bit mantissa, common exponent range
        return rng.uniform(-1, 1)
    for _ in range(50):
        M = [[e() for _ in range(n)] for _ in range(n)]
        r = rng.randrange(n); others = [i for i in range(n) if i != r]
        c = rng.random()
        if kind == "dbl" or n == 2 or c < 0.2:
            p_ = rng.choice(others); m_ = rng.choice([1.0, -1.0, 2.0, 0.5])
            if rng.random() < 0.5:
                M[r] = [m_ * x for x in M[p_]]
            else:
                for i in range(n):
                    M[i][r] = m_ * M[i][p_]
        elif c < 0.7:
            p_, q_ = rng.sample(others, 2); sg = rng.choice([1, -1])
            M[r] = [x + sg * y for x, y in zip(M[p_], M[q_])]
        else:
            p_, q_ = rng.sample(others, 2)
            for i in range(n):
                M[i][r] = M[i][p_] + M[i][q_]
        if fdet(M) == 0:
            return M
    return None



def overflow_cofactor(rng, n):
    """first row (x, 0, ..., 0) (or lower triangular): the cofactors of the zero entries overflow (huge first-column / sub-diagonal
    entries) while the determinant itself is moderate - 0 * inf = NaN before fix 07c574c"""
    big = lambda: rng.choice([-1, 1]) * rng.uniform(1, 9) * 10.0 ** rng.randint(150, 200)
    if rng.random() < 0.5:      # lower triangular, huge sub-diagonal entries, moderate diagonal
        M = [[0.0] * n for _ in range(n)]
        for i in range(n):
            M[i][i] = rng.choice([-1, 1]) * rng.uniform(0.5, 2)
            for j in range(i):
                M[i][j] = big() if rng.random() < 0.7 else rng.uniform(-1, 1)
        return M
    M = [[rng.uniform(-1, 1) for _ in range(n)] for _ in range(n)]
    M[0] = [rng.choice([-1, 1]) * rng.uniform(0.5, 2)] + [0.0] * (n - 1)
    for i in range(1, n):
        M[i][0] = big()
    return M



def orthogonal(rng, n):
    """a random nearly orthogonal matrix in doubles (Gram-Schmidt)"""
    Q = []
    while len(Q) < n:
        v = [rng.gauss(0, 1) for _ in range(n)]
        for q in Q:
            dq = sum(a * b for a, b in zip(v, q)); v = [a - dq * b for a, b in zip(v, q)]
        nv = math.sqrt(sum(a * a for a in v))
        if nv > 1e-3:
            Q.append([a / nv for a in v])
    return Q


def multi_small_sv(rng, n, kappa, profile):
    """U * diag(sigma) * V^T with several small singular values: geometric profile 1 .. 1/kappa, or {1, 1/k, ..., 1/k}"""
    if profile == "geometric":
        sig = [kappa ** (-i / (n - 1.0)) for i in range(n)] if n > 1 else [1.0]
    elif profile == "two_small":
        sig = [1.0] * (n - 2) + [kappa ** -0.5, 1.0 / kappa]
    else:
        m_ = max(1, n // 2)
        sig = [1.0] * (n - m_) + [1.0 / kappa] * m_
    U, V = orthogonal(rng, n), orthogonal(rng, n)
    return [[sum(U[i][k] * sig[k] * V[j][k] for k in range(n)) for j in range(n)] for i in range(n)]


def tiny_scale(rng, n):
    """well-conditioned matrix times a scale that puts the determinant into the subnormal range (non-zero)"""
    kind = rng.choice(["id", "sperm", "upper", "int"])
    for _ in range(100):
        if kind == "id":
            B = [[1.0 if i == j else 0.0 for j in range(n)] for i in range(n)]
        elif kind == "sperm":
            B = fam_matrix(rng, n, "sperm")
        elif kind == "upper":
            B = fam_matrix(rng, n, "upper")
        else:
            B = fam_matrix(rng, n, "int")
        if fdet(B) == 0:
            continue
        e = (rng.uniform(308.5, 318.0) if n > 1 else rng.uniform(307.7, 308.25)) / n
        sc = 10.0 ** (-e)
        M = [[x * sc for x in row] for row in B]
        d = fdet(M)
        if d != 0 and Fraction(2) ** -1070 < abs(d) < Fraction(2) ** -1022:
            ok, kap = admissible(M)
            if ok and kap is not None and kap <= 1000 and ninf(finv(M)) < Fraction(10) ** 307:
                return M
    return None


FAMS = ["rankdef_inexact", "int", "dyadic", "uniform", "perm", "sperm", "zeromin", "tinymin", "upper", "lower", "diag", "sym", "rankdef",
        "graded", "scaled"]


def admissible(M):
    """exactly singular with small integers, or invertible with kappa_inf <= 1e8 (no further margin: audit 2, P1)"""
    d = fdet(M)
    if d == 0:
        return all(float(x).is_integer() and abs(x) <= 40 for r in M for x in r) and len(M) <= 7, None
    X = finv(M)
    kap = ninf(M) * ninf(X)
    return kap <= KAPPA_MAX, kap


def generate(tier, seed, ctx):
    rng = random.Random(seed * 15485863 + 5)
    thorough = tier == "thorough"
    R = []
    ctx["fam"] = {}
    reps = 6 if thorough else 2
    for n in range(1, 8):
        for fam in FAMS:
            got = 0; tries = 0
            while got < reps and tries < 40:
                tries += 1
                M = fam_matrix(rng, n, fam)
                ok, kap = admissible(M)
                if not ok:
                    bump(ctx, "skipped-outside-quantifier")
                    continue
                got += 1
                m = mat_tok(M)
                for op in ("c05.det", "c05.invertible", "c05.inverse"):
                    R.append(op + " " + m); ctx["fam"][R[-1]] = fam
                if kap is None or fam in ("int", "zeromin", "perm"):
                    R.append("c05.gate " + m); ctx["fam"][R[-1]] = fam
    # more exactly singular matrices with inexact elimination ratios, sizes 3..6
    for n in range(3, 7):
        for _ in range(12 if thorough else 4):
            M = fam_matrix(rng, n, "rankdef_inexact")
            R.append("c05.gate " + mat_tok(M)); ctx["fam"][R[-1]] = "rankdef_inexact"
            R.append("c05.inverse " + mat_tok(M)); ctx["fam"][R[-1]] = "rankdef_inexact"
    for M in ([[1.0, 2.0, 3.0], [4.0, 5.0, 6.0], [7.0, 8.0, 9.0]], [[float(4 * i + j + 1) for j in range(4)] for i in range(4)],
              [[3.0, 1.0, 2.0], [7.0, 5.0, 1.0], [10.0, 6.0, 3.0]],
              [[1.0, 2.0, 3.0, 4.0, 5.0], [2.0, 7.0, 1.0, 8.0, 3.0], [3.0, 9.0, 4.0, 12.0, 8.0], [5.0, 3.0, 9.0, 1.0, 7.0], [7.0, 10.0, 10.0, 9.0, 10.0]]):
        for op in ("c05.gate", "c05.det", "c05.invertible", "c05.inverse"):
            R.append(op + " " + mat_tok(M)); ctx["fam"][R[-1]] = "corpus-singular"
    # three scales in the pivot column, every order, every elimination step
    import itertools as _it
    for n in range(3, 8):
        for k in range(0, n - 2):
            orders = list(_it.permutations(["tiny", "one", "small"]))
            if not thorough:
                orders = [("tiny", "one", "small")] + rng.sample(orders[1:], 2)
            for order in orders:
                M = three_scale(rng, n, k, order)
                if M is None:
                    bump(ctx, "skipped-outside-quantifier"); continue
                R.append("c05.inverse " + mat_tok(M)); ctx["fam"][R[-1]] = "three_scale"
    # exactly singular, non-dyadic entries (the double determinant may be a rounding residue)
    for n in range(2, 7):
        for _ in range(12 if thorough else 6):
            M = residue_singular(rng, n)
            R.append("c05.gate " + mat_tok(M)); ctx["fam"][R[-1]] = "residue_singular"
            R.append("c05.inverse " + mat_tok(M)); ctx["fam"][R[-1]] = "residue_singular"
    col_dep = [[-0.5, -0.4, -0.0, -0.2, 0.4, 0.0], [0.6, 0.1, 0.6, 0.0, 0.3, -0.6], [0.1, 0.1, -0.6, 0.9, -0.8, 0.6],
               [0.2, 0.6, -0.0, 0.1, -0.5, 0.0], [-0.4, 0.0, 0.5, 0.5, -0.3, -0.5], [-0.9, -0.2, -0.4, 0.8, 0.0, 0.4]]   # col5 = -col2
    for M in (col_dep, [[0.1, -0.8, -0.1], [0.2, -1.6, -0.2], [-0.3, 0.8, -0.6]], [[0.3, 0.7], [0.3, 0.7]], [[0.1, 0.2, 0.7], [0.9, 0.4, 0.3], [0.1, 0.2, 0.7]]):
        R.append("c05.gate " + mat_tok(M)); ctx["fam"][R[-1]] = "residue_singular"
        R.append("c05.inverse " + mat_tok(M)); ctx["fam"][R[-1]] = "residue_singular"
    # several small singular values, kappa 1e6..1e8 (audit 2, P1: KNOWN FINDING C05-laplace-cancellation).  The deterministic part
    # runs in every tier so that the known-finding line is printed at every seed.
    p1_rng = random.Random(20260928)
    p1 = [[[1.000002, -0.6, 0.0, 0.1, 0.7], [0.7, 0.200002, -0.5, -0.5, 0.8], [0.3, -0.8, 0.500002, 0.6, -0.1],
           [-0.4, -1.0, 1.0, 1.100002, -0.9], [1.0, -0.6, 0.0, 0.1, 0.700001]]]
    for n in (4, 5, 6, 7):
        for prof in ("geometric", "two_small", "half_small"):
            p1.append(multi_small_sv(p1_rng, n, 10.0 ** p1_rng.uniform(6.3, 7.6), prof))
    for _ in range(40 if thorough else 6):
        n = rng.randint(3, 7)
        p1.append(multi_small_sv(rng, n, 10.0 ** rng.uniform(5.5, 7.8), rng.choice(["geometric", "two_small", "half_small"])))
    for M in p1:
        ok, kap = admissible(M)
        if not ok:
            bump(ctx, "skipped-outside-quantifier"); continue
        m = mat_tok(M)
        for op in ("c05.det", "c05.inverse", "c05.gate"):
            R.append(op + " " + m); ctx["fam"][R[-1]] = "multi_small_sv"
        R.append("c05.detlaws %s %s" % (m, mat_tok(multi_small_sv(p1_rng if M in p1[:13] else rng, len(M), 100.0, "geometric")))); ctx["fam"][R[-1]] = "multi_small_sv"
    # vanishing first-row entries with overflowing cofactors (fix 07c574c)
    for n in range(3, 8):
        for _ in range(6 if thorough else 2):
            M = overflow_cofactor(rng, n)
            if fdet(M) != 0:
                R.append("c05.det " + mat_tok(M)); ctx["fam"][R[-1]] = "overflow_cofactor"
    for M in ([[1.0, 0.0, 0.0], [1e155, 1.0, 0.0], [1.0, 1e155, 1.0]],
              [[1e200, 0.0, 0.0, 0.0], [0.0, 1e-200, 0.0, 0.0], [3.0, 1e200, 1e200, 0.0], [1.0, 2.0, 1e200, 1e-200]]):
        R.append("c05.det " + mat_tok(M)); ctx["fam"][R[-1]] = "overflow_cofactor"
    # exactly rank-deficient, entries of 14..24 bits: KNOWN FINDING C05-singular-residue (audit defect 1, RESIDUE_CLAUSE).
    # A deterministic part runs in every tier so that the known-finding line is printed at every seed.
    det_rng = random.Random(20260927)
    fixed = [[[169173.0, -293464.0, 272406.0], [-284189.0, 388663.0, 55826.0], [-115016.0, 95199.0, 328232.0]]]
    for n in (3, 4, 5, 6):
        for _ in range(3):
            M = rankdef_wide(det_rng, n)
            if M is not None:
                fixed.append(M)
    for M in fixed:
        R.append("c05.gate " + mat_tok(M)); ctx["fam"][R[-1]] = "rankdef_wide"
    for n in range(2, 8):
        for _ in range(20 if thorough else 2):
            M = rankdef_wide(rng, n)
            if M is not None:
                R.append("c05.gate " + mat_tok(M)); ctx["fam"][R[-1]] = "rankdef_wide"
    # determinant in the subnormal range, matrix well-conditioned
    for n in range(1, 8):
        for _ in range(6 if thorough else 3):
            M = tiny_scale(rng, n)
            if M is None:
                bump(ctx, "skipped-outside-quantifier"); continue
            R.append("c05.gate " + mat_tok(M)); ctx["fam"][R[-1]] = "tiny_scale"
    for M in ([[1e-308]], [[1e-160, 0.0], [0.0, 1e-160]], [[0.0, 1e-105, 0.0], [0.0, 0.0, -1e-105], [1e-105, 0.0, 0.0]],
              [[1e-79 * (1.0 + j - i) if j >= i else 0.0 for j in range(4)] for i in range(4)]):
        R.append("c05.gate " + mat_tok(M)); ctx["fam"][R[-1]] = "tiny_scale"
    # the defect of the pinned tree as a fixed corpus
    for M in ([[0.0, 1.0], [1.0, 0.0]], [[1e-20, 1.0], [1.0, 1.0]], [[0.0, 0.0, 1.0], [0.0, 1.0, 0.0], [1.0, 0.0, 0.0]],
              [[0.0, 2.0, 0.0], [0.0, 0.0, 3.0], [5.0, 0.0, 0.0]], [[1.0, 2.0], [2.0, 4.0]], [[0.0]], [[-4.0]]):
        for op in ("c05.det", "c05.invertible", "c05.inverse"):
            R.append(op + " " + mat_tok(M)); ctx["fam"][R[-1]] = "corpus"
    # laws on small integers (all double arithmetic exact)
    for _ in range(120 if thorough else 40):
        n = rng.randint(1, 5)
        A = [[float(rng.randint(-3, 3)) for _ in range(n)] for _ in range(n)]
        B = [[float(rng.randint(-3, 3)) for _ in range(n)] for _ in range(n)]
        if rng.random() < 0.2:
            A = fam_matrix(rng, n, "rankdef")
        R.append("c05.detlaws %s %s" % (mat_tok(A), mat_tok(B))); ctx["fam"][R[-1]] = "laws"
    # the laws on general doubles
    for _ in range(200 if thorough else 60):
        n = rng.randint(1, 6)
        kind = rng.choice(["uniform", "mixed", "dyadic"])
        def gm():
            if kind == "uniform":
                return [[rng.uniform(-1, 1) for _ in range(n)] for _ in range(n)]
            if kind == "mixed":
                return [[mixed_magnitude(rng, -3, 3) for _ in range(n)] for _ in range(n)]
            return [[dyadic(rng, -8, 8, 4) for _ in range(n)] for _ in range(n)]
        R.append("c05.detlaws %s %s" % (mat_tok(gm()), mat_tok(gm()))); ctx["fam"][R[-1]] = "laws-general"
    # guards: non-square
    for r in range(1, 6):
        for c in range(1, 6):
            if r != c:
                M = [[float(rng.randint(-3, 3)) for _ in range(c)] for _ in range(r)]
                for op in ("c05.det", "c05.invertible", "c05.inverse"):
                    R.append(op + " " + mat_tok(M)); ctx["fam"][R[-1]] = "nonsquare"
    ctx["worst"] = dict(det=0.0, inv=0.0, xm=0.0, mx=0.0)
    return R


def parse_mat(a, pos=0):
    r, c = int(a[pos]), int(a[pos + 1])
    es = [fl(t) for t in a[pos + 2:pos + 2 + r * c]]
    return [es[i * c:(i + 1) * c] for i in range(r)], pos + 2 + r * c



def fperm(M):
    """permanent of |M| in floating point, rounded up a little (a scale, not a value)"""
    n = len(M)
    A = [[abs(float(x)) for x in r] for r in M]
    def rec(rows, cols):
        if len(rows) == 1:
            return A[rows[0]][cols[0]]
        i = rows[0]
        return sum(A[i][j] * rec(rows[1:], cols[:k] + cols[k + 1:]) for k, j in enumerate(cols) if A[i][j] != 0)
    return Fraction(rec(list(range(n)), list(range(n))) * (1 + 1e-9)) if n else Fraction(0)


def triangular(M):
    n = len(M)
    up = all(M[i][j] == 0 for i in range(n) for j in range(i))
    lo = all(M[i][j] == 0 for i in range(n) for j in range(i + 1, n))
    return up or lo


def diag_product(M):
    """the product of the diagonal nested from the right, a00*(a11*(...)), in doubles"""
    n = len(M); p = float(M[n - 1][n - 1])
    for i in range(n - 2, -1, -1):
        p = float(M[i][i]) * p
    return p


def small_ints(M, lim=3):
    return all(float(x).is_integer() and abs(x) <= lim for r in M for x in r)


def det_tol(n, scale):
    return (n + 2) * EPS * scale + Fraction(math.factorial(n) * 8, 2 ** 1074)   # (n+2) eps perm(|A|) + subnormal granularity


def oracle(op, a, impl, ctx, scale_model=None):
    """(clause, detail) when the property fails on the implementation for this request, else None"""
    ti_ = tag(impl)
    if crashed(impl):
        return ("crash / sanitizer report / silent exit (" + ti_ + ")", impl[:200])
    M, p = parse_mat(a)
    n = len(M); sq = all(len(r) == n for r in M) and n > 0
    ti = toks(impl)
    if op == "c05.detlaws":
        B, _ = parse_mat(a, p)
        if ti_ != "ok" or len(ti) != 5:
            return ("determinant of a square matrix terminated the process", impl[:100])
        vals = [fl(t) for t in ti]
        if any(math.isnan(v) or math.isinf(v) for v in vals):
            return ("determinant law: non-finite determinant", impl[:100])
        dA, dB, dAB, dAT, dSw = [Fraction(v) for v in vals]
        eA, eB = fdet(M), fdet(B)
        bad = []
        if small_ints(M) and small_ints(B) and n <= 5:
            if dA != eA or dB != eB:
                bad.append("Determinant differs from the exact determinant (small integers: exact in double)")
            if dAB != dA * dB:
                bad.append("det(A*B) != det(A)*det(B)")
            if dAT != dA:
                bad.append("det(transpose A) != det A")
            if n >= 2 and dSw != -dA:
                bad.append("row exchange does not flip the sign")
        else:
            pA, pB = fperm(M), fperm(B)
            pAB = fperm([[sum(abs(Fraction(M[i][k]) * Fraction(B[k][j])) for k in range(n)) for j in range(n)] for i in range(n)])
            w = ctx["worst"]
            if pA > 0:
                w["lawT"] = max(w.get("lawT", 0.0), float(abs(dAT - dA) / (EPS * pA)), float(abs(dSw + dA) / (EPS * pA)) if n >= 2 else 0.0)
            if pAB > 0:
                w["lawAB"] = max(w.get("lawAB", 0.0), float(abs(dAB - dA * dB) / (EPS * pAB)))
            if abs(dA - eA) > det_tol(n, pA) or abs(dB - eB) > det_tol(n, pB):
                bad.append("Determinant differs from the exact determinant by more than (n+2) eps perm")
            if abs(dAB - dA * dB) > K_LAW * EPS * pAB:
                bad.append("det(A*B) differs from det(A)*det(B) by more than 8 eps perm(|A||B|)")
            if abs(dAT - dA) > K_LAW * EPS * pA:
                bad.append("det(transpose A) differs from det A by more than 8 eps perm")
            if n >= 2 and abs(dSw + dA) > K_LAW * EPS * pA:
                bad.append("row exchange does not flip the sign (to 8 eps perm)")
            if not bad and eA != 0 and eB != 0:
                # the accuracy of a pivoted-LU reference for every determinant that enters the laws
                kA = ninf(M) * ninf(finv(M)); kB = ninf(B) * ninf(finv(B))
                tA = C_LU * n * kA * EPS * abs(eA); tB = C_LU * n * kB * EPS * abs(eB)
                tAB = C_LU * n * (kA * kB) * EPS * abs(eA * eB) + abs(eA) * tB + abs(eB) * tA
                if (abs(dA - eA) > tA or abs(dAT - eA) > tA or (n >= 2 and abs(dSw + eA) > tA) or abs(dB - eB) > tB
                        or abs(dAB - eA * eB) > tAB):
                    if pending("P1"):
                        bump(ctx, "pending-P1:determinant-laws-miss-LU-accuracy")
                        return None
                    return (P1_CLAUSE, "laws: det A = %r (exact %r, kappa %.3g), det A^T = %r, swapped = %r, det B = %r (exact %r), det AB = %r" % (
                        float(dA), float(eA), float(kA), float(dAT), float(dSw), float(dB), float(eB), float(dAB)))
        return ("determinant law: " + "; ".join(bad), "") if bad else None
    if op == "c05.gate":
        if not sq:
            return None if ti_ == "err" else ("non-square request did not stop with a diagnostic", impl[:120])
        if ti_ != "ok" or "|" not in ti:
            return ("Determinant/Invertible of a square matrix terminated the process", impl[:120])
        k = ti.index("|")
        dv, iv, rest = fl(ti[0]), ti[1], ti[k + 1:]
        d = fdet(M)
        # literal clause, zero slack: Invertible() is true exactly when the Determinant() the library returns is non-zero
        if iv != ("1" if dv != 0.0 else "0"):
            return ("Invertible() is not (Determinant() != 0)", "Determinant() = %r, exact det = %r, answer %s" % (dv, float(d), iv))
        if d == 0:
            # exactly singular: a diagnostic is the only acceptable outcome, whatever the rounded determinant says
            if rest[:1] != ["err"] and dv != 0.0:
                bump(ctx, "singular-with-residue-determinant:inverse-returned")
                return (RESIDUE_CLAUSE, "Determinant() = %r, Invertible() = %s, Inverse() -> %s" % (dv, iv, " ".join(rest[:6])))
            if rest[:1] != ["err"]:
                return ("singular matrix: Inverse returned numbers instead of a diagnostic",
                        "Determinant() = %r, Invertible() = %s, Inverse() -> %s" % (dv, iv, " ".join(rest[:6])))
            return None
        if dv == 0.0:
            return None             # the double determinant underflowed to 0: outside the quantifier
        if rest[:1] != ["ok"]:
            return ("invertible matrix: Inverse terminated the process with a diagnostic", "det = %r, Determinant() = %r" % (float(d), dv))
        return oracle("c05.inverse", a, "ok " + " ".join(rest[1:]), ctx)
    if not sq:
        if op == "c05.invertible":
            return None if (ti_ == "ok" and ti == ["0"]) else ("Invertible() of a non-square matrix is not false", impl[:80])
        return None if ti_ == "err" else ("non-square request did not stop with a diagnostic", impl[:120])
    d = fdet(M)
    if op == "c05.det":
        if ti_ != "ok":
            return ("Determinant of a square matrix terminated the process", "")
        v = fl(ti[0])
        scale = scale_model if scale_model is not None else rowprod(M)
        if math.isnan(v) or math.isinf(v) or abs(Fraction(v) - d) > det_tol(n, scale):
            return ("Determinant differs from the exact determinant", "%r vs %r (n=%d)" % (v, float(d), n))
        moderate = all(abs(x) <= 1e20 and (x == 0 or abs(x) >= 1e-20) for r_ in M for x in r_)
        lower = all(M[i][j] == 0 for i in range(n) for j in range(i + 1, n))
        if triangular(M) and (moderate or (lower and n >= 3 and all(abs(x) < 1e250 for r_ in M for x in r_))):
            p_ = diag_product(M)
            if not math.isinf(p_) and not (v == p_):
                return ("triangular matrix: Determinant is not the product of the diagonal", "%s vs %s" % (v.hex(), p_.hex()))
        if scale > 0:
            r = float(abs(Fraction(v) - d) / (EPS * scale))
            ctx["worst"]["det"] = max(ctx["worst"]["det"], r / (n + 2))
        if d != 0:
            kap = ninf(M) * ninf(finv(M))
            rel = abs(Fraction(v) - d) / (n * kap * EPS * abs(d))
            if rel > C_LU and pending("P1"):
                bump(ctx, "pending-P1:determinant-misses-LU-accuracy")
            elif rel > C_LU:
                return (P1_CLAUSE, "Determinant() = %r, exact %r, kappa_inf = %.3g, n = %d: error %.3g * n*kappa*eps*|det|" % (v, float(d), float(kap), n, float(rel)))
            if rel <= C_LU:
                ctx["worst"]["detLU"] = max(ctx["worst"].get("detLU", 0.0), float(rel))
        return None
    if op == "c05.invertible":
        if ti_ != "ok":
            return ("Invertible() terminated the process", "")
        return None if ti == ["1" if d != 0 else "0"] else ("Invertible() is not (det != 0)", "det = %r, answer %s" % (float(d), ti))
    if op == "c05.inverse":
        if d == 0:
            return None if ti_ == "err" else ("singular matrix did not stop with a diagnostic", impl[:120])
        if ti_ != "ok":
            return ("invertible matrix: Inverse terminated the process with a diagnostic", "det = %r" % float(d))
        if len(ti) != 2 + n * n or ti[0] != str(n) or ti[1] != str(n):
            return ("Inverse: wrong shape of the result", " ".join(ti[:2]))
        xs = [fl(t) for t in ti[2:]]
        if any(math.isnan(x) or math.isinf(x) for x in xs):
            return ("Inverse returned a non-finite entry", "")
        X = [[Fraction(x) for x in xs[i * n:(i + 1) * n]] for i in range(n)]
        Xe = finv(M)
        kap = ninf(M) * ninf(Xe)
        tol = C_INV * n * kap * EPS
        bump(ctx, "kappa_inf:1e%d" % max(0, int(math.log10(float(kap)))))
        I = [[Fraction(int(i == j)) for j in range(n)] for i in range(n)]
        sub = lambda P, Q: [[x - y for x, y in zip(r, s)] for r, s in zip(P, Q)]
        e_inv = ninf(sub(X, Xe)) / ninf(Xe)
        e_xm = ninf(sub(mmul(X, M), I))
        e_mx = ninf(sub(mmul(M, X), I))
        w = ctx["worst"]
        w["inv"] = max(w["inv"], float(e_inv / (n * kap * EPS)))
        w["xm"] = max(w["xm"], float(e_xm / (n * kap * EPS)))
        w["mx"] = max(w["mx"], float(e_mx / (n * kap * kap * EPS)))
        if e_inv > tol:
            return ("Inverse differs from the exact inverse by more than c*n*kappa*eps", "rel err %.3g, kappa %.3g, n=%d" % (float(e_inv), float(kap), n))
        if e_xm > tol:
            return ("X*M is not the identity to c*n*kappa*eps", "residual %.3g, kappa %.3g" % (float(e_xm), float(kap)))
        if e_mx > tol * kap:
            return ("M*X is not the identity to c*n*kappa^2*eps", "residual %.3g, kappa %.3g" % (float(e_mx), float(kap)))
        return None
    return None


def compare(rq, impl, model, ctx):
    op = rq.split(" ", 1)[0]
    a = rq.split()[1:]
    bump(ctx, op); bump(ctx, "family:" + ctx.get("fam", {}).get(rq, "replay"))
    fs, both = std_outcome(rq, impl, model, op[4:] + ": ")
    tm_ = tag(model)
    M, _ = parse_mat(a)
    n = len(M)
    if tm_ in ("ok", "err"):
        ctx["nontrivial"].add((op, n, len(M[0]) if M else 0, ctx.get("fam", {}).get(rq, ""), tm_))
    tm = toks(model)
    scale = fr(tm[1]) if (op == "c05.det" and tm_ == "ok") else None
    po = oracle(op, a, impl, ctx, scale)
    if po:
        return [fail("prop", po[0] if po[0] == P1_CLAUSE else op[4:] + ": " + po[0], po[1])]
    out = []
    if both:
        ti = toks(impl)
        if op == "c05.det":
            if not close(fl(ti[0]), fr(tm[0]), 1, 0, atol=det_tol(n, scale)):
                out.append(fail("corr", "det: implementation differs from the model's Laplace expansion", "%s vs %s" % (ti[0], float(fr(tm[0])))))
            if fr(tm[0]) != fdet(M):
                out.append(fail("corr", "det: model differs from exact elimination", ""))
        elif op == "c05.invertible":
            if ti != tm:
                out.append(fail("corr", "invertible: implementation differs from the model", ""))
        elif op == "c05.inverse":
            Xm = [fr(t) for t in tm[2:2 + n * n]]
            nM, nX = fr(tm[2 + n * n]), fr(tm[3 + n * n])
            Xi = [Fraction(fl(t)) for t in ti[2:]]
            kap = nM * nX
            if len(Xi) != len(Xm) or max(abs(x - y) for x, y in zip(Xi, Xm)) > C_INV * n * kap * EPS * nX:
                out.append(fail("corr", "inverse: implementation differs from the model's Gauss-Jordan result", ""))
            Xe = finv(M)
            if [x for r in Xe for x in r] != Xm:
                out.append(fail("corr", "inverse: model differs from exact elimination", ""))
        elif op == "c05.gate":
            if "|" in ti and "|" in tm:
                ki, km = ti.index("|"), tm.index("|")
                agree0 = (fl(ti[0]) == 0.0) == (fr(tm[0]) == 0)
                if agree0 and (ti[1] != tm[1] or ti[ki + 1] != tm[km + 1]):
                    out.append(fail("corr", "gate: Invertible()/outcome of Inverse() differ from the model", ""))
                if not close(fl(ti[0]), fr(tm[0]), 1, 0, atol=det_tol(n, rowprod(M))):
                    out.append(fail("corr", "gate: Determinant() differs from the model", ""))
        elif op == "c05.detlaws":
            B_, _ = parse_mat(a, 2 + n * n)
            sc = [fperm(M), fperm(B_), None, fperm(M), fperm(M)]
            sc[2] = fperm([[sum(abs(Fraction(M[i][k]) * Fraction(B_[k][j])) for k in range(n)) for j in range(n)] for i in range(n)])
            for t1, t2, s_ in zip(ti, tm, sc):
                if abs(Fraction(fl(t1)) - fr(t2)) > (K_LAW + n + 2) * EPS * s_ + Fraction(1, 2 ** 1000):
                    out.append(fail("corr", "detlaws: implementation differs from the model", "")); break
    return fs + out


def oracle_only(rq, impl, ctx):
    op = rq.split(" ", 1)[0]
    a = rq.split()[1:]
    ctx.setdefault("worst", dict(det=0.0, inv=0.0, xm=0.0, mx=0.0))
    po = oracle(op, a, impl, ctx)
    return [fail("prop", po[0] if po[0] == P1_CLAUSE else op[4:] + ": " + po[0], po[1])] if po else []


def finalize(ctx, exe):
    for k, v in ctx.get("worst", {}).items():
        ctx["stats"]["worst-observed-constant:" + k] = round(v, 3)
    return []
