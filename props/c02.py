"""C02 — Find_Root (Ridder's method) returns a root of the bracketed function to the requested accuracy."""
import math, random, sys
from fractions import Fraction
from common import *

if hasattr(sys, "set_int_max_str_digits"):
    sys.set_int_max_str_digits(0)

try:
    import mpmath
    mpmath.mp.dps = 60
except ImportError:   # check.py re-executes itself under python3-vt, which has mpmath
    mpmath = None

RULE = ("requests are drawn from VERIF_SEED in families: polynomials (from roots: simple, odd-multiple, several roots; random "
        "coefficients), linear functions, rational functions, power laws x^p-c on brackets spanning decades, saturating "
        "(x-s)/(1+|x-s|)-c (all model-compared: trace of abscissae, final value, outcome), transcendental atan/erf/tanh/"
        "real powers/exp/log/cos (oracle only), malformed brackets (no sign change, NaN ends, zero ends); every request also "
        "with the ends swapped. Accuracies log-uniform from 1e-14*|root| to the bracket width. A case is non-trivial when the "
        "loop is entered or a guard decides; counted once per distinct (family, sub-kind, outcome, iterations, log10(acc/width) "
        "bucket, order of the ends, excused flag)")
CORR_ONLY = ["floating-point evaluation noise: when the function value at the returned point is below its rounding error the "
             "sign-change clause is decided with a noise allowance (counted as noise-excused)",
             "NaN returned inside the bracket is not modelled (undef)"]
ASSUMPTIONS = ["the user function is a pure function, continuous on the bracket",
               "sqrt is modelled by a parameter sq with y <= sq(y)^2 (theorems) / a 256-bit rounded-up root (driver): proved to be an instance (sqrtRat_sqOK, sqrtRat_sq_exact)",
               "theorems are about exact real arithmetic (rnd = id); the driver rounds the new iterate to 200 significant bits"]
TRUSTED = ["mpmath evaluation of atan/erf/tanh/pow/exp/log/cos as the sign reference for the transcendental families"]

MARGIN = Fraction(1, 2 ** 26)
KNOISE = 4               # audit: needed allowance 0.49 u
U = Fraction(1, 2 ** 53)


# ---------------------------------------------------------------------------------------------------
# function descriptions
# ---------------------------------------------------------------------------------------------------

def parse_fn(t, pos):
    kind = t[pos]; pos += 1
    d = dict(kind=kind)
    if kind == "poly":
        n = int(t[pos]); d["p"] = [fl(x) for x in t[pos + 1:pos + 1 + n]]; pos += 1 + n
    elif kind == "rat":
        n = int(t[pos]); d["p"] = [fl(x) for x in t[pos + 1:pos + 1 + n]]; pos += 1 + n
        n = int(t[pos]); d["q"] = [fl(x) for x in t[pos + 1:pos + 1 + n]]; pos += 1 + n
    elif kind in ("powc", "plat"):
        d["ip"] = int(t[pos]); d["c"] = fl(t[pos + 1]); pos += 2
    elif kind == "dip":
        d["a"], d["r"], d["w"], d["eta"], d["kappa"] = (fl(x) for x in t[pos:pos + 5]); pos += 5
    elif kind == "rbump":
        d["ip"] = int(t[pos]); d["s"] = fl(t[pos + 1]); d["c"] = fl(t[pos + 2]); pos += 3
    elif kind == "sat":
        d["s"] = fl(t[pos]); d["c"] = fl(t[pos + 1]); pos += 2
    elif kind == "scale":
        d["c"] = fl(t[pos]); d["inner"], pos = parse_fn(t, pos + 1)
    elif kind == "at":
        d["t"] = fl(t[pos]); d["v"] = fl(t[pos + 1]); d["inner"], pos = parse_fn(t, pos + 2)
    elif kind in ("nanle", "nange"):
        d["t"] = fl(t[pos]); d["inner"], pos = parse_fn(t, pos + 1)
    else:
        d["w"], d["s"], d["c"] = fl(t[pos]), fl(t[pos + 1]), fl(t[pos + 2]); pos += 3
    return d, pos


def parse_rq(rq):
    t = rq.split()
    if t[0] == "c02.sign":
        return dict(op=t[0], x=fl(t[1]), y=fl(t[2]))
    d, pos = parse_fn(t, 1)
    return dict(op=t[0], fn=d, xl=fl(t[pos]), xr=fl(t[pos + 1]), acc=fl(t[pos + 2]))


def horner(cs, x):
    r = Fraction(0)
    for c in reversed(cs):
        r = Fraction(c) + x * r
    return r


def habs(cs, x):
    return horner([abs(Fraction(c)) for c in cs], abs(x))


TRANSC = ("atan", "erf", "tanh", "rpow", "expm", "logx", "cosx", "gauss", "dexp", "gbump")


def feval(d, x):
    """(value, magnitude) of the described function at x: exact Fractions for the rational kinds, mpmath otherwise.
    None = NaN"""
    k = d["kind"]
    if k == "poly":
        return horner(d["p"], x), habs(d["p"], x)
    if k == "rat":
        q = horner(d["q"], x)
        if q == 0:
            return None
        return horner(d["p"], x) / q, habs(d["p"], x) / abs(q) * (1 + habs(d["q"], x) / abs(q))
    if k == "powc":
        if x == 0 and d["ip"] < 0:
            return None
        v = x ** d["ip"]
        return v - Fraction(d["c"]), abs(v) * (1 + abs(d["ip"])) + abs(Fraction(d["c"]))
    if k == "dip":
        r_, a_, kap = Fraction(d["r"]), Fraction(d["a"]), Fraction(d["kappa"])
        if x > r_:
            v = mpmath.mpf(d["eta"]) * mpmath.tanh((mpmath.mpf(x.numerator) / x.denominator - mpmath.mpf(d["r"])) / mpmath.mpf(d["w"]))
            return v, abs(v) * 4 + abs(mpmath.mpf(d["eta"])) * (abs(float(x)) + abs(d["r"])) / d["w"] * 4
        v = -(r_ - x) * ((x - a_) + kap)
        return v, (abs(r_) + abs(x)) * (abs(x) + abs(a_) + abs(kap)) * 4
    if k == "rbump":
        e = (1 / (1 + x * x)) ** d["ip"]
        c, s_ = Fraction(d["c"]), Fraction(d["s"])
        return c * (x - s_) * e, abs(c) * e * (abs(x) + abs(s_)) * (4 + d["ip"]) + Fraction(1, 2 ** 1022)
    if k == "plat":
        v = (1 / (1 + x * x)) ** d["ip"]
        return v - Fraction(d["c"]), v * (2 + d["ip"]) + abs(Fraction(d["c"]))
    if k == "sat":
        s, c = Fraction(d["s"]), Fraction(d["c"])
        return (x - s) / (1 + abs(x - s)) - c, (abs(x) + abs(s)) / (1 + abs(x - s)) + abs(c)
    if k == "scale":
        v = feval(d["inner"], x)
        if v is None:
            return None
        c = Fraction(d["c"])
        # a product in the subnormal range carries an absolute error of 2^-1075 = 2^-53 * 2^-1022
        return c * v[0], abs(c) * v[1] + Fraction(1, 2 ** 1022)
    if k == "at":
        if x == Fraction(d["t"]):
            v = d["v"]
            if math.isnan(v):
                return None
            return (v, 1.0) if math.isinf(v) else (Fraction(v), abs(Fraction(v)))
        return feval(d["inner"], x)
    if k == "nanle":
        return None if x <= Fraction(d["t"]) else feval(d["inner"], x)
    if k == "nange":
        return None if x >= Fraction(d["t"]) else feval(d["inner"], x)
    mp = mpmath
    X = mp.mpf(x.numerator) / mp.mpf(x.denominator) if isinstance(x, Fraction) else mp.mpf(x)
    w, s, c = mp.mpf(d["w"]), mp.mpf(d["s"]), mp.mpf(d["c"])
    if k == "atan":
        a = w * (X - s); v = mp.atan(a); der = abs(w) / (1 + a * a); arg = abs(X) + abs(s)
    elif k == "erf":
        a = w * (X - s); v = mp.erf(a); der = abs(w) * 2 / mp.sqrt(mp.pi) * mp.exp(-a * a); arg = abs(X) + abs(s)
    elif k == "tanh":
        a = w * (X - s); v = mp.tanh(a); der = abs(w) / mp.cosh(a) ** 2; arg = abs(X) + abs(s)
    elif k == "rpow":
        v = X ** w; der = abs(w) * v / X; arg = abs(X)
    elif k == "expm":
        a = w * (X - s); v = mp.exp(a); der = abs(w) * v; arg = abs(X) + abs(s)
    elif k == "logx":
        v = w * mp.log(X / s); der = abs(w) / X; arg = abs(X)
    elif k == "gauss":
        a = X - s; v = mp.exp(-w * a * a); der = 2 * abs(w * a) * v; arg = (abs(X) + abs(s)) * 2 + abs(a)
    elif k == "gbump":
        e = mp.exp(-w * X * X)
        return c * (X - s) * e, abs(c) * e * (abs(X) + abs(s)) * (4 + 2 * abs(w) * X * X) + mp.mpf(2) ** -1022
    elif k == "dexp":
        t = (X - s) if w > 0 else (s - X)
        e1 = mp.exp(-t); e2 = c * mp.exp(-abs(w) * t)
        return e1 - e2, (abs(e1) + abs(e2)) * 4 + (e1 + abs(w) * abs(e2)) * (abs(X) + abs(s)) * 4
    elif k == "cosx":
        a = w * (X - s); v = mp.cos(a); der = abs(w) * abs(mp.sin(a)) + abs(w) * abs(a) * mp.mpf(2) ** -50; arg = abs(X) + abs(s)
    else:
        raise ValueError(k)
    return v - c, abs(v) * 4 + abs(c) + der * arg * 4


def double_zero(d, x):
    """is the function value exactly 0.0 when evaluated in double the way the harness does (Horner)?"""
    if d["kind"] == "poly":
        r = 0.0
        for c in reversed(d["p"]):
            r = c + x * r
        return r == 0.0
    if d["kind"] == "scale" and d["inner"]["kind"] == "poly":
        r = 0.0
        for c in reversed(d["inner"]["p"]):
            r = c + x * r
        return d["c"] * r == 0.0
    v = feval(d, Fraction(x))
    return v is not None and v[0] == 0


def fn_str(d):
    k = d["kind"]
    if k == "poly":
        return "poly " + lst(d["p"])
    if k == "rat":
        return "rat %s %s" % (lst(d["p"]), lst(d["q"]))
    if k in ("powc", "plat"):
        return "%s %d %s" % (k, d["ip"], hx(d["c"]))
    if k == "dip":
        return "dip %s %s %s %s %s" % (hx(d["a"]), hx(d["r"]), hx(d["w"]), hx(d["eta"]), hx(d["kappa"]))
    if k == "rbump":
        return "rbump %d %s %s" % (d["ip"], hx(d["s"]), hx(d["c"]))
    if k == "sat":
        return "sat %s %s" % (hx(d["s"]), hx(d["c"]))
    if k == "scale":
        return "scale %s %s" % (hx(d["c"]), fn_str(d["inner"]))
    if k == "at":
        return "at %s %s %s" % (hx(d["t"]), hx(d["v"]), fn_str(d["inner"]))
    if k in ("nanle", "nange"):
        return "%s %s %s" % (k, hx(d["t"]), fn_str(d["inner"]))
    return "%s %s %s %s" % (k, hx(d["w"]), hx(d["s"]), hx(d["c"]))


def rq_root(d, xl, xr, acc, oracle_only=False):
    # oracle only: transcendental kinds, and plateaus so low that f*f underflows in double (IEEE underflow is
    # not in the exact-rational model)
    op = "c02.fam" if oracle_only or d["kind"] in TRANSC or d["kind"] in ("rbump", "dip") or (d["kind"] == "plat" and d["c"] < 1e-140) else "c02.root"
    return "%s %s %s %s %s" % (op, fn_str(d), hx(xl), hx(xr), hx(acc))


def sgn(v):
    return (v > 0) - (v < 0)


# ---------------------------------------------------------------------------------------------------
# generator
# ---------------------------------------------------------------------------------------------------

def poly_from_roots(roots, lead=1.0):
    cs = [Fraction(lead)]
    for r in roots:
        r = Fraction(r)
        new = [Fraction(0)] * (len(cs) + 1)
        for i, c in enumerate(cs):
            new[i] -= c * r
            new[i + 1] += c
        cs = new
    return [float(c) for c in cs]


def generate(tier, seed, ctx):
    rng = random.Random(seed * 7919 + 2)
    thorough = tier == "thorough"
    N = 5 if thorough else 1
    R = []
    ctx["meta"] = {}
    ctx["results"] = {}

    def add(d, xl, xr, acc, fam, oracle_only=False):
        rq = rq_root(d, xl, xr, acc, oracle_only)
        if rq in ctx["meta"]:
            return
        R.append(rq); ctx["meta"][rq] = dict(fam=fam, order="lr")
        r2 = rq_root(d, xr, xl, acc, oracle_only)
        if r2 not in ctx["meta"]:
            R.append(r2); ctx["meta"][r2] = dict(fam=fam, order="rl", base=rq)

    def acc_for(root, width):
        lo = max(1e-14 * abs(root), 1e-300)
        hi = abs(width)
        c = rng.random()
        if c < 0.15:
            return lo * rng.uniform(1, 4)
        if c < 0.25:
            return hi * rng.uniform(0.3, 1.0)
        if lo >= hi:
            return hi
        return math.exp(rng.uniform(math.log(lo), math.log(hi)))

    def sign_change(d, a, b):
        fa, fb = feval(d, Fraction(a)), feval(d, Fraction(b))
        return fa is not None and fb is not None and sgn(fa[0]) * sgn(fb[0]) < 0

    # 1. polynomials from roots ----------------------------------------------------------------------
    for _ in range(260 * N):
        c = rng.random()
        scale = 10.0 ** rng.choice([rng.randint(-3, 3), rng.randint(-40, 40)])
        if c < 0.35:      # one simple root in the bracket, others outside
            r0 = rng.uniform(-1, 1) * scale
            others = [r0 + rng.choice([-1, 1]) * scale * rng.uniform(1.5, 6) for _ in range(rng.randint(0, 4))]
            d = dict(kind="poly", p=poly_from_roots([r0] + others, rng.choice([-1.0, 1.0, 2.5])))
            w = scale * rng.uniform(0.1, 1.4)
            a, b = r0 - w * rng.uniform(0.05, 1), r0 + w * rng.uniform(0.05, 1)
            sub = "simple%d" % (len(others) + 1)
        elif c < 0.55:    # odd multiple root (3 or 5), dyadic so that the expanded coefficients are exact
            r0 = dyadic(rng, -4, 4, 2)
            m = rng.choice([3, 3, 5])
            d = dict(kind="poly", p=poly_from_roots([r0] * m, rng.choice([-1.0, 1.0])))
            a, b = r0 - rng.uniform(0.1, 3), r0 + rng.uniform(0.1, 3)
            sub = "mult%d" % m
        elif c < 0.8:     # three roots inside the bracket: non-monotone, inflection
            rs = sorted(rng.uniform(-1, 1) * scale for _ in range(3))
            d = dict(kind="poly", p=poly_from_roots(rs, rng.choice([-1.0, 1.0])))
            a, b = rs[0] - scale * rng.uniform(0.05, 1), rs[2] + scale * rng.uniform(0.05, 1)
            r0 = max(rs, key=abs); sub = "three"   # the accuracy is relative to the largest root the run may converge to
        else:             # random coefficients, bracket found by search
            d = dict(kind="poly", p=[rng.uniform(-2, 2) for _ in range(rng.randint(2, 8))])
            a = rng.uniform(-3, 3); b = a + rng.uniform(0.1, 4); r0 = max(abs(a), abs(b)); sub = "random"
        if not sign_change(d, a, b):
            continue
        add(d, a, b, acc_for(r0 if r0 else scale, b - a), "poly/" + sub)
    # 2. linear functions -----------------------------------------------------------------------------
    for _ in range(40 * N):
        m = rng.choice([-1, 1]) * rng.choice([float(rng.randint(1, 9)), rng.uniform(0.1, 10), 10.0 ** rng.randint(-6, 6)])
        r0 = rng.choice([dyadic(rng), rng.uniform(-10, 10), mixed_magnitude(rng, -5, 5)])
        d = dict(kind="poly", p=[-m * r0, m])
        w = abs(r0) * rng.uniform(0.1, 3) + rng.choice([0, 1.0])
        a, b = r0 - w * rng.uniform(0.1, 1), r0 + w * rng.uniform(0.1, 1)
        if sign_change(d, a, b):
            add(d, a, b, acc_for(r0, b - a), "linear")
    # 3. rational functions ---------------------------------------------------------------------------
    for _ in range(90 * N):
        r0 = rng.uniform(-5, 5)
        g = 10.0 ** rng.uniform(-2, 1); cc = rng.uniform(-5, 5)
        q = [cc * cc + g, -2 * cc, 1.0] if rng.random() < 0.6 else [1.0, 0.0, 0.0, 0.0, 1.0]
        p = poly_from_roots([r0] + ([r0 + rng.uniform(6, 9)] if rng.random() < 0.3 else []), rng.choice([-1.0, 1.0, 3.0]))
        d = dict(kind="rat", p=p, q=q)
        a, b = r0 - rng.uniform(0.05, 5), r0 + rng.uniform(0.05, 5)
        if sign_change(d, a, b):
            add(d, a, b, acc_for(r0, b - a), "rat/%d" % (len(q) - 1))
    # 4. power laws on brackets spanning decades ---------------------------------------------------------
    for _ in range(160 * N):
        p = rng.choice([2, 3, 4, 5, 7, 10, 14, 20, rng.randint(2, 20), -1, -2, -3])
        r0 = 10.0 ** rng.uniform(-2, 2)
        a = r0 * 10.0 ** -rng.uniform(0.05, 3); b = r0 * 10.0 ** rng.uniform(0.05, 3)
        c = float(Fraction(r0) ** p) if abs(p * math.log10(r0)) < 250 else None
        if c is None or c == 0 or math.isinf(c):
            continue
        d = dict(kind="powc", ip=p, c=c)
        if sign_change(d, a, b):
            add(d, a, b, acc_for(r0, b - a), "powc/%s" % ("neg" if p < 0 else "p%d" % min(p // 5, 3)))
    # 4b. very wide brackets (8..20 decades above the root), width/acc on both sides of 2^50 (oracle only) -------
    for _ in range(40 * N):
        p = rng.choice([2, 3, 5, 10, 14])
        r0 = 10.0 ** rng.uniform(-1, 1)
        hi_dec = rng.uniform(8, 20)
        if p * (math.log10(r0) + hi_dec) > 300:
            continue
        a = r0 * 10.0 ** -rng.uniform(0.3, 3); b = r0 * 10.0 ** hi_dec
        c = float(Fraction(r0) ** p)
        d = dict(kind="powc", ip=p, c=c)
        acc = rng.choice([1e-14 * r0, r0 * 10.0 ** rng.uniform(-14, 0), (b - a) / 2.0 ** rng.uniform(40, 50), (b - a) / 2.0 ** rng.uniform(50, 70)])
        if sign_change(d, a, b):
            add(d, a, b, acc, "wide/%s" % ("beyond-2^50" if (b - a) / acc > 2.0 ** 50 else "within-2^50"), oracle_only=True)
    # 4e. brackets spanning 60-300 and more decades (the whole range of doubles), roots from 1e-150 to 1e+150 ---------
    for _ in range(40 * N):
        p = rng.choice([1, 1, 2, 2, 3, 5])
        lim = 300.0 / p - 2
        lr = rng.uniform(-lim * 0.5, lim * 0.5)          # log10 of the root
        la = rng.uniform(-lim, lr - 0.3)
        lb = rng.uniform(max(lr + 0.3, min(la + 60, lim - 0.1)), lim)
        r0 = 10.0 ** lr; a = 10.0 ** la; b = 10.0 ** lb
        c = float(Fraction(r0) ** p)
        if c == 0.0 or math.isinf(c) or p * lb > 305:
            continue
        d = dict(kind="powc", ip=p, c=c) if p > 1 else dict(kind="poly", p=[-r0, 1.0])
        acc = rng.choice([1e-14 * r0, r0 * 10.0 ** rng.uniform(-14, 0), (b - a) * 10.0 ** -rng.uniform(0, 20)])
        if sign_change(d, a, b):
            add(d, a, b, acc, "wide/decades-%d" % (int((lb - la) // 60) * 60), oracle_only=True)
    # 4f. bracket ends near +-DBL_MAX: |a| + |b| exceeds the largest double (the midpoint sum overflows) -----------
    DBL = 1.7976931348623157e308
    for _ in range(24 * N):
        sg = rng.choice([-1.0, 1.0])
        a = sg * DBL * rng.uniform(0.5, 0.95); b = sg * DBL * rng.uniform(0.96, 1.0)
        if rng.random() < 0.3:
            a = sg * DBL * 10.0 ** -rng.uniform(0.5, 30)      # many decades, one end at the top of the range
        lo_, hi_ = min(a, b), max(a, b)
        r0 = lo_ + (hi_ - lo_) * rng.choice([0.5, 0.25, rng.uniform(0.01, 0.99)])
        m = rng.choice([1.0, -1.0, 0.5, 2.0 ** -20])
        d = dict(kind="poly", p=[-m * r0, m])
        acc = (hi_ - lo_) * 10.0 ** -rng.uniform(1, 14)
        if sign_change(d, a, b):
            add(d, a, b, acc, "dblmax")
    # 4g. -0.0 as a bracket end (an ordinary end, and an end that is a zero of the function) -------------------------
    for _ in range(16 * N):
        other = rng.choice([-1.0, 1.0]) * rng.choice([0.5, 2.0, 10.0 ** rng.randint(-8, 8)])
        r0 = other * rng.uniform(0.1, 0.9)
        add(dict(kind="poly", p=[-r0, 1.0]), -0.0, other, abs(other) * 10.0 ** -rng.uniform(1, 12), "negzero/ordinary")
        add(dict(kind="poly", p=poly_from_roots([0.0, other * 2])), -0.0, other, abs(other) * 1e-6, "negzero/zero-end")
    # 4c. fixed request: x^2-1 on [0.1, 1e14], acc 1e-14 (missed with the former limit of 50 iterations) -----------
    add(dict(kind="powc", ip=2, c=1.0), 0.1, 1e14, 1e-14, "wide/fixed", oracle_only=True)
    # 4d. steep zero crossing next to a bracket end followed by a slow decay (non-monotone): Ridder's point can fail
    #     to cross the root and have the larger residual in the terminating iteration ------------------------------
    for _ in range(60 * N):
        k = 10.0 ** rng.uniform(2, 4); c = 1 + 10.0 ** -rng.uniform(2, 5)
        B = rng.choice([2.0, 10.0, 10.0, 50.0, rng.uniform(1, 100)])
        acc = rng.choice([1e-3, 1e-3, 1e-2, B * 10.0 ** rng.uniform(-5, -1)])
        mirror = rng.random() < 0.5
        if rng.random() < 0.5:
            # 1/(1+x) - c/(1+kx) = ((1-c) + (k-c)x) / ((1+x)(1+kx)); only root at (c-1)/(k-c)
            pp = [1 - c, k - c]; qq = [1.0, 1 + k, k]
            if mirror:
                pp = [pp[0], -pp[1]]; qq = [qq[0], -qq[1], qq[2]]
            d = dict(kind="rat", p=pp, q=qq)
            a, b = (0.0, B) if not mirror else (-B, 0.0)
            fam = "steep/rat"
        else:
            s0 = rng.choice([0.0, rng.uniform(-2, 2)])
            d = dict(kind="dexp", w=(-k if mirror else k), s=s0, c=c)
            a, b = (s0, s0 + B) if not mirror else (s0 - B, s0)
            fam = "steep/dexp"
        try:
            ok = sign_change(d, a, b)
        except Exception:
            ok = False
        if ok:
            add(d, a, b, acc, fam)
    # 5. saturating piece-wise rational ---------------------------------------------------------------------
    for _ in range(80 * N):
        s = rng.uniform(-3, 3); c = rng.uniform(-0.999, 0.999)
        if rng.random() < 0.3:
            c = rng.choice([-1, 1]) * (1 - 10.0 ** rng.uniform(-6, -1))
        d = dict(kind="sat", s=s, c=c)
        r0 = s + c / (1 - abs(c))
        a = r0 - (abs(r0 - s) + 1) * 10.0 ** rng.uniform(-1, 2); b = r0 + (abs(r0 - s) + 1) * 10.0 ** rng.uniform(-1, 2)
        if sign_change(d, a, b):
            add(d, a, b, acc_for(r0, b - a), "sat")
    # 6. transcendental (oracle only) ------------------------------------------------------------------------
    for _ in range(260 * N):
        k = rng.choice([t_ for t_ in TRANSC if t_ != "gbump"])   # gbump has its own family (6f)
        w = s = c = 0.0
        if k in ("atan", "erf", "tanh"):
            w = 10.0 ** rng.uniform(-2, 3) * rng.choice([-1, 1]); s = rng.uniform(-3, 3)
            lim = {"atan": math.pi / 2, "erf": 1.0, "tanh": 1.0}[k]
            c = lim * rng.uniform(-0.98, 0.98)
            inv = {"atan": math.tan, "erf": lambda y: float(mpmath.erfinv(y)), "tanh": math.atanh}[k]
            r0 = s + inv(c) / w
            span = (abs(inv(c)) + 1) / abs(w)
            a = r0 - span * 10.0 ** rng.uniform(-1, 3); b = r0 + span * 10.0 ** rng.uniform(-1, 3)
        elif k == "rpow":
            w = rng.choice([0.5, 1.5, 2.5, -0.5, -1.5, 7.3, 13.7, rng.uniform(-3, 16)])
            if abs(w) < 0.05:
                continue
            r0 = 10.0 ** rng.uniform(-2, 2)
            if abs(w * math.log10(r0)) > 250:
                continue
            c = r0 ** w
            a = r0 * 10.0 ** -rng.uniform(0.05, 3); b = r0 * 10.0 ** rng.uniform(0.05, 3)
        elif k == "expm":
            w = rng.uniform(0.1, 5) * rng.choice([-1, 1]); s = rng.uniform(-2, 2); c = 10.0 ** rng.uniform(-3, 3)
            r0 = s + math.log(c) / w
            a = r0 - rng.uniform(0.05, 20) / abs(w); b = r0 + rng.uniform(0.05, 20) / abs(w)
        elif k == "logx":
            w = rng.uniform(0.2, 3) * rng.choice([-1, 1]); s = 10.0 ** rng.uniform(-3, 3); c = rng.uniform(-3, 3)
            r0 = s * math.exp(c / w)
            a = r0 * 10.0 ** -rng.uniform(0.05, 4); b = r0 * 10.0 ** rng.uniform(0.05, 4)
        else:
            w = rng.uniform(0.5, 4); s = rng.uniform(-1, 1); c = rng.uniform(-0.9, 0.9)
            a = s + rng.uniform(-6, 6) / w; b = a + rng.uniform(0.5, 9) / w; r0 = max(abs(a), abs(b))
        d = dict(kind=k, w=w, s=s, c=c)
        try:
            ok = sign_change(d, a, b)
        except Exception:
            ok = False
        if ok:
            add(d, a, b, acc_for(r0 if r0 else 1.0, b - a), "fam/" + k)
    # 6b. tiny same-sign plateaus: the ends are ordinary, midpoint and Ridder's point are ~1e-200 of definite sign ----
    for _ in range(70 * N):
        deep = rng.random() < 0.6
        dd = 10.0 ** (-rng.uniform(200, 300) if deep else -rng.uniform(60, 135))
        if rng.random() < 0.5:
            k = rng.choice([20, 30, 40, 60])
            d = dict(kind="plat", ip=k, c=dd)
            r0 = math.sqrt(dd ** (-1.0 / k) - 1)
            a = rng.choice([0.0, 0.0, rng.uniform(0, 0.5) * r0])
            b = r0 * rng.choice([1.4, 2.0, 3.0, 10.0 ** rng.uniform(0.2, 1.5)])
        else:
            w = 10.0 ** rng.uniform(-2, 2); s0 = rng.uniform(-2, 2)
            d = dict(kind="gauss", w=w, s=s0, c=dd)
            r0 = s0 + math.sqrt(-math.log(dd) / w)
            a = s0 + rng.choice([0.0, rng.uniform(0, 0.5) * (r0 - s0)])
            b = s0 + (r0 - s0) * rng.choice([1.2, 1.4, 2.0, 3.0])
        try:
            ok = sign_change(d, a, b)
        except Exception:
            ok = False
        if ok:
            add(d, a, b, acc_for(r0, b - a), "plateau/%s/%s" % (d["kind"], "deep" if deep else "mid"))
    # 6c. the two-argument Sign itself, down to magnitudes whose product underflows (class A vs sign2) ----------
    mags = [0.0, 5e-324, 1e-300, 1e-200, 1e-170, 1e-162, 1e-100, 1.0, 3.5, 1e100, 1e300]
    vals = sorted(set([m for m in mags] + [-m for m in mags]))
    for x in vals:
        for y in vals:
            rq = "c02.sign %s %s" % (hx(x), hx(y))
            if rq not in ctx["meta"]:
                R.append(rq); ctx["meta"][rq] = dict(fam="sign2", order="lr")
    # 6d. value scale: the function families multiplied by 2^k / 10^k over the whole double range (subnormal
    #     1e-320 ... 1e+300); roots at the exact midpoint, at dyadic points, near an end; linear functions ----------
    def scaled(inner, a, b, r0, fam):
        fa_, fb_ = feval(inner, Fraction(a)), feval(inner, Fraction(b))
        if fa_ is None or fb_ is None or sgn(fa_[0]) * sgn(fb_[0]) >= 0:
            return
        big = max(abs(fa_[0]), abs(fb_[0]), abs(feval(inner, Fraction((a + b) / 2))[0]))
        small = min(abs(fa_[0]), abs(fb_[0]))
        for _ in range(3):
            kind = rng.random()
            c = 2.0 ** rng.randint(-1074, 1000) if kind < 0.5 else 10.0 ** rng.randint(-320, 300)
            if kind > 0.85:
                c = rng.choice([1e-200, 1e-160, 1e-154, 1e-310, 1e-320, 5e-324, 1e150, 1e160, 1e200, 1e290])
            if c == 0.0 or float(big) * c > 1e305 or float(small) * c < 3e-321:
                continue
            add(dict(kind="scale", c=c * rng.choice([1.0, -1.0]), inner=inner), a, b, acc_for(r0 if r0 else (b - a), b - a),
                "scale/%s/%s" % (fam, "tiny" if c < 1e-150 else "huge" if c > 1e150 else "mid"))
    for _ in range(50 * N):
        # linear: root at the exact midpoint / at a dyadic point / near an end / anywhere
        m = rng.choice([-1, 1]) * rng.choice([1.0, 2.0, 0.375, rng.uniform(0.1, 10)])
        w = rng.choice([0.5, 1.0, 2.0, 8.0, rng.uniform(0.1, 5)])
        place = rng.choice(["mid", "mid", "dyadic", "end", "any"])
        if place == "mid":
            r0 = dyadic(rng, -4, 4, 2); a, b = r0 - w, r0 + w
        elif place == "dyadic":
            r0 = dyadic(rng, -4, 4, 2); a, b = r0 - w * 0.25, r0 + w * 0.75
        elif place == "end":
            a = dyadic(rng, -4, 4, 2); b = a + w; r0 = a + w * 2.0 ** -rng.randint(6, 30)
        else:
            r0 = rng.uniform(-5, 5); a, b = r0 - w * rng.uniform(0.1, 1), r0 + w * rng.uniform(0.1, 1)
        scaled(dict(kind="poly", p=[-m * r0, m]), a, b, r0, "linear-" + place)
    for _ in range(40 * N):
        c0 = rng.random()
        if c0 < 0.3:      # simple root among others
            r0 = dyadic(rng, -2, 2, 3) if rng.random() < 0.5 else rng.uniform(-2, 2)
            others = [r0 + rng.choice([-1, 1]) * rng.uniform(3, 6) for _ in range(rng.randint(0, 2))]
            inner = dict(kind="poly", p=poly_from_roots([r0] + others, rng.choice([-1.0, 1.0])))
            w = rng.uniform(0.2, 1.4); a, b = r0 - w, r0 + w * rng.choice([1.0, rng.uniform(0.1, 1)])
            fam = "poly"
        elif c0 < 0.5:    # three roots inside
            rs = sorted(rng.uniform(-1, 1) for _ in range(3))
            inner = dict(kind="poly", p=poly_from_roots(rs, rng.choice([-1.0, 1.0])))
            a, b = rs[0] - rng.uniform(0.05, 1), rs[2] + rng.uniform(0.05, 1); r0 = max(rs, key=abs); fam = "poly3"
        elif c0 < 0.7:    # power law over a few decades
            p = rng.choice([2, 3, 5, 7]); r0 = 10.0 ** rng.uniform(-1, 1)
            inner = dict(kind="powc", ip=p, c=float(Fraction(r0) ** p))
            a, b = r0 * 10.0 ** -rng.uniform(0.1, 1.5), r0 * 10.0 ** rng.uniform(0.1, 1.5); fam = "powc"
        elif c0 < 0.85:
            s0 = rng.uniform(-2, 2); cc = rng.uniform(-0.9, 0.9)
            inner = dict(kind="sat", s=s0, c=cc); r0 = s0 + cc / (1 - abs(cc))
            a, b = r0 - rng.uniform(0.2, 20), r0 + rng.uniform(0.2, 20); fam = "sat"
        else:
            r0 = rng.uniform(-3, 3); g = 10.0 ** rng.uniform(-1, 1)
            inner = dict(kind="rat", p=poly_from_roots([r0]), q=[r0 * r0 + g, -2 * r0, 1.0])
            a, b = r0 - rng.uniform(0.1, 3), r0 + rng.uniform(0.1, 3); fam = "rat"
        scaled(inner, a, b, r0, fam)
    # 6e. abscissa scale: brackets living at |x| from 1e-300 to 1e+300, much wider than the magnitude of the end next to
    #     the root (Ridders' point then lands on / past that end by rounding: the clamp into the bracket is at stake) ----
    for _ in range(40 * N):
        sx = 10.0 ** rng.randint(-300, 280) * rng.uniform(1, 9)
        a = sx; b = sx * 10.0 ** rng.uniform(6, 14)
        if math.isinf(b):
            continue
        r0 = a * (1 + 10.0 ** -rng.uniform(4, 10))
        m = rng.choice([-1.0, 1.0, 2.5])
        inner = dict(kind="poly", p=[-m * r0, m])
        if rng.random() < 0.5:      # mirrored to negative abscissae
            a, b, r0 = -a, -b, -r0
            inner = dict(kind="poly", p=[m * -r0, m])
        d = inner if rng.random() < 0.5 else dict(kind="scale", c=10.0 ** rng.randint(-20, 20), inner=inner)
        if sign_change(d, a, b):
            add(d, a, b, acc_for(r0, b - a), "xscale/%s" % ("tiny" if sx < 1e-150 else "huge" if sx > 1e150 else "mid"))
    # 7a. deterministic: an end that is a zero exactly in double (dyadic roots, exact expanded coefficients) ------
    for a in (-2.0, 0.0, 0.5, 1.25):
        for w in (0.5, 1.0, 4.0):
            for side in ("left", "right"):
                e = a + w if side == "left" else a - w          # the other end
                sgnw = 1.0 if side == "left" else -1.0
                for inner in ([], [0.25], [0.5], [0.75], [0.25, 0.75], [0.125, 0.5], [0.25, 0.5, 0.75]):
                    for outer in ([], [2.0], [-1.0]):
                        for lead in (1.0, -1.0):
                            roots = [a] + [a + sgnw * w * t for t in inner] + [a + sgnw * w * t for t in outer]
                            d = dict(kind="poly", p=poly_from_roots(roots, lead))
                            if not double_zero(d, a) or double_zero(d, e):
                                continue
                            add(d, a, e, w * rng.choice([2.0 ** -20, 2.0 ** -6, 0.25]), "guard/zero-end-exact/%d" % len(inner))
    # 6f. bumps with tiny tails: a sign change in the interior, the envelope hundreds of decades lower at the bracket ends
    #     (end values 1e-300 ... subnormal, interior up to 1e+200): the midpoint value exceeds both end values enormously
    for _ in range(40 * N):
        cc = rng.choice([1.0, -1.0]) * 10.0 ** rng.choice([0, 0, 50, 100, 200, -20])
        T = 10.0 ** -rng.uniform(300, 322) if rng.random() < 0.7 else 10.0 ** -rng.uniform(200, 300)   # |end value|
        if rng.random() < 0.5:
            w = 10.0 ** rng.uniform(-3, 1)
            L = 30.0
            for _i in range(60):      # c * L * exp(-w L^2) = T
                L = math.sqrt(max(math.log(abs(cc) * L / T), 1.0) / w)
            s0 = L * rng.uniform(-0.3, 0.3)
            d = dict(kind="gbump", w=w, s=s0, c=cc)
        else:
            p = rng.choice([20, 30, 50, 80])
            L = (abs(cc) / T) ** (1.0 / (2 * p - 1))
            if L > 1e8:
                continue
            s0 = L * rng.uniform(-0.3, 0.3) if rng.random() < 0.7 else 1.0
            d = dict(kind="rbump", ip=p, s=s0, c=cc)
        a, b = -L * rng.uniform(0.97, 1.0), L * rng.uniform(0.97, 1.0)
        try:
            ok = sign_change(d, a, b) and all(abs(feval(d, Fraction(x))[0]) > 1e-322 for x in (a, b))
        except Exception:
            ok = False
        if ok:
            add(d, a, b, acc_for(max(abs(s0), L * 1e-3), b - a), "bump/%s" % d["kind"])
    # 6g. plateau/dip: tiny positive plateau right of the root, deep negative dip left of it, f(a) tiny negative, the root just
    #     below the midpoint of a bracket straddling zero: after a case-a update the working bracket is REVERSED (x1 > x2)
    #     and rounding pushes Ridders' point past x1 (the clamp's upper branch with max(x1,x2) = x1 is at stake)
    for _ in range(60 * N):
        a = -rng.uniform(1.2, 2.2); b = rng.uniform(1.5, 2.3)
        if rng.random() < 0.3:
            sc = 10.0 ** rng.randint(-3, 3); a *= sc; b *= sc
        else:
            sc = 1.0
        m = (a + b) / 2; dd = rng.uniform(1.0e-3, 2.0e-3) * sc; r = m - dd
        w = 0.05 * sc; eta = 10.0 ** -rng.choice([30, 30, 20, 40])
        f3 = eta * math.tanh(dd / w); kappa = 3 * f3 * f3 / (eta * (r - a))
        d = dict(kind="dip", a=a, r=r, w=w, eta=eta, kappa=kappa)
        add(d, a, b, rng.choice([1e-12, 1e-12, 1e-9, 1e-6]) * sc, "dip")
    # 4h. |a| + |b| > DBL_MAX with ends of OPPOSITE sign (the width b - a overflows) and f(first midpoint) == 0 exactly ----
    for _ in range(20 * N):
        A = 1.7976931348623157e308 * rng.uniform(0.55, 0.99)
        if rng.random() < 0.5:
            a, b = -A, A                                   # symmetric: midpoint 0
        else:
            a = -A; b = 1.7976931348623157e308 * rng.uniform(0.55, 0.99)
        m = (a + b) / 2
        kind = rng.random()
        if kind < 0.5:
            mm = rng.choice([1.0, -1.0, 2.0 ** -30, -2.0 ** -600])
            d = dict(kind="poly", p=[-mm * m, mm])       # linear, zero at the midpoint (exact: mm is a power of two)
        elif kind < 0.75:
            d = dict(kind="sat", s=m, c=0.0)             # odd about the midpoint, bounded
        else:
            d = dict(kind="atan", w=10.0 ** -rng.uniform(300, 308), s=m, c=0.0)
        try:
            ok = sign_change(d, a, b)
        except Exception:
            ok = False
        if ok:
            add(d, a, b, (b / 2 - a / 2) * 10.0 ** -rng.uniform(1, 12), "dblmax-mid/" + d["kind"])
    # 7c. magnitude dimension of the end values: same-sign and opposite-sign pairs whose product underflows to zero ----
    tiny = [1e-200, 1e-320, 2.0 ** -600, 5e-324, 1.5]
    for (a, b) in ((-3.0, 3.5),) if not thorough else ((0.0, 3.0), (-3.0, 3.5)):
        m0 = (a + b) / 2 + (b - a) / 8
        inners = [("0", dict(kind="poly", p=[1.0, 0.0, 1.0])), ("1", dict(kind="poly", p=[-m0, 1.0])),
                  ("2", dict(kind="poly", p=poly_from_roots([m0, m0 - (b - a) / 4])))]
        for ml in tiny:
            for mr in tiny:
                for (sl, sr) in ((1, 1), (-1, -1), (1, -1), (-1, 1)):
                    for (ni, inner) in inners:
                        d = dict(kind="at", t=a, v=sl * ml, inner=dict(kind="at", t=b, v=sr * mr, inner=inner))
                        add(d, a, b, (b - a) * 2.0 ** -rng.randint(4, 20),
                            "guard/tiny-ends/%s/roots%s" % ("same" if sl == sr else "opposite", ni),
                            oracle_only=(sl != sr))   # entering the loop with end values 1e-200 below the interior: IEEE underflow of the products is not in the model
    # 7b. deterministic: the full cross product of end-value classes {neg, pos, zero, NaN, +inf, -inf} at the two
    #     ends (findRoot_guard_table), both orders, over inner functions with and without an interior root -------
    endvals = [("neg", -1.5), ("pos", 2.0), ("zero", 0.0), ("nan", math.nan), ("pinf", math.inf), ("ninf", -math.inf)]
    for (a, b) in ((0.0, 2.0), (-3.0, -0.5), (0.25, 4.0)):
        m0 = (a + b) / 2 + (b - a) / 8
        inners = [dict(kind="poly", p=[-m0, 1.0]), dict(kind="poly", p=[m0, -1.0]), dict(kind="poly", p=[1.0, 0.0, 1.0]),
                  dict(kind="poly", p=poly_from_roots([m0, m0 - (b - a) / 4]))]
        for (nl, vl) in endvals:
            for (nr, vr) in endvals:
                for inner in inners:
                    d = dict(kind="at", t=a, v=vl, inner=dict(kind="at", t=b, v=vr, inner=inner))
                    add(d, a, b, (b - a) * 2.0 ** -rng.randint(4, 30), "guard/ends/%s-%s" % (nl, nr),
                        oracle_only=("inf" in nl or "inf" in nr))
    # 7. guards: zero ends, no sign change, NaN ends -----------------------------------------------------------
    for _ in range(50 * N):
        r0 = dyadic(rng, -8, 8, 2); other = r0 + rng.choice([-1, 1]) * rng.choice([0.5, 1.0, 2.25])
        d = dict(kind="poly", p=poly_from_roots([r0] + ([other + 7] if rng.random() < 0.5 else [])))
        add(d, r0, other, 10.0 ** rng.uniform(-9, 0), "guard/zero-end")
        if rng.random() < 0.3:   # both ends zero
            d2 = dict(kind="poly", p=poly_from_roots([r0, other]))
            add(d2, r0, other, 1e-6, "guard/both-zero")
    for _ in range(50 * N):
        d = dict(kind="poly", p=poly_from_roots([rng.uniform(-1, 1), rng.uniform(-1, 1)], rng.choice([-1.0, 1.0])))
        a = rng.uniform(1.5, 4) * rng.choice([-1, 1]); b = a + math.copysign(rng.uniform(0.1, 3), a)
        if not sign_change(d, a, b):
            add(d, a, b, 10.0 ** rng.uniform(-9, 0), "guard/no-sign-change")
    for _ in range(8 * N):   # even number of roots inside
        rs = sorted(rng.uniform(-1, 1) for _ in range(2))
        d = dict(kind="poly", p=poly_from_roots(rs))
        add(d, rs[0] - 1, rs[1] + 1, 1e-6, "guard/no-sign-change")
    for _ in range(40 * N):
        r0 = rng.uniform(-2, 2)
        inner = dict(kind="poly", p=[-r0, 1.0])
        a, b = r0 - rng.uniform(0.1, 2), r0 + rng.uniform(0.1, 2)
        if rng.random() < 0.5:
            d = dict(kind="nanle", t=a, inner=inner)
        else:
            d = dict(kind="nange", t=b, inner=inner)
        add(d, a, b, 10.0 ** rng.uniform(-9, 0), "guard/nan-end")
    return R


# ---------------------------------------------------------------------------------------------------
# oracle: the property evaluated on the implementation's output
# ---------------------------------------------------------------------------------------------------

def parse_impl(impl):
    t = toks(impl)
    n = int(t[2])
    fs = [fl(x) for x in t[4 + n:4 + 2 * n]] if len(t) >= 4 + 2 * n else None
    return dict(r=fl(t[0]), maxit=int(t[1]), xs=[fl(x) for x in t[3:3 + n]], fs=fs)


def to_x(d, v):
    return Fraction(v)


def oracle(q, I, ctx):
    out = []
    d = q["fn"]
    lo, hi = min(q["xl"], q["xr"]), max(q["xl"], q["xr"])
    acc = q["acc"]
    r = I["r"]
    bad = [x for x in I["xs"] if not (lo <= x <= hi)]
    if bad:
        out.append(fail("prop", "function evaluated outside the bracket", "%r not in [%r,%r]" % (bad[0], lo, hi)))
    if math.isnan(r) or not (lo <= r <= hi):
        out.append(fail("prop", "returned point is not inside the bracket", "%r not in [%r,%r]" % (r, lo, hi)))
        return out
    flo, fhi = feval(d, Fraction(lo)), feval(d, Fraction(hi))
    if flo is None or fhi is None or sgn(flo[0]) * sgn(fhi[0]) > 0:
        out.append(fail("prop", "a number was returned for a bracket without sign change / with NaN ends", "r=%r" % r))
        return out
    # zero ends are returned as they are (the left one first), after exactly the two evaluations at the ends
    # (findRoot_end_zero).  Applied when the end value is zero exactly AND in double evaluation.
    if flo[0] == 0 or fhi[0] == 0:
        exp = lo if flo[0] == 0 else hi
        if double_zero(d, exp):
            if not (r == exp and math.copysign(1, r) == math.copysign(1, exp)) or len(I["xs"]) != 2:
                out.append(fail("prop", "a bracket end that is a zero of the function is not returned as is",
                                "returned %r after %d evaluations, zero end %r" % (r, len(I["xs"]), exp)))
            bump(ctx, "zero end exactly 0.0 in double")
        return out
    # linear functions are solved exactly (findRoot_linear_exact), whatever the scale of their values, as long as
    # the end values are normal doubles (a function quantised in the subnormal range is not linear any more)
    lin = d if d["kind"] == "poly" else (d["inner"] if d["kind"] == "scale" and d["inner"]["kind"] == "poly" else None)
    if lin is not None and len(lin["p"]) == 2 and lin["p"][1] != 0 and max(abs(flo[0]), abs(fhi[0])) >= Fraction(1, 2 ** 960):
        root = -Fraction(lin["p"][0]) / Fraction(lin["p"][1])
        bump(ctx, "linear exactness clause evaluated")
        if abs(Fraction(r) - root) > 8 * U * max(abs(Fraction(lo)), abs(Fraction(hi))):   # audit: worst observed 3.78 u
            out.append(fail("prop", "linear function not solved exactly (to rounding)",
                            "r=%r root=%r |r-root|=%.3e after %d evaluations" % (r, float(root), float(abs(Fraction(r) - root)), len(I["xs"]))))
    W = Fraction(hi) - Fraction(lo)
    delta = Fraction(acc)
    # The iteration limit (2200) covers every width/accuracy ratio of doubles (findRoot_maxiter_bound): there is no
    # allowance for the iteration-limit exit.
    if I["maxit"]:
        bump(ctx, "maxiter exits")
    # zero-slack witness on the function AS THE LIBRARY SAW IT (findRoot_accuracy): the returned point was evaluated, and
    # either its value is zero or an evaluated abscissa strictly within acc of it carries the opposite sign
    if I.get("fs"):
        xs_, fs_ = I["xs"], I["fs"]
        idx = [i for i, x in enumerate(xs_) if x == r]
        fr_ = fs_[idx[-1]] if idx else None
        ok_w = fr_ is not None and (fr_ == 0.0 or any(
            abs(Fraction(x) - Fraction(r)) < delta and not math.isnan(v) and sgn(v) * sgn(fr_) < 0 for x, v in zip(xs_, fs_)))
        bump(ctx, "witness clause evaluated")
        if not ok_w:
            out.append(fail("prop", "the returned point is not an end of an evaluated bracket shorter than the accuracy with a sign change (or a zero)",
                            "r=%r f(r)=%r acc=%r maxit=%d evaluations=%d" % (r, fr_, acc, I["maxit"], len(xs_))))
            return out
    u = max(Fraction(lo), Fraction(r) - delta)
    v = min(Fraction(hi), Fraction(r) + delta)
    pts = [feval(d, u), feval(d, Fraction(r)), feval(d, v)]
    if any(p is None for p in pts):
        return out
    sg = [sgn(p[0]) for p in pts]
    if 0 in sg or len(set(sg)) > 1:     # a zero or a sign change inside [r-acc, r+acc] (clipped to the bracket)
        return out
    # the witness of findRoot_accuracy: an evaluated abscissa within acc of r where f has the other sign
    for x in I["xs"]:
        if x != r and abs(Fraction(x) - Fraction(r)) <= delta:
            fx = feval(d, Fraction(x))
            if fx is not None and sgn(fx[0]) * sg[1] <= 0:
                return out
    noise = min((abs(p[0]) / p[1]) if p[1] else 0 for p in pts)
    if noise <= KNOISE * (float(U) if not isinstance(noise, Fraction) else U):
        bump(ctx, "noise-excused (|f| below its rounding error near the returned point)")
        return out
    out.append(fail("prop", "no sign change of the function within the requested accuracy of the returned point",
                    "r=%r acc=%r f(r-acc)=%.3e f(r)=%.3e f(r+acc)=%.3e maxit=%d" % (r, acc, float(pts[0][0]), float(pts[1][0]), float(pts[2][0]), I["maxit"])))
    return out


def compare_sign(q, impl, model, ctx):
    bump(ctx, "sign2")
    if tag(impl) != "ok" or tag(model) != "ok":
        return [fail("corr", "Sign(x,y): protocol", "impl=%s model=%s" % (impl[:60], model[:60]))]
    v, m = fl(toks(impl)[0]), fr(toks(model)[0])
    ctx["nontrivial"].add(("sign2", sgn(q["x"]), sgn(q["y"]), abs(q["x"]) < 1e-160, abs(q["y"]) < 1e-160))
    if math.isnan(v) or Fraction(v) != m:
        return [fail("corr", "Sign(x,y) differs from its definition (x if the signs agree, -x otherwise)",
                     "Sign(%r,%r) = %r, model %r" % (q["x"], q["y"], v, float(m)))]
    return []


def err_clause(q, impl, ctx):
    """findRoot_guard_table: a bracket that is rejected (NaN at an end / no sign change) is rejected after exactly the two
    evaluations at the ends; any further evaluation means the checks before the loop let it through"""
    t = toks(impl)
    if len(t) >= 2 and t[0] == "evals":
        n = int(t[1])
        lo, hi = min(q["xl"], q["xr"]), max(q["xl"], q["xr"])
        flo, fhi = feval(q["fn"], Fraction(lo)), feval(q["fn"], Fraction(hi))
        rejectable = flo is None or fhi is None or sgn(flo[0]) * sgn(fhi[0]) > 0
        bump(ctx, "diagnostic exits with evaluation count")
        if rejectable and n != 2:
            return [fail("prop", "a bracket without sign change / with NaN ends was not rejected after exactly the two end evaluations",
                         "%d evaluations before the diagnostic exit" % n)]
    return []


def compare(rq, impl, model, ctx):
    q = parse_rq(rq)
    if q["op"] == "c02.sign":
        return compare_sign(q, impl, model, ctx)
    meta = ctx.get("meta", {}).get(rq, dict(fam="replay", order="lr"))
    bump(ctx, meta["fam"])
    fs, both = std_outcome(rq, impl, model)
    out = list(fs)
    excused = False
    I = None
    if tag(impl) == "ok":
        I = parse_impl(impl)
        ctx.setdefault("results", {})[rq] = I
        out += oracle(q, I, ctx)
    elif tag(impl) == "err" and tag(model) == "undef":
        # oracle-only request: an exit is legitimate only without sign change / with NaN ends
        lo, hi = min(q["xl"], q["xr"]), max(q["xl"], q["xr"])
        flo, fhi = feval(q["fn"], Fraction(lo)), feval(q["fn"], Fraction(hi))
        if flo is not None and fhi is not None and sgn(flo[0]) * sgn(fhi[0]) <= 0:
            out.append(fail("prop", "a bracket with a sign change terminated the process", ""))
    if tag(impl) == "err":
        ctx.setdefault("results", {})[rq] = "err"
        out += err_clause(q, impl, ctx)
    iters = 0
    kind = tag(impl)
    if both:
        t = toks(model)
        mkind, mr, n = t[0], fr(t[1]), int(t[2])
        mxs = [fr(x) for x in t[3:3 + n]]
        k = int(t[3 + n])
        mw = [(fr(t[4 + n + 2 * i]), fr(t[5 + n + 2 * i])) for i in range(k)]
        iters = k
        kind = mkind
        xs = list(I["xs"])
        # an immediately repeated evaluation of the same abscissa at the end of a run (Ridders' point coinciding with an
        # exact-zero midpoint) counts as one: the property says nothing about re-evaluating a point
        if len(xs) == n + 1 and n >= 2 and xs[-1] == xs[-2]:
            xs.pop(); bump(ctx, "trace: trailing repeated abscissa collapsed (impl)")
        elif n == len(xs) + 1 and len(xs) >= 2 and mxs[-1] == mxs[-2]:
            mxs.pop(); n -= 1; bump(ctx, "trace: trailing repeated abscissa collapsed (model)")
        lo, hi = Fraction(min(q["xl"], q["xr"])), Fraction(max(q["xl"], q["xr"]))

        def it(i):
            return min(max((i - 2) // 2, 0), k - 1) if k else 0

        def sens(j):
            # assumed growth of a rounding-level perturbation of the iterates along the trajectory (x4 per iteration):
            # slowly converging runs (multiple roots, one-sided creeping) amplify it; beyond ~20 iterations the
            # trace is no longer compared
            return min(Fraction(1), Fraction(4 ** j, 2 ** 44))

        def tol(i):
            if i < 2:
                return Fraction(0)
            j = it(i)
            wj = mw[j][1] if k else hi - lo
            wprev = mw[j - 1][1] if j > 0 else wj
            return (wj + wprev / 2 ** 8) * (Fraction(1, 2 ** 12) + sens(j)) + 32 * U * abs(mxs[min(i, n - 1)])

        def cummargin(i):
            if not k:
                return Fraction(1)
            return min(m for m, _ in mw[:it(i) + 1])

        div = None
        for i in range(min(len(xs), n)):
            if math.isnan(xs[i]) or math.isinf(xs[i]) or abs(Fraction(xs[i]) - mxs[i]) > tol(i):
                div = (i, "abscissa %d: impl %r model %r (tolerance %.3g)" % (i, xs[i], float(mxs[i]), float(tol(i)))); break
        if div is None and len(xs) != n:
            i = min(len(xs), n)
            div = (i, "number of evaluations impl %d model %d (common prefix agrees)" % (len(xs), n))
        if div is None and (("maxiter" == mkind) != bool(I["maxit"])):
            div = (n - 1, "exit path impl maxit=%d model %s" % (I["maxit"], mkind))
        bump(ctx, "trace: abscissae agreeing with the model within tolerance", div[0] if div else n)
        if div:
            if cummargin(div[0]) < max(MARGIN, 8 * sens(it(div[0]))):
                ctx["excused"] += 1; excused = True
                bump(ctx, "trace: divergence excused in iteration %s" % ("0-1" if it(div[0]) < 2 else "2-5" if it(div[0]) < 6 else ">=6"))
            else:
                out.append(fail("corr", "trace of abscissae differs from the model (iterate / re-bracketing / termination)",
                                div[1] + " margin=%.3g" % float(cummargin(div[0]))))
        else:
            if math.isnan(I["r"]) or math.isinf(I["r"]) or abs(Fraction(I["r"]) - mr) > tol(n - 1) + 32 * U * abs(mr):
                out.append(fail("corr", "returned value differs from the model on the same trace", "impl %r model %r" % (I["r"], float(mr))))
    if tag(model) in ("ok", "err") or tag(impl) in ("ok", "err"):
        w = abs(q["xr"] - q["xl"])
        ctx["nontrivial"].add((meta["fam"], kind, iters, int((math.log10(q["acc"]) - math.log10(w)) // 10) * 10 if w and q["acc"] > 0 and not math.isinf(w) else 0, meta["order"], excused))
    return out


def oracle_only(rq, impl, ctx):
    if rq.startswith("c02.sign"):
        return []
    if crashed(impl):
        return [fail("prop", "crash/sanitizer/silent exit: " + tag(impl), impl[:200])]
    q = parse_rq(rq)
    if tag(impl) == "ok":
        return oracle(q, parse_impl(impl), ctx)
    if tag(impl) == "err":
        lo, hi = min(q["xl"], q["xr"]), max(q["xl"], q["xr"])
        flo, fhi = feval(q["fn"], Fraction(lo)), feval(q["fn"], Fraction(hi))
        if flo is not None and fhi is not None and sgn(flo[0]) * sgn(fhi[0]) <= 0:
            return [fail("prop", "a bracket with a sign change terminated the process", "")]
        return err_clause(q, impl, ctx)
    return []


def finalize(ctx, exe):
    """class D (findRoot_swap): the ends in either order give the same run on the implementation itself."""
    out = []
    res = ctx.get("results", {})
    for rq, meta in ctx.get("meta", {}).items():
        if "base" not in meta or rq not in res or meta["base"] not in res:
            continue
        A, B = res[meta["base"]], res[rq]
        if A == "err" or B == "err":
            if A != B:
                out.append(dict(fail("prop", "the order of the bracket ends changes the outcome", "one order exits, the other returns"), req=rq))
            continue
        same = lambda u, v: u == v or (math.isnan(u) and math.isnan(v))
        if not same(A["r"], B["r"]) or len(A["xs"]) != len(B["xs"]) or not all(same(u, v) for u, v in zip(A["xs"], B["xs"])):
            out.append(dict(fail("prop", "the order of the bracket ends changes the result", "%r vs %r, %d vs %d evaluations" % (A["r"], B["r"], len(A["xs"]), len(B["xs"]))), req=rq))
    return out
