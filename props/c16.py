"""C16 — rotations and spherical coordinates are geometrically correct for every axis.

Class B: the cosine/sine of every angle of a request is computed here with mpmath at 320 bits and
handed to the Lean model as exact rationals (the model takes trigonometric values as pairs); the
harness hands the angle itself to the library.  The property oracle (orthogonality, determinant,
fixed axis, right-handed turn, composition; norm, polar angle, phi-handedness, plain formula) is
evaluated on the implementation's own output in 320-bit arithmetic and needs no model.
"""
import math, random
from fractions import Fraction
from common import *
from mpmath import mp, mpf

mp.prec = 320
EPSF = mpf(2) ** -53

RULE = ("requests are drawn from VERIF_SEED plus fixed special families (coordinate axes; tilts from +-z log-uniform over 5e-324..1e-1; "
        "axis lengths over the whole double range 1e-323..1e300 incl. subnormal components, 1.7e308 along z, and lengths within "
        "1e-10..5e-7 of one; angles at multiples of pi/2, theta at and within 1e-12 of the poles); a case is non-trivial when the model "
        "answers ok/err and is counted once per distinct (op, axis class, angle class, length decade, branch) key")
CORR_ONLY = ["class D (history independence): the axis object is produced by 9 histories (constructor, shrinking Resize, Resize down and up, Assign, operator=, copy of a shrunk vector, slice, growing Resize, arithmetic on a shrunk vector); results must be bit-identical to the directly constructed axis "
             "(theorems VecObj.*_wf, norm_history_independent, axisHistory_value)",
             "Angle (an observation point, not part of the statement): acos is applied on the comparison side (mpmath) to the model's cosine; "
             "only pairs at angles in [1e-3, pi-1e-3] and lengths 1e-6..1e6 (v1*v2 is an unscaled dot product; parallel pairs give NaN: observed, outside the property)",
             "cos/sin/sqrt/hypot of libm are compared with mpmath values (320 bits) of the same double argument",
             "Spherical_Coordinates about an axis whose unit-vector transverse length is below 2^-1000: only the property clauses (norm, polar angle, "
             "handedness) are judged, the vector is not compared with the model (counted as excused): ev_x, ev_y are rounded to multiples of 2^-1074 "
             "or to 0, which turns the azimuth origin of the frame — the property does not fix that origin",
             "Norm() below 2^-1022 is compared with an absolute tolerance of 2^-1074 (representability of a subnormal result)"]
ASSUMPTIONS = ["libm cos/sin/sqrt/hypot/acos are accurate to a few ulp at the double arguments used",
               "theorems take trigonometric values as pairs (c,s) with c*c+s*s=1 and sqrt as a function sq that is the exact non-negative root at "
               "the arguments the code passes (SqAt / NormAt); the power-of-two scaling of Vector::Norm (8a680df) is value-neutral (norm3_scaled_noop)"]
TRUSTED = ["mpmath 1.3 (320-bit cos/sin/sqrt/acos) as the reference for transcendental values in the C16 comparator"]

K_ROT = 32      # absolute, entries are O(1)              (audit: worst 18.2 eps orthogonality, 12 det, 9.2 axis, 3 turn)
K_SPH = 8       # relative to r                         (audit: worst 3.9 eps r)
K_NORM = 16
K_COMP = 32     # product of two computed rotations against a third   (audit: worst 13.8 eps)


# ---------------------------------------------------------------------------------------------
# helpers

def ratstr(x):
    """exact 'num/den' of an mpf"""
    sign, man, exp, bc = x._mpf_
    man = int(man)
    if sign:
        man = -man
    if exp >= 0:
        return "%d/1" % (man << exp)
    return "%d/%d" % (man, 1 << (-exp))


def cs_tokens(angle):
    a = mpf(angle)
    return ratstr(mp.cos(a)) + " " + ratstr(mp.sin(a))


def M(x):
    """Fraction / float -> mpf exactly enough (floats exact; fractions to 320 bits)"""
    if isinstance(x, Fraction):
        return mpf(x.numerator) / mpf(x.denominator)
    return mpf(x)


def dot(a, b):
    return sum((x * y for x, y in zip(a, b)), mpf(0))


def cross(a, b):
    return [a[1] * b[2] - a[2] * b[1], a[2] * b[0] - a[0] * b[2], a[0] * b[1] - a[1] * b[0]]


def unit(a):
    n = mp.sqrt(dot(a, a))
    return [x / n for x in a]


def matvec(R, v):
    return [dot(row, v) for row in R]


def matmul(A, B):
    n = len(A)
    return [[sum((A[i][k] * B[k][j] for k in range(n)), mpf(0)) for j in range(n)] for i in range(n)]


def transpose(A):
    return [list(r) for r in zip(*A)]


def maxabs(xs):
    return max(abs(x) for x in xs)


def det3(R):
    return dot(R[0], cross(R[1], R[2]))


def perp_pair(n):
    """two unit vectors v, w with (v, w, n) right-handed orthonormal"""
    k = min(range(3), key=lambda i: abs(n[i]))
    e = [mpf(0)] * 3
    e[k] = mpf(1)
    v = unit(cross(n, e))
    w = cross(n, v)
    return v, w


def finite(vals):
    return all(not (math.isnan(v) or math.isinf(v)) for v in vals)


# ---------------------------------------------------------------------------------------------
# generation

def rand_angle(rng, k):
    c = k % 8
    if c == 0:
        return rng.choice([0.0, math.pi / 2, -math.pi / 2, math.pi, -math.pi, 2 * math.pi, -2 * math.pi,
                           4 * math.pi, -4 * math.pi, 3 * math.pi / 2, math.pi / 4, 1e-9, -1e-9, 1e-300])
    if c == 1:
        return rng.randint(-12868, 12868) / 1024.0          # dyadic, |a| <= 4pi
    return rng.uniform(-4 * math.pi, 4 * math.pi)


def sphere_point(rng):
    while True:
        v = [rng.gauss(0, 1) for _ in range(3)]
        if sum(x * x for x in v) > 1e-4:
            return v


def axis_length(rng, k):
    """length of a generated axis: the statement says 'every non-zero axis of any length' — the whole double range,
    including lengths whose components are subnormal"""
    c = k % 6
    if c == 0:
        return 1.0
    if c in (1, 2):
        return 10.0 ** rng.uniform(-6, 6)
    if c == 3:
        return 10.0 ** rng.uniform(-300, 300)
    if c == 4:
        return 10.0 ** (rng.uniform(150, 300) * rng.choice([-1, 1]))
    return 10.0 ** rng.uniform(-323, -305)


def rand_axis(rng, k):
    """(axis, class label)"""
    c = k % 10
    L = axis_length(rng, rng.randrange(6))
    if c == 0:
        i = rng.randrange(3)
        v = [0.0, 0.0, 0.0]
        v[i] = rng.choice([-1.0, 1.0])
        return [x * L for x in v], "coord%d%s" % (i, "+" if v[i] > 0 else "-")
    if c == 1:
        d = rng.choice([1e-15, 1e-12, 1e-12, 1e-10, 1e-9, 1e-6, 3e-13]) * rng.uniform(0.3, 1.0)
        ph = rng.uniform(0, 2 * math.pi)
        sgn = rng.choice([-1.0, 1.0])
        return [L * d * math.cos(ph), L * d * math.sin(ph), L * sgn], "nearz" + ("+" if sgn > 0 else "-")
    if c == 2:
        v = sphere_point(rng)
        v[rng.randrange(3)] = 0.0
        if not any(v):
            v[0] = 1.0
        return [x * L for x in v], "plane"
    if c == 3:
        v = [float(rng.randint(-3, 3)) for _ in range(3)]
        if not any(v):
            v[2] = -1.0
        return [x * L for x in v], "lattice"
    v = sphere_point(rng)
    if c == 9:
        # length within 1e-10..5e-7 of one, but not one: 'any length' includes the almost-unit axes (a shortcut that
        # skips the normalisation of 'unit' axes must compare exactly)
        n0 = math.sqrt(sum(x * x for x in v))
        d = rng.choice([1e-7, -1e-7, 3e-7, -3e-7, 4.9e-7, -4.9e-7, 1e-8, -1e-8, 1e-10, -1e-10])
        return [x / n0 * (1.0 + d) for x in v], "nearunit"
    return [x * L for x in v], "generic"


def tilt_axis(rng, k):
    """axis tilted from +-z by d, log-uniform over the whole double range 5e-324 .. 1e-1 (both poles, every
    azimuth of the tilt incl. the coordinate azimuths, lengths 1e-6..1e6).  Products that underflow give an axis
    exactly along +-z — a legitimate member."""
    d = 10.0 ** rng.uniform(-323.3, -1.0)
    if k % 7 == 0:
        d = rng.choice([5e-324, 1e-323, 3e-320, 1e-310, 2.3e-308, 3e-162, 1e-162, 7e-160, 1e-155, 1.5e-154, 1e-153,
                        1e-100, 1e-30, 1e-16, 1e-12, 1e-8])
    ph = rng.uniform(0, 2 * math.pi)
    if k % 5 == 0:
        ph = rng.choice([0.0, math.pi / 2, math.pi, 3 * math.pi / 2, math.pi / 4])
    sgn = -1.0 if k % 2 else 1.0
    L = axis_length(rng, rng.randrange(6))
    c, sn = math.cos(ph), math.sin(ph)
    if abs(c) < 1e-15:
        c = 0.0
    if abs(sn) < 1e-15:
        sn = 0.0
    return [L * d * c, L * d * sn, L * sgn]


def rand_theta(rng, k):
    c = k % 8
    if c == 0:
        return rng.choice([0.0, math.pi, math.pi / 2, 1e-12, math.pi - 1e-12, 1e-8, math.pi - 1e-8, 1e-6, 1e-3,
                           math.pi - 1e-3, 1e-15, 1e-5, math.pi - 1e-5])
    if c == 1:
        return 10.0 ** rng.uniform(-12, -1) if rng.random() < 0.5 else math.pi - 10.0 ** rng.uniform(-12, -1)
    return rng.uniform(0, math.pi)


def rand_phi(rng, k):
    if k % 9 == 0:
        return rng.choice([0.0, math.pi / 2, math.pi, 3 * math.pi / 2, 1e-10])
    return rng.uniform(0, 2 * math.pi)


def rand_r(rng, k):
    if k % 4 == 0:
        return rng.choice([1.0, 2.0, 0.5, 1e-6, 1e6, 220.0])
    return 10.0 ** rng.uniform(-6, 6)


def v3(v):
    return " ".join(hx(x) for x in v)


def generate(tier, seed, ctx):
    rng = random.Random(seed * 104729 + 16)
    thorough = tier == "thorough"
    R = []
    groups = ctx.setdefault("c16_groups", {})
    # --- 2-D rotations -----------------------------------------------------------------------
    for k in range(600 if thorough else 150):
        a = rand_angle(rng, k)
        R.append("c16.rot2 %s %s" % (hx(a), cs_tokens(a)))
    # --- 3-D rotations -----------------------------------------------------------------------
    for k in range(6000 if thorough else 900):
        a = rand_angle(rng, rng.randrange(8))
        ax, cl = rand_axis(rng, k)
        R.append("c16.rot3 %s %s %s" % (hx(a), cs_tokens(a), v3(ax)))
    for k in range(40):
        a = rand_angle(rng, k)
        R.append("c16.rot3d %s %s" % (hx(a), cs_tokens(a)))
    # six coordinate directions x quarter turns (exactly representable expectations up to sin(pi))
    for i in range(3):
        for sg in (1.0, -1.0):
            for a in (math.pi / 2, math.pi, -math.pi / 2, 0.0):
                ax = [0.0, 0.0, 0.0]
                ax[i] = sg
                R.append("c16.rot3 %s %s %s" % (hx(a), cs_tokens(a), v3(ax)))
    # --- composition companions: dyadic angles, a1 + a2 exact -----------------------------------
    for g in range(300 if thorough else 60):
        a1 = rng.randint(-6400, 6400) / 1024.0
        a2 = rng.randint(-6400, 6400) / 1024.0
        a3 = a1 + a2
        ax, cl = rand_axis(rng, g)
        for j, a in enumerate((a1, a2, a3)):
            R.append("c16.rot3 %s %s %s" % (hx(a), cs_tokens(a), v3(ax)))
            groups.setdefault(("comp3", g), {})[j] = R[-1]
            R.append("c16.rot2 %s %s" % (hx(a), cs_tokens(a)))
            groups.setdefault(("comp2", g), {})[j] = R[-1]
    # --- guards / general entry point -----------------------------------------------------------
    for k in range(60 if thorough else 30):
        a = rand_angle(rng, k)
        dim = rng.choice([2, 3, 3, 3, 0, 1, 4, -1, 5])
        n = rng.choice([3, 3, 3, 0, 1, 2, 4])
        ax = [rng.uniform(-1, 1) for _ in range(n)]
        if k % 11 == 0:
            ax = [0.0] * n
        R.append("c16.rotg %s %s %d %s" % (hx(a), cs_tokens(a), dim, lst(ax)))
    # --- plain spherical coordinates ----------------------------------------------------------
    for k in range(1500 if thorough else 300):
        r, th, ph = rand_r(rng, k), rand_theta(rng, rng.randrange(8)), rand_phi(rng, k)
        if k % 13 == 0:
            th = rng.uniform(-4 * math.pi, 4 * math.pi)      # outside [0,pi]: formula still as stated
            ph = rng.uniform(-4 * math.pi, 4 * math.pi)
        R.append("c16.sph %s %s %s %s %s" % (hx(r), hx(th), hx(ph), cs_tokens(th), cs_tokens(ph)))
    # --- spherical coordinates about an axis ------------------------------------------------------
    for k in range(8000 if thorough else 1200):
        r, th, ph = rand_r(rng, rng.randrange(4)), rand_theta(rng, rng.randrange(8)), rand_phi(rng, rng.randrange(9))
        ax, cl = rand_axis(rng, k)
        if k % 97 == 0:
            ax = [0.0, 0.0, 0.0]                              # zero axis: the code falls back to the plain formula
        R.append("c16.sphax %s %s %s %s %s %s" % (hx(r), hx(th), hx(ph), cs_tokens(th), cs_tokens(ph), v3(ax)))
    # exactly +-z with all lengths, and theta at the poles about generic axes
    for sg in (1.0, -1.0):
        for L in (1.0, 1e-6, 1e6, 3.0, 0.1, 1e-300, 1e300, 1.7e308, 2.3e-308, 1e-320, 5e-324):
            for th in (0.0, 0.3, math.pi / 2, 2.5, math.pi):
                ph = rng.uniform(0, 2 * math.pi)
                R.append("c16.sphax %s %s %s %s %s %s" % (hx(2.0), hx(th), hx(ph), cs_tokens(th), cs_tokens(ph), v3([0.0, 0.0, sg * L])))
    # --- phi-handedness companions -------------------------------------------------------------------
    for g in range(400 if thorough else 80):
        r = rand_r(rng, g)
        th = rng.uniform(0.05, math.pi - 0.05)
        ph1 = rng.uniform(0, 2 * math.pi)
        ph2 = ph1 + rng.choice([-1.0, 1.0]) * rng.uniform(0.1, 3.0)
        ax, cl = rand_axis(rng, g)
        if g % 5 < 2:      # exactly along -z / +z (the explicit branches), any length
            ax = [0.0, 0.0, (-1.0 if g % 5 == 0 else 1.0) * axis_length(rng, rng.randrange(6))]
        for j, ph in enumerate((ph1, ph2)):
            R.append("c16.sphax %s %s %s %s %s %s" % (hx(r), hx(th), hx(ph), cs_tokens(th), cs_tokens(ph), v3(ax)))
            groups.setdefault(("hand", g), {})[j] = R[-1]
    # --- tilt family: axes at every distance 5e-324 .. 1e-1 from +-z (ded1f77: subnormal squares of the transverse part) ----
    for k in range(2400 if thorough else 420):
        r, th, ph = rand_r(rng, rng.randrange(4)), rand_theta(rng, rng.randrange(8)), rand_phi(rng, rng.randrange(9))
        if k % 3 == 0:
            th = rng.choice([math.pi / 2, 1.0, 2.0, 0.3])          # sin(theta) large: the transverse frame matters most
        ax = tilt_axis(rng, k)
        R.append("c16.sphax %s %s %s %s %s %s" % (hx(r), hx(th), hx(ph), cs_tokens(th), cs_tokens(ph), v3(ax)))
    R.append("c16.sphax %s %s %s %s %s %s" % (hx(2.0), hx(math.pi / 2), hx(0.3), cs_tokens(math.pi / 2), cs_tokens(0.3), v3([3e-162, 0.0, 1.0])))
    for g in range(240 if thorough else 40):
        r = rand_r(rng, g)
        th = rng.uniform(0.05, math.pi - 0.05)
        ph1 = rng.uniform(0, 2 * math.pi)
        ph2 = ph1 + rng.choice([-1.0, 1.0]) * rng.uniform(0.1, 3.0)
        ax = tilt_axis(rng, g)
        for j, ph in enumerate((ph1, ph2)):
            R.append("c16.sphax %s %s %s %s %s %s" % (hx(r), hx(th), hx(ph), cs_tokens(th), cs_tokens(ph), v3(ax)))
            groups.setdefault(("hand", 100000 + g), {})[j] = R[-1]
    for k in range(1200 if thorough else 200):
        a = rand_angle(rng, rng.randrange(8))
        R.append("c16.rot3 %s %s %s" % (hx(a), cs_tokens(a), v3(tilt_axis(rng, k))))
    # --- the axis as an object with a history (class D): same three components reached by different object histories --------
    for g in range(60 if thorough else 12):
        ax, cl = rand_axis(rng, g) if g % 3 else (tilt_axis(rng, g), "tilt")
        if not any(ax):
            ax = [1.0, 2.0, 2.0]
        big = max(abs(x) for x in ax)
        ex = [big * rng.choice([-1.0, 1.0]) * rng.uniform(0.5, 4.0) for _ in range(rng.randint(1, 3))]
        if g % 4 == 0:
            ax, ex = [1.0, 2.0, 2.0], [4.0]
        alpha = rand_angle(rng, rng.randrange(8))
        r, th, ph = rand_r(rng, rng.randrange(4)), rng.uniform(0.05, math.pi - 0.05), rand_phi(rng, rng.randrange(9))
        for kind in range(9):
            R.append("c16.rot3h %s %s %s %d %s" % (hx(alpha), cs_tokens(alpha), v3(ax), kind, lst(ex)))
            groups.setdefault(("hist3", g), {})[kind] = R[-1]
            R.append("c16.sphaxh %s %s %s %s %s %s %d %s" % (hx(r), hx(th), hx(ph), cs_tokens(th), cs_tokens(ph), v3(ax), kind, lst(ex)))
            groups.setdefault(("hists", g), {})[kind] = R[-1]
    # --- Angle -----------------------------------------------------------------------------------------
    for k in range(600 if thorough else 150):
        n = 3 if k % 3 else rng.randint(1, 6)
        if n == 1 or k % 29 == 0:
            # differing dimensions -> diagnostic; zero vector -> undefined
            v = [rng.uniform(-1, 1) for _ in range(n)]
            w = [rng.uniform(-1, 1) for _ in range(n + 1)] if k % 2 else [0.0] * n
            R.append("c16.angle %s %s" % (lst(v), lst(w)))
            continue
        # build a pair at a chosen angle in [1e-3, pi-1e-3]
        ang = rng.choice([1e-3, 0.01, math.pi - 1e-3, math.pi / 2]) if k % 5 == 0 else rng.uniform(1.5e-3, math.pi - 1.5e-3)
        while True:
            u = [rng.gauss(0, 1) for _ in range(n)]
            p = [rng.gauss(0, 1) for _ in range(n)]
            nu = math.sqrt(sum(x * x for x in u))
            u = [x / nu for x in u]
            d = sum(x * y for x, y in zip(u, p))
            p = [y - d * x for x, y in zip(u, p)]
            np_ = math.sqrt(sum(x * x for x in p))
            if np_ > 1e-3:
                break
        p = [x / np_ for x in p]
        L1, L2 = 10.0 ** rng.uniform(-6, 6), 10.0 ** rng.uniform(-6, 6)
        v = [L1 * x for x in u]
        w = [L2 * (math.cos(ang) * x + math.sin(ang) * y) for x, y in zip(u, p)]
        R.append("c16.angle %s %s" % (lst(v), lst(w)))
    # --- Norm / Normalized / Normalize --------------------------------------------------------------------
    for k in range(600 if thorough else 150):
        n = rng.randint(1, 6) if k % 2 else 3
        L = axis_length(rng, rng.randrange(6))
        v = [L * rng.uniform(-1, 1) for _ in range(n)]
        if k % 7 == 0:
            v[rng.randrange(n)] = 0.0
        if k % 50 == 0:
            v = [0.0] * n
        if k % 10 == 3:
            v = [float(rng.randint(-4, 4)) for _ in range(n)]
        R.append("c16.norm %s" % lst(v))
    return R


# ---------------------------------------------------------------------------------------------
# comparison

def _floats(ts):
    return [fl(t) for t in ts]


def _angle_class(a):
    q = a / (math.pi / 2)
    if abs(q - round(q)) < 1e-9:
        return "q%d" % (int(round(q)) % 4)
    return "neg" if a < 0 else "pos"


def _axis_class(ax):
    big = max(abs(x) for x in ax)
    if big == 0:
        return ("zero",)
    m, ex = math.frexp(big)
    sc = [math.ldexp(x, -ex) for x in ax]            # scaled by a power of two: no under/overflow of the squares
    n0 = math.sqrt(sum(x * x for x in sc))
    e = [x / n0 for x in sc]
    n = big
    zeros = tuple(x == 0 for x in e)
    tilt = math.hypot(e[0], e[1])
    tcl = "on" if tilt == 0 else ("near" if tilt < 1e-5 else "off")
    return (zeros, tcl, e[2] > 0, int(math.floor(math.log10(n) / 3)))


def oracle_rot3(R, c, s, ax, tol):
    """property clauses on the implementation's matrix; returns list of (clause, detail)"""
    out = []
    Rm = [[mpf(x) for x in R[3 * i:3 * i + 3]] for i in range(3)]
    RtR = matmul(transpose(Rm), Rm)
    dev = max(abs(RtR[i][j] - (1 if i == j else 0)) for i in range(3) for j in range(3))
    if dev > tol:
        out.append(("Rotation_Matrix(3D): not orthogonal (R^T R != 1)", "dev=%s" % mp.nstr(dev, 5)))
    d = det3(Rm)
    if abs(d - 1) > tol:
        out.append(("Rotation_Matrix(3D): determinant is not 1", "det=%s" % mp.nstr(d, 20)))
    n = unit([mpf(x) for x in ax])
    dev = maxabs([a - b for a, b in zip(matvec(Rm, n), n)])
    if dev > tol:
        out.append(("Rotation_Matrix(3D): axis is not left fixed", "dev=%s" % mp.nstr(dev, 5)))
    v, w = perp_pair(n)
    for (p, q) in ((v, w), (w, [-x for x in v])):
        exp = [c * a + s * b for a, b in zip(p, q)]      # R p = c p + s (n x p)
        dev = maxabs([a - b for a, b in zip(matvec(Rm, p), exp)])
        if dev > tol:
            out.append(("Rotation_Matrix(3D): a vector perpendicular to the axis is not turned right-handedly by alpha", "dev=%s" % mp.nstr(dev, 5)))
            break
    return out


def compare(rq, impl, model, ctx):
    op = rq.split(" ", 1)[0]
    a = rq.split()[1:]
    bump(ctx, op)
    ctx.setdefault("c16_results", {})[rq] = impl
    if op in ("c16.rot3h", "c16.sphaxh"):
        # the axis object was produced by a history (harness: axis_with_history); its value is the three components:
        # judged exactly like the plain op, the bit-for-bit comparison across histories is done in finalize (class D)
        nb = 6 if op == "c16.rot3h" else 10
        bump(ctx, "history.kind%s" % a[nb])
        a = a[:nb]
        op = op[:-1]
        if "history" in toks(impl):
            return [fail("corr", "harness: the history did not produce the requested axis value", impl[:200])]
    fs, both = std_outcome(rq, impl, model)
    if tag(model) in ("ok", "err"):
        ctx["nontrivial"].add(_key(op, a, model))
    if not both:
        return fs
    ti, tm = toks(impl), toks(model)
    out = []
    if op == "c16.rot2":
        alpha = fl(a[0]); c, s = M(fr(a[1])), M(fr(a[2]))
        if "shape" in ti:
            return [fail("prop", "Rotation_Matrix(2D): not a 2x2 matrix", impl)]
        R = _floats(ti)
        if not finite(R):
            return [fail("prop", "Rotation_Matrix(2D): non-finite entry", impl)]
        tol = K_ROT * EPSF
        a11, a12, a21, a22 = [mpf(x) for x in R]
        if max(abs(a11 * a11 + a21 * a21 - 1), abs(a12 * a12 + a22 * a22 - 1), abs(a11 * a12 + a21 * a22)) > tol:
            out.append(fail("prop", "Rotation_Matrix(2D): not orthogonal", ""))
        if abs(a11 * a22 - a12 * a21 - 1) > tol:
            out.append(fail("prop", "Rotation_Matrix(2D): determinant is not 1", ""))
        if max(abs(a11 - c), abs(a21 - s)) > tol or max(abs(a12 + s), abs(a22 - c)) > tol:
            out.append(fail("prop", "Rotation_Matrix(2D): e_x is not turned counter-clockwise by alpha (R e_x = (cos a, sin a), R e_y = (-sin a, cos a))", ""))
        if not out:
            vm = [fr(t) for t in tm]
            if not all(close(x, m, 1, K_ROT) for x, m in zip(R, vm)):
                out.append(fail("corr", "rot2 differs from the model", ""))
        bump(ctx, "rot2.angle." + _angle_class(alpha))
    elif op in ("c16.rot3", "c16.rot3d", "c16.rotg"):
        c, s = M(fr(a[1])), M(fr(a[2]))
        if "shape" in ti:
            return [fail("prop", "Rotation_Matrix: wrong shape", impl)]
        if op == "c16.rotg":
            if ti[0] != tm[0]:
                return [fail("prop", "Rotation_Matrix(alpha,dim,axis): dimension of the result is not dim", impl)]
            dim = int(ti[0]); ti = ti[1:]; tm = tm[1:]
            if dim == 2:
                R = _floats(ti); vm = [fr(t) for t in tm]
                if not all(close(x, m, 1, K_ROT) for x, m in zip(R, vm)):
                    out.append(fail("prop", "Rotation_Matrix(alpha,2,axis): differs from the 2D rotation", ""))
                return fs + out
            n = int(a[4]); ax = _floats(a[5:5 + n])
        elif op == "c16.rot3d":
            ax = [0.0, 0.0, 1.0]
        else:
            ax = _floats(a[3:6])
        R = _floats(ti)
        if len(R) != 9 or not finite(R):
            return [fail("prop", "Rotation_Matrix(3D): non-finite entry for a non-zero axis", impl)]
        tol = K_ROT * EPSF
        for clause, det in oracle_rot3(R, c, s, ax, tol):
            out.append(fail("prop", clause, det))
        if not out:
            vm = [fr(t) for t in tm]
            bad = [i for i, (x, m) in enumerate(zip(R, vm)) if not close(x, m, 1, K_ROT)]
            if bad:
                out.append(fail("corr", "rot3 entry %s differs from the model" % bad, "%r vs %s" % (R[bad[0]], float(vm[bad[0]]))))
        _track(ctx, "rot", [abs(Fraction(x) - fr(m)) for x, m in zip(R, tm)], 1)
        bump(ctx, "rot3.axis.%s" % (_axis_class(ax)[1] if len(_axis_class(ax)) > 1 else "zero"))
    elif op == "c16.sph":
        r = fl(a[0]); ct, st, cp, sp = [M(fr(t)) for t in a[3:7]]
        v = _floats(ti)
        exp = [mpf(r) * st * cp, mpf(r) * st * sp, mpf(r) * ct]
        tol = K_SPH * EPSF * abs(mpf(r))
        if not finite(v) or maxabs([mpf(x) - e for x, e in zip(v, exp)]) > tol:
            out.append(fail("prop", "Spherical_Coordinates(r,theta,phi) is not (r sin(theta) cos(phi), r sin(theta) sin(phi), r cos(theta))",
                            "%r vs %s" % (v, [mp.nstr(e, 17) for e in exp])))
        else:
            vm = [fr(t) for t in tm]
            if not all(close(x, m, abs(Fraction(r)), K_SPH) for x, m in zip(v, vm)):
                out.append(fail("corr", "sph differs from the model", ""))
            _track(ctx, "sph", [abs(Fraction(x) - m) for x, m in zip(v, vm)], abs(Fraction(r)))
    elif op == "c16.sphax":
        r = fl(a[0]); th = fl(a[1]); ct, st, cp, sp = [M(fr(t)) for t in a[3:7]]
        ax = _floats(a[7:10])
        v = _floats(ti)
        branch = tm[3]
        bump(ctx, "sphax.branch." + branch)
        if not finite(v):
            return fs + [fail("prop", "Spherical_Coordinates(r,theta,phi,axis): non-finite component", impl)]
        rm = abs(mpf(r))
        tol = K_SPH * EPSF * rm
        vmp = [mpf(x) for x in v]
        if any(ax):
            e = unit([mpf(x) for x in ax])
            nv = mp.sqrt(dot(vmp, vmp))
            if abs(nv - rm) > tol:
                out.append(fail("prop", "Spherical_Coordinates(axis): norm is not r", "|v|=%s r=%r" % (mp.nstr(nv, 20), r)))
            if abs(dot(vmp, e) - mpf(r) * ct) > tol:
                out.append(fail("prop", "Spherical_Coordinates(axis): polar angle from the axis is not theta (v.e != r cos theta)",
                                "v.e=%s r cos=%s" % (mp.nstr(dot(vmp, e), 20), mp.nstr(mpf(r) * ct, 20))))
            cr = cross(vmp, e)
            pl = mp.sqrt(dot(cr, cr))
            if abs(pl - rm * abs(st)) > tol:
                out.append(fail("prop", "Spherical_Coordinates(axis): polar angle from the axis is not theta (|v x e| != r sin theta)",
                                "|v x e|=%s r sin=%s theta=%r" % (mp.nstr(pl, 20), mp.nstr(rm * abs(st), 20), th)))
        vm = [fr(t) for t in tm[:3]]
        # transverse length of the unit axis; below the normal range (2^-1022) ev_x, ev_y are rounded to multiples of
        # 2^-1074 (or to 0: then the explicit +-z branch runs), which turns the azimuth origin of the frame by up to
        # 2^-1074/|ev_t| — the property (norm, polar angle, handedness) does not fix that origin, the exact model does
        tcl = "exact" if not (ax[0] or ax[1]) else "normal"
        if any(ax) and (ax[0] or ax[1]):
            e = unit([mpf(x) for x in ax])
            et = mp.sqrt(e[0] * e[0] + e[1] * e[1])
            if et < mpf(2) ** -1000:
                tcl = "subnormal"
            elif et < mpf(10) ** -150:
                tcl = "squares-underflow"
            elif et < mpf(10) ** -8:
                tcl = "tiny"
        bump(ctx, "sphax.tilt." + tcl)
        if tcl == "subnormal":
            if not out:
                ctx["excused"] += 1
        else:
            if not out and not all(close(x, m, abs(Fraction(r)), K_SPH) for x, m in zip(v, vm)):
                out.append(fail("corr", "sphax (%s branch) differs from the model" % branch, "%r vs %s" % (v, [float(m) for m in vm])))
            _track(ctx, "sphax", [abs(Fraction(x) - m) for x, m in zip(v, vm)], abs(Fraction(r)))
    elif op == "c16.angle":
        got = fl(ti[0])
        m = M(fr(tm[0]))
        if abs(m) > 1:
            return fs
        exp = mp.acos(m)
        sn = mp.sqrt(1 - m * m)
        if math.isnan(got) or abs(mpf(got) - exp) > 16 * EPSF * (4 + 1 / sn):
            out.append(fail("corr", "Angle differs from acos of the model's cosine", "%r vs %s" % (got, mp.nstr(exp, 20))))
    elif op == "c16.norm":
        n = int(a[0]); v = _floats(a[1:1 + n])
        vals = _floats(ti)
        nrm, u1, u2 = vals[0], vals[1:1 + n], vals[1 + n:1 + 2 * n]
        mn = fr(tm[0]); mu = [fr(t) for t in tm[1:]]
        if u1 != u2:
            out.append(fail("prop", "Normalize() and Normalized() disagree", ""))
        vm_ = [mpf(x) for x in v]
        um = [mpf(x) for x in u1]
        if not finite(vals) or abs(mp.sqrt(dot(um, um)) - 1) > K_NORM * EPSF:
            out.append(fail("prop", "Normalized(): result is not a unit vector", ""))
        elif abs(dot(um, vm_) - mp.sqrt(dot(vm_, vm_))) > K_NORM * EPSF * mp.sqrt(dot(vm_, vm_)):
            out.append(fail("prop", "Normalized(): result is not parallel to the vector", ""))
        if not out:
            # a norm below 2^-1022 can only be returned to the nearest multiple of 2^-1074 (representability, not slack)
            if not close(nrm, mn, mn, K_NORM, atol=Fraction(1, 2 ** 1074)) or not all(close(x, m, 1, K_NORM) for x, m in zip(u1, mu)):
                out.append(fail("corr", "Norm/Normalized differs from the model", ""))
    return fs + out


def _track(ctx, name, diffs, scale):
    """largest observed error in units of eps*scale (for calibration; printed in the evidence)"""
    if not diffs or not scale:
        return
    k = float(max(diffs) / (EPS * scale))
    key = "maxerr_eps." + name
    if k > ctx["stats"].get(key, 0):
        ctx["stats"][key] = round(k, 3)


def _key(op, a, model):
    try:
        if op in ("c16.rot2", "c16.rot3d"):
            return (op, _angle_class(fl(a[0])))
        if op == "c16.rot3":
            return (op, _angle_class(fl(a[0])), _axis_class(_floats(a[3:6])))
        if op == "c16.rotg":
            return (op, a[3], a[4], tag(model))
        if op == "c16.sph":
            th = fl(a[1])
            return (op, int(th * 8 / math.pi), int(math.floor(math.log10(abs(fl(a[0])) or 1) / 3)))
        if op == "c16.sphax":
            th = fl(a[1])
            pole = "pole0" if th < 1e-3 else ("polepi" if th > math.pi - 1e-3 else int(th * 4 / math.pi))
            return (op, pole, _axis_class(_floats(a[7:10])), toks(model)[3] if tag(model) == "ok" else "")
        if op == "c16.angle":
            return (op, a[0], tag(model))
        if op == "c16.norm":
            return (op, a[0], tag(model))
    except Exception:
        pass
    return (op, tag(model))


def _impl_floats(ctx, rq):
    impl = ctx.get("c16_results", {}).get(rq)
    if impl is None or tag(impl) != "ok":
        return None
    try:
        v = _floats(toks(impl))
    except ValueError:
        return None
    return v if finite(v) else None


def finalize(ctx, exe):
    """laws between companion requests, on the implementation's own outputs"""
    out = []
    for (kind, g), d in sorted(ctx.get("c16_groups", {}).items()):
        if kind in ("comp3", "comp2"):
            if len(d) < 3:
                continue
            Rs = [_impl_floats(ctx, d[j]) for j in range(3)]
            if any(r is None for r in Rs):
                continue
            n = 3 if kind == "comp3" else 2
            A, B, C = [[[mpf(x) for x in r[n * i:n * i + n]] for i in range(n)] for r in Rs]
            P = matmul(A, B)
            dev = max(abs(P[i][j] - C[i][j]) for i in range(n) for j in range(n))
            ctx["nontrivial"].add((kind, g % 10))
            if dev > K_COMP * EPSF:
                out.append(dict(fail("prop", "Rotation_Matrix(%dD): R(a1) R(a2) != R(a1+a2) about the same axis" % n,
                                     "dev=%s; a2 request: %s" % (mp.nstr(dev, 5), d[1][:120])), req=d[0], impl=ctx["c16_results"].get(d[0], "")))
        elif kind in ("hist3", "hists"):
            base = ctx.get("c16_results", {}).get(d.get(0, ""), None)
            if base is None or tag(base) != "ok":
                continue
            ctx["nontrivial"].add((kind, g % 10))
            for k in sorted(d):
                other = ctx["c16_results"].get(d[k])
                if k == 0 or other is None:
                    continue
                if other != base:
                    what = "Rotation_Matrix(alpha,3,axis)" if kind == "hist3" else "Spherical_Coordinates(r,theta,phi,axis)"
                    out.append(dict(fail("prop", what + ": the result depends on the history of the axis object (same Size() and components, "
                                         "different construction/Resize/Assign/copy history) instead of its three components only",
                                         "history %d: %s  vs directly constructed: %s" % (k, other[:160], base[:160])),
                                    req=d[k], impl=other))
                    break
        elif kind == "hand":
            if len(d) < 2:
                continue
            vs = [_impl_floats(ctx, d[j]) for j in range(2)]
            if any(v is None for v in vs):
                continue
            a0, a1 = d[0].split()[1:], d[1].split()[1:]
            r = mpf(fl(a0[0])); st = M(fr(a0[4]))
            ph1, ph2 = mpf(fl(a0[2])), mpf(fl(a1[2]))
            e = unit([mpf(fl(t)) for t in a0[7:10]])
            lhs = dot(cross([mpf(x) for x in vs[0]], [mpf(x) for x in vs[1]]), e)
            exp = r * r * st * st * mp.sin(ph2 - ph1)
            ctx["nontrivial"].add((kind, g % 10))
            if abs(lhs - exp) > 4 * K_SPH * EPSF * r * r:
                out.append(dict(fail("prop", "Spherical_Coordinates(axis): increasing phi does not turn right-handedly about the axis ((v(phi1) x v(phi2)).e != r^2 sin^2(theta) sin(phi2-phi1))",
                                     "lhs=%s expected=%s; second request: %s" % (mp.nstr(lhs, 17), mp.nstr(exp, 17), d[1][:160])),
                                req=d[0], impl=ctx["c16_results"].get(d[0], "")))
    return out


def oracle_only(rq, impl, ctx):
    """property oracle without the model (used when the Lean side does not build)"""
    op = rq.split(" ", 1)[0]
    if crashed(impl):
        return [fail("prop", "crash/sanitizer/silent exit: " + tag(impl), impl[:200])]
    if tag(impl) != "ok" or op not in ("c16.rot3", "c16.sph"):
        return []
    a = rq.split()[1:]
    ti = toks(impl)
    if op == "c16.rot3":
        ax = _floats(a[3:6])
        R = _floats(ti)
        if not any(ax):
            return []
        if len(R) != 9 or not finite(R):
            return [fail("prop", "Rotation_Matrix(3D): non-finite entry for a non-zero axis", impl)]
        return [fail("prop", c, d) for c, d in oracle_rot3(R, M(fr(a[1])), M(fr(a[2])), ax, K_ROT * EPSF)]
    return []
