"""C09 — interpolation results do not depend on the history of earlier calls.

Class A: the index returned by Interpolation::Locate after long call histories, against the Lean
model run with the search state threaded.  Class D (justified by Lp.C09.history_independent):
every answer of the used object, of copies taken mid-sequence and of the 2-D object against an
object that has never been queried — bit-identical (since fix c70b127 also at tabulated abscissae).
"""
import math, os, random, struct, sys
from fractions import Fraction
from common import *

if hasattr(sys, "set_int_max_str_digits"):
    sys.set_int_max_str_digits(0)   # exact integrals over hundreds of segments have numerators of >4300 digits

RULE = ("call histories are drawn from VERIF_SEED: tables of 3..2000 knots (uniform, random, geometric, clustered "
        "spacing), histories of up to several thousand calls mixing far jumps, correlated walks up/down, zig-zags, "
        "knots, next-representable neighbours of knots, domain ends and the 1% extrapolation zone, all eleven call "
        "kinds; a case is non-trivial when the model answers ok/err and is counted once per distinct "
        "(operation, table-size class, search used by the model: bisection/hunt-up/hunt-down/equal/outside, call kind)")
CORR_ONLY = ["values returned inside the history are not compared against the model here (C01/C08 do that); "
             "C09 compares indices with the model and values of the used object with a never-queried object"]
ASSUMPTIONS = ["NaN arguments are outside the statement (every `<` guard lets NaN pass; Locate(NAN) depends on the history): not generated",
               "std::vector copy/assignment copies all elements (copies of an Interpolation behave as the original)",
               "comparisons of doubles are exact, so the model's exact-rational index is the index the code must return; "
               "probes of the 1% extrapolation tolerance keep a factor-2 margin from the boundary"]
TRUSTED = []

VALUE_OPS = ("I", "D", "G", "m", "M", "gm", "gM")


# ------------------------------------------------------------------------------------------------
# tables
# ------------------------------------------------------------------------------------------------

def make_xs(rng, n, kind):
    if kind == "uniform":
        x0 = float(rng.randint(-8, 8))
        h = rng.choice([0.125, 0.25, 0.5, 1.0, 2.0, 100.0, 50.0, 12.5])   # for the last three 1e-2*h is exact in double
        return [x0 + h * i for i in range(n)]
    if kind == "random":
        x = rng.uniform(-100, 100)
        out = []
        for _ in range(n):
            out.append(x)
            x = x + rng.uniform(0.01, 3.0)
        return out
    if kind == "geometric":
        r = rng.uniform(1.01, 1.0 + 40.0 / n) if n > 50 else rng.uniform(1.2, 6.0)
        x = rng.uniform(1e-6, 1.0)
        out = []
        for _ in range(n):
            out.append(x)
            x = x * r
        return out
    # clustered: tiny and huge steps mixed
    x = rng.uniform(-5, 5)
    out = []
    for _ in range(n):
        out.append(x)
        x = x + 10.0 ** rng.uniform(-9, 2)
    return out


def fix_increasing(xs):
    out = [xs[0]]
    for v in xs[1:]:
        if not v > out[-1]:
            v = math.nextafter(out[-1], math.inf)
        out.append(v)
    return out


def make_ys(rng, n, kind):
    if kind == 0:   # zig-zag: second/third derivatives jump at every knot
        return [(i % 2) * (1.0 + i) for i in range(n)]
    if kind == 1:
        return [rng.uniform(-10, 10) for _ in range(n)]
    if kind == 2:
        return [mixed_magnitude(rng, -6, 6) for _ in range(n)]
    return [math.sin(0.37 * i) * (1 + 0.01 * i) for i in range(n)]


def table(rng, tier, small=False):
    c = rng.random()
    if small:
        n = rng.randint(3, 12)
    elif c < 0.25:
        n = rng.randint(3, 12)
    elif c < 0.6:
        n = rng.randint(13, 120)
    elif c < 0.9:
        n = rng.randint(121, 600)
    else:
        n = rng.randint(601, 2000)
    xs = fix_increasing(make_xs(rng, n, rng.choice(["uniform", "random", "geometric", "clustered"])))
    ys = make_ys(rng, n, rng.randrange(4))
    return xs, ys


# ------------------------------------------------------------------------------------------------
# abscissae
# ------------------------------------------------------------------------------------------------

def point(rng, xs, k, kind=None):
    """an abscissa in or at interval k (0..N-2)"""
    n = len(xs)
    k = max(0, min(n - 2, k))
    kind = kind or rng.choice(["in", "in", "in", "knot", "knot", "knotR", "up", "down", "mid"])
    a, b = xs[k], xs[k + 1]
    if kind == "knot":
        return a
    if kind == "knotR":
        return b
    if kind == "up":
        return min(math.nextafter(a, math.inf), b)
    if kind == "down":
        return math.nextafter(b, -math.inf) if math.nextafter(b, -math.inf) >= a else a
    if kind == "mid":
        v = a + 0.5 * (b - a)
    else:
        v = a + rng.random() * (b - a)
    return min(max(v, a), b)


def outside_ok(rng, xs):
    """inside the 1% zone (0.5% at most: factor 2 from the boundary)"""
    if rng.random() < 0.5:
        return xs[0] - rng.uniform(0.0005, 0.005) * (xs[1] - xs[0])
    return xs[-1] + rng.uniform(0.0005, 0.005) * (xs[-1] - xs[-2])


def outside_bad(rng, xs):
    if rng.random() < 0.5:
        return xs[0] - rng.uniform(0.02, 3.0) * (xs[1] - xs[0])
    return xs[-1] + rng.uniform(0.02, 3.0) * (xs[-1] - xs[-2])


def walk(rng, xs, length):
    """index sequence: far jumps, correlated runs up/down, zig-zags, repeats"""
    n = len(xs)
    ks = []
    k = rng.randint(0, n - 2)
    while len(ks) < length:
        c = rng.random()
        run = rng.randint(1, 40)
        if c < 0.15:      # far jumps
            for _ in range(rng.randint(1, 4)):
                k = rng.randint(0, n - 2); ks.append(k)
        elif c < 0.45:    # run up with small steps (keeps the hunt engaged)
            for _ in range(run):
                k = min(n - 2, k + rng.choice([0, 0, 1, 1, 1, 2, 3, 5, 9])); ks.append(k)
        elif c < 0.6:     # run down
            for _ in range(run):
                k = max(0, k - rng.choice([0, 1, 1, 2, 3, 5, 9, 15])); ks.append(k)
        elif c < 0.8:     # zig-zag: an upward step (re-engages the hunt) then a downward jump of any size
            for _ in range(run):
                k = min(n - 2, k + rng.choice([0, 1, 2])); ks.append(k)
                k = max(0, k - rng.choice([1, 2, 3, 4, 7, 8, 9, 10, 17, 40, 200, 1000])); ks.append(k)
        elif c < 0.9:     # hunt up by large strides from a correlated state
            for _ in range(run):
                k = min(n - 2, k + rng.choice([0, 1])); ks.append(k)
                k = min(n - 2, k + rng.choice([3, 7, 8, 9, 10, 16, 33, 100, 700, 1999])); ks.append(k)
        else:             # ends
            for _ in range(rng.randint(1, 3)):
                k = rng.choice([0, n - 2, n - 2, 0, 1, n - 3 if n > 3 else 0]); ks.append(k)
    return ks[:length]


def op_at(rng, xs, k, w_locate):
    """a call near interval k"""
    n = len(xs)
    c = rng.random()
    if c < 0.03:
        x = outside_ok(rng, xs)
        # exactly one percent outside (accepted since a411065) where 1e-2*h is exact
        e0, e1 = xs[0] - 0.01 * (xs[1] - xs[0]), xs[-1] + 0.01 * (xs[-1] - xs[-2])
        if rng.random() < 0.5 and Fraction(xs[0]) - Fraction(e0) == (Fraction(xs[1]) - Fraction(xs[0])) / 100:
            x = e0
        elif rng.random() < 0.5 and Fraction(e1) - Fraction(xs[-1]) == (Fraction(xs[-1]) - Fraction(xs[-2])) / 100:
            x = e1
    elif c < 0.08:
        x = rng.choice([xs[0], xs[-1]])
    else:
        x = point(rng, xs, k)
    c = rng.random()
    if c < w_locate:
        return "L %s" % hx(x)
    c = rng.random()
    if c < 0.4:
        return "%s %s" % ("Io" if rng.random() < 0.3 else "I", hx(x))
    if c < 0.65:
        return "D %s %d" % (hx(x), rng.choice([0, 1, 1, 2, 2, 3, 3, 4, 7]))
    if c < 0.8:
        y = point(rng, xs, k + rng.choice([0, 0, 1, 2, -1, -3, 8, 30]))
        return "G %s %s" % (hx(x), hx(y))
    if c < 0.9:
        y = point(rng, xs, k + rng.choice([0, 0, 1, 2, 5, 12]))
        lo, hi = min(x, y), max(x, y)
        return "%s %s %s" % (rng.choice("mM"), hx(lo), hx(hi))
    if c < 0.93:
        return rng.choice(["gm", "gM"])
    if c < 0.96:
        return "P %s" % hx(rng.choice([1.0, -1.0, 2.0, 0.5, -3.0, 1e-30, 1e30, rng.uniform(-5, 5)]))
    if c < 0.98:
        return "X %s" % hx(rng.choice([-1.0, 2.0, 0.5, 3.0, rng.uniform(-2, 2)]))
    return rng.choice(["C", "C", "Cs", "Cm", "Sv %d" % rng.randint(2, 40)])   # copy-back, self-assignment, move, Save_Function


def final_battery(rng, xs, nq):
    n = len(xs)
    Q = []
    for _ in range(nq):
        k = rng.randint(0, n - 2)
        c = rng.random()
        if c < 0.45:      # tabulated abscissae: the tie that c70b127 repaired
            x = xs[rng.randint(0, n - 1)]
        elif c < 0.5:
            x = outside_ok(rng, xs)
        else:
            x = point(rng, xs, k)
        Q.append("L %s" % hx(x))
        Q.append("I %s" % hx(x))
        Q.append("D %s %d" % (hx(x), rng.choice([1, 2, 3])))
        Q.append("D %s %d" % (hx(x), rng.choice([0, 2, 3])))
        y = point(rng, xs, rng.randint(0, n - 2))
        Q.append("G %s %s" % (hx(x), hx(y)))
        lo, hi = min(x, y), max(x, y)
        Q.append("m %s %s" % (hx(lo), hx(hi)))
        Q.append("M %s %s" % (hx(lo), hx(hi)))
    Q += ["gm", "gM"]
    return Q



def exact_factor(rng, vals, choices, extra):
    """a unit factor whose products with all table values are exact in double (-1 = no conversion)"""
    c = rng.choice(choices + extra)
    if c > 0 and not all(Fraction(v) * Fraction(c) == Fraction(v * c) and math.isfinite(v * c) for v in vals):
        c = rng.choice([2.0, 0.5])
    return c


def scaled(vals, f):
    return [v * f for v in vals] if f > 0 else list(vals)


def units_1d(rng, xs, ys):
    xd = exact_factor(rng, xs, [-1.0, -1.0, 2.0, 0.5, 0.25], [3.0, 1.5, 0.75])
    fd = exact_factor(rng, ys, [-1.0, -1.0, 4.0, 0.125, 2.0], [7.0, 3.0, 1.5])
    return xd, fd


def hist_request(rng, tier, length=None, small=False):
    xs0, ys = table(rng, tier, small)
    xd, fd = units_1d(rng, xs0, ys)
    xs = fix_increasing(scaled(xs0, xd))   # queries live on the converted table (products are exact)
    if length is None:
        c = rng.random()
        top = 8000 if tier == "thorough" else 3000
        length = rng.randint(1, 30) if c < 0.3 else (rng.randint(31, 400) if c < 0.8 else rng.randint(401, top))
    ks = walk(rng, xs, length)
    w = rng.choice([0.5, 0.8, 0.95])
    H = [op_at(rng, xs, k, w) for k in ks]
    Q = final_battery(rng, xs, rng.randint(1, 4))
    return "c09.hist %s %s %s %s %d %s %d %s" % (lst(xs0), lst(ys), hx(xd), hx(fd), len(H), " ".join(H), len(Q), " ".join(Q))


def hist_error_request(rng):
    """a history whose last call lies outside the domain and its tolerance: diagnostic + exit"""
    xs, ys = table(rng, "quick", small=rng.random() < 0.5)
    ks = walk(rng, xs, rng.randint(0, 30))
    H = [op_at(rng, xs, k, 0.7) for k in ks]
    x = outside_bad(rng, xs)
    c = rng.random()
    if c < 0.4:
        H.append("L %s" % hx(x))
    elif c < 0.6:
        H.append("I %s" % hx(x))
    elif c < 0.7:
        H.append("G %s %s" % (hx(x), hx(xs[1])))
    elif c < 0.8:   # reversed limits: Local_* demands x1 <= x2
        H.append("%s %s %s" % (rng.choice("mM"), hx(xs[2]), hx(xs[1])))
    else:
        H.append("D %s 1" % hx(x))
    return "c09.hist %s %s %s %s %d %s 0" % (lst(xs), lst(ys), hx(-1.0), hx(-1.0), len(H), " ".join(H))


def hist2_request(rng, tier):
    nx = rng.choice([3, 4, 5, 8, 20, 60, 150])
    ny = rng.choice([3, 4, 6, 10, 25, 90])
    xs0 = fix_increasing(make_xs(rng, nx, rng.choice(["uniform", "random", "geometric", "clustered"])))
    ys0 = fix_increasing(make_xs(rng, ny, rng.choice(["uniform", "random", "geometric", "clustered"])))
    f = [[(rng.uniform(-10, 10) if nx % 2 else float(rng.randint(-50, 50))) for _ in range(ny)] for _ in range(nx)]
    xd = exact_factor(rng, xs0, [-1.0, -1.0, 2.0, 0.5], [3.0, 1.5])
    yd = exact_factor(rng, ys0, [-1.0, -1.0, 4.0, 0.25], [3.0, 0.75])
    fd = exact_factor(rng, [v for r in f for v in r], [-1.0, -1.0, 2.0, 0.125], [7.0, 3.0])
    xs = fix_increasing(scaled(xs0, xd)); ys = fix_increasing(scaled(ys0, yd))
    length = rng.choice([5, 40, 200, 800 if tier == "thorough" else 300, 2500 if tier == "thorough" else 1200])
    kx = walk(rng, xs, length)
    ky = walk(rng, ys, length)
    H = []
    for a, b in zip(kx, ky):
        c = rng.random()
        if c < 0.9:
            x = point(rng, xs, a) if rng.random() > 0.04 else outside_ok(rng, xs)
            y = point(rng, ys, b) if rng.random() > 0.04 else outside_ok(rng, ys)
            H.append("%s %s %s" % ("Io" if rng.random() < 0.3 else "I", hx(x), hx(y)))
        elif c < 0.93:
            H.append(rng.choice(["gm", "gM"]))
        elif c < 0.96:
            H.append("P %s" % hx(rng.choice([-1.0, 2.0, 0.5, 1e-20, rng.uniform(-5, 5)])))
        elif c < 0.98:
            H.append("X %s" % hx(rng.choice([-1.0, 2.0, 0.5])))
        elif c < 0.985:
            H.append(rng.choice(["Cs", "Cm", "Sv %d" % rng.randint(2, 12)]))
        elif c < 0.99 or not any(h == "C" for h in H):
            H.append("C")
        else:   # query the copies while their source is overwritten by another table (0) / destroyed (1)
            H.append("Z %d %s %s" % (rng.randint(0, 1), hx(point(rng, xs, a)), hx(point(rng, ys, b))))
    if any(h == "C" for h in H):
        H.append("Z 0 %s %s" % (hx(point(rng, xs, rng.randrange(nx - 1))), hx(point(rng, ys, rng.randrange(ny - 1)))))
        H.append("Z 1 %s %s" % (hx(point(rng, xs, rng.randrange(nx - 1))), hx(point(rng, ys, rng.randrange(ny - 1)))))
    Q = []
    for _ in range(4):
        x = rng.choice([xs[rng.randrange(nx)], point(rng, xs, rng.randrange(nx - 1))])
        y = rng.choice([ys[rng.randrange(ny)], point(rng, ys, rng.randrange(ny - 1))])
        Q.append("I %s %s" % (hx(x), hx(y)))
    Q += ["gm", "gM"]
    return "c09.hist2 %s %s %d %s %s %s %s %d %s %d %s" % (lst(xs0), lst(ys0), nx, " ".join(lst(r) for r in f), hx(xd), hx(yd), hx(fd),
                                                           len(H), " ".join(H), len(Q), " ".join(Q))



def pool_request(rng, tier):
    """several objects: copies (construct / assign), assignment of newly built objects with another table of the
    same or another length, destruction of sources; queries on every live slot"""
    n = rng.choice([3, 5, 8, 20, 60, 200])
    base = fix_increasing(make_xs(rng, n, rng.choice(["uniform", "random", "geometric", "clustered"])))
    tabs = [(base, make_ys(rng, n, rng.randrange(4)))]
    # same length, other abscissae (compressed / shifted); other lengths
    tabs.append((fix_increasing([base[0] + 0.4375 * (v - base[0]) for v in base]), make_ys(rng, n, rng.randrange(4))))
    tabs.append((fix_increasing([v + 0.37 * (base[-1] - base[0]) for v in base]), make_ys(rng, n, 0)))
    for m in (max(3, n // 2), n + rng.randint(1, 7)):
        tabs.append((fix_increasing(make_xs(rng, m, rng.choice(["uniform", "random"]))), make_ys(rng, m, rng.randrange(4))))
    ns = rng.randint(2, 5)
    live = {}
    ops = []

    def q(s_):
        xs = tabs[live[s_]][0]
        k = rng.randint(0, len(xs) - 2)
        for _ in range(rng.randint(1, 6)):
            k = max(0, min(len(xs) - 2, k + rng.choice([-12, -3, -1, 0, 0, 1, 1, 2, 5, 11, 40])))
            ops.append("Q %d %s" % (s_, op_at(rng, xs, k, 0.45)))

    ops.append("N 0 0"); live[0] = 0
    for _ in range(rng.randint(6, 60 if tier == "thorough" else 30)):
        c = rng.random()
        L = sorted(live)
        if c < 0.22 and L:
            i = rng.choice(L); j = rng.randrange(ns)
            if i != j:
                ops.append("K %d %d" % (i, j)); live[j] = live[i]
                q(j)
        elif c < 0.38 and len(L) >= 2:
            i, j = rng.sample(L, 2)
            ops.append("A %d %d" % (i, j)); live[j] = live[i]
            q(j)
        elif c < 0.6:
            s_ = rng.randrange(ns); t = rng.randrange(len(tabs))
            ops.append("N %d %d" % (s_, t)); live[s_] = t
            for o_ in list(live):   # every other slot must be unaffected
                if rng.random() < 0.8:
                    q(o_)
        elif c < 0.68 and L:
            # another curve in the SAME storage, its first Interpolate in the same interval index as the old object's last one
            s_ = rng.choice(L)
            told, tnew = live[s_], rng.randrange(len(tabs))
            nmin = min(len(tabs[told][0]), len(tabs[tnew][0]))
            j = rng.randint(0, nmin - 2)
            xo = point(rng, tabs[told][0], j, "in"); xn = point(rng, tabs[tnew][0], j, rng.choice(["in", "mid", "knot"]))
            ops.append("R %d %d %d %s %s" % (rng.randint(0, 1), s_, tnew, hx(xo), hx(xn))); live[s_] = tnew
            if rng.random() < 0.7:
                q(s_)
        elif c < 0.72 and len(L) >= 2:
            s_ = rng.choice(L)
            ops.append("X %d" % s_); del live[s_]
            for o_ in list(live):
                q(o_)
        elif L:
            q(rng.choice(L))
    return "c09.pool %d %s %d %d %s" % (len(tabs), " ".join(lst(x) + " " + lst(y) for x, y in tabs), ns, len(ops), " ".join(ops))


def steffen_abc(xs, ys, j):
    """coefficients a, b, c of piece j as Compute_Steffen_Coefficients forms them (double arithmetic)"""
    n = len(xs)
    h = [xs[i + 1] - xs[i] for i in range(n - 1)]
    sl = [(ys[i + 1] - ys[i]) / h[i] for i in range(n - 1)]
    sg = lambda v: (v > 0) - (v < 0)

    def dy(i):
        if i == 0:
            p = sl[0] * (1.0 + h[0] / (h[0] + h[1])) - sl[1] * h[0] / (h[0] + h[1])
            return (sg(p) + sg(sl[0])) * min(abs(sl[0]), 0.5 * abs(p))
        if i == n - 1:
            p = sl[i - 1] * (1.0 + h[i - 1] / (h[i - 1] + h[i - 2])) - sl[i - 2] * h[i - 1] / (h[i - 1] + h[i - 2])
            return (sg(p) + sg(sl[i - 1])) * min(abs(sl[i - 1]), 0.5 * abs(p))
        p = (sl[i - 1] * h[i] + sl[i] * h[i - 1]) / (h[i - 1] + h[i])
        return (sg(sl[i - 1]) + sg(sl[i])) * min(abs(p) / 2.0, min(abs(sl[i]), abs(sl[i - 1])))
    d0, d1 = dy(j), dy(j + 1)
    return (d0 + d1 - 2.0 * sl[j]) / (h[j] * h[j]), (3.0 * sl[j] - 2.0 * d0 - d1) / h[j], d0


def stationary_points(xs, ys, j, lo, hi):
    """abscissae of the stationary points of piece j strictly inside (lo, hi), as Stationary_Values finds them"""
    a, b, c = steffen_abc(xs, ys, j)
    A, B, C = 3.0 * a, 2.0 * b, c
    roots = []
    if A == 0.0:
        if B != 0.0:
            roots.append(-C / B)
    else:
        disc = B * B - 4.0 * A * C
        if disc >= 0.0:
            q = -0.5 * (B + (1.0 if B >= 0.0 else -1.0) * math.sqrt(disc))
            roots.append(q / A)
            if q != 0.0:
                roots.append(C / q)
    return [xs[j] + t for t in roots if lo < xs[j] + t < hi and math.isfinite(t)]


def zone_tables(rng, nrand, ndyadic):
    """tables whose edge cubic turns strictly inside the 1% zone: (xs, ys, side)"""
    out = [([0.0, 1.0, 2.0], [0.0, 1.0, 3.98], "L"), ([0.0, 1.0, 2.0], [-3.98, -1.0, 0.0], "R")]
    for it in range(nrand):
        n = rng.randint(3, 6)
        x0 = rng.choice([0.0, -3.0, rng.uniform(-100, 100)])
        if it % 2 == 0:   # equal spacing: the edge piece is a parabola up to rounding, linear or quadratic branch with a tiny A
            h = rng.choice([1.0, 0.5, 2.0, rng.uniform(0.1, 10)])
            hs = [h] * (n - 1)
        else:             # unequal spacing, non-dyadic data: a is a rounding residue != 0, quadratic branch (q/A far away, C/q the turning point)
            hs = [rng.uniform(0.1, 10) for _ in range(n - 1)]
        xs = [x0]
        for h in hs:
            xs.append(xs[-1] + h)
        s0 = rng.choice([-1.0, 1.0]) * 10.0 ** rng.uniform(-2, 2)
        dl = rng.uniform(0.002, 0.02)
        ys = [rng.uniform(-5, 5)]
        ys.append(ys[0] + s0 * hs[0])
        # boundary slope estimate p0 = s0 (2 h0 + h1)/(h0 + h1) - s1 h0/(h0 + h1) almost zero: s1 ~ s0 (2 h0 + h1)/h0
        ys.append(ys[1] + s0 * (2 * hs[0] + hs[1]) / hs[0] * (1 - dl) * hs[1])
        while len(ys) < n:
            ys.append(ys[-1] + s0 * hs[len(ys) - 1] * rng.uniform(0.5, 3))
        side = "L"
        if rng.random() < 0.5:    # the same at the right end
            xs = [-(v) for v in reversed(xs)]; ys = list(reversed(ys)); side = "R"
        out.append((fix_increasing(xs), ys, side))
    for it in range(max(2, nrand // 3)):
        # a turning point in BOTH continued edge cubics: a left-type triple, a gap, a mirrored left-type triple
        def triple():
            h0, h1 = (lambda h: (h, h))(rng.uniform(0.2, 5)) if rng.random() < 0.5 else (rng.uniform(0.2, 5), rng.uniform(0.2, 5))
            s0 = rng.choice([-1.0, 1.0]) * 10.0 ** rng.uniform(-1, 1)
            dl = rng.uniform(0.002, 0.02)
            y1 = s0 * h0
            return [0.0, h0, h0 + h1], [0.0, y1, y1 + s0 * (2 * h0 + h1) / h0 * (1 - dl) * h1]
        xa, ya = triple()
        xb, yb = triple()
        gap = rng.uniform(0.5, 5)
        xr = [xa[-1] + gap + (xb[-1] - v) for v in reversed(xb)]
        off = rng.uniform(-3, 3)
        yr = [off + v for v in reversed(yb)]
        x0 = rng.uniform(-10, 10)
        out.append((fix_increasing([x0 + v for v in xa] + [x0 + v for v in xr]), ya + yr, "B"))
    for it in range(ndyadic):
        # exactly representable parabolic data f = al (x - xv)^2 + be with the vertex xv strictly inside the zone:
        # every Steffen quantity is exact, a == 0.0 bit for bit -> the A == 0 branch of Stationary_Values
        n = rng.randint(3, 6)
        h = 2.0 ** rng.randint(-2, 3)
        x0 = h * rng.randint(-4, 4)
        xs = [x0 + h * i for i in range(n)]
        al = rng.choice([-1.0, 1.0]) * 2.0 ** rng.randint(-2, 2)
        be = float(rng.randint(-3, 3))
        k = rng.randint(2, 9)          # vertex at k/1024 of the spacing outside the domain (the zone is 10.24/1024)
        if it % 2 == 0:
            xv = x0 - h * k / 1024.0; side = "L"
        else:
            xv = xs[-1] + h * k / 1024.0; side = "R"
        ys = [al * (x - xv) ** 2 + be for x in xs]
        assert all(Fraction(y) == Fraction(al) * (Fraction(x) - Fraction(xv)) ** 2 + Fraction(be) for x, y in zip(xs, ys))
        out.append((xs, ys, side))
    return out



def zone_hist_request(rng, tb):
    """a history on a table whose edge cubic turns inside the 1% zone: Local_Minimum/Maximum with limits in the zone in every
    ordering relative to the turning point, Set_Prefactor / Multiply of either sign before and between the queries"""
    xs, ys, side = tb
    n = len(xs)
    if side in ("L", "B"):
        knot, edge, j = xs[0], xs[0] - 0.0095 * (xs[1] - xs[0]), 0
        st = stationary_points(xs, ys, j, edge, knot)
    else:
        knot, edge, j = xs[-1], xs[-1] + 0.0095 * (xs[-1] - xs[-2]), n - 2
        st = stationary_points(xs, ys, j, knot, edge)
    xstar = st[0] if len(st) == 1 else knot + 0.5 * (edge - knot)
    H = []
    for _ in range(rng.randint(8, 30)):
        c = rng.random()
        if c < 0.18:
            H.append("P %s" % hx(rng.choice([4.0, -3.0, 0.5, -1.0, 2.5, rng.uniform(-5, 5)])))
        elif c < 0.3:
            H.append("X %s" % hx(rng.choice([-1.0, 2.0, -0.5, 3.0])))
        elif c < 0.34:
            H.append("C")
        else:
            cell = rng.randrange(4)
            f1, f2 = rng.uniform(0.05, 0.95), rng.uniform(0.05, 0.95)
            if cell == 0:
                a, b = knot + f1 * (xstar - knot), knot + f2 * (xstar - knot)
            elif cell == 1:
                a, b = knot + f1 * (xstar - knot), xstar + f2 * (edge - xstar)
            elif cell == 2:
                a, b = xstar + f1 * (edge - xstar), xstar + f2 * (edge - xstar)
            else:
                a, b = point(rng, xs, rng.randint(0, n - 2)), xstar + f2 * (edge - xstar)
            lo, hi = min(a, b), max(a, b)
            d = rng.random()
            if d < 0.7:
                H.append("%s %s %s" % (rng.choice("mM"), hx(lo), hx(hi)))
            elif d < 0.8:
                H.append("G %s %s" % (hx(a), hx(b)))
            elif d < 0.9:
                H.append("I %s" % hx(a))
            else:
                H.append("L %s" % hx(b))
    Q = ["m %s %s" % (hx(min(knot, edge)), hx(max(knot, edge))), "M %s %s" % (hx(min(knot, edge)), hx(max(knot, edge))), "gm", "gM"]
    return "c09.hist %s %s %s %s %d %s %d %s" % (lst(xs), lst(ys), hx(-1.0), hx(-1.0), len(H), " ".join(H), len(Q), " ".join(Q))


def locate1_requests(rng, tier):
    """every reachable search state x every probe abscissa, on small tables"""
    R = []
    sizes = range(3, 9) if tier == "quick" else range(3, 15)
    for n in sizes:
        xs = [float(i) for i in range(n)] if n % 2 else fix_increasing(make_xs(rng, n, "clustered"))
        probes = list(xs) + [xs[i] + 0.5 * (xs[i + 1] - xs[i]) for i in range(n - 1)]
        probes += [math.nextafter(v, math.inf) for v in xs[:-1]] + [math.nextafter(v, -math.inf) for v in xs[1:]]
        probes += [xs[0] - 0.004 * (xs[1] - xs[0]), xs[-1] + 0.004 * (xs[-1] - xs[-2]), xs[0] - 0.5 * (xs[1] - xs[0]), xs[-1] + 2 * (xs[-1] - xs[-2])]
        for jl in range(0, n - 1):
            for corr in (0, 1):
                for v in probes:
                    R.append("c09.locate1 %s %d %d %s" % (lst(xs), jl, corr, hx(v)))
    # exactly one percent of the edge interval outside the domain is accepted (fix a411065), the next double beyond is not:
    # spacing 100*2^k, for which 1e-2*h is exact in double
    for k in (0, 2, -1):
        h = 100.0 * 2.0 ** k
        xs = [h * i for i in range(-2, 4)]
        for v in (xs[0] - 0.01 * h, xs[-1] + 0.01 * h, math.nextafter(xs[0] - 0.01 * h, -math.inf), math.nextafter(xs[-1] + 0.01 * h, math.inf)):
            for jl in (0, 2, len(xs) - 2):
                for corr in (0, 1):
                    R.append("c09.locate1 %s %d %d %s" % (lst(xs), jl, corr, hx(v)))
    # long tables: states far from the probe, so that the hunt doubles its stride many times
    for _ in range(60 if tier == "quick" else 400):
        n = rng.choice([30, 100, 1000, 2000])
        xs = fix_increasing(make_xs(rng, n, rng.choice(["uniform", "random", "geometric"])))
        jl = rng.choice([0, 1, n - 2, n - 3, rng.randint(0, n - 2)])
        k = rng.choice([0, n - 2, rng.randint(0, n - 2), max(0, min(n - 2, jl + rng.choice([-33, -17, -2, -1, 1, 2, 16, 31, 32, 33])))])
        v = point(rng, xs, k)
        R.append("c09.locate1 %s %d %d %s" % (lst(xs), jl, 1, hx(v)))
    return R


def generate(tier, seed, ctx):
    rng = random.Random(seed * 7919 + 9)
    R = []
    thorough = tier == "thorough"
    R += locate1_requests(rng, tier)
    for _ in range(500 if thorough else 110):
        R.append(hist_request(rng, tier))
    for _ in range(120 if thorough else 40):   # short histories on small tables: dense in knots
        R.append(hist_request(rng, tier, length=rng.randint(1, 12), small=True))
    for _ in range(60 if thorough else 20):
        R.append(hist_error_request(rng))
    for _ in range(120 if thorough else 30):
        R.append(hist2_request(rng, tier))
    for _ in range(400 if thorough else 90):
        R.append(pool_request(rng, tier))
    for tb in zone_tables(rng, 40 if thorough else 10, 40 if thorough else 14):   # stationary values of the edge cubic (fix 51ca844)
        R.append(zone_hist_request(rng, tb))
    # malformed tables: constructor must stop with a diagnostic (model: err)
    R.append("c09.hist %s %s %s %s 0 0" % (lst([0.0, 1.0]), lst([0.0, 1.0]), hx(-1.0), hx(2.0)))
    R.append("c09.hist %s %s %s %s 0 0" % (lst([0.0, 1.0, 1.0]), lst([0.0, 1.0, 2.0]), hx(2.0), hx(-1.0)))
    return R


# ------------------------------------------------------------------------------------------------
# comparison
# ------------------------------------------------------------------------------------------------

def parse_hist(a):
    """request tokens -> (xs, ys, ops) with ops = list of token lists"""
    pos = 0
    n = int(a[pos]); xs = [fl(t) for t in a[pos + 1:pos + 1 + n]]; pos += 1 + n
    n = int(a[pos]); ys = [fl(t) for t in a[pos + 1:pos + 1 + n]]; pos += 1 + n
    xd = fl(a[pos]); fd = fl(a[pos + 1]); pos += 2
    xs = scaled(xs, xd)
    ops = []
    for _ in range(2):
        k = int(a[pos]); pos += 1
        cur = []
        for _ in range(k):
            t = a[pos]
            ar = ARITY[t]
            cur.append(a[pos:pos + 1 + ar]); pos += 1 + ar
        ops.append(cur)
    return xs, ys, ops[0], ops[1]


ARITY = {"I": 1, "Io": 1, "L": 1, "P": 1, "X": 1, "D": 2, "G": 2, "m": 2, "M": 2, "gm": 0, "gM": 0, "C": 0, "Cs": 0, "Cm": 0, "Sv": 1}
# since fix 441bef8 Integrate applies the prefactor once: it is part of the bit-exact factor clause like every other answer
STRICT_INTEG = True


def parse_pool(a):
    """-> list of (op tokens or None, table abscissae of the slot at that time or None)"""
    pos = 0
    nt = int(a[pos]); pos += 1
    tabs = []
    for _ in range(nt):
        n = int(a[pos]); xs = [fl(t) for t in a[pos + 1:pos + 1 + n]]; pos += 1 + n
        n = int(a[pos]); pos += 1 + n
        tabs.append(xs)
    pos += 1
    k = int(a[pos]); pos += 1
    slot = {}
    ops, tables = [], []
    for _ in range(k):
        t = a[pos]
        if t == "N":
            slot[int(a[pos + 1])] = int(a[pos + 2]); pos += 3; ops.append(None); tables.append(None)
        elif t in ("K", "A"):
            slot[int(a[pos + 2])] = slot.get(int(a[pos + 1])); pos += 3; ops.append(None); tables.append(None)
        elif t == "X":
            slot.pop(int(a[pos + 1]), None); pos += 2; ops.append(None); tables.append(None)
        elif t == "R":   # R mode slot table xold xnew: answered like Interpolate(xnew) on the new table
            s_, tt = int(a[pos + 2]), int(a[pos + 3])
            slot[s_] = tt
            ops.append(["I", a[pos + 5]]); tables.append(tabs[tt]); pos += 6
        else:
            s_ = int(a[pos + 1]); q = a[pos + 2]
            ops.append(a[pos + 2:pos + 3 + ARITY[q]]); tables.append(tabs[slot[s_]] if slot.get(s_) is not None else None)
            pos += 3 + ARITY[q]
    return ops, tables


def same_bits(u, v):
    if math.isnan(u) and math.isnan(v):
        return True
    return struct.pack("<d", u) == struct.pack("<d", v)


def nclass(n):
    return 0 if n <= 12 else 1 if n <= 120 else 2 if n <= 600 else 3


def at_knot(xs, op):
    try:
        return fl(op[1]) in xs
    except Exception:
        return False


def compare(rq, impl, model, ctx):
    op = rq.split(" ", 1)[0]
    a = rq.split()[1:]
    bump(ctx, op)
    if op == "c09.locate1":
        if impl == "skip":
            bump(ctx, "locate1.unreachable-state")
            return []
        fs, both = std_outcome(rq, impl, model)
        if tag(model) in ("ok", "err"):
            n = int(a[0])
            ctx["nontrivial"].add((op, min(n, 16), a[n + 1], a[n + 2], tag(model), model.split()[1] if tag(model) == "ok" else ""))
        if not both:
            return fs
        ti, tm = toks(impl), toks(model)
        if ti[0] == "prefix-failed":
            return fs + [fail("corr", "locate1: the prefix calls did not reach the requested search state", impl)]
        if int(ti[0]) != int(tm[0]):
            # the model's index is the one a new object returns (theorem locate_canonical)
            return fs + [fail("prop", "Locate: index from a used search state differs from the index a new object returns",
                              "impl %s model %s" % (ti[0], tm[0]))]
        return fs
    twod = op == "c09.hist2"
    fs, both = std_outcome(rq, impl, model)
    if tag(model) == "err":
        ctx["nontrivial"].add((op, "err", len(rq) % 7))
    if not both:
        return fs
    ti, tm = toks(impl), toks(model)
    if twod:
        return fs + compare_stream(rq, None, None, ti, tm, ctx, op)
    if op == "c09.pool":
        ops, tables = parse_pool(a)
        return fs + compare_stream(rq, None, ops, ti, tm, ctx, op, tables)
    xs, ys, H, Q = parse_hist(a)
    return fs + compare_stream(rq, xs, H + Q, ti, tm, ctx, op)


K_B = 16                         # class-B factor for values against the model (as in C08; worst observed ratio < 4)
ATOL = Fraction(1, 2 ** 1000)    # underflow is not in the model


def denormal_arg(o):
    for t in (o or [])[1:]:
        try:
            v = fl(t)
        except ValueError:
            continue
        if 0 < abs(v) < 1e-200:
            return True
    return False


def compare_stream(rq, xs, ops, ti, tm, ctx, opname, tables=None):
    out = []
    pi = pm = 0
    step = 0
    nc = nclass(len(xs)) if xs else 9
    try:
        while pm < len(tm):
            km = tm[pm]
            o = ops[step] if ops else None
            if tables is not None:
                xs = tables[step]
                nc = nclass(len(xs)) if xs else 9
            if km == "U":
                if ti[pi] != "U":
                    return out + [fail("corr", "history stream out of step", "step %d" % step)]
                pi += 1; pm += 1
            elif km == "L":
                jm, md = int(tm[pm + 1]), tm[pm + 2]; pm += 3
                ctx["nontrivial"].add((opname, nc, md, "L"))
                bump(ctx, "lookup." + md)
                if ti[pi] == "L":
                    ju, jf = int(ti[pi + 1]), int(ti[pi + 2]); pi += 3
                    js = [ju, jf]
                elif ti[pi] == "FL":
                    k = int(ti[pi + 1]); js = [int(t) for t in ti[pi + 2:pi + 2 + k]]; pi += 2 + k
                else:
                    return out + [fail("corr", "history stream out of step", "step %d" % step)]
                if any(j != js[1] for j in js):
                    out.append(fail("prop", "Locate: index on the used object (or a copy) differs from the index on a new object",
                                    "step %d %s: %s (used, new, copies...)" % (step, " ".join(o) if o else "", js)))
                elif js[0] != jm:
                    x = fl(o[1]) if o else None
                    brk = xs is not None and 0 <= js[0] <= len(xs) - 2 and (xs[js[0]] <= x <= xs[js[0] + 1])
                    out.append(fail("corr" if brk else "prop",
                                    "Locate: index differs from the model" + ("" if brk else " and does not bracket x"),
                                    "step %d %s: impl %d model %d" % (step, " ".join(o) if o else "", js[0], jm)))
            elif km == "V":
                md = tm[pm + 1]; mval = fr(tm[pm + 2]); mscale = fr(tm[pm + 3]); pm += 4
                kind = o[0] if o else "I2"
                ctx["nontrivial"].add((opname, nc, md, kind))
                bump(ctx, "value." + kind)
                if ti[pi] == "V":
                    vs = [fl(ti[pi + 1]), fl(ti[pi + 2])]; pi += 3
                    if pi < len(ti) and ti[pi] == "S":   # the same query at the unit prefactor, and the factor
                        vunit, pf = fl(ti[pi + 1]), fl(ti[pi + 2]); pi += 3
                        bump(ctx, "factor-exact")
                        exp = pf * vunit
                        if kind == "G" and not STRICT_INTEG:
                            bump(ctx, "factor-exact.G-pending")
                        elif not (vs[0] == exp or (math.isnan(vs[0]) and math.isnan(exp))):
                            out.append(fail("prop", "Set_Prefactor/Multiply: the answer is not exactly the factor times the unit-prefactor answer (%s)" % kind,
                                            "step %d %s: factor %r x unit %r = %r, got %r" % (step, " ".join(o) if o else "", pf, vunit, exp, vs[0])))
                elif ti[pi] == "F":
                    k = int(ti[pi + 1]); vs = [fl(t) for t in ti[pi + 2:pi + 2 + k]]; pi += 2 + k
                    bump(ctx, "final-query")
                    if k > 2:
                        bump(ctx, "final-query-on-copies", (k - 2) // 2)
                else:
                    return out + [fail("corr", "history stream out of step", "step %d" % step)]
                bad = [i for i in range(0, len(vs), 2) if not same_bits(vs[i], vs[i + 1])]
                if bad:
                    who = "used object" if bad[0] == 0 else "copy %d" % (bad[0] // 2)
                    knot = xs is not None and o is not None and len(o) > 1 and at_knot(xs, o)
                    out.append(fail("prop", "answer of the %s differs from the answer of a new object (%s%s)" % (
                        who, kind + (o[2] if kind == "D" else ""), ", at a tabulated abscissa" if knot else ""),
                        "step %d %s: %r vs %r" % (step, " ".join(o) if o else "", vs[bad[0]], vs[bad[0] + 1])))
                # class B: the used object's value against the model (table x units x the factor left by the history)
                if not bad and not denormal_arg(o) and not (math.isnan(vs[0]) or math.isinf(vs[0])):
                    d = abs(Fraction(vs[0]) - mval)
                    if mscale > 0 and d > ATOL:
                        r = float(d / (EPS * mscale))
                        if r > ctx["stats"].get("max_ratio_x1000", 0) / 1000.0:
                            ctx["stats"]["max_ratio_x1000"] = int(r * 1000)
                    if d > K_B * EPS * mscale + ATOL:
                        out.append(fail("prop", "answer differs from the model's value: table x units x the factor left by Set_Prefactor/Multiply (%s)" % kind,
                                        "step %d %s: impl %r model %r scale %r" % (step, " ".join(o) if o else "", vs[0], float(mval), float(mscale))))
                if xs is not None and o is not None and len(o) > 1 and at_knot(xs, o):
                    bump(ctx, "value-at-knot")
            else:
                return out + [fail("corr", "unknown model token " + km)]
            step += 1
            if len(out) > 3:
                break
        if len(out) <= 3 and pi != len(ti):
            out.append(fail("corr", "implementation stream longer than the model's", ""))
    except (IndexError, ValueError) as e:
        out.append(fail("corr", "history stream truncated or malformed", repr(e)))
    return out


def oracle_only(rq, impl, ctx):
    """property oracle without the model: used object vs new object, bit for bit"""
    if crashed(impl):
        return [fail("prop", "crash/sanitizer/silent exit: " + tag(impl), impl[:200])]
    if tag(impl) != "ok" or rq.startswith("c09.locate1"):
        return []
    ti = toks(impl)
    out = []
    i = 0
    step = 0
    last_v = None
    try:
        while i < len(ti):
            t = ti[i]
            if t == "U":
                i += 1
            elif t == "S":
                vunit, pf = fl(ti[i + 1]), fl(ti[i + 2]); i += 3
                if last_v is not None and not (last_v == pf * vunit or (math.isnan(last_v) and math.isnan(pf * vunit))):
                    out.append(fail("prop", "Set_Prefactor/Multiply: the answer is not exactly the factor times the unit-prefactor answer", "step %d: %r x %r vs %r" % (step - 1, pf, vunit, last_v)))
                continue
            elif t in ("L", "V"):
                u, f = ti[i + 1], ti[i + 2]; i += 3
                last_v = fl(u) if t == "V" else None
                if u != f and not (u == "nan" and f == "nan"):
                    out.append(fail("prop", "answer of the used object differs from the answer of a new object", "step %d: %s vs %s" % (step, u, f)))
            elif t in ("FL", "F"):
                k = int(ti[i + 1]); vs = ti[i + 2:i + 2 + k]; i += 2 + k
                for j in range(0, k, 2):
                    if vs[j] != vs[j + 1]:
                        out.append(fail("prop", "answer of the used object or a copy differs from the answer of a new object", "step %d: %s vs %s" % (step, vs[j], vs[j + 1])))
            else:
                break
            step += 1
            if len(out) > 3:
                break
    except (IndexError, ValueError):
        pass
    return out
