"""C20 — exported data read back unchanged; units convert consistently in every build."""
import math, os, random, re, shutil, subprocess, sys
from concurrent.futures import ThreadPoolExecutor
from fractions import Fraction
from common import *

sys.path.insert(0, os.path.join(os.path.dirname(os.path.abspath(__file__)), "..", "translators"))
import units as units_tr  # noqa: E402

RULE = ("requests are drawn from VERIF_SEED (tables 1..200 x 1..12, values over 600 decades of either sign, integers, "
        "fractions, six-digit ties, multi-line headers, unit factors over 60 decades) plus one request per unit constant "
        "and per derived-unit identity; coverage extension: Time_Display on 0, sub-millisecond, seconds … 1.9e9 years, values 0.5 ms either side "
        "of every carry, whole seconds (knife-edges), negative inputs; Reduced_Mass over 40 decades; every colour x bold of Formatted_String "
        "plus unknown colours; Check_For_Warning both ways; File_Exists on file/directory/missing/empty path; operator<< of Vector (0..8), "
        "Matrix (1x1..6x6), DataPoint; Save_Function of 1-D/2-D interpolants on dyadic tables for 0..40 points, Interpolation_2D(); "
        "a case is non-trivial when the model answers ok/err and is counted once per "
        "(op, shape class, header-line count, notation classes hit, outcome) key; unit constants once per (name, build)")
CORR_ONLY = ["Time_Display at floor knife-edges of the double arithmetic (a floor argument within 2^-44*|seconds| of an integer, e.g. whole "
             "seconds): a neighbouring decomposition that adds up to the input is accepted and counted as excused; malformed fields there "
             "(06s:1000ms, 27s:0-1ms) are reported only with LP_C20_TIME_STRICT=1 (finding, see the worker report)",
             "Save_Function values that are not exactly representable: token-level class B (six-digit rendering of the exact model value, "
             "absolute slack 2^-40 of the table's scale), counted as excused",
             "File_Exists: the file system is a parameter of the model (PathKind)",
             "character-level glue of the model (lexing the rendered file gives back the tokens; parseDec(render d) = value d) "
             "is PROVED for rectangular tables with header lines < 10000 characters and written values in the finite double range "
             "(parseDec_render, render_no_separator, line_tokenize, lexFile_export, glue_proved, export_import_bytes_roundtrip); "
             "the driver still validates it on every round-trip request (glue1/tl1), which also covers ragged tables, "
             "over-long header lines and out-of-range values",
             "Export_Function with logarithmic spacing (Log_Space: exp/log) is not modelled",
             "values of the constants involving M_PI, sqrt, non-integer pow: the opaque nodes are evaluated with mpmath on the comparison side"]
ASSUMPTIONS = ["std::to_string(int) is the decimal representation with a leading '-' for negative values; std::floor/int conversion exact for |t| < 2^31",
               "ostream << double with default flags is %g with precision 6, correctly rounded (ties of exactly representable decimals to even); istream >> double reads a white-space delimited decimal token, correctly rounded",
               "a compiler folds initialisers built from literals, M_PI, + - * / and earlier constant-initialised names (checked per build with nm); pow()/sqrt() calls are treated as dynamic (g++ folds them, clang++ does not)",
               "round-trip clause (Export_List/Export_Table -> Import_*): values and unit factors are drawn from the stated ranges (600 decades x 60 decades) WITHOUT filtering the "
               "quotient x/u; only 0 with a negative unit is avoided (written as '-0', outside the exact-rational model). The bytes are compared with the model unless the exact quotient is "
               "within 2^-40 of a six-digit rounding boundary (the division decides: excused, counted). Quotients outside the double range (repaired by 5c3fb95: formed, written and read "
               "as long double) are compared with the exact model like every other value; a failure on such an entry is reported under its own clause. "
               "long double is assumed to be the x87 80-bit format (x86-64, g++ and clang++: largest finite value (1-2^-64)*2^16384, smallest subnormal 2^-16445; model constants ldMax, ldTiny); "
               "on a platform where long double is double the repair is a no-op and the old double range applies. "
               "The other families (single values, Export_Function, size-targeted headers, In_Units with rounding) keep the 2^-40 margin by construction",
               "round-trip bound: half a unit of the sixth significant digit of x/u + 2^-50 |x/u| (double division and multiplication); Log_Space abscissae of Export_Function: 2^-36 (exp/log)",
               "repairs applied in /repo and mirrored (the PENDING_* constants are False; a reverted tree alarms): c62bfe8 Import_Table terminates on a file whose entries do not fill its rows and "
               "does not count trailing blank lines as rows; f9320d5 Round / In_Units(round) reject zero significant digits; residual of P10 (known finding C20-ragged-total): rows of unequal length whose total number of entries fills the rows are still reshaped (4+2 entries -> 2 x 3; needs a line-wise reader), "
               "reported at every seed under its own clause; ",
               "In_Units undo: 3 eps; derived-unit identities and definitions on a build's own constants: 4 eps in every build"]
TRUSTED = ["translators/units.py (regenerates lean/LpModel/C20/Generated.lean from src/Natural_Units.cpp before every lake build; cross-checked by the values read in the separately compiled builds)",
           "mpmath for sqrt / pi / non-integer pow on the comparison side"]

# Pending repairs proposed to the integrator (True = the behaviour of /repo HEAD is tolerated and compared with the model of the code as
# it is; LP_ASSUME_FIXED=P10,... switches the strict clause and the mirrored model on for a rehearsal / after the patch is applied)
PENDING_P10 = False     # Import_Table reshapes a ragged file silently; trailing blank lines count as rows (/tmp/fixprop-C20-2)
# residual of P10 (known finding C20-ragged-total): rows of unequal length whose TOTAL number of entries still fills the rows (4+2 entries
# read as 2 x 3): c62bfe8 tests the total only; a line-wise reader would be needed. Reported under RAGGED_TOTAL_CLAUSE at every seed.


PENDING_ROUND0 = False  # In_Units(x, u, true, 0) = inf: Round accepts zero significant digits (/tmp/fixprop-C17-2)


def pending(item):
    return {"P10": PENDING_P10, "ROUND0": PENDING_ROUND0}[item] and item not in os.environ.get("LP_ASSUME_FIXED", "").split(",")


K_VAL = 64          # relative tolerance (ulps) for constants and In_Units/Import values
BUILDS_ALL = [("g++", "-O2"), ("clang++", "-O0"), ("g++", "-O0"), ("clang++", "-O2")]


# ------------------------------------------------------------------------------------------------
# translator tie
# ------------------------------------------------------------------------------------------------

def pre_build(c):
    defs = units_tr.translate(c["repo"])
    out = os.path.join(c["lean"], "LpModel", "C20", "Generated.lean")
    changed = units_tr.write_if_changed(out, units_tr.render(defs))
    return dict(definitions=len(defs), generated_rewritten=changed)


# ------------------------------------------------------------------------------------------------
# exact six-digit arithmetic on the comparison side
# ------------------------------------------------------------------------------------------------

def expo10(q):
    q = abs(q)
    e = len(str(q.numerator)) - len(str(q.denominator))
    while Fraction(10) ** e > q:
        e -= 1
    while Fraction(10) ** (e + 1) <= q:
        e += 1
    return e


def safe6(x, u=1.0):
    """x/u keeps the margin from a six-digit rounding boundary (or the tie is exact in double)"""
    if x == 0:
        return math.copysign(1.0, x) > 0 and u > 0   # -0.0 (also as 0/negative unit) is outside the model
    q = Fraction(x) / Fraction(u)
    if not (Fraction(10) ** -300 < abs(q) < Fraction(10) ** 300):
        return False
    s = abs(q) * Fraction(10) ** (5 - expo10(q))
    fr = s - math.floor(s)
    if fr == Fraction(1, 2):
        return Fraction(x / u) == q
    return abs(fr - Fraction(1, 2)) > s / 2 ** 40


def safe_round(x, u, d):
    q = Fraction(x) / Fraction(u)
    if q == 0:
        return x == 0 and math.copysign(1.0, x) > 0
    if not (Fraction(10) ** -280 < abs(q) < Fraction(10) ** 280):
        return False
    s = abs(q) * Fraction(10) ** (d - 1 - expo10(q)) + Fraction(1, 2)
    dist = abs(s - round(s))
    return dist > s / 2 ** 40


def six_digit_ok(v, x, u, slack_bits=50):
    """|v/u - x/u| <= half a unit of the sixth significant digit of x/u (plus double rounding)"""
    if isinstance(v, float) and (math.isnan(v) or math.isinf(v)):
        return False
    q = Fraction(x) / Fraction(u)
    w = Fraction(v) / Fraction(u)
    if q == 0:
        return w == 0
    bound = Fraction(10) ** (expo10(q) - 5) / 2
    return abs(w - q) <= bound + abs(q) / 2 ** slack_bits


def poly(cf, x):
    acc = Fraction(0)
    for c_ in reversed(cf):
        acc = Fraction(c_) + Fraction(x) * acc
    return acc


def func_point_ok(cf, x, ux, uy):
    """(x, f(x)) keeps the six-digit margins, on the exact value and on the double the harness computes"""
    y = poly(cf, x)
    fy = float(y)
    return safe6(x, ux) and safe6(fy, uy) and abs(Fraction(fy) - y) <= abs(y) / 2 ** 48 and _margin6(y / Fraction(uy), 30)


def grid_expected(lo, hi, n, logarithmic):
    """abscissae of Linear_Space / Log_Space: {xMin} for steps < 2 or xMin == xMax"""
    if n < 2 or lo == hi:
        return [Fraction(lo)]
    if not logarithmic:
        return [Fraction(lo) + i * (Fraction(hi) - Fraction(lo)) / (n - 1) for i in range(n)]
    import mpmath
    mpmath.mp.prec = 200
    r = mpmath.mpf(hi) / mpmath.mpf(lo)
    return [Fraction(lo) * Fraction(mpmath.nstr(mpmath.power(r, mpmath.mpf(i) / (n - 1)), 45)) for i in range(n)]


FUNC_CLAUSE = "Export_Function/Import_Table round trip fails on a degenerate grid"


# the known finding C20-ragged-total matches exactly this text (op_prefix c20.imptable)
RAGGED_TOTAL_CLAUSE = "Import_Table accepts a ragged file (rows of unequal length) instead of terminating with a diagnostic"
# c62bfe8's clause: a file whose entries do NOT fill its rows must terminate - distinct text, never matched by the known finding
RAGGED_FILL_CLAUSE = "Import_Table accepts a file whose entries do not fill its rows (ragged rows, a blank line between rows) instead of terminating with a diagnostic"


LOCALE_CLAUSE = "round trip under a caller-installed global locale (decimal point ','): the table/list read back differs in shape or in the first six significant digits"


def compare_locale(op, a, rq, impl, model, ctx):
    out = []
    if tag(model) == "undef":
        return out
    h = unhex(a[0])
    if op == "c20.rtlocL":
        u = fl(a[1])
        xs, _ = read_list(a[2:], fl)
        t, us = [[x] for x in xs], [u]
    else:
        us, rest = read_list(a[1:], fl)
        t, _ = read_table(rest, fl)
    what = "%s of %d x %d values, %d header line(s), units %s" % ("Export_List/Import_List" if op == "c20.rtlocL" else "Export_Table/Import_Table",
                                                                   len(t), len(t[0]) if t else 0, h.count("\n") + 1 if h else 0, "given" if us else "none")
    if tag(impl) != "ok":
        return [fail("prop", LOCALE_CLAUSE, "%s: %s" % (what, impl[:100]))]
    ti = toks(impl)
    if op == "c20.rtlocL":
        li, _ = read_list(ti, fl)
        ri = [[v] for v in li]
    else:
        ri, _ = read_table(ti, fl)
    if [len(r) for r in ri] != [len(r) for r in t]:
        return [fail("prop", LOCALE_CLAUSE, "%s: read back %s" % (what, [len(r) for r in ri][:8]))]
    for i, (rr, tr) in enumerate(zip(ri, t)):
        for j, (v, x) in enumerate(zip(rr, tr)):
            if not six_digit_ok(v, x, us[j] if us else 1.0):
                return [fail("prop", LOCALE_CLAUSE, "%s: [%d][%d] %r -> %r" % (what, i, j, x, v))]
    # values as in the classic locale (model of the classic round trip)
    if tag(model) == "ok":
        tm = toks(model)
        rm = [[v] for v in read_list(tm, fr)[0]] if op == "c20.rtlocL" else read_table(tm, fr)[0]
        cmp_values(ri, rm, "round trip under a comma locale: values", out)
    ctx["nontrivial"].add((op, min(len(t), 3), bool(us), bool(h)))
    return out


def lines_oracle(text, got, out):
    """Count_Lines is the number of lines of the file: the pieces ended by a line feed, plus a last piece that is not empty
    (since c62bfe8 Import_Table counts its rows itself, so this helper is judged on its own definition)"""
    pieces = text.split("\n")
    n = len(pieces) - 1 if pieces[-1] == "" else len(pieces)
    if int(got) != n:
        out.append(fail("prop", "Count_Lines is not the number of lines of the file", "%d lines, Count_Lines = %s, file %r" % (n, got, text[:60])))


def import_shape_oracle(op, a, impl, ctx):
    """C10/C20: a file whose rows (lines after the ignored ones, up to the last non-blank line) do not have the same number of entries is
    ragged: Import_Table must terminate with a diagnostic, not reshape it; blank lines at the end are not rows.
    Strict only when the repair P10 is assumed applied; until then the behaviour of HEAD is compared with its model and counted."""
    text = unhex(a[0])
    ign = int(a[-1])
    lines = text.split("\n")
    if lines and lines[-1] == "":
        lines = lines[:-1]
    data = lines[ign:]
    while data and data[-1].strip(" \t\r\v\f") == "":
        data = data[:-1]
    if not data:
        return []
    rowtoks = [l.split() for l in data]
    def num(t):
        try:
            float(t)
            return not any(ch in t.lower() for ch in "nixp_")
        except ValueError:
            return False
    if not all(num(t) for row in rowtoks for t in row):
        return []          # a token that is not a number stops the reader: judged by the model only
    counts = [len(r) for r in rowtoks]
    ragged_total = sum(counts) % len(counts) != 0
    ragged_lines = len(set(counts)) > 1 and not ragged_total
    trailing_blank = len(lines[ign:]) > len(data)
    if ragged_lines:
        if tag(impl) != "err":
            return [fail("prop", RAGGED_TOTAL_CLAUSE, "rows of %s entries whose total fills the rows: %s" % (counts, impl[:120]))]
        return []
    if not (ragged_total or trailing_blank):
        return []
    if pending("P10"):
        bump(ctx, "pending P10: ragged file / trailing blank lines (HEAD reshapes)")
        return []
    if ragged_total and tag(impl) != "err":
        return [fail("prop", RAGGED_FILL_CLAUSE, "rows of %s entries: %s" % (counts, impl[:120]))]
    if not ragged_total and trailing_blank:
        us_, _ = read_list(a[1:], fl)
        if us_ and len(us_) != counts[0]:
            return []          # dimension-count mismatch: the diagnostic is the right answer (judged by the model)
        if tag(impl) != "ok":
            return [fail("prop", "Import_Table does not read a rectangular file that ends with blank lines", impl[:120])]
        ri, _ = read_table(toks(impl), fl)
        if [len(r) for r in ri] != counts:
            return [fail("prop", "blank lines at the end of the file change the shape of the imported table", "%d x %d -> %s" % (len(counts), counts[0], [len(r) for r in ri]))]
    return []


def func_rt_oracle(a, impl=None):
    """parse the request of a range-overload round trip"""
    h = unhex(a[0])
    us, rest = read_list(a[1:], fl)
    lo, hi, n = fl(rest[0]), fl(rest[1]), int(rest[2])
    cf, _ = read_list(rest[3:], fl)
    return h, us, lo, hi, n, cf


def func_rt_check(op, a, impl):
    out = []
    h, us, lo, hi, n, cf = func_rt_oracle(a, impl)
    logarithmic = op == "c20.rtfuncG"
    degenerate = n < 4 or lo == hi
    clause = FUNC_CLAUSE if degenerate else "Export_Function/Import_Table round trip fails (range overload)"
    what = "Export_Function(f, %r, %r, %d, units %r, %s, %d header lines)" % (lo, hi, n, us, "log" if logarithmic else "linear", h.count("\n") + 1 if h else 0)
    if tag(impl) != "ok":
        return [fail("prop", clause, what + ": " + impl[:120])]
    ti = toks(impl)
    bytes_ = unhex(ti[0])
    hl = h.count("\n") + 1 if h else 0
    data_lines = bytes_.split("\n")[hl:]
    bad = [t for l in data_lines for t in l.split() if "nan" in t.lower() or "inf" in t.lower()]
    if bad:
        out.append(fail("prop", clause, what + ": the file contains the token %r for finite inputs" % bad[0]))
    xs = grid_expected(lo, hi, n, logarithmic)
    if ti[2].startswith("import:"):
        out.append(fail("prop", clause, what + ": Import_Table with the number of header lines written: " + " ".join(ti[2:])[7:]))
        return out
    rows, _ = read_table(ti[2:], fl)
    if len(rows) != len(xs) or any(len(r) != 2 for r in rows):
        out.append(fail("prop", clause, what + ": read back %s, expected %d rows x 2 columns" % ([len(r) for r in rows][:6], len(xs))))
        return out
    ux, uy = (us[0], us[1]) if us else (1.0, 1.0)
    sb = 36 if logarithmic else 45
    for i, (r, x) in enumerate(zip(rows, xs)):
        if not six_digit_ok(r[0], x, ux, sb) or not six_digit_ok(r[1], poly(cf, x), uy, sb):
            out.append(fail("prop", clause, what + ": row %d read back (%r, %r), expected (%r, %r) to six digits" % (i, r[0], r[1], float(x), float(poly(cf, x)))))
            break
    return out


def enhex(s):
    return s.encode("latin-1").hex() if s else "-"


def unhex(t):
    return "" if t == "-" else bytes.fromhex(t).decode("latin-1")


def tbl(rows):
    return "%d %s" % (len(rows), " ".join(lst(r) for r in rows)) if rows else "0"


# ------------------------------------------------------------------------------------------------
# generator
# ------------------------------------------------------------------------------------------------

HEADERS = ["", "# x\ty", "# libphysica table", "# line one\n# line two", "// a\n// b\n// c", "# 1 2 3", "header\n",
           "#", "# units: GeV cm\n#\n# 3 columns", "x [GeV]    y [cm^2]",
           # blank / white-space-only header lines and headers ending in a newline: "the number of header lines
           # written" is the number of '\n' in the header + 1, blank lines included
           "# title\n\n# x\ty", "# a\n \t \n# b", "\n# x", "# t\n\n", "# one\n# two\n", " ", "# a\n\n\n# b"]


def gen_value(rng, kind=None):
    kind = kind if kind is not None else rng.randrange(10)
    if kind == 0:
        return float(rng.randint(-2000, 2000))
    if kind == 1:
        return rng.randint(-999999, 999999) / 10.0 ** rng.randint(0, 8)
    if kind == 2:   # seven digits: forces six-digit rounding, sometimes ties
        return float(rng.randint(1000000, 9999999) * 10 ** rng.randint(0, 3)) * rng.choice([-1, 1])
    if kind == 3:   # just below / at / above powers of ten
        e = rng.randint(-290, 290)
        return rng.choice([-1, 1]) * rng.choice([0.9999994, 0.9999996, 1.0, 1.0000004, 0.99999949, 9.999995, 9.9999951]) * 10.0 ** e
    if kind == 4:
        return 0.0
    if kind == 5:
        return rng.choice([-1, 1]) * rng.uniform(1, 10) * 10.0 ** rng.randint(-299, 299)
    if kind == 6:
        return rng.choice([-1, 1]) * 10.0 ** rng.randint(-8, 8)   # around the fixed/scientific switch
    if kind == 7:
        return rng.choice([-1, 1]) * rng.uniform(1, 10) * 10.0 ** rng.randint(-7, 7)
    if kind == 8:
        return rng.randint(1, 999) / rng.choice([2.0, 4.0, 8.0, 16.0, 3.0, 7.0])
    return rng.gauss(0, 1) * 10.0 ** rng.randint(-30, 30)


def gen_unit(rng):
    c = rng.random()
    if c < 0.25:
        return 1.0
    if c < 0.4:
        return 2.0 ** rng.randint(-40, 40)
    return rng.choice([-1, 1] if c > 0.95 else [1]) * rng.uniform(1, 10) * 10.0 ** rng.randint(-30, 30)


def gen_safe(rng, u, kind=None):
    for _ in range(50):
        x = gen_value(rng, kind)
        if safe6(x, u):
            return x
        kind = None
    return 1.0 * u if safe6(1.0 * u, u) else 0.0


def gen_rt(rng, u):
    """a value of the stated domain (600 decades, either sign, integers, fractions) for the round-trip clause: NOT filtered by the
    size of the quotient x/u nor by rounding margins; only 0 with a negative unit is avoided (it is written as "-0")"""
    for _ in range(20):
        x = gen_value(rng)
        if x != 0 or u > 0:
            return x
    return 1.0


def gen_table_rt(rng, r, c, us):
    return [[gen_rt(rng, us[j] if us else 1.0) for j in range(c)] for _ in range(r)]


def quotient_oor(x, u):
    """the quotient x/u is not a normal double: overflow (> DBL_MAX) or below 2^-1022 (subnormal or zero)"""
    if x == 0:
        return False
    q = abs(Fraction(x) / Fraction(u))
    return q >= Fraction(2) ** 1024 - Fraction(2) ** 970 or q < Fraction(1, 2 ** 1022)


OOR_CLAUSE = "round trip fails for a quotient x/u outside the normal double range (|x/u| > DBL_MAX is written as inf and truncates the import; a subnormal x/u loses digits)"


def relabel_oor(out, oor_entries):
    """prop failures of a request that contains an out-of-range quotient are reported under one clause (defect 9)"""
    if not oor_entries:
        return out
    res = []
    for f in out:
        if f["kind"] == "prop":
            x, u = oor_entries[0]
            f = fail("prop", OOR_CLAUSE, "quotient outside the double range: %r / %r; %s: %s" % (x, u, f["clause"], f["detail"]))
        res.append(f)
    return res


def gen_table(rng, r, c, us):
    return [[gen_safe(rng, us[j] if us else 1.0) for j in range(c)] for _ in range(r)]


BLOCKS = [512, 1024, 4096, 8192, 16384, 65536]     # common stream / page / read-buffer sizes


def pad_header(n):
    """a header of exactly n >= 1 characters: '#'-lines of at most 7999 characters (ignore(10000,'\\n') skips each)"""
    lines, rem = [], n
    while rem > 8000:
        lines.append("#" + "p" * 7998)
        rem -= 8000
    lines.append("#" + "p" * (rem - 1))
    return "\n".join(lines)


def table_body(t, us):
    """bytes Export_Table writes after the header (default stream format = %g of the double quotient)"""
    return "\n".join("\t".join("%g" % (x / (us[j] if us else 1.0)) for j, x in enumerate(row)) for row in t)


def size_targeted(rng, thorough):
    """round trips whose file size is k*B, k*B-1, k*B+1, or has a line feed exactly on a block boundary"""
    R = []
    for B in BLOCKS:
        variants = [("size", d) for d in (-1, 0, 1)] + [("hdrnl", d) for d in (-1, 0)] + [("rownl", d) for d in (-1, 0)]
        for (kind, d) in variants:
            for rep in range(2 if thorough else 1):
                r, c = rng.randint(1, 12), rng.randint(1, 4)
                if B >= 16384 and rng.random() < 0.5:
                    r, c = rng.randint(100, 200), 12          # files of 16384/32768/65536 bytes inside the 200 x 12 domain
                us = [] if rng.random() < 0.5 else [gen_unit(rng) for _ in range(c)]
                t = gen_table(rng, r, c, us)
                body = table_body(t, us)
                if kind == "size":          # header + '\n' + body has k*B + d bytes
                    k = max(1, -(-(len(body) + 2 - d) // B))
                    n = k * B + d - 1 - len(body)
                elif kind == "hdrnl":       # the header's line feed is the last byte of a block / the first of the next
                    n = B + d
                else:                       # the line feed after the first data row
                    row0 = body.split("\n")[0]
                    k = max(1, -(-(len(row0) + 2 - d) // B))
                    n = k * B + d - 1 - len(row0)
                if n < 1:
                    continue
                R.append("c20.rttable %s %s %s" % (enhex(pad_header(n)), lst(us), tbl(t)))
        # Export_List ends with a line feed: total size k*B
        u = gen_unit(rng)
        xs = [gen_safe(rng, u) for _ in range(rng.randint(1, 30))]
        body = "".join("%g\n" % (x / u) for x in xs)
        k = max(1, -(-(len(body) + 2) // B))
        R.append("c20.rtlist %s %s %s" % (enhex(pad_header(k * B - 1 - len(body))), hx(u), lst(xs)))
    return R


def fmt_g(x):
    return "%g" % x


def generate(tier, seed, ctx):
    rng = random.Random(seed * 104729 + 20)
    thorough = tier == "thorough"
    R = []
    # --- single values -----------------------------------------------------------------------------
    for k in range(1500 if thorough else 400):
        R.append("c20.fmt " + hx(gen_safe(rng, 1.0, k % 10 if k % 10 != 4 else 5)))
    for x in [0.0, 1.0, -1.0, 100000.0, 999999.0, 1000000.0, 999999.5, 999999.4, 0.0001, 0.00001, 0.000099999949, 1234565.0,
              1234575.0, 0.5, 123456.5, 123457.5, 1e22, 1e-22, 5e-324 * 2 ** 60, 1.7e308, 2.5, 1e100, 1e-100, 1e99, 1e-99, 123456e5]:
        if safe6(x):
            R.append("c20.fmt " + hx(x))
    # --- list round trips ------------------------------------------------------------------------------
    for k in range(200 if thorough else 50):
        n = rng.choice([0, 1, 2, 3]) if k % 8 == 0 else rng.randint(1, 200 if thorough else 60)
        u = gen_unit(rng)
        xs = [gen_rt(rng, u) for _ in range(n)]
        R.append("c20.rtlist %s %s %s" % (enhex(rng.choice(HEADERS)), hx(u), lst(xs)))
    # --- table round trips -----------------------------------------------------------------------------
    shapes = []
    if thorough:
        shapes += [(r, c) for r in (1, 2, 3, 7, 50, 200) for c in range(1, 13)]
        shapes += [(rng.randint(1, 200), rng.randint(1, 12)) for _ in range(150)]
    else:
        shapes += [(1, 1), (1, 12), (2, 1), (200, 12), (3, 3), (200, 1)]
        shapes += [(rng.randint(1, 40), rng.randint(1, 12)) for _ in range(40)]
        shapes += [(rng.randint(41, 200), rng.randint(1, 12)) for _ in range(4)]
    for (r, c) in shapes:
        us = [] if rng.random() < 0.3 else [gen_unit(rng) for _ in range(c)]
        R.append("c20.rttable %s %s %s" % (enhex(rng.choice(HEADERS)), lst(us), tbl(gen_table_rt(rng, r, c, us))))
    # corners of the stated domain: large values with small unit factors (quotient beyond DBL_MAX) and small values with large
    # unit factors (subnormal quotient) - inside "600 decades x 60 decades"
    for k in range(24 if thorough else 8):
        big = k % 2 == 0
        x = rng.choice([-1, 1]) * rng.uniform(1, 9.99) * 10.0 ** (rng.randint(285, 299) if big else -rng.randint(285, 299))
        u = rng.uniform(1, 9.99) * 10.0 ** (-rng.randint(15, 30) if big else rng.randint(15, 30))
        if k % 4 < 2:
            xs = [gen_rt(rng, u) for _ in range(rng.randint(0, 3))] + [x] + [gen_rt(rng, u) for _ in range(rng.randint(1, 3))]
            R.append("c20.rtlist %s %s %s" % (enhex(rng.choice(HEADERS)), hx(u), lst(xs)))
        else:
            r, c = rng.randint(1, 4), rng.randint(1, 4)
            us = [gen_unit(rng) for _ in range(c)]
            jc = rng.randrange(c)
            us[jc] = u
            t = gen_table_rt(rng, r, c, us)
            t[rng.randrange(r)][jc] = x
            R.append("c20.rttable %s %s %s" % (enhex(rng.choice(HEADERS)), lst(us), tbl(t)))
    # round trip in a program whose global C++ locale writes the decimal point as ',' (facet installed by the caller): the property does
    # not mention locales, the unchanged library writes and reads with the same (global) locale, so the VALUES come back as in the classic
    # locale; judged by shape and six digits only, never by the bytes
    for k in range(40 if thorough else 14):
        r, c = rng.randint(1, 12), rng.randint(1, 6)
        us = [] if k % 3 == 0 else [gen_unit(rng) for _ in range(c)]
        h = rng.choice(HEADERS)
        if k % 4 == 3:
            u = gen_unit(rng)
            R.append("c20.rtlocL %s %s %s" % (enhex(h), hx(u), lst([gen_safe(rng, u) for _ in range(rng.randint(1, 20))])))
        else:
            R.append("c20.rtloc %s %s %s" % (enhex(h), lst(us), tbl(gen_table(rng, r, c, us))))
    R += size_targeted(rng, thorough)
    # a table without rows: the file is the header alone (or empty); read with the number of header lines written it is
    # the empty table (5eb5000: it was a division by zero)
    for h in HEADERS:
        for us in ([], [gen_unit(rng), gen_unit(rng)]):
            if thorough or rng.random() < 0.6 or h == "":
                R.append("c20.rttable %s %s 0" % (enhex(h), lst(us)))
    for k in range(60 if thorough else 24):   # guards, ragged rows, empty rows
        r, c = rng.randint(1, 6), rng.randint(1, 5)
        kind = k % 4
        if kind == 0:      # dimension count mismatch -> diagnostic
            us = [gen_unit(rng) for _ in range(c + rng.choice([-1, 1, 2]))]
            us = us or [1.0, 2.0]
            t = gen_table(rng, r, c, [])
        elif kind == 1:    # one row of different length, dimensions given -> diagnostic
            us = [gen_unit(rng) for _ in range(c)]
            t = gen_table(rng, r + 1, c, us)
            t[rng.randrange(len(t))] = [gen_safe(rng, 1.0) for _ in range(c + 1)]
            us2 = us + [1.0]
            t = [[x if safe6(x, us2[j]) else 1.0 for j, x in enumerate(row)] for row in t]
        elif kind == 2:    # ragged without dimensions: shape arithmetic of the reader
            us = []
            t = [[gen_safe(rng, 1.0) for _ in range(rng.randint(1, 4))] for _ in range(r)]
        else:              # no rows / no header
            us = []
            t = []
        R.append("c20.rttable %s %s %s" % (enhex(rng.choice(HEADERS)), lst(us), tbl(t)))
    # --- Export_Function --------------------------------------------------------------------------------
    for k in range(60 if thorough else 20):
        cf = [rng.randint(1, 9) / 4.0 for _ in range(rng.randint(1, 4))]
        us = [] if k % 3 == 0 else [gen_unit(rng) if rng.random() < 0.5 else 1.0, abs(gen_unit(rng))]

        def fx(x):
            acc = Fraction(0)
            for c_ in reversed(cf):
                acc = Fraction(c_) + Fraction(x) * acc
            return acc

        def ok_point(x):
            ux, uy = (us[0], us[1]) if us else (1.0, 1.0)
            y = fx(x)
            fy = float(y)
            # the harness evaluates f in double: keep the margin on the exact value and on the double
            return safe6(x, ux) and safe6(fy, uy) and abs(Fraction(fy) - y) <= abs(y) / 2 ** 48 and _margin6(y / Fraction(uy), 30)
        if k % 2 == 0:
            xs = [x for x in (rng.randint(0, 4000) / 16.0 for _ in range(rng.randint(1, 30))) if ok_point(x)] or [1.0]
            R.append("c20.expfunc %s %s %s %s" % (enhex(rng.choice(HEADERS)), lst(us), lst(xs), lst(cf)))
        else:
            a, n = float(rng.randint(0, 50)), rng.choice([0, 1, 2, 3, 5, 9, 17, 33])
            b = a + rng.choice([0.0, 1.0, 2.0, 8.0, 64.0]) if k % 4 == 1 else a + (n - 1 if n > 1 else 1) * rng.choice([0.25, 0.5, 2.0])
            pts = [a] if (n < 2 or a == b) else [a + i * ((b - a) / (n - 1)) for i in range(n)]
            exact = (n < 2 or a == b) or all(Fraction(p) == Fraction(a) + i * (Fraction(b) - Fraction(a)) / (n - 1) for i, p in enumerate(pts))
            if exact and all(ok_point(p) for p in pts):
                R.append("c20.expfuncL %s %s %s %s %d %s" % (enhex(rng.choice(HEADERS)), lst(us), hx(a), hx(b), n, lst(cf)))
    # --- Export_Function range overload round trip: degenerate and regular grids, linear and logarithmic -----------
    grids = [(n_, same) for n_ in (0, 1, 2, 3) for same in (False, True)] + [(5, True), (5, False), (9, False), (17, False)]
    for rep in range(3 if thorough else 1):
        for (n_, same) in grids:
            for with_h in (False, True):
                for with_u in (False, True):
                    h = rng.choice(HEADERS[1:]) if with_h else ""
                    cf = [rng.randint(1, 9) / 4.0 for _ in range(rng.randint(1, 3))]
                    for _ in range(30):
                        us = [gen_unit(rng), abs(gen_unit(rng))] if with_u else []
                        ux, uy = (us[0], us[1]) if us else (1.0, 1.0)
                        a_ = float(rng.randint(1, 50))
                        b_ = a_ if same else a_ + max(n_ - 1, 1) * rng.choice([0.25, 0.5, 2.0])
                        pts = [float(x) for x in grid_expected(a_, b_, n_, False)]
                        if all(func_point_ok(cf, p_, ux, uy) for p_ in pts):
                            R.append("c20.rtfuncL %s %s %s %s %d %s" % (enhex(h), lst(us), hx(a_), hx(b_), n_, lst(cf)))
                            break
                    us = [abs(gen_unit(rng)), abs(gen_unit(rng))] if with_u else []
                    a_ = rng.uniform(0.5, 50)
                    b_ = a_ if same else a_ * rng.choice([2.0, 10.0, 1000.0])
                    R.append("c20.rtfuncG %s %s %s %s %d %s" % (enhex(h), lst(us), hx(a_), hx(b_), n_, lst(cf)))
    # --- readers on given files: header count off, junk, blank lines, missing final newline ----------------------
    for k in range(200 if thorough else 70):
        r, c = rng.randint(1, 8), rng.randint(1, 5)
        rows = [[gen_safe(rng, 1.0, rng.choice([0, 1, 9, 6, 7])) for _ in range(c)] for _ in range(r)]
        h = rng.choice(HEADERS)
        hl = 0 if not h else h.count("\n") + 1
        sep = rng.choice(["\t", " ", "  ", "\t "])
        body = "\n".join(sep.join(fmt_g(x) for x in row) for row in rows)
        kind = k % 7
        text = (h + "\n" if h else "") + body
        ign = hl
        if kind == 1:
            text += "\n"                       # final newline (Export_List style)
        elif kind == 2:
            ign = max(0, hl + rng.choice([-1, 1]))   # header count off by one
        elif kind == 3:
            text += "\n" + "# trailer"          # non-numeric token stops the reader
        elif kind == 4:
            text += "\n\n"                     # blank line at the end: one more line counted
        elif kind == 5:
            ign = hl + r + rng.randint(0, 2)     # everything ignored: rows = 0 or wrap (outside the model)
        elif kind == 6:
            text = text.replace(sep, sep + "\n", 1) if c > 1 else text   # a row broken over two lines
        us = [] if rng.random() < 0.5 else [gen_unit(rng) for _ in range(c + (1 if rng.random() < 0.15 else 0))]
        R.append("%s %s %s %d" % ("c20.imptable" if pending("P10") else "c20.imptable2", enhex(text), lst(us), ign))
        R.append("c20.implist %s %s %d" % (enhex(text), hx(gen_unit(rng)), ign))
        R.append("c20.lines %s" % enhex(text))
    # hand-written files another tool could have produced: ragged rows, trailing blank lines, a blank line between rows, a trailer
    imp_op = "c20.imptable" if pending("P10") else "c20.imptable2"
    for k in range(90 if thorough else 30):
        r, c = rng.randint(2, 6), rng.randint(2, 5)
        rows = [[str(rng.randint(-99, 99)) if rng.random() < 0.7 else fmt_g(gen_safe(rng, 1.0, 7)) for _ in range(c)] for _ in range(r)]
        h = rng.choice(["", "# x y", "# a\n# b"])
        hl = 0 if not h else h.count("\n") + 1
        kind = k % 6
        if kind == 0:      # last row short
            rows[-1] = rows[-1][:rng.randint(1, c - 1)]
        elif kind == 1:    # a middle / first row long or short
            i = rng.randrange(r - 1)
            rows[i] = rows[i] + ["7"] if rng.random() < 0.5 else rows[i][:-1]
        elif kind == 2:    # rectangular, trailing blank lines
            pass
        elif kind == 3:    # rectangular, blank line between rows
            pass
        elif kind == 4:    # rectangular with trailing white-space-only lines and a final newline
            pass
        body = "\n".join(" ".join(row) for row in rows)
        if kind == 2:
            body += "\n" * rng.randint(2, 4)
        elif kind == 3:
            parts = body.split("\n")
            j = rng.randrange(1, len(parts))
            body = "\n".join(parts[:j] + [""] + parts[j:]) + rng.choice(["", "\n"])
        elif kind == 4:
            body += "\n" + rng.choice([" ", "\t", " \t "]) + "\n" + rng.choice(["", " \n"])
        elif kind == 5:
            body += "\n# end of data\n"
        else:
            body += rng.choice(["", "\n"])
        text = (h + "\n" if h else "") + body
        us = [] if rng.random() < 0.5 else [1.0] * (c if kind != 0 or rng.random() < 0.5 else len(rows[-1]))
        R.append("%s %s %s %d" % (imp_op, enhex(text), lst(us), hl))
    for (text, us) in [("1 2 3\n4 5 6\n7 8\n", [1.0, 1.0]), ("1 2 3\n4 5 6\n7 8\n", []), ("1 2\n3 4\n\n\n", []), ("1 2\n3 4\n\n\n", [1.0, 1.0]),
                       ("1 2\n3 4\n", [1.0, 1.0]), ("1 2\n\n3 4\n", []), ("1\n2 3\n", []), ("1 2 3 4\n5 6\n", [1.0, 1.0, 1.0]),
                       # residual (known finding C20-ragged-total): unequal rows whose total fills the rows
                       ("1 2 3\n4\n", []), ("1\n2 3 4 5\n6\n", [1.0, 1.0]), ("1 2 3 4 5\n6\n", [])]:
        R.append("%s %s %s 0" % (imp_op, enhex(text), lst(us)))
    for t in ["", "\n", "a", "a\n", "a\nb", "a\n\nb\n", "\n\n\n", "1 2\n3 4", "1 2\n3 4\n", " \n \n"]:
        R.append("c20.lines %s" % enhex(t))
    # --- In_Units overloads ----------------------------------------------------------------------------------------
    for k in range(400 if thorough else 120):
        u = gen_unit(rng)
        rnd = (k // 6) % 2          # independent of the overload (k % 6)
        d = rng.randint(1, 7) if k % 11 else 8      # 8 digits with rounding -> diagnostic

        def val():
            for _ in range(50):
                x = gen_value(rng)
                if abs(x) > 1e-250 and abs(x) < 1e250 and safe_round(x, u, min(d, 7)):
                    return x
                if x == 0:
                    return 0.0
            return u
        kind = k % 6
        if kind == 0:
            R.append("c20.inunits %s %s %d %d" % (hx(val()), hx(u), rnd, d))
        elif kind == 1:
            R.append("c20.inunitsL %s %s %d %d" % (lst([val() for _ in range(rng.randint(0, 9))]), hx(u), rnd, d))
        elif kind == 2:
            R.append("c20.inunitsV %s %s %d %d" % (lst([val() for _ in range(rng.randint(1, 6))]), hx(u), rnd, d))
        elif kind == 3:
            c = rng.randint(1, 4)
            R.append("c20.inunitsT %s %s %d %d" % (tbl([[val() for _ in range(rng.randint(0, 4))] for _ in range(rng.randint(0, 4))]), hx(u), rnd, d))
        elif kind == 4:
            r_, c = rng.randint(1, 4), rng.randint(1, 4)
            R.append("c20.inunitsM %s %s %d %d" % (tbl([[val() for _ in range(c)] for _ in range(r_)]), hx(u), rnd, d))
        else:
            r_, c = rng.randint(1, 4), rng.randint(1, 4)
            us = [u] + [gen_unit(rng) for _ in range(c - 1)]
            t = []
            for _ in range(r_):
                row = []
                for j in range(c):
                    for _ in range(50):
                        x = gen_value(rng, 5)
                        if safe_round(x, us[j], min(d, 7)) and 1e-250 < abs(x) < 1e250:
                            break
                    row.append(x)
                t.append(row)
            if k % 4 == 1:
                us = us + [1.0]     # dimension count mismatch -> diagnostic
            R.append("c20.inunitsC %s %s %d %d" % (tbl(t), lst(us), rnd, d))
    # every overload x every digit count 1..7 with round = true, on values with many significant digits
    for d in range(1, 8):
        for rep in range(3 if thorough else 1):
            u = gen_unit(rng)
            us2 = [u, gen_unit(rng), gen_unit(rng)]

            def rv(uu):
                for _ in range(100):
                    x = rng.choice([-1, 1]) * rng.uniform(1.1111111, 9.8888888) * 10.0 ** rng.randint(-40, 40)
                    q = Fraction(x) / Fraction(uu)
                    # more than d significant digits at every requested d' <= 7, margin from every rounding boundary
                    if all(safe_round(x, uu, dd) for dd in range(1, 8)) and all(
                            (abs(q) * Fraction(10) ** (dd - 1 - expo10(q))) % 1 != 0 for dd in range(1, 8)):
                        return x
                return 1.2345678912 * uu
            R.append("c20.inunits %s %s 1 %d" % (hx(rv(u)), hx(u), d))
            R.append("c20.inunitsL %s %s 1 %d" % (lst([rv(u) for _ in range(3)]), hx(u), d))
            R.append("c20.inunitsV %s %s 1 %d" % (lst([rv(u) for _ in range(3)]), hx(u), d))
            R.append("c20.inunitsT %s %s 1 %d" % (tbl([[rv(u) for _ in range(3)] for _ in range(2)]), hx(u), d))
            R.append("c20.inunitsM %s %s 1 %d" % (tbl([[rv(u) for _ in range(3)] for _ in range(2)]), hx(u), d))
            R.append("c20.inunitsC %s %s 1 %d" % (tbl([[rv(us2[j]) for j in range(3)] for _ in range(2)]), lst(us2), d))
    for x in (3.0, -0.25, 1e30):      # zero significant digits with rounding: meaningless (the property's Round has d = 1..7)
        R.append("c20.inunits %s %s 1 0" % (hx(x), hx(2.0)))
    R.append("c20.inunitsL %s %s 1 0" % (lst([1.5, 2.5]), hx(2.0)))
    R.append("c20.inunitsM %s %s 1 0" % (tbl([[1.5, 2.5]]), hx(2.0)))
    for (x, d) in [(2.5, 1), (3.5, 1), (-2.5, 1), (1.25, 2), (0.0, 3), (7.0, 1), (1000.0, 2), (999.0, 2), (9.5, 1), (99.5, 2)]:
        R.append("c20.inunits %s %s 1 %d" % (hx(x), hx(1.0), d))
    # --- unit constants and identities ------------------------------------------------------------------------------
    R.append("c20.units")
    try:
        names = [n for n, _ in units_tr.translate(ctx["repo"])]
    except Exception:
        names = []
    for n in names:
        R.append("c20.unit " + n)
    for i in range(80):
        R.append("c20.ident %d" % i)
    R += gen_cover(random.Random(seed * 15485863 + 2020), thorough)
    return R


def _margin6(q, bits):
    """exact value q keeps a relative margin 2^-bits from a six-digit rounding boundary"""
    if q == 0:
        return True
    s = abs(q) * Fraction(10) ** (5 - expo10(q))
    fr = s - math.floor(s)
    return abs(fr - Fraction(1, 2)) > s / 2 ** bits


# ------------------------------------------------------------------------------------------------
# the separately compiled builds of Natural_Units.cpp
# ------------------------------------------------------------------------------------------------

def _one_build(ctx, scratch, cc, opt, names):
    tag_ = "%s%s" % (cc, opt)
    d = os.path.join(scratch, tag_.replace("+", "p"))
    os.makedirs(d, exist_ok=True)
    # own copy of the configured header: the shared library cache (libdir/gen) can be rotated away by a concurrent check
    gen = os.path.join(d, "gen")
    os.makedirs(gen, exist_ok=True)
    vin = os.path.join(ctx["repo"], "include", "version.hpp.in")
    with open(os.path.join(gen, "version.hpp"), "w") as f:
        f.write(re.sub(r"@[A-Za-z_]+@", "verif", open(vin).read()) if os.path.exists(vin) else "")
    inc = ["-I" + os.path.join(ctx["repo"], "include"), "-I" + gen]
    obj = os.path.join(d, "nu.o")
    r = subprocess.run([cc, "-std=c++14", opt, "-w"] + inc + ["-c", os.path.join(ctx["repo"], "src", "Natural_Units.cpp"), "-o", obj],
                       stdout=subprocess.PIPE, stderr=subprocess.STDOUT, text=True)
    if r.returncode != 0:
        return tag_, dict(error="compile: " + r.stdout[-1500:])
    nm = subprocess.run(["nm", obj], stdout=subprocess.PIPE, text=True).stdout
    klass, undefined = {}, []
    for line in nm.splitlines():
        parts = line.split()
        if len(parts) == 2 and parts[0] == "U":
            undefined.append(parts[1])
            continue
        if len(parts) != 3:
            continue
        m = re.fullmatch(r"_ZN10libphysica13natural_units(\d+)([A-Za-z_]\w*)E", parts[2])
        if m and int(m.group(1)) == len(m.group(2)):
            klass[m.group(2)] = parts[1]
    ext = [n for n in names if klass.get(n, "") in ("R", "D", "B", "G", "S")]
    src = os.path.join(d, "main.cpp")
    with open(src, "w") as f:
        f.write("#include <cstdio>\nnamespace libphysica { namespace natural_units {\n")
        for n in ext:
            f.write("extern const double %s;\n" % n)
        f.write("} }\nint main(){\n")
        for n in ext:
            f.write('  std::printf("%s %%a\\n", libphysica::natural_units::%s);\n' % (n, n))
        f.write("  return 0; }\n")
    stubs = ["-Wl,--defsym,%s=0" % s for s in undefined if re.match(r"_ZNK?10libphysica", s)]
    exe = os.path.join(d, "units")
    r = subprocess.run([cc, "-std=c++14", opt, "-w", src, obj] + stubs + ["-o", exe], stdout=subprocess.PIPE, stderr=subprocess.STDOUT, text=True)
    if r.returncode != 0:
        return tag_, dict(error="link: " + r.stdout[-1500:])
    r = subprocess.run([exe], stdout=subprocess.PIPE, stderr=subprocess.STDOUT, text=True, timeout=60)
    if r.returncode != 0:
        return tag_, dict(error="run: status %d %s" % (r.returncode, r.stdout[-500:]))
    vals = {}
    for line in r.stdout.splitlines():
        n, _, v = line.partition(" ")
        vals[n] = fl(v.strip())
    res = dict(klass=klass, values=vals)
    res.update(_rt_build(ctx, d, cc, opt, inc, obj))
    return tag_, res


# round trips through the long double path of Export_*/Import_* (5c3fb95) in every separately compiled build:
# (values, unit) lists and one table with the out-of-range entry in the centre
RT_LISTS = [([1.0, 1e300, 2.0], 1e-30), ([1.23456e-290, 7.0], 1e30), ([1.23456e-300, 5.0, -3.5e-299], 1e25),
            ([2.5, -1234567.0, 1e-5, 0.0], 3.0), ([9.87654e299, -1e-300], 2.5e-29), ([123456.5, 0.000123456789], 1.0)]
RT_TABLES = [([[1.0, 2.0, 3.0], [4.0, 1e300, 6.0], [7.0, 8.0, 9.0]], [1.0, 1e-30, 2.0]),
             ([[1.5e-295, 2.0], [-3.25, 4e-299]], [1e28, 1e9])]


def _rt_build(ctx, d, cc, opt, inc, nu_obj):
    uobj = os.path.join(d, "util.o")
    r = subprocess.run([cc, "-std=c++14", opt, "-w"] + inc + ["-c", os.path.join(ctx["repo"], "src", "Utilities.cpp"), "-o", uobj],
                       stdout=subprocess.PIPE, stderr=subprocess.STDOUT, text=True)
    if r.returncode != 0:
        return dict(rt_error="compile Utilities.cpp: " + r.stdout[-800:])
    defined, undefined = set(), set()
    for o in (uobj, nu_obj):
        for line in subprocess.run(["nm", o], stdout=subprocess.PIPE, text=True).stdout.splitlines():
            parts = line.split()
            if len(parts) == 2 and parts[0] == "U":
                undefined.add(parts[1])
            elif len(parts) == 3 and parts[1] in "TtRrDdBbWwVvuG":
                defined.add(parts[2])
    stubs = ["-Wl,--defsym,%s=0" % s for s in sorted(undefined - defined) if re.match(r"_ZNK?10libphysica", s)]
    src = os.path.join(d, "rt.cpp")
    NL = "\\n"      # a line feed escape inside the generated C++ string literals
    with open(src, "w") as f:
        f.write("#include <cstdio>\n#include <cstdlib>\n#include <fstream>\n#include <iterator>\n#include <string>\n#include <vector>\n"
                "#include \"libphysica/Utilities.hpp\"\n"
                "static void dump(const std::string& p){ std::ifstream f(p, std::ios::binary); std::string s((std::istreambuf_iterator<char>(f)), "
                "std::istreambuf_iterator<char>()); for(unsigned char c : s) std::printf(\"%02x\", c); }\n"
                "static double H(const char* s){ return std::strtod(s, nullptr); }\n"
                "int main(int argc, char** argv){ std::string dir = argv[1];\n")
        for i, (xs, u) in enumerate(RT_LISTS):
            f.write('  { std::string p = dir + "/l%d.dat"; std::vector<double> x = {%s}; double u = H("%s");\n' % (
                i, ", ".join('H("%s")' % hx(x) for x in xs), hx(u)))
            f.write('    libphysica::Export_List(p, x, u, "# h"); std::printf("L%d 0 "); dump(p); auto b = libphysica::Import_List(p, u, 1);\n' % i)
            f.write('    std::printf(" %zu", b.size()); for(double v : b) std::printf(" %a", v); std::printf("' + NL + '"); }\n')
        for i, (t, us) in enumerate(RT_TABLES):
            rows = ", ".join("{" + ", ".join('H("%s")' % hx(x) for x in row) + "}" for row in t)
            f.write('  { std::string p = dir + "/t%d.dat"; std::vector<std::vector<double>> x = {%s}; std::vector<double> u = {%s};\n' % (
                i, rows, ", ".join('H("%s")' % hx(u_) for u_ in us)))
            f.write('    libphysica::Export_Table(p, x, u, "# h"); std::printf("T%d 0 "); dump(p); auto b = libphysica::Import_Table(p, u, 1);\n' % i)
            f.write('    std::printf(" %zu", b.size()); for(auto& r : b){ std::printf(" %zu", r.size()); for(double v : r) std::printf(" %a", v); } std::printf("'
                    + NL + '"); }\n')
        f.write("  return 0; }\n")
    exe = os.path.join(d, "rt")
    r = subprocess.run([cc, "-std=c++14", opt, "-w"] + inc + [src, uobj, nu_obj] + stubs + ["-lconfig++", "-o", exe],
                       stdout=subprocess.PIPE, stderr=subprocess.STDOUT, text=True)
    if r.returncode != 0:
        return dict(rt_error="link: " + r.stdout[-800:])
    r = subprocess.run([exe, d], stdout=subprocess.PIPE, stderr=subprocess.STDOUT, text=True, timeout=60)
    out = {}
    for line in r.stdout.splitlines():
        ts = line.split()
        if ts and re.fullmatch(r"[LT]\d+", ts[0]):
            out[ts[0]] = ts[2:]
    if r.returncode != 0:
        return dict(rt=out, rt_error="run: status %d %s" % (r.returncode, r.stdout[-300:]))
    return dict(rt=out)


def py_rt_builds(ctx):
    """the long double path of Export_*/Import_* in every separately compiled build: shape and six digits, and the same
    bytes in every build"""
    out = []
    B = builds(ctx)
    ref_bytes = {}
    for b, res in B.items():
        if "error" in res:
            continue
        if "rt_error" in res:
            out.append(fail("prop" if res["rt_error"].startswith("run") else "corr", "round trip through Export_*/Import_* in build %s does not run" % b, res["rt_error"]))
        rt = res.get("rt", {})
        for i, (xs, u) in enumerate(RT_LISTS):
            ts = rt.get("L%d" % i)
            if not ts:
                continue
            ref_bytes.setdefault("L%d" % i, {})[b] = ts[0]
            n = int(ts[1])
            vs = [fl(t) for t in ts[2:2 + n]]
            bad = n != len(xs) or any(not six_digit_ok(v, x, u) for v, x in zip(vs, xs))
            if bad:
                oor = [(x, u) for x in xs if quotient_oor(x, u)]
                f = fail("prop", "Import_List(Export_List(data)) differs in length or in the first six significant digits (build %s)" % b,
                         "%r / %r -> %r, file %r" % (xs, u, vs, unhex(ts[0])))
                out += relabel_oor([f], oor)
        for i, (t, us) in enumerate(RT_TABLES):
            ts = rt.get("T%d" % i)
            if not ts:
                continue
            ref_bytes.setdefault("T%d" % i, {})[b] = ts[0]
            try:
                rows, _ = read_table(ts[1:], fl)
            except Exception:
                rows = None
            bad = rows is None or [len(r) for r in rows] != [len(r) for r in t] or any(
                not six_digit_ok(v, x, us[j]) for rr, tr in zip(rows, t) for j, (v, x) in enumerate(zip(rr, tr)))
            if bad:
                oor = [(x, us[j]) for row in t for j, x in enumerate(row) if quotient_oor(x, us[j])]
                f = fail("prop", "Import_Table(Export_Table(data)) differs in shape or in the first six significant digits (build %s)" % b,
                         "%r / %r -> %r" % (t, us, rows))
                out += relabel_oor([f], oor)
        ctx["nontrivial"].add(("rt-build", b, len(rt)))
    for case, per in ref_bytes.items():
        if len(set(per.values())) > 1:
            out.append(fail("corr", "the builds disagree on the bytes Export_* writes (long double path)", "%s: %s" % (case, {k: unhex(v)[:60] for k, v in per.items()})))
    return out


def builds(ctx):
    if "c20_builds" in ctx:
        return ctx["c20_builds"]
    try:
        names = [n for n, _ in units_tr.translate(ctx["repo"])]
    except Exception:
        names = []
    cfgs = BUILDS_ALL if ctx.get("tier") == "thorough" else BUILDS_ALL[:2]
    scratch = os.path.join(ctx["workdir"], "c20-builds")
    os.makedirs(scratch, exist_ok=True)
    try:
        with ThreadPoolExecutor(len(cfgs)) as ex:
            res = dict(ex.map(lambda c: _one_build(ctx, scratch, c[0], c[1], names), cfgs))
    finally:
        shutil.rmtree(scratch, ignore_errors=True)
    ctx["c20_builds"] = res
    ctx["stats"]["builds"] = {k: ("error" if "error" in v else "%d constants" % len(v["values"])) for k, v in res.items()}
    return res


# ------------------------------------------------------------------------------------------------
# evaluation of the model's prefix expressions
# ------------------------------------------------------------------------------------------------

def eval_prefix(ts, env=None):
    """tokens of Expr.show -> mpmath value (exact Fractions are kept exact as long as possible)"""
    import mpmath
    mpmath.mp.prec = 400
    pos = [0]

    def to_mp(v):
        return mpmath.mpf(v.numerator) / mpmath.mpf(v.denominator) if isinstance(v, Fraction) else v

    def rec():
        t = ts[pos[0]]
        pos[0] += 1
        if t == "q":
            v = fr(ts[pos[0]])
            pos[0] += 1
            return v
        if t == "ref":
            n = ts[pos[0]]
            pos[0] += 1
            return Fraction(env[n])
        if t == "pi":
            return mpmath.pi + 0
        if t == "neg":
            return -rec()
        if t in ("add", "sub", "mul", "div"):
            a = rec()
            b = rec()
            if not (isinstance(a, Fraction) and isinstance(b, Fraction)):
                a, b = to_mp(a), to_mp(b)
            return a + b if t == "add" else a - b if t == "sub" else a * b if t == "mul" else a / b
        if t == "powi":
            a = rec()
            k = int(ts[pos[0]])
            pos[0] += 1
            return a ** k
        if t == "sqrt":
            return mpmath.sqrt(to_mp(rec()))
        if t == "powr":
            a = rec()
            b = rec()
            return mpmath.power(to_mp(a), to_mp(b))
        raise ValueError("bad token " + t)
    v = rec()
    if pos[0] != len(ts):
        raise ValueError("trailing tokens")
    return v


def rel_close(v, ref, K):
    """float v against an mpmath/Fraction reference, relative K ulps"""
    import mpmath
    if isinstance(ref, Fraction):
        return close(v, ref, ref, K)
    if math.isnan(v) or math.isinf(v):
        return False
    return abs(mpmath.mpf(v) - ref) <= K * mpmath.mpf(2) ** -53 * abs(ref)


# ------------------------------------------------------------------------------------------------
# comparator
# ------------------------------------------------------------------------------------------------

def read_table(ts, conv):
    """'<rows> (<len> v…)…' -> list of rows, rest"""
    n = int(ts[0])
    i, rows = 1, []
    for _ in range(n):
        k = int(ts[i])
        rows.append([conv(t) for t in ts[i + 1:i + 1 + k]])
        i += 1 + k
    return rows, ts[i:]


def read_list(ts, conv):
    n = int(ts[0])
    return [conv(t) for t in ts[1:1 + n]], ts[1 + n:]


def parse_req_table(a):
    rows, rest = read_table(a, fl)
    return rows, rest


def notation_classes(text):
    ks = set()
    for t in text.split():
        if "e" in t:
            ks.add("sci")
        elif "." in t:
            ks.add("frac")
        else:
            ks.add("int")
    return "".join(sorted(ks))


def _f(v):
    try:
        return float(v)
    except OverflowError:
        return math.inf if v > 0 else -math.inf


def cmp_values(impl_rows, model_rows, clause, out, K=K_VAL):
    if [len(r) for r in impl_rows] != [len(r) for r in model_rows]:
        out.append(fail("corr", clause + ": shape", "impl %s model %s" % ([len(r) for r in impl_rows][:8], [len(r) for r in model_rows][:8])))
        return
    for i, (ri, rm) in enumerate(zip(impl_rows, model_rows)):
        for j, (vi, vm) in enumerate(zip(ri, rm)):
            if not close(vi, vm, vm, K):
                out.append(fail("corr", clause + ": value", "[%d][%d] impl %r model %r" % (i, j, vi, _f(vm))))
                return


def compare(rq, impl, model, ctx):
    op = rq.split(" ", 1)[0]
    a = rq.split()[1:]
    bump(ctx, op)
    if op in ("c20.unit", "c20.units", "c20.ident"):
        return compare_units(op, a, model, ctx)
    if op in COVER_OPS:
        return compare_cover(op, a, rq, impl, model, ctx)
    if op.startswith("c20.inunits") and a[-1] == "0" and a[-2] == "1":
        if pending("ROUND0"):
            bump(ctx, "pending ROUND0: In_Units(round, 0 digits)")
            return []
        if tag(impl) != "err":
            return [fail("prop", "In_Units with rounding to zero significant digits does not stop with a diagnostic", impl[:100])]
        return []
    if op in ("c20.rtloc", "c20.rtlocL"):
        return compare_locale(op, a, rq, impl, model, ctx)
    if op in ("c20.imptable", "c20.imptable2"):
        pre = import_shape_oracle(op, a, impl, ctx)
        if pre:
            return pre
    if op in ("c20.rtfuncL", "c20.rtfuncG"):
        if tag(model) == "undef":
            return []
        out = func_rt_check(op, a, impl)
        h_, us_, lo_, hi_, n_, _cf = func_rt_oracle(a, impl)
        ctx["nontrivial"].add((op, min(n_, 4), lo_ == hi_, bool(h_), bool(us_)))
        if op == "c20.rtfuncL" and tag(impl) == "ok" and tag(model) == "ok":
            ti, tm = toks(impl), toks(model)
            cmp_bytes(unhex(ti[0]), unhex(tm[0]), 10 ** 9, lambda i, j: None, "Export_Function (range overload)", out, ctx)
            if ti[1] != tm[1]:
                out.append(fail("corr", "Count_Lines of the exported function table", "impl %s model %s" % (ti[1], tm[1])))
            if not ti[2].startswith("import:") and tm[2] not in ("err", "undef"):
                ri, _ = read_table(ti[2:], fl)
                rm, _ = read_table(tm[2:], fr)
                cmp_values(ri, rm, "Import_Table of the exported function table", out)
        return out
    if tag(model) == "undef":
        # outside the model and outside the property (more ignored lines than the file has: rows = 0 or an
        # unsigned wrap; zero unit): whatever the implementation does is not compared
        bump(ctx, "undef:" + op)
        return []
    fs, both = std_outcome(rq, impl, model)
    if tag(model) in ("ok", "err"):
        ctx["nontrivial"].add((op, tag(model), len(rq) // 200, rq.split()[1][:8] if op.startswith("c20.rt") else ""))
    if not both:
        return fs
    ti, tm = toks(impl), toks(model)
    out = []
    if op == "c20.fmt":
        x = fl(a[0])
        si, sm = unhex(ti[0]), unhex(tm[0])
        back = fl(ti[1])
        if not six_digit_ok(back, x, 1.0):
            out.append(fail("prop", "a value written with << and read back with >> differs in the first six significant digits", "%r -> %r -> %r" % (x, si, back)))
        if si != sm:
            out.append(fail("corr", "bytes written by ostream << double differ from the model's fmt6", "impl %r model %r" % (si, sm)))
        if tm[1] == "noparse" or not close(back, fr(tm[1]), fr(tm[1]), 4):
            out.append(fail("corr", "parseDec(fmt6 x) differs from what >> reads", "impl %r model %s" % (back, tm[1])))
        ctx["nontrivial"].add(("fmt", notation_classes(sm), len(sm)))
        return out
    if op == "c20.lines":
        lines_oracle(unhex(a[0]), ti[0], out)
        if int(ti[0]) != int(tm[0]) and not out:
            out.append(fail("corr", "Count_Lines differs from the model", "impl %s model %s" % (ti[0], tm[0])))
        return out
    if op == "c20.rtlist":
        h, u = unhex(a[0]), fl(a[1])
        xs, _ = read_list(a[2:], fl)
        bi, bm = unhex(ti[0]), unhex(tm[0])
        li, rest_i = read_list(ti[2:], fl)
        lm, rest_m = read_list(tm[2:], fr)
        # property oracle on the implementation's own output
        if len(li) != len(xs):
            out.append(fail("prop", "Import_List(Export_List(data)) with the number of header lines written has a different length", "%d -> %d" % (len(xs), len(li))))
        else:
            for k_, (v, x) in enumerate(zip(li, xs)):
                if not six_digit_ok(v, x, u):
                    out.append(fail("prop", "list entry read back differs in the first six significant digits", "[%d] %r -> %r (unit %r)" % (k_, x, v, u)))
                    break
        oor = [(x, u) for x in xs if quotient_oor(x, u)]
        if oor:
            # after 5c3fb95 the quotient is a long double: inside the model's range again, compared like every other value
            bump(ctx, "requests with a quotient outside the double range")
            out = relabel_oor(out, oor)
        hl_ = h.count("\n") + 1 if h else 0
        cmp_bytes(bi, bm, hl_, lambda i, j: (xs[i], u) if i < len(xs) and j == 0 else None, "Export_List", out, ctx)
        lines_oracle(bi, ti[1], out)
        if ti[1] != tm[1]:
            out.append(fail("corr", "Count_Lines of the exported list", "impl %s model %s" % (ti[1], tm[1])))
        cmp_values([li], [lm], "Import_List", out)
        ctx["nontrivial"].add(("rtlist", min(len(xs), 3), h.count("\n") + (1 if h else 0), notation_classes(bm)))
        return out
    if op == "c20.rttable":
        h = unhex(a[0])
        us, rest = read_list(a[1:], fl)
        t, _ = read_table(rest, fl)
        bi, bm = unhex(ti[0]), unhex(tm[0])
        hl_ = h.count("\n") + 1 if h else 0
        for B_ in BLOCKS:
            if len(bi) and len(bi) % B_ == 0:
                bump(ctx, "file size multiple of %d" % B_)
                ctx["nontrivial"].add(("rttable-size", B_, len(bi) // B_))
        nonempty = [r for r in t if r]
        oor = [(x, us[j] if us else 1.0) for row in t for j, x in enumerate(row) if j < (len(us) if us else len(row)) and quotient_oor(x, us[j] if us else 1.0)]
        if oor:
            bump(ctx, "requests with a quotient outside the double range")
        cmp_bytes(bi, bm, hl_, lambda i, j: (nonempty[i][j], us[j] if us else 1.0) if i < len(nonempty) and j < len(nonempty[i]) else None,
                  "Export_Table", out, ctx)
        lines_oracle(bi, ti[1], out)
        if ti[1] != tm[1]:
            out.append(fail("corr", "Count_Lines of the exported table", "impl %s model %s" % (ti[1], tm[1])))
        if tm[2] != "glue1" or tm[3] != "tl1":
            out.append(fail("corr", "model-internal: character level and token level disagree", " ".join(tm[2:4])))
        rect = len(t) >= 1 and len(t[0]) >= 1 and all(len(r) == len(t[0]) for r in t)
        im_i, im_m = ti[2:], tm[4:]
        if im_i and im_i[0].startswith("import:"):
            oi = " ".join(im_i)[7:]
            if rect or len(t) == 0:
                out.append(fail("prop", "Import_Table of an exported table with the number of header lines written stops or crashes" +
                                (" (table without rows: header only / empty file)" if len(t) == 0 else ""), oi))
                return relabel_oor(out, oor)
            elif not pending("P10") and oi == "err" and t and sum(len(r) for r in t) % max(1, len([r for r in t if r])) != 0:
                bump(ctx, "ragged export read back: diagnostic (P10 applied)")
                return out
            elif im_m[0] == "err" and oi != "err":
                out.append(fail("prop", "meaningless import did not stop with a diagnostic", oi))
            elif im_m[0] not in ("err", "undef"):
                out.append(fail("corr", "Import_Table outcome", "impl %s model ok" % oi))
            return out
        ri, _ = read_table(im_i, fl)
        if len(t) == 0 and ri != []:
            out.append(fail("prop", "Import_Table of an exported table without rows (header only / empty file) is not the empty table", "%s" % [len(r) for r in ri][:6]))
        if rect:
            if len(ri) != len(t) or any(len(r) != len(t[0]) for r in ri):
                out.append(fail("prop", "table read back has a different shape", "%dx%d -> %s" % (len(t), len(t[0]), [len(r) for r in ri][:6])))
            else:
                for i, (rr, tr) in enumerate(zip(ri, t)):
                    bad = [j for j, (v, x) in enumerate(zip(rr, tr)) if not six_digit_ok(v, x, us[j] if us else 1.0)]
                    if bad:
                        j = bad[0]
                        out.append(fail("prop", "table entry read back differs in the first six significant digits",
                                        "[%d][%d] %r -> %r (unit %r)" % (i, j, tr[j], rr[j], us[j] if us else 1.0)))
                        break
        out = relabel_oor(out, oor)
        if im_m[0] in ("err", "undef"):
            if im_m[0] == "err":
                out.append(fail("corr", "Import_Table outcome", "impl ok model err"))
            return out
        rm, _ = read_table(im_m, fr)
        cmp_values(ri, rm, "Import_Table", out)
        ctx["nontrivial"].add(("rttable", min(len(t), 4), min(len(t[0]) if t else 0, 4), h.count("\n") + (1 if h else 0), bool(us), notation_classes(bm)))
        return out
    if op in ("c20.expfunc", "c20.expfuncL"):
        bi, bm = unhex(ti[0]), unhex(tm[0])
        cmp_bytes(bi, bm, 10 ** 9, lambda i, j: None, "Export_Function", out, ctx)
        return out
    if op == "c20.implist":
        li, _ = read_list(ti, fl)
        lm, _ = read_list(tm, fr)
        cmp_values([li], [lm], "Import_List", out)
        return out
    if op in ("c20.imptable", "c20.imptable2"):
        ri, _ = read_table(ti, fl)
        rm, _ = read_table(tm, fr)
        cmp_values(ri, rm, "Import_Table", out)
        return out
    if op == "c20.inunits":
        x, u, rnd, d = fl(a[0]), fl(a[1]), int(a[2]), int(a[3])
        v, m = fl(ti[0]), fr(tm[0])
        if not rnd and x != 0 and not close(v * u, Fraction(x), Fraction(x), 3):
            out.append(fail("prop", "In_Units does not undo multiplication by the unit", "In_Units(%r,%r)=%r" % (x, u, v)))
        if rnd:
            round_oracle(out, [v], [x], [u], d, "scalar")
        if not close(v, m, m, K_VAL) and not out:
            out.append(fail("corr", "In_Units (scalar) differs from the model", "impl %r model %r" % (v, _f(m))))
        return out
    if op in ("c20.inunitsL", "c20.inunitsV"):
        xs, rest = read_list(a, fl)
        u, rnd, d = fl(rest[0]), int(rest[1]), int(rest[2])
        li, _ = read_list(ti, fl)
        lm, _ = read_list(tm, fr)
        if len(li) != len(xs):
            out.append(fail("prop", "In_Units changes the length of a list/vector", "%d -> %d" % (len(xs), len(li))))
        elif not rnd and any(x != 0 and not close(v * u, Fraction(x), Fraction(x), 3) for v, x in zip(li, xs)):
            out.append(fail("prop", "In_Units (list/vector) does not undo multiplication by the unit", ""))
        elif rnd:
            round_oracle(out, li, xs, [u] * len(xs), d, "vector<double>" if op == "c20.inunitsL" else "Vector")
        if not out:
            cmp_values([li], [lm], "In_Units list/vector", out)
        return out
    if op in ("c20.inunitsT", "c20.inunitsM", "c20.inunitsC"):
        t, rest = read_table(a, fl)
        if op == "c20.inunitsC":
            us, rest = read_list(rest, fl)
        else:
            us = None
            u = fl(rest[0])
            rest = rest[1:]
        rnd, d = int(rest[0]), int(rest[1])
        ri, _ = read_table(ti, fl)
        rm, _ = read_table(tm, fr)
        if [len(r) for r in ri] != [len(r) for r in t]:
            out.append(fail("prop", "In_Units changes the shape of a table/matrix", "%s -> %s" % ([len(r) for r in t], [len(r) for r in ri])))
        elif not rnd:
            for rr, tr in zip(ri, t):
                for j, (v, x) in enumerate(zip(rr, tr)):
                    uu = us[j] if us is not None else u
                    if x != 0 and not close(v * uu, Fraction(x), Fraction(x), 3):
                        out.append(fail("prop", "In_Units (table/matrix) does not undo multiplication by the unit", "%r / %r -> %r" % (x, uu, v)))
                        break
        else:
            flat_v = [v for rr in ri for v in rr]
            flat_x = [x for tr in t for x in tr]
            flat_u = [(us[j] if us is not None else u) for tr in t for j in range(len(tr))]
            round_oracle(out, flat_v, flat_x, flat_u, d, {"c20.inunitsT": "table, one dimension", "c20.inunitsM": "Matrix", "c20.inunitsC": "table, per-column dimensions"}[op])
        if not out:
            cmp_values(ri, rm, "In_Units table/matrix", out)
        return out
    return [fail("corr", "unknown op " + op)]


# ------------------------------------------------------------------------------------------------
# coverage extension: Time_Display, Reduced_Mass, Formatted_String, Check_For_Warning, File_Exists,
# operator<< (Vector, Matrix, DataPoint), Save_Function (1-D, 2-D), Interpolation_2D()
# ------------------------------------------------------------------------------------------------

COVER_OPS = ("c20.timedisp", "c20.redmass", "c20.fmtstr", "c20.warn", "c20.fexists", "c20.vecout", "c20.matout", "c20.dpout",
             "c20.save1", "c20.save2", "c20.save2d0", "c20.printbox", "c20.progbar")
TIME_RATIOS = [Fraction(31557600), Fraction(604800), Fraction(86400), Fraction(3600), Fraction(60), Fraction(1), Fraction(1, 1000)]
TIME_UNITS = ["y", "w", "d", "h", "m", "s", "ms"]
TIME_MARGIN_BITS = 44      # a floor argument closer than 2^-44*|seconds| (in seconds) to an integer is a knife-edge of the double arithmetic
TIME_STRICT = os.environ.get("LP_C20_TIME_STRICT") == "1"
TIME_KNIFE_CLAUSE = ("Time_Display: malformed field at a floor knife-edge of the double arithmetic "
                     "(a component reaches its carry bound or is negative, e.g. 1000ms / 0-1ms)")
COLORS = ["Default", "Black", "Red", "Green", "Yellow", "Blue", "Magenta", "Cyan", "White"]


def enhex8(s):
    return s.encode("utf-8").hex() if s else "-"


def unhex8(t):
    return "" if t == "-" else bytes.fromhex(t).decode("utf-8", errors="replace")


def time_split(x):
    """exact decomposition (as the model computes it): components, and per stage the distance (in seconds) of the
    floor argument from the nearest integer"""
    s = Fraction(x)
    comps, dist = [], []
    for u in TIME_RATIOS:
        q = s / u
        t = math.floor(q)
        fr_ = q - t
        dist.append(min(fr_, 1 - fr_) * u)
        comps.append(t)
        s -= t * u
    return comps, dist


def time_first(comps):
    for i in range(4):
        if comps[i] > 0:
            return i
    return 4


def time_safe(x):
    """no stage that decides the displayed string is a knife-edge (x = 0 is exact in double: every product is 0)"""
    if x == 0:
        return True
    comps, dist = time_split(x)
    i = time_first(comps)
    lim = abs(Fraction(x)) / 2 ** TIME_MARGIN_BITS
    return all(d > lim for d in dist[:i + 3])


def progbar_pct(p):
    """(digits, exact value of 100p scaled to the rounding position) of the percentage Print_Progress_Bar shows"""
    d = 1 if (p < 0.1 or p == 1.0) else 2
    N = Fraction(p) * 100
    if N == 0:
        return d, None
    e = 0
    while Fraction(10) ** (e + 1) <= N:
        e += 1
    while Fraction(10) ** e > N:
        e -= 1
    return d, N * Fraction(10) ** (d - 1 - e)


def progbar_safe(p, tm):
    """the double arithmetic of Print_Progress_Bar decides as the exact one: 100*p exact (dyadic p with few bits), the
    rounding of the percentage at least 2^-30 away from a tie, the percentage in fixed notation, the time field not at
    a Time_Display knife-edge"""
    if 0.0 <= p <= 1.0:
        if Fraction(p).denominator > 2 ** 20:
            return False
        if p != 0 and p < 2.0 ** -13:
            return False
        d, y = progbar_pct(p)
        if y is not None:
            fr_ = y - (y.numerator // y.denominator)
            if abs(fr_ - Fraction(1, 2)) < Fraction(1, 2 ** 30):
                return False
        if tm > 0.0 and p > 1.0e-3:
            t = tm if p > 0.9999 else (1.0 - p) * tm / p
            if t != 0 and not time_safe(t):
                return False
            if t >= 2.0 ** 31 * 31557600.0:
                return False
    return True


TIME_RE = re.compile(r"^\[(0?-?\d+)(y|w|d|h|m|s|ms):(0?-?\d+)(y|w|d|h|m|s|ms):(0?-?\d+)(y|w|d|h|m|s|ms)\]$")


def time_oracle(x, text):
    """the property's clauses on the implementation's own string: format, carry bounds, reconstruction.
    Returns (wellformed, malformed_detail, reconstructs)"""
    m = TIME_RE.match(text)
    if not m:
        return False, "not of the form [NNu:NNu:NNu]", False
    f = [m.group(1), m.group(3), m.group(5)]
    u = [m.group(2), m.group(4), m.group(6)]
    if u[0] not in TIME_UNITS[:5]:
        return False, "leading unit " + u[0], False
    i = TIME_UNITS.index(u[0])
    if u != TIME_UNITS[i:i + 3]:
        return False, "units not consecutive: " + ",".join(u), False
    v = [int(t[1:]) if t.startswith("0-") else int(t) for t in f]      # "0-1": a negative component, zero-padded
    bounds = [None, 53, 7, 24, 60, 60, 1000]
    bad = ""
    for k in range(3):
        w = 3 if i + k == 6 else 2
        if v[k] < 0 or (bounds[i + k] is not None and v[k] >= bounds[i + k]):
            bad = "component %s%s outside its carry bound" % (f[k], u[k])
        elif len(f[k]) != max(w, len(str(v[k]))):
            bad = "field %s%s is not zero-padded to %d characters" % (f[k], u[k], w)
    rec = sum(v[k] * TIME_RATIOS[i + k] for k in range(3))
    # what is not displayed: the larger units (zero when i is the first non-zero one) and less than one last unit
    xx = Fraction(x)
    tol = abs(xx) / 2 ** 40 + Fraction(1, 10 ** 9)
    upper = TIME_RATIOS[i + 2] + tol
    recon = -tol <= xx - rec <= upper if x >= 0 else True
    return (bad == ""), bad, recon


def gen_cover(rng, thorough):
    R = []
    n = 4 if thorough else 1
    # --- Time_Display ------------------------------------------------------------------------------------------
    xs = [0.0, 2.0 ** -20, 0.0004, 0.00051, 0.0015, 0.25 + 2.0 ** -11, 0.9995, 1.0005, 59.9995, 60.0005, 3599.9995, 3600.0005,
          86399.9995, 86400.0005, 604799.9995, 604800.0005, 31557599.9995, 31557600.0005, 1e9 + 0.3, 3.3e9, 6.0e16 + 12345.0,
          -0.9995, -86400.0005, 90061.2505, 12345.6785,
          # whole seconds (knife-edges of the millisecond stage; 7, 27, 28 are displayed as 06s:1000ms / 27s:0-1ms / 27s:999ms)
          1.0, 7.0, 14.0, 27.0, 28.0, 54.0, 59.0, 60.0, 67.0, 3600.0, 86400.0, 604800.0, 31557600.0]
    for k in range(160 * n):
        c = k % 8
        if c == 0:
            xs.append(rng.randint(0, 2 ** 20) / 1024.0 + 2.0 ** -11)          # dyadic, half-way between milliseconds (roughly)
        elif c == 1:
            xs.append(rng.uniform(0, 120))
        elif c == 2:
            xs.append(rng.uniform(0, 2 * 86400))
        elif c == 3:
            xs.append(rng.uniform(0, 3 * 31557600))
        elif c == 4:
            xs.append(10.0 ** rng.uniform(-4, 16))
        elif c == 5:     # just below / above a carry of a random unit multiple
            u = float(rng.choice(TIME_RATIOS[:6]))
            xs.append(u * rng.randint(1, 50) + rng.choice([-1, 1]) * rng.choice([0.0005, 0.0105, 0.4995]))
        elif c == 6:
            xs.append(float(rng.randint(0, 10 ** rng.randint(1, 9))))         # whole seconds: knife-edge of the millisecond stage
        else:
            xs.append(rng.randint(0, 10 ** 6) / 8.0)                           # multiples of 125 ms: knife-edge
    for x in xs:
        R.append("c20.timedisp " + hx(x))
    # --- Reduced_Mass ------------------------------------------------------------------------------------------
    for k in range(80 * n):
        c = k % 5
        if c == 0:
            m1 = abs(mixed_magnitude(rng, -20, 20)); m2 = m1
        elif c == 1:
            m1 = abs(mixed_magnitude(rng, -20, 20)); m2 = abs(mixed_magnitude(rng, -20, 20))
        elif c == 2:
            m1 = float(rng.randint(1, 64)); m2 = float(rng.randint(1, 64))
        elif c == 3:
            m1 = mixed_magnitude(rng, -3, 3); m2 = mixed_magnitude(rng, -3, 3)
            if abs(m1 + m2) < 1e-3 * (abs(m1) + abs(m2)):
                m2 = -m1      # exactly zero total mass: outside the model
        else:
            m1 = abs(mixed_magnitude(rng, -6, 6)); m2 = m1 * 10.0 ** rng.randint(3, 12)
        R.append("c20.redmass %s %s" % (hx(m1), hx(m2)))
        if c in (1, 4):
            R.append("c20.redmass %s %s" % (hx(m2), hx(m1)))
    # --- Formatted_String / Check_For_Warning / File_Exists ---------------------------------------------------
    strs = ["", "abc", "Warning", "two words", "tab\tand\nnewline", "█░", "100%", "\x1b[0m"]
    odd = ["Purple", "red", "", "Default ", "default", "Whit", "Redd"]
    for col in COLORS + odd:
        for bold in (0, 1):
            ul = rng.randint(0, 1)
            bg = rng.choice(COLORS) if rng.random() < 0.8 else rng.choice(odd)
            R.append("c20.fmtstr %s %s %d %d %s" % (enhex8(rng.choice(strs)), enhex8(col), bold, ul, enhex8(bg)))
    for bg in COLORS + odd[:3]:
        R.append("c20.fmtstr %s %s %d %d %s" % (enhex8(rng.choice(strs)), enhex8(rng.choice(COLORS)), rng.randint(0, 1), rng.randint(0, 1), enhex8(bg)))
    for cond in (0, 1):
        for fn, msg in [("libphysica::f()", "something is odd."), ("", ""), ("g", "value 3 < 5\ttab"), ("h()", "█")]:
            R.append("c20.warn %d %s %s" % (cond, enhex8(fn), enhex8(msg)))
    for k in ("file", "dir", "missing", "empty"):
        R.append("c20.fexists " + k)
    # --- Print_Box / Print_Progress_Bar (what they write to std::cout) -----------------------------------------
    odd_box = ["Purple", "red", ""]
    ascii_chars = [chr(c) for c in range(32, 127)]
    box_strs = ["", "x", "libphysica", "two words", "a" * 60, "100% done [x]", "tab\tinside", "\x1b[0m", "m", "\u2588\u2591", "\u00e4\u00f6\u00fc", "\u2554\u2550\u2557"]
    for k in range(60 * n):
        if k < len(box_strs):
            st = box_strs[k]
        else:
            st = "".join(rng.choice(ascii_chars) for _ in range(rng.randint(0, 60)))
        tabs = k % 4
        rank = 0 if k % 5 != 4 else rng.choice([1, -1, 3])
        bc = (COLORS + odd_box)[k % (len(COLORS) + len(odd_box))]
        tc = (COLORS + odd_box)[(k // 3 + 5) % (len(COLORS) + len(odd_box))]
        R.append("c20.printbox %s %d %d %s %s" % (enhex8(st), tabs, rank, enhex8(bc), enhex8(tc)))
    for bc in COLORS + odd_box:      # every colour in both roles at least once
        R.append("c20.printbox %s %d 0 %s %s" % (enhex8(rng.choice(box_strs[:6])), rng.randint(0, 3), enhex8(bc), enhex8("Default")))
        R.append("c20.printbox %s %d 0 %s %s" % (enhex8(rng.choice(box_strs[:6])), rng.randint(0, 3), enhex8("Default"), enhex8(bc)))
    pb = []
    for k in range(80 * n):
        c = k % 8
        m = rng.randint(1, 10)
        if c == 0:
            p = rng.choice([0.0, 1.0, 0.5, 0.25, 0.125, 0.0078125, 0.0009765625, 0.001953125])
        elif c == 1:
            p = rng.choice([-0.25, 1.5, -1.0, 1.0009765625, 2.0])     # outside [0,1]: nothing is printed
        elif c == 2:
            p = rng.randint(1, 12) / 1024.0                             # below 1% / just above
        elif c == 3:
            p = rng.randint(10, 110) / 1024.0                           # around 10%
        else:
            p = rng.randint(0, 2 ** m) / 2.0 ** m
        L = rng.choice([0, 1, 2, 3, 4, 5, 6, 7, 8, 9, 10, 20, 50, 50, 50, 64, 100, 33]) if k % 3 else 50
        rank = 0 if k % 7 != 6 else rng.choice([1, 2])
        tm = 0.0 if k % 2 == 0 else rng.choice([-1.0, rng.uniform(0.01, 10.0), rng.uniform(1.0, 1e4), rng.uniform(1e3, 1e8), float(rng.randint(1, 10 ** 6))])
        col = (COLORS + ["Purple"])[k % (len(COLORS) + 1)]
        if not progbar_safe(p, tm):
            tm = 0.0
            if not progbar_safe(p, tm):
                continue
        pb.append("c20.progbar %s %d %d %s %s" % (hx(p), rank, L, hx(tm), enhex8(col)))
    R.extend(pb)
    # --- operator<< ------------------------------------------------------------------------------------------------
    for k in range(40 * n):
        nn = rng.choice([0, 1, 2, 3]) if k % 4 == 0 else rng.randint(1, 8)
        R.append("c20.vecout " + lst([gen_safe(rng, 1.0) for _ in range(nn)]))
    for (r, c) in [(1, 1), (1, 3), (2, 1), (3, 1), (2, 2), (3, 3), (4, 2), (5, 5)] + [(rng.randint(1, 6), rng.randint(1, 6)) for _ in range(20 * n)]:
        R.append("c20.matout " + tbl([[gen_safe(rng, 1.0) for _ in range(c)] for _ in range(r)]))
    for k in range(30 * n):
        R.append("c20.dpout %s %s" % (hx(gen_safe(rng, 1.0)), hx(gen_safe(rng, 1.0))))
    R.append("c20.dpout %s %s" % (hx(0.0), hx(1.0)))
    # --- Save_Function ---------------------------------------------------------------------------------------------
    for k in range(24 * n):
        nk = rng.randint(3, 8)
        x0 = float(rng.randint(-8, 8))
        pts = rng.choice([0, 1, 2, 3, 5, 9, 17, 33]) if k % 3 else rng.randint(2, 40)
        steps = sorted(rng.sample(range(1, 64), nk - 1))
        width = float(rng.choice([1, 2, 4, 8, 16]))
        xs_ = [x0] + [x0 + width * t / 64.0 for t in steps[:-1]] + [x0 + width]
        ys_ = [rng.randint(-64, 64) / 8.0 for _ in range(nk)]
        if k % 8 == 5:
            ys_ = ys_[:-1]            # length mismatch: the constructor stops with a diagnostic
        if k % 8 == 6:
            xs_[1], xs_[2] = xs_[2], xs_[1]      # not increasing: diagnostic
        R.append("c20.save1 %s %s %d" % (lst(xs_), lst(ys_), pts))
    for k in range(16 * n):
        nx, ny = rng.randint(3, 5), rng.randint(3, 5)
        x0, y0 = float(rng.randint(-4, 4)), float(rng.randint(-4, 4))
        xs_ = [x0 + i * rng.choice([0.5, 1.0, 2.0]) for i in range(nx)]
        xs_ = sorted(set(xs_))
        xs_ = [x0 + 0.5 * i * (i + 1) for i in range(nx)] if len(xs_) < 3 or k % 2 else [x0 + i for i in range(nx)]
        ys_ = [y0 + 0.25 * j * (j + 2) for j in range(ny)]
        t = [[rng.randint(-32, 32) / 4.0 for _ in range(ny)] for _ in range(nx)]
        if k % 8 == 7:
            t[1] = t[1][:-1]          # ragged table: diagnostic
        xp = rng.choice([1, 2, 3, 4, 5, 7])
        yp = rng.choice([0, 1, 2, 3, 6])
        R.append("c20.save2 %s %s %s %d %d" % (lst(xs_), lst(ys_), tbl(t), xp, yp))
    for (xp, yp) in [(0, 0), (1, 0), (2, 0), (3, 0), (5, 0), (3, 5), (4, 2), (9, 3), (2, 1)]:
        R.append("c20.save2d0 %d %d" % (xp, yp))
    return R


def _tok_value(t):
    try:
        return Fraction(t)          # decimal / scientific notation as written by ostream << double
    except (ValueError, ZeroDivisionError):
        return None


def _six_ok(tv, v, scale):
    """token value tv is the six-digit rendering of v, up to the rounding of the double arithmetic (absolute 2^-40*scale)"""
    if tv is None:
        return False
    half = Fraction(10) ** (expo10(v) - 5) / 2 if v != 0 else Fraction(0)
    return abs(tv - v) <= half * (1 + Fraction(1, 2 ** 20)) + abs(Fraction(scale)) / 2 ** 40


def cmp_lines(text_i, text_m, rows, scales, what, out, ctx):
    """line structure exactly (class A); every token byte-identical to the model's or, failing that, within the six-digit
    tolerance of the exact value (class B, counted as excused)"""
    li, lm = text_i.split("\n"), text_m.split("\n")
    if len(lm) != len(rows) + 1 or lm[-1] != "":
        out.append(fail("corr", "model-internal: line count of " + what, "%d lines for %d points" % (len(lm) - 1, len(rows))))
        return
    if len(li) != len(lm) or li[-1] != "":
        out.append(fail("prop", what + ": number of lines differs from the number of Linear_Space points",
                        "%d lines written, %d points expected" % (len(li) - (1 if li[-1] == "" else 0), len(rows))))
        return
    for L, (a_, b_, row) in enumerate(zip(li[:-1], lm[:-1], rows)):
        if a_ == b_:
            continue
        ta, tb = a_.split("\t"), b_.split("\t")
        if len(ta) != len(tb) or any(t == "" or t != t.strip() for t in ta):
            out.append(fail("prop", what + ": a line does not consist of %d tab-separated tokens" % len(tb), "line %d: %r" % (L, a_)))
            return
        for j, (x_, y_) in enumerate(zip(ta, tb)):
            if x_ == y_ or (x_ == "-0" and y_ == "0"):
                continue
            if _six_ok(_tok_value(x_), row[j], scales[j]):
                ctx["excused"] += 1
            else:
                out.append(fail("prop", what + ": a printed value is not the six-digit rendering of the exact value",
                                "line %d token %d: wrote %r, exact value %r (model token %r)" % (L, j, x_, float(row[j]), y_)))
                return


def compare_cover(op, a, rq, impl, model, ctx):
    if tag(model) == "undef":
        bump(ctx, "undef:" + op)
        return []
    fs, both = std_outcome(rq, impl, model)
    if not both:
        if tag(model) in ("ok", "err"):
            ctx["nontrivial"].add((op, tag(model)))
        return fs
    ti, tm = toks(impl), toks(model)
    out = []
    if op == "c20.timedisp":
        x = fl(a[0])
        si, sm = unhex8(ti[0]), unhex8(tm[0])
        comps = [int(t) for t in tm[1:8]]
        safe = time_safe(x)
        wf, bad, recon = time_oracle(x, si)
        ctx["nontrivial"].add((op, time_first(comps), safe, x < 0, min(len(str(abs(comps[0]))), 4)))
        if safe:
            if si != sm:
                kind = "prop" if (not wf and x >= 0) or not recon else "corr"
                out.append(fail(kind, "Time_Display differs from the exact decomposition (no floor knife-edge within 2^-%d)" % TIME_MARGIN_BITS,
                                "Time_Display(%r) = %r, model %r%s" % (x, si, sm, (" : " + bad) if bad else "")))
        else:
            bump(ctx, "timedisp:knife-edge inputs")
            if si != sm:
                # a neighbouring decomposition is accepted when it reconstructs the input
                if not recon or TIME_RE.match(si) is None:
                    out.append(fail("prop", "Time_Display: the displayed components do not add up to the input",
                                    "Time_Display(%r) = %r, model %r" % (x, si, sm)))
                elif not wf and x >= 0:
                    bump(ctx, "timedisp:malformed at a knife-edge (reported under LP_C20_TIME_STRICT=1)")
                    if TIME_STRICT:
                        out.append(fail("prop", TIME_KNIFE_CLAUSE, "Time_Display(%r) = %r (%s), exact decomposition %r" % (x, si, bad, sm)))
                else:
                    ctx["excused"] += 1
        return out
    if op == "c20.redmass":
        m1, m2 = fl(a[0]), fl(a[1])
        v, m = fl(ti[0]), fr(tm[0])
        ctx["nontrivial"].add((op, m1 == m2, m1 > 0, m2 > 0))
        # exact: 0 < mu < min(m1,m2); the rounded product/quotient may land up to two ulp above the smaller mass
        if m1 > 0 and m2 > 0 and not (0 < v <= min(m1, m2) * (1 + 4 * 2.0 ** -53)):
            out.append(fail("prop", "Reduced_Mass of positive masses is not in (0, min(m1,m2)] (two ulp of slack)", "mu(%r,%r) = %r" % (m1, m2, v)))
        if m1 == m2 and m1 > 0 and not close(v, Fraction(m1) / 2, Fraction(m1), 2):
            out.append(fail("prop", "Reduced_Mass of equal masses is not half the mass", "mu(%r,%r) = %r" % (m1, m2, v)))
        if not close(v, m, m, 4) and not out:
            out.append(fail("prop" if not close(v, m, m, 2 ** 30) else "corr", "Reduced_Mass differs from m1*m2/(m1+m2)", "mu(%r,%r) = %r, exact %r" % (m1, m2, v, _f(m))))
        return out
    if op == "c20.printbox":
        st, tabs, rank, bc, tc = unhex8(a[0]), int(a[1]), int(a[2]), unhex8(a[3]), unhex8(a[4])
        oi, om = unhex8(ti[0]), unhex8(tm[0])
        nb = len(st.encode("utf-8"))
        ctx["nontrivial"].add((op, min(nb, 3), tabs, rank == 0, bc if bc in COLORS else "?", tc if tc in COLORS else "?", nb != len(st)))
        if rank != 0:
            if oi != "":
                out.append(fail("prop", "Print_Box prints nothing on a rank other than 0", "rank %d wrote %r" % (rank, oi)))
            return out
        plain = re.sub("\x1b\\[[0-9;]*m", "", oi) if "\x1b" not in st else None
        if plain is not None and "\n" not in st:
            lines = plain.split("\n")
            # three lines, then the newline of the string and the one of std::endl
            frame_ok = (len(lines) == 5 and lines[3] == "" and lines[4] == ""
                        and lines[0] == "\t" * tabs + "\u2554" + "\u2550" * (nb + 2) + "\u2557"
                        and lines[1] == "\t" * tabs + "\u2551 " + st + " \u2551"
                        and lines[2] == "\t" * tabs + "\u255a" + "\u2550" * (nb + 2) + "\u255d")
            if not frame_ok:
                out.append(fail("prop", "Print_Box: the frame is not three lines of width (bytes of the text)+4 around the text", "%r -> %r" % (st, oi)))
            if nb != len(st):
                bump(ctx, "printbox:multi-byte text (frame is as wide as the byte count, not the character count)")
        if oi != om and not out:
            out.append(fail("corr", "Print_Box differs from the model", "impl %r model %r" % (oi, om)))
        return out
    if op == "c20.progbar":
        p, rank, L, tmv, col = fl(a[0]), int(a[1]), int(a[2]), fl(a[3]), unhex8(a[4])
        oi, om = unhex8(ti[0]), unhex8(tm[0])
        inside = rank == 0 and 0.0 <= p <= 1.0
        ctx["nontrivial"].add((op, inside, min(L, 9), p == 0, p == 1, p < 0.01, p < 0.1, tmv > 0 and p > 1e-3, col if col in COLORS else "?"))
        if not inside:
            if oi != "":
                out.append(fail("prop", "Print_Progress_Bar prints nothing on a rank other than 0 or for progress outside [0,1]", "wrote %r" % oi))
            return out
        ncell = oi.count("\u2588") + oi.count("\u2591")
        if ncell != int(tm[1]):
            out.append(fail("prop", "Print_Progress_Bar: number of bar cells differs from bar_length minus the cells the percentage replaces",
                            "progress %r length %d: %d cells, expected %s" % (p, L, ncell, tm[1])))
        nfull = oi.count("\u2588")
        if L > 0 and ((p == 0 and nfull != 0) or (p == 1 and oi.count("\u2591") != 0)):
            out.append(fail("prop", "Print_Progress_Bar: empty bar at 0, full bar at 1", "progress %r -> %r" % (p, oi)))
        if oi != om and not out:
            out.append(fail("corr", "Print_Progress_Bar differs from the model", "impl %r model %r" % (oi, om)))
        return out
    if op == "c20.fmtstr":
        s_, col, bold, bg = unhex8(a[0]), unhex8(a[1]), int(a[2]), unhex8(a[4])
        oi, om = unhex8(ti[0]), unhex8(tm[0])
        known = col in COLORS and bg in COLORS
        ctx["nontrivial"].add((op, col if col in COLORS else "?", bold, bg in COLORS))
        if (col == "Default" and not bold) or not known:
            if oi != s_:
                out.append(fail("prop", "Formatted_String changes the string for Default/not bold or an unknown colour", "%r -> %r" % (s_, oi)))
        elif s_ not in oi or not oi.startswith("\x1b[") or not oi.endswith("\x1b[0m"):
            out.append(fail("prop", "Formatted_String: the text is not wrapped in an escape sequence and a reset", "%r -> %r" % (s_, oi)))
        if oi != om and not out:
            out.append(fail("corr", "Formatted_String differs from the model", "impl %r model %r" % (oi, om)))
        if ti[1] != tm[1]:
            out.append(fail("prop", "Formatted_String: warning written iff a colour is unknown", "impl warned=%s model warned=%s" % (ti[1], tm[1])))
        elif ti[2] != tm[2]:
            out.append(fail("corr", "Formatted_String: text of the warning differs from the model", "impl %r model %r" % (unhex8(ti[2]), unhex8(tm[2]))))
        return out
    if op == "c20.warn":
        cond, msg = int(a[0]), unhex8(a[2])
        di, dm = unhex8(ti[0]), unhex8(tm[0])
        ctx["nontrivial"].add((op, cond, len(msg) > 0))
        if (not cond and di != "") or (cond and (msg not in di or di == "")):
            out.append(fail("prop", "Check_For_Warning prints iff the condition holds", "condition %d, wrote %r" % (cond, di)))
        elif di != dm:
            out.append(fail("corr", "Check_For_Warning: text differs from the model", "impl %r model %r" % (di, dm)))
        return out
    if op == "c20.fexists":
        ctx["nontrivial"].add((op, a[0]))
        if ti[0] != tm[0]:
            out.append(fail("prop", "File_Exists differs from whether the path exists", "%s: %s" % (a[0], ti[0])))
        return out
    if op in ("c20.vecout", "c20.matout", "c20.dpout"):
        oi, om = unhex8(ti[0]), unhex8(tm[0])
        if op == "c20.vecout":
            vals, _ = read_list(a, fl)
            ctx["nontrivial"].add((op, min(len(vals), 4), notation_classes(om.replace("(", " ").replace(")", " ").replace(",", " "))))
            parts = oi[1:-1].split(" , ") if len(oi) >= 2 and vals else []
            shape_ok = oi.startswith("(") and oi.endswith(")") and len(parts) == len(vals)
        elif op == "c20.matout":
            t, _ = read_table(a, fl)
            vals = [x for r in t for x in r]
            ctx["nontrivial"].add((op, min(len(t), 4), min(len(t[0]), 4)))
            lines = oi.split("\n")
            shape_ok = len(lines) == len(t)
            parts = []
            for i_, ln in enumerate(lines):
                o_, c_ = ("⌈", "⌉") if i_ == 0 else (("⌊", "⌋") if i_ == len(t) - 1 else ("|", "|"))
                if not (ln.startswith(o_) and ln.endswith(c_)):
                    shape_ok = False
                    break
                cells = ln[1:-1].split("\t")
                if len(cells) != len(t[0]):
                    shape_ok = False
                parts += cells
        else:
            vals = [fl(a[0]), fl(a[1])]
            ctx["nontrivial"].add((op, notation_classes(om)))
            parts = oi.split("\t")
            shape_ok = len(parts) == 2
        what = {"c20.vecout": "operator<<(Vector)", "c20.matout": "operator<<(Matrix)", "c20.dpout": "operator<<(DataPoint)"}[op]
        if oi != om:
            good = shape_ok and len(parts) == len(vals) and all(_six_ok(_tok_value(p_), Fraction(v_), 0) for p_, v_ in zip(parts, vals))
            out.append(fail("corr" if good else "prop", what + (": differs from the model (separators/brackets as coded)" if good else
                            ": brackets, separators or six-digit values are not the documented format"), "impl %r model %r" % (oi[:200], om[:200])))
        return out
    if op in ("c20.save1", "c20.save2", "c20.save2d0"):
        bi, bm = unhex8(ti[0]), unhex8(tm[0])
        n = int(tm[1])
        w = 2 if op == "c20.save1" else 3
        flat = [fr(t) for t in tm[2:2 + n * w]]
        rows = [flat[i * w:(i + 1) * w] for i in range(n)]
        if op == "c20.save1":
            xs_, r_ = read_list(a, fl)
            ys_, r_ = read_list(r_, fl)
            pts = int(r_[0])
            scales = [max(abs(v) for v in xs_), 8 * max([abs(v) for v in ys_] + [1.0])]
            expect = 1 if pts < 2 else pts
            key = (op, min(pts, 4), len(xs_))
            what = "Interpolation::Save_Function"
        else:
            if op == "c20.save2":
                xs_, r_ = read_list(a, fl)
                ys_, r_ = read_list(r_, fl)
                t_, r_ = read_table(r_, fl)
            else:
                xs_, ys_, t_, r_ = [-1.0, 1.0], [-1.0, 1.0], [[0.0]], a
            xp, yp = int(r_[0]), int(r_[1])
            yp = xp if yp == 0 else yp
            scales = [max(abs(v) for v in xs_), max(abs(v) for v in ys_), 4 * max([abs(v) for r in t_ for v in r] + [1.0])]
            expect = (1 if xp < 2 else xp) * (1 if yp < 2 else yp)
            key = (op, min(xp, 4), min(yp, 4))
            what = "Interpolation_2D::Save_Function" + (" of Interpolation_2D()" if op == "c20.save2d0" else "")
        ctx["nontrivial"].add(key)
        if n != expect:
            out.append(fail("corr", "model-internal: number of Save_Function points", "%d vs %d" % (n, expect)))
        cmp_lines(bi, bm, rows, scales, what, out, ctx)
        if op != "c20.save1" and not out:
            # row-major order: the x token changes every `yp` lines
            li = [l.split("\t") for l in bi.split("\n")[:-1]]
            ny = 1 if yp < 2 else yp
            if any(li[k][0] != li[k - k % ny][0] for k in range(len(li))) or any(li[k][1] != li[k % ny][1] for k in range(len(li))):
                out.append(fail("prop", what + ": lines are not in row-major order (x outer, y inner)", bi[:200]))
        if op == "c20.save2d0":
            if any(fl(t) != 0.0 for t in ti[1:5]) or any(r[2] != 0 for r in rows):
                out.append(fail("prop", "Interpolation_2D() does not evaluate to zero on [-1,1]^2", " ".join(ti[1:5])))
        return out
    return [fail("corr", "unknown op " + op)]


def _knife_edge(x, u):
    """exact x/u within 2^-40 (relative) of a six-digit rounding boundary, exact ties included"""
    q = Fraction(x) / Fraction(u)
    return q != 0 and not _margin6(q, 40)


def cmp_bytes(bi, bm, hl, entry, what, out, ctx):
    """class A on the written file: line structure and tokens. Blank runs between tokens are normalised
    (the separator is not part of the property); a token that differs is excused iff the exact quotient is a
    knife-edge of the six-digit rounding (the double division decides it)."""
    norm = lambda s: re.sub(r"[ \t]+", "\t", s)
    if norm(bi) == norm(bm):
        return
    lo, sh = (norm(bi), norm(bm)) if len(norm(bi)) > len(norm(bm)) else (norm(bm), norm(bi))
    if lo == sh + "\n" and sh and not sh.endswith("\n"):
        # one final newline more or less does not change Count_Lines nor the tokens
        bump(ctx, "final-newline-differs")
        return
    li, lm = bi.split("\n"), bm.split("\n")
    if len(li) != len(lm):
        out.append(fail("corr", "bytes of the file written by %s differ from the model (line structure)" % what, _diff(bi, bm)))
        return
    for L, (a_, b_) in enumerate(zip(li, lm)):
        ta, tb = a_.split(), b_.split()
        if ta == tb:
            continue
        if L < hl or len(ta) != len(tb):
            out.append(fail("corr", "bytes of the file written by %s differ from the model" % what, _diff(bi, bm)))
            return
        for j, (x_, y_) in enumerate(zip(ta, tb)):
            if x_ != y_:
                e = entry(L - hl, j)
                if e is not None and _knife_edge(*e):
                    ctx["excused"] += 1
                else:
                    out.append(fail("corr", "bytes of the file written by %s differ from the model" % what,
                                    "line %d token %d: impl %r model %r" % (L, j, x_, y_)))
                    return


PY_IDENTITIES = [
    ("Joule", lambda v: v["kg"] * v["meter"] ** 2 / v["sec"] ** 2),
    ("Newton", lambda v: v["kg"] * v["meter"] / v["sec"] ** 2),
    ("Watt", lambda v: v["kg"] * v["meter"] ** 2 / v["sec"] ** 3),
    ("Pa", lambda v: v["kg"] / v["meter"] / v["sec"] ** 2),
    ("erg", lambda v: v["gram"] * v["cm"] ** 2 / v["sec"] ** 2),
    ("dyne", lambda v: v["gram"] * v["cm"] / v["sec"] ** 2),
    ("Joule", lambda v: v["Volt"] * v["Coulomb"]),
    ("Ohm", lambda v: v["Volt"] / v["Ampere"]),
    ("Tesla", lambda v: v["Newton"] * v["sec"] / (v["Coulomb"] * v["meter"])),
    ("Hz", lambda v: 1 / v["sec"]),
    ("minute", lambda v: 60 * v["sec"]), ("hr", lambda v: 3600 * v["sec"]), ("day", lambda v: 86400 * v["sec"]),
    ("year", lambda v: Fraction(31557600) * v["sec"]), ("km", lambda v: 1000 * v["meter"]), ("cm", lambda v: v["meter"] / 100),
    ("mm", lambda v: v["meter"] / 1000), ("inch", lambda v: Fraction(254, 10000) * v["meter"]), ("mile", lambda v: Fraction(1609344, 1000) * v["meter"]),
]


def py_identities(ctx):
    """the identities named by the property, evaluated on the values each build reads after start-up"""
    out = []
    for b, res in builds(ctx).items():
        if "error" in res:
            continue
        vals = {k: Fraction(v) for k, v in res["values"].items() if not (math.isnan(v) or math.isinf(v))}
        for lhs, f in PY_IDENTITIES:
            try:
                rhs = f(vals)
                l = vals[lhs]
            except (KeyError, ZeroDivisionError):
                out.append(fail("prop", "derived unit differs from its defining product of base constants (build %s)" % b,
                                "%s: an ingredient is missing or zero" % lhs))
                continue
            if l == 0 or abs(l - rhs) > 4 * EPS * abs(rhs):
                out.append(fail("prop", "derived unit differs from its defining product of base constants (build %s)" % b,
                                "%s = %r, product = %r" % (lhs, float(l), float(rhs))))
    return out


def _round_ok(v, q, d):
    """v is q rounded to d significant digits: a multiple of the unit 10^(e-d+1) of the d-th digit (to double
    rounding) and within half that unit of q"""
    if q == 0:
        return v == 0
    if math.isnan(v) or math.isinf(v):
        return False
    unit = Fraction(10) ** (expo10(q) - d + 1)
    s_ = Fraction(v) / unit
    if abs(s_ - round(s_)) > max(abs(s_), 1) / 2 ** 40:
        return False
    return abs(Fraction(v) - q) <= unit / 2 * (1 + Fraction(1, 2 ** 40))


ROUND_CLAUSE = "In_Units(round, digits) does not round to the requested digits"


def round_oracle(out, vals, xs, us, d, what):
    """vals/xs/us flat lists of the same length"""
    if not 1 <= d <= 7:
        return
    for v, x, u in zip(vals, xs, us):
        if not _round_ok(v, Fraction(x) / Fraction(u), d):
            out.append(fail("prop", ROUND_CLAUSE, "%s: In_Units(%r, %r, true, %d) = %r" % (what, x, u, d, v)))
            return


def _diff(bi, bm):
    n = next((i for i in range(min(len(bi), len(bm))) if bi[i] != bm[i]), min(len(bi), len(bm)))
    return "first difference at byte %d: impl %r model %r (lengths %d, %d)" % (n, bi[max(0, n - 12):n + 12], bm[max(0, n - 12):n + 12], len(bi), len(bm))


IDENT_RE = None


def compare_units(op, a, model, ctx):
    out = []
    tm = toks(model)
    if tag(model) == "undef":
        return out
    if tag(model) != "ok":
        return [fail("corr", "protocol", model[:100])]
    B = builds(ctx)
    if op == "c20.units":
        n = int(tm[0])
        if tm[1] != "wo1":
            out.append(fail("corr", "model: the generated unit table is not well ordered (a dynamic definition reads a dynamic name defined later)", ""))
        if tm[2] != "id1":
            out.append(fail("corr", "model: a derived-unit identity fails on the generated table", ""))
        for b, res in B.items():
            if "error" in res:
                out.append(fail("corr", "build %s of Natural_Units.cpp failed" % b, res["error"]))
        ctx["stats"]["unit_definitions"] = n
        return out + py_identities(ctx) + py_rt_builds(ctx)
    if op == "c20.unit":
        name, klass, expr = a[0], tm[0], tm[1:]
        ref = eval_prefix(expr)
        for b, res in B.items():
            if "error" in res:
                continue
            if name not in res["values"]:
                bump(ctx, "unit-not-readable:" + b)
                continue
            v = res["values"][name]
            k = res["klass"].get(name, "?")
            dyn_build = k in ("B", "b")
            if klass == "static" and dyn_build:
                out.append(fail("corr", "a constant the model classifies static is initialised dynamically by build " + b, "%s (nm %s)" % (name, k)))
            if klass == "dynamic" and not dyn_build:
                bump(ctx, "folded-beyond-model:" + b)
            if not rel_close(v, ref, K_VAL):
                import mpmath
                out.append(fail("prop" if v == 0 or not rel_close(v, ref, 2 ** 20) else "corr",
                                "unit constant read after start-up differs from the value of its defining expression (build %s)" % b,
                                "%s = %r, defining expression = %s" % (name, v, mpmath.nstr(mpmath.mpf(ref.numerator) / ref.denominator if isinstance(ref, Fraction) else ref, 17))))
            ctx["nontrivial"].add(("unit", name, b))
        return out + py_definition_check(name, ctx)
    if op == "c20.ident":
        lhs, expr = tm[0], tm[1:]
        for b, res in B.items():
            if "error" in res:
                continue
            vals = res["values"]
            try:
                rhs = eval_prefix(expr, vals)
            except KeyError:
                continue
            if lhs not in vals:
                continue
            if not rel_close(vals[lhs], rhs, 4) or vals[lhs] == 0:
                out.append(fail("prop", "derived unit differs from its defining product of base constants (build %s)" % b,
                                "%s = %r, %s = %r" % (lhs, vals[lhs], " ".join(expr), float(rhs))))
            ctx["nontrivial"].add(("ident", lhs, " ".join(expr)[:40], b))
        return out
    return out


def eval_tr(e, vals):
    """value of a translator expression tree on a build's own constants (exact where rational, mpmath otherwise)"""
    import mpmath
    mpmath.mp.prec = 400

    def to_mp(v):
        return mpmath.mpf(v.numerator) / mpmath.mpf(v.denominator) if isinstance(v, Fraction) else v
    k = e[0]
    if k == "lit":
        return Fraction(e[1])
    if k == "ref":
        return Fraction(vals[e[1]])
    if k == "pi":
        return mpmath.pi + 0
    if k == "neg":
        return -eval_tr(e[1], vals)
    if k in ("add", "sub", "mul", "div"):
        x, y = eval_tr(e[1], vals), eval_tr(e[2], vals)
        if not (isinstance(x, Fraction) and isinstance(y, Fraction)):
            x, y = to_mp(x), to_mp(y)
        return x + y if k == "add" else x - y if k == "sub" else x * y if k == "mul" else x / y
    if k == "powi":
        return eval_tr(e[1], vals) ** e[2]
    if k == "sqrt":
        return mpmath.sqrt(to_mp(eval_tr(e[1], vals)))
    if k == "powr":
        return mpmath.power(to_mp(eval_tr(e[1], vals)), to_mp(eval_tr(e[2], vals)))
    raise ValueError(k)


def unit_defs(ctx):
    if "c20_defs" not in ctx:
        try:
            ctx["c20_defs"] = dict(units_tr.translate(ctx["repo"]))
        except Exception:
            ctx["c20_defs"] = {}
    return ctx["c20_defs"]


def py_definition_check(name, ctx):
    """every constant equals its defining expression evaluated on the SAME build's own constants, and is a usable unit
    (finite, non-zero: In_Units(x*u, u) == x needs it) — needs neither the Lean model nor the driver"""
    out = []
    e = unit_defs(ctx).get(name)
    if e is None:
        return out
    for b, res in builds(ctx).items():
        if "error" in res or name not in res["values"]:
            continue
        v = res["values"][name]
        if v == 0 or math.isnan(v) or math.isinf(v):
            out.append(fail("prop", "unit constant is zero or not finite after start-up: In_Units cannot undo multiplication by it (build %s)" % b,
                            "%s = %r in the %s build" % (name, v, b)))
            continue
        try:
            vals = {k_: x for k_, x in res["values"].items() if not (math.isnan(x) or math.isinf(x))}
            rhs = eval_tr(e, vals)
        except (KeyError, ZeroDivisionError):
            continue
        if not rel_close(v, rhs, 4):
            import mpmath
            out.append(fail("prop", "derived unit differs from its defining product of base constants (build %s)" % b,
                            "%s = %r in the %s build, its defining expression on that build's constants = %s" % (
                                name, v, b, mpmath.nstr(mpmath.mpf(rhs.numerator) / rhs.denominator if isinstance(rhs, Fraction) else rhs, 17))))
    return out


def oracle_only(rq, impl, ctx):
    """proofs broken: still look for a concrete failing input on the implementation"""
    op = rq.split(" ", 1)[0]
    a = rq.split()[1:]
    if op == "c20.units":
        return py_identities(ctx) + py_rt_builds(ctx)
    if op == "c20.unit":
        return py_definition_check(a[0], ctx)
    if op in ("c20.rtfuncL", "c20.rtfuncG"):
        return func_rt_check(op, a, impl)
    if tag(impl) != "ok":
        return []
    ti = toks(impl)
    out = []
    try:
        if op == "c20.rtlist":
            u = fl(a[1])
            xs, _ = read_list(a[2:], fl)
            li, _ = read_list(ti[2:], fl)
            if len(li) != len(xs) or any(not six_digit_ok(v, x, u) for v, x in zip(li, xs)):
                out.append(fail("prop", "list read back differs in length or in the first six significant digits", ""))
            out = relabel_oor(out, [(x, u) for x in xs if quotient_oor(x, u)])
        elif op == "c20.rttable":
            us, rest = read_list(a[1:], fl)
            t, _ = read_table(rest, fl)
            rect = len(t) >= 1 and len(t[0]) >= 1 and all(len(r) == len(t[0]) for r in t)
            if rect and not ti[2].startswith("import:"):
                ri, _ = read_table(ti[2:], fl)
                if [len(r) for r in ri] != [len(r) for r in t] or any(
                        not six_digit_ok(v, x, us[j] if us else 1.0) for rr, tr in zip(ri, t) for j, (v, x) in enumerate(zip(rr, tr))):
                    out.append(fail("prop", "table read back differs in shape or in the first six significant digits", ""))
            out = relabel_oor(out, [(x, us[j] if us else 1.0) for row in t for j, x in enumerate(row)
                                    if j < (len(us) if us else len(row)) and quotient_oor(x, us[j] if us else 1.0)])
    except Exception:
        pass
    return out


def finalize(ctx, exe):
    shutil.rmtree(os.path.join(ctx["workdir"], "c20-builds"), ignore_errors=True)
    return []
