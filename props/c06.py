"""C06 — Gamma-function family (Special_Functions.cpp §2.1).

The Lean driver answers with the *rational core* of every function (n!, the binomial floor value, the
Lanczos rational sum, the converged partial sum of the series, the converged modified-Lentz value h,
the branch taken).  The transcendental glue (exp/log/sqrt) is applied here with mpmath at 50 digits,
and the implementation is compared with that composition (class B, rounding-level tolerances scaled
by the size of the exponent) — kind "corr".  Independently the property's own clauses are evaluated
on the implementation's output against mpmath's gamma / loggamma / gammainc (kind "prop").
"""
import math, os, random, sys
from fractions import Fraction
from common import *

if hasattr(sys, "set_int_max_str_digits"):
    sys.set_int_max_str_digits(0)     # the driver prints exact rationals with thousands of digits

try:
    import mpmath
    mpmath.mp.dps = 50
    mpf = mpmath.mpf
except ImportError:   # check.py re-executes itself under python3-vt, which has mpmath
    mpmath = None
try:
    import numpy as np
    from scipy.special import gammaincc as sp_gammaincc
except ImportError:
    np = None

RULE = ("requests are drawn from VERIF_SEED over a in (0,1e4], x in [0,a+40sqrt(a)+40] (dense at x=a+1 and a=100), "
        "all n<=172 for Factorial plus permuted call histories, binomial rows up to n=400, p in (1e-12,1-1e-12); "
        "a case is non-trivial when the model answers ok/err (not undef) and is counted once per distinct "
        "(op, branch, decade of a, position of x relative to a+1 / of n relative to 170) key")
CORR_ONLY = ["accuracy of the Lanczos approximation (GammaLn/Gamma vs mpmath.loggamma/gamma)",
             "limits of the series / continued fraction are the incomplete gamma function (vs mpmath.gammainc at 1e-12, a<=100)",
             "quadrature branch a>100 (vs mpmath.gammainc at 1e-3)",
             "P,Q in [0,1] and monotone in x (oracle on sorted grids)",
             "Halley inversion: P(Inv_GammaP(p,a),a)=p at 1e-7 (a<=100) / 1e-3 (a>100), where the exact preimage is a normal double",
             ]
ASSUMPTIONS = ["exp/log/sqrt/pow of libm approximate the real functions (the model takes them as parameters)",
               "classical: the power series and Legendre's continued fraction converge to P and Q (not formalised)"]
TRUSTED = ["translators/constants.py (regenerates lean/LpModel/C06/Constants.lean from the anchored numeric literals of the current source before every lake build; a missing anchor falls back to the committed default and is recorded in notes.pre_build.anchor_missing)",
           "scipy.special.gammaincc (double, ~1e-13 here) as the vectorised reference of the fine a>100 scan at 1e-3; the worst "
           "point of every scan is re-evaluated with mpmath",
           "mpmath 1.3 at 50 digits (gamma, loggamma, gammainc, exp, log) as a validated-not-verified reference; "
           "self-test in finalize: P+Q=1, P(x,a)-P(x,a+1)=x^a e^-x/Gamma(a+1), loggamma(n+1)=log n!"]

# ---------------------------------------------------------------------------------------------------
# translator tie (DESIGN.md §4.5): the numeric literals of src/Special_Functions.cpp §2.1 the model depends on
# ---------------------------------------------------------------------------------------------------

def _constants_translator(verif):
    import importlib.util, os
    spec = importlib.util.spec_from_file_location("lp_constants_tr", os.path.join(verif, "translators", "constants.py"))
    m = importlib.util.module_from_spec(spec)
    spec.loader.exec_module(m)
    return m


def pre_build(c):
    """regenerate lean/LpModel/C06/Constants.lean from the repository under check (called by check.py with
    the lake lock held, before `lake build`); a missing anchor is recorded, never an alarm"""
    return _constants_translator(c["verif"]).regenerate("C06", c["repo"], c["lean"])


DBL_MIN = 2.2250738585072014e-308
EPSF = 2.0 ** -53

# tolerances (K in units of 2^-53 times the scale); calibrated on the unchanged tree, x16 safety
ULP_FACT = 8          # Factorial(n) vs n!: worst observed 5.9 ulp (audit), n <= 170
K_GLN = 64
K_Q = 128
K_MONO = 8            # monotone in x, a <= 100: rounding noise of the formula (audit: <= 5e-14), K_Q/16
MONO_A_LARGE = 1e-11  # monotone in x, a > 100 (audit: noise <= 2.7e-12 after fix 317093f)
K_REC = 16            # GammaLn(x+1) = GammaLn(x) + log x
ULP_GREC = 16         # Gamma(x+1) = x Gamma(x) in ulp (std::tgamma after fix a972610)
TOL_LN = 1e-14        # GammaLn / Gamma vs reference: relative (+ absolute near the zeros of lnGamma)
TOL_A_SMALL = 1e-12   # a <= 100
TOL_A_LARGE = 1e-3    # a > 100
TOL_INV_SMALL = 1e-7
# clauses of the a>100 (quadrature) branch carry their own names
A100_Q = "a>100 quadrature branch: GammaQ/GammaP differs from the reference by more than 1e-3"
A100_NAN = "a>100: Inv_GammaP/Inv_GammaQ returns NaN"
A100_INV = "a>100: P(Inv_GammaP(p,a),a) differs from p by more than 1e-3"
ULP_BINOM = 8         # "a few ulp" for n <= 170 (audit: worst 7.3)
ULP_BINOM_LAWS = 6    # symmetry and Pascal's rule for n <= 170 (audit: worst 4)
ASSUMPTIONS += ["Upper/Lower_Incomplete_Gamma where Gamma(s) = inf (s > 171.62, s < 5.6e-309): the value is Gamma(s) times the regularized fraction as GammaQ/GammaP "
                "return it (fix 242fd82); RESIDUAL of audit defect P5: where that fraction underflows to 0 (below 2.2e-308, or beyond the 13-sigma cut of the "
                "quadrature for s > 100) the part is 0 although the true value is positive: Lower_Incomplete_Gamma(1,200) = 0 (true 1.8486e-3), "
                "Upper_Incomplete_Gamma(1000,200) = 0 (true 6.3e162); the clause demands Upper + Lower = Gamma (inf included), no nan, and "
                "part = Gamma(s) x fraction within 1e-11 wherever the fraction is not 0",
                "GammaQ/GammaP for a > 100 (quadrature, fix 3e583ff: 1e-10 per panel, +-13 sigma): monotone in x at 1e-11 absolute; measured accuracy "
                "median 5e-15, 99.9 percent within 4e-11, worst 8.3e-9 in 28000 arguments (the property demands 1e-3)"]
ASSUMPTIONS += ["Gamma(x) = +inf is the correctly rounded answer (and is demanded) for x beyond 171.62437695630271, the last double whose Gamma does not "
                "exceed DBL_MAX, and for 0 < x below about 1/DBL_MAX = 5.56e-309; wherever the reference is finite a finite value within 1e-14 is demanded",
                "remaining exclusions (counted as 'excused' in the evidence): the bit-identity of GammaQ with the evaluator the model selects is not "
                "demanded when the decision x < a+1.0 differs between double and exact arithmetic (a+1.0 rounds; the value clauses still apply); "
                "the inversion clause P(Inv_GammaP(p,a),a) = p is evaluated only where the exact preimage is a normal double",
                "'a few units in the last place' is 8 ulp for Factorial, 1 ulp for Binomial_Coefficient and its laws (the gcd-reduced product of fix 2890841 is "
                "correctly rounded: worst 0.5 ulp, every representable C(n,k) exact for 0 <= k <= n <= 400), 16 ulp for Gamma(x+1) = x Gamma(x)"]

def ratio(ctx, clause, err, tol):
    """record the worst err/tol per clause (goes into the evidence) and return pass/fail"""
    err = float(err); tol = float(tol)
    r = err / tol if tol > 0 else (0.0 if err == 0 else math.inf)
    k = "worst err/tol: " + clause
    if r > ctx["stats"].get(k, 0.0):
        ctx["stats"][k] = r
    return r <= 1.0


def M(x):
    if isinstance(x, Fraction):
        return mpf(x.numerator) / mpf(x.denominator)
    return mpf(x)


# ------------------------------------------------------------------------------------------------
# generator
# ------------------------------------------------------------------------------------------------

DBL_MAX = 1.7976931348623157e308


def gamma_xmax():
    """the last double whose Gamma is <= DBL_MAX (bisected with mpmath): 171.62437695630271"""
    lo, hi = 171.0, 172.0
    while math.nextafter(lo, hi) < hi:
        mid = 0.5 * (lo + hi)
        if mid == lo or mid == hi:
            break
        if mpmath.gamma(mpf(mid)) <= mpf(DBL_MAX):
            lo = mid
        else:
            hi = mid
    return lo


def _exact_plus1(x):
    """nearest double to x such that x+1.0 is exact"""
    y = x + 1.0
    return y - 1.0


def generate(tier, seed, ctx):
    rng = random.Random(seed * 7919 + 6)
    th = tier == "thorough"
    R = []
    ctx["res"] = {}
    ctx["fresh"] = {}
    ctx["binom"] = {}
    ctx["mono"] = []
    ctx["recur"] = []
    # --- Factorial: fresh calls for all n (class B) then histories (class D + B) ------------------
    for n in range(0, 176):
        R.append("c06.fact %d" % n)
    hist = []
    base = list(range(0, 171))
    for _ in range(12 if th else 3):
        p = list(base); rng.shuffle(p); hist.append(p)
    hist.append(list(reversed(base)))
    hist.append(base)
    hist.append([170, 0, 170, 1, 169])
    for _ in range(200 if th else 40):
        k = rng.randint(1, 40)
        hist.append([rng.choice([rng.randint(0, 170), rng.randint(0, 25), rng.randint(150, 170)]) for _ in range(k)])
    for _ in range(30 if th else 8):   # the process ends at the first n > 170
        k = rng.randint(1, 12)
        h = [rng.randint(0, 170) for _ in range(k)]
        h.insert(rng.randint(0, k), rng.choice([171, 172, 1000, 4294967295]))
        hist.append(h)
    if th:   # exhaustive over n<=170: every n as the first call of a history, followed by all others
        for n in range(0, 171):
            hist.append([n] + [rng.randint(0, 170) for _ in range(6)] + [n])
    for h in hist:
        R.append("c06.facthist " + ilst(h))
    # --- Binomial -------------------------------------------------------------------------------------
    rows = set(range(0, 401)) if th else set(range(0, 41)) | {168, 169, 170, 171, 172, 173, 399, 400}
    if not th:
        for _ in range(10):
            n = rng.randint(42, 400); rows |= {n - 1, n}
    for n in sorted(rows):
        for k in range(0, n + 1):
            R.append("c06.binom %d %d" % (n, k))
    for _ in range(60):
        n = rng.randint(0, 400)
        R.append("c06.binom %d %d" % (n, n + rng.randint(1, 50)))        # n < k -> 0
    for n, k in [(-1, 0), (0, -1), (-1, -1), (-5, 3), (3, -5), (-2147483648, 1), (171, -1), (-1, 171)]:
        R.append("c06.binom %d %d" % (n, k))
    # --- GammaLn / Gamma ------------------------------------------------------------------------------
    xs = [float(n) for n in range(1, 172)] + [n + 0.5 for n in range(0, 171)] if th else \
         [float(n) for n in range(1, 172, 7)] + [n + 0.5 for n in range(0, 171, 11)]
    xs += [1.0, 2.0, math.nextafter(1.0, 2), math.nextafter(1.0, 0), math.nextafter(2.0, 3), math.nextafter(2.0, 1),
           1.4616321449683622, 1e-300, 1e-100, 1e-10, 0.5, 171.0, 171.6, 100.0]
    for _ in range(1500 if th else 300):
        c = rng.random()
        if c < 0.5:
            xs.append(rng.uniform(0, 172))
        elif c < 0.7:
            xs.append(10.0 ** rng.uniform(-300, 0))
        elif c < 0.8:
            xs.append(rng.choice([1.0, 2.0]) + rng.uniform(-1, 1) * 10.0 ** rng.uniform(-15, -1))
        else:
            xs.append(10.0 ** rng.uniform(0, 4))
    # the overflow boundary of Gamma: log-dense towards the largest x with a finite Gamma and just beyond (there +inf IS the
    # correctly rounded answer); the underflow side x -> 0+ (Gamma ~ 1/x overflows below 1/DBL_MAX = 5.56e-309)
    xmax = gamma_xmax()
    edge = [xmax, math.nextafter(xmax, 0), math.nextafter(xmax, 200), 171.6, math.nextafter(171.6, 200), 171.61, 171.62, 171.624, 171.63, 172.0, 180.0, 1e3, 1e300]
    edge += [xmax - 10.0 ** rng.uniform(-13.5, 0.3) for _ in range(60 if th else 24)] + [xmax + 10.0 ** rng.uniform(-13.5, 0.3) for _ in range(20 if th else 8)]
    xmin = 1.0 / DBL_MAX
    edge += [xmin, math.nextafter(xmin, 1), math.nextafter(xmin, 0), 5e-324, 1e-310, 5.5e-309, 5.6e-309, 6e-309, 2.2250738585072014e-308, 1e-307]
    edge += [xmin * 10.0 ** rng.uniform(-3, 3) for _ in range(20 if th else 8)]
    for x in edge:
        R.append("c06.gamma %s" % hx(x))
        R.append("c06.gammaln %s" % hx(x))
        if 1.0 < x < 171.0 + 1:                    # the recurrence across the boundary: Gamma(x) = (x-1) Gamma(x-1)
            x0 = x - 1.0
            if x0 + 1.0 == x:
                i = len(R)
                R.append("c06.gamma %s" % hx(x0)); R.append("c06.gamma %s" % hx(x)); R.append("c06.gammaln %s" % hx(x0)); R.append("c06.gammaln %s" % hx(x))
                ctx["recur"].append((x0, R[i], R[i + 1], R[i + 2], R[i + 3]))
    for j in range(40 if th else 14):               # Upper/Lower_Incomplete_Gamma(x, s) with s up to the largest finite Gamma(s)
        sg = xmax - 10.0 ** rng.uniform(-13, 0.2) if j % 3 else rng.uniform(170.0, xmax)
        R.append("c06.uplow %s %s" % (hx(max(0.0, sg + rng.uniform(-3, 3) * math.sqrt(sg))), hx(sg)))
    for x in xs:
        R.append("c06.gammaln %s" % hx(x))
        if x < 171.62:
            R.append("c06.gamma %s" % hx(x))
    for x in [10.0 ** rng.uniform(4, 300) for _ in range(40)]:
        R.append("c06.gammaln %s" % hx(x))
    if True:      # every positive double (fix 61f965b)
        for x in [5e-324, 1e-320, 1e-310, 2.2250738585072014e-308, 1e-307, 4.5e-307, 4.7e-307] + [10.0 ** rng.uniform(-323, -300) for _ in range(40)]:
            R.append("c06.gammaln %s" % hx(x))
        for _ in range(60):
            R.append("c06.gammap %s %s" % (hx(10.0 ** rng.uniform(-3, 1)), hx(10.0 ** rng.uniform(-320, -17))))
    for x in [0.0, -0.0, -1.0, -0.5, -1e-300, -1e300, -5e-324]:
        R.append("c06.gammaln %s" % hx(x))
        R.append("c06.gamma %s" % hx(x))
    # recurrence Gamma(x+1) = x Gamma(x), x+1 exact in double
    for _ in range(400 if th else 100):
        x = _exact_plus1(rng.uniform(0.01, 169.5) if rng.random() < 0.8 else 10.0 ** rng.uniform(-3, 0))
        if x <= 0:
            continue
        i = len(R)
        R.append("c06.gamma %s" % hx(x)); R.append("c06.gamma %s" % hx(x + 1.0))
        R.append("c06.gammaln %s" % hx(x)); R.append("c06.gammaln %s" % hx(x + 1.0))
        ctx["recur"].append((x, R[i], R[i + 1], R[i + 2], R[i + 3]))
    # --- GammaQ / GammaP / incomplete gamma -----------------------------------------------------------
    def draw_a():
        c = rng.random()
        if c < 0.30:
            return 10.0 ** rng.uniform(-17, 2)
        if c < 0.50:
            return rng.uniform(0.05, 100)
        if c < 0.62:
            return rng.choice([100.0, math.nextafter(100.0, 0), math.nextafter(100.0, 200), 100 - 2.0 ** -rng.randint(1, 40),
                               100 + 2.0 ** -rng.randint(1, 40), rng.uniform(99, 101), 99.0, 101.0])
        if c < 0.72:
            return float(rng.randint(1, 100)) / rng.choice([1, 2, 4])
        if c < 0.90:
            return 10.0 ** rng.uniform(2, 4)
        return rng.uniform(100, 1e4)

    def draw_x(a):
        top = a + 40 * math.sqrt(a) + 40
        c = rng.random()
        if c < 0.30:
            return rng.uniform(0, top)
        if c < 0.55:
            return max(0.0, a + 1 + rng.uniform(-4, 4) * math.sqrt(a))
        if c < 0.70:   # close to the switch-over x = a+1, a relative margin >= 2^-40 away from it
            d = (a + 1) * 2.0 ** rng.uniform(-39, -3) * rng.choice([-1, 1])
            return max(0.0, a + 1 + d)
        if c < 0.80:
            return 10.0 ** rng.uniform(-300, -2)
        if c < 0.84:
            return 0.0
        if c < 0.92:
            return rng.uniform(0, 1) * min(top, 3.0)
        return max(0.0, a + rng.gauss(0, 1) * 8 * math.sqrt(a))

    nq = 5000 if th else 1100
    for j in range(nq):
        a = draw_a(); x = draw_x(a)
        op = ("c06.gammaq", "c06.gammap", "c06.uplow")[j % 3 if j % 5 else 0]
        R.append("%s %s %s" % (op, hx(x), hx(a)))
    if True:                # Upper/Lower where Gamma(s) overflows (s > 171.62, s < 5.6e-309): the clause Upper + Lower = Gamma includes inf
        for j in range(120 if th else 40):
            sg = rng.choice([172.0, 200.0, 171.7, 10.0 ** rng.uniform(2.24, 4), rng.uniform(171.63, 400)]) if j % 5 else 10.0 ** rng.uniform(-320, -308.3)
            xx = rng.choice([0.0, 1.0, 1000.0, max(0.0, sg + rng.uniform(-4, 4) * math.sqrt(sg)), rng.uniform(0, 3 * sg + 10)])
            R.append("c06.uplow %s %s" % (hx(xx), hx(sg)))
    # a > 100: dense where a single-interval adaptive Simpson stopped prematurely before `fix:` f69671d
    # ((x-a)/sqrt(a) close to -0.48, 6.7, 8.8, 9.1) and over the whole +-10 sigma window
    for j in range(1500 if th else 320):
        a = 10.0 ** rng.uniform(2.005, 4) if j % 4 else rng.uniform(100.5, 1e4)
        z = rng.choice([-0.48, 6.7, 8.84, 9.06]) + rng.uniform(-0.08, 0.08) if j % 3 else rng.uniform(-10.5, 10.5)
        x = max(1e-3, a + z * math.sqrt(a))
        R.append("%s %s %s" % (("c06.gammaq", "c06.gammap", "c06.qint", "c06.gammaq")[j % 4], hx(x), hx(a)))
    # fine scan in r = (x-(a-1))/sqrt(a) for a > 100: an adaptive quadrature can agree with its refinement by coincidence in
    # bands of r less than 1e-3 wide whose position drifts with a.  thorough: step 2e-4 over [-10,10]; quick: step 4e-4 over
    # [-1.5,0.5] and [6,9.5] (where coincidences were seen), seed-dependent offset
    scan_a = [150.0, 1000.0, 9999.0] + [10.0 ** rng.uniform(2.01, 4) for _ in range(3 if th else 2)]
    step = 2e-4 if th else 4e-4
    for a in scan_a:
        for lo, hi in (((-10.0, 10.0),) if th else ((-1.5, 0.5), (6.0, 9.5))):
            r = lo + rng.uniform(0, step)
            while r < hi:
                n = min(500, int((hi - r) / step) + 1)
                R.append("c06.qscan %s %s %s %d" % (hx(a), hx(r), hx(step), n))
                r += n * step
    # the switch-over x = a+1 probed exactly: dyadic a (a+1 exact), x = a+1 and its neighbours
    for _ in range(200 if th else 50):
        a = rng.randint(1, 100 * 64) / 64.0
        if a > 100:
            a = 100.0
        e = a + 1.0
        for x in (e, math.nextafter(e, 0), math.nextafter(e, 1e9)):
            R.append("c06.gammaq %s %s" % (hx(x), hx(a)))
    for a in (100.0, math.nextafter(100.0, 0), math.nextafter(100.0, 200)):
        for x in (50.0, 99.0, 100.0, 101.0, math.nextafter(101.0, 0), math.nextafter(101.0, 200), 102.0, 130.0, 260.0):
            R.append("c06.gammaq %s %s" % (hx(x), hx(a)))
            R.append("c06.gammap %s %s" % (hx(x), hx(a)))
    # guards
    for x, a in [(-1.0, 1.0), (1.0, 0.0), (1.0, -1.0), (-1e-300, 5.0), (0.0, 0.0), (-0.0, 1.0), (0.0, 1e-300), (-1.0, -1.0), (2.0, -0.0), (-5e-324, 101.0)]:
        for op in ("c06.gammaq", "c06.gammap", "c06.uplow"):
            R.append("%s %s %s" % (op, hx(x), hx(a)))
    # monotone grids: fixed a, sorted x
    for g in range(120 if th else 30):
        a = draw_a()
        top = a + 40 * math.sqrt(a) + 40
        pts = {0.0, a + 1.0, math.nextafter(a + 1.0, 0), math.nextafter(a + 1.0, 1e9), a, top}
        for _ in range(10):
            pts.add(max(0.0, a + 1 + rng.uniform(-6, 6) * math.sqrt(a)))
        for _ in range(4):
            pts.add(rng.uniform(0, top))
        for _ in range(3):
            pts.add(max(0.0, (a + 1) * (1 + rng.choice([-1, 1]) * 2.0 ** rng.uniform(-50, -20))))
        pts = sorted(pts)
        op = "c06.gammaq" if g % 2 == 0 else "c06.gammap"
        reqs = ["%s %s %s" % (op, hx(x), hx(a)) for x in pts]
        R += reqs
        ctx["mono"].append((op, a, pts, reqs))
    # vanishing arguments x small shape: P(x,a) ~ x^a/Gamma(a+1) is NOT small for a tiny a (P(1e-310,1e-3) = 0.49), so the
    # whole range of positive doubles down to the denormals matters: x denormal, around DBL_MIN, tiny normal; a in [1e-6, 0.05]
    def tiny_x():
        c = rng.random()
        if c < 0.35:
            return rng.randint(1, 2 ** 52 - 1) * 5e-324                       # denormal
        if c < 0.5:
            return rng.choice([5e-324, 1e-323, math.nextafter(DBL_MIN, 0), DBL_MIN, math.nextafter(DBL_MIN, 1), 2 * DBL_MIN, 1e-310, 1e-315, 1e-320])
        if c < 0.75:
            return DBL_MIN * 2.0 ** rng.uniform(-40, 40)
        return 10.0 ** rng.uniform(-323, -100)
    for j in range(600 if th else 150):
        a = 10.0 ** rng.uniform(-6, math.log10(0.05)) if j % 5 else rng.choice([1e-6, 1e-3, 0.02, 0.039, 0.05, 0.5, 1.0])
        R.append("%s %s %s" % (("c06.gammap", "c06.gammaq", "c06.uplow")[j % 3], hx(tiny_x()), hx(a)))
    for g in range(40 if th else 10):
        a = 10.0 ** rng.uniform(-6, math.log10(0.05))
        pts = sorted({0.0, 5e-324, math.nextafter(DBL_MIN, 0), DBL_MIN, math.nextafter(DBL_MIN, 1), 1e-300, 1e-200, 1e-100, 1e-10, 1.0}
                     | {tiny_x() for _ in range(8)})
        op = "c06.gammaq" if g % 2 == 0 else "c06.gammap"
        reqs = ["%s %s %s" % (op, hx(x), hx(a)) for x in pts]
        R += reqs
        ctx["mono"].append((op, a, pts, reqs))
    for j in range(120 if th else 30):     # inverse: preimage a normal double, but close to DBL_MIN (the iteration visits tiny x)
        a = 10.0 ** rng.uniform(-3, math.log10(0.05))
        x0 = DBL_MIN * 2.0 ** rng.uniform(3, 200)
        pp = float(ref_P(Fraction(x0), Fraction(a)))
        if 1e-12 < pp < 1 - 1e-12:
            R.append("%s %s %s" % ("c06.invp", hx(pp), hx(a)) if j % 2 else "%s %s %s" % ("c06.invq", hx(1 - pp), hx(a)))
    # internal evaluators called directly, on both sides of the switch-overs (also a > 100)
    for _ in range(300 if th else 60):
        a = 10.0 ** rng.uniform(-3, 3.3 if th else 3) if rng.random() < 0.7 else rng.uniform(90, 400)
        s = math.sqrt(a)
        x = max(1e-3, a + 1 + rng.uniform(-5, 5) * s)
        R.append("c06.pser %s %s" % (hx(x), hx(a)))
        x = a + 0.5 + abs(rng.uniform(0, 6)) * s + rng.random()
        R.append("c06.qcf %s %s" % (hx(x), hx(a)))
    for _ in range(8 if th else 2):
        a = rng.uniform(5e3, 1e4); s = math.sqrt(a)
        R.append("c06.pser %s %s" % (hx(a + rng.uniform(-3, 3) * s), hx(a)))
        R.append("c06.qcf %s %s" % (hx(a + 1 + rng.uniform(0, 4) * s), hx(a)))
    for _ in range(100 if th else 25):
        a = rng.uniform(1.5, 300) if rng.random() < 0.7 else 10.0 ** rng.uniform(2, 4)
        x = max(1e-3, a + rng.uniform(-12, 12) * math.sqrt(a))
        R.append("c06.qint %s %s" % (hx(x), hx(a)))
    # --- inverses ---------------------------------------------------------------------------------
    for j in range(1500 if th else 350):
        c = rng.random()
        if c < 0.5:
            p = rng.uniform(0, 1)
        elif c < 0.75:
            p = 10.0 ** rng.uniform(-12, 0)
        else:
            p = 1 - 10.0 ** rng.uniform(-12, 0)
        p = min(max(p, 1.0000001e-12), 1 - 1.0000001e-12)
        c = rng.random()
        if c < 0.35:
            a = 10.0 ** rng.uniform(-2, 2) if j % 4 else 10.0 ** rng.uniform(-17, -2)
        elif c < 0.6:
            a = rng.uniform(0.05, 100)
        elif c < 0.7:
            a = rng.choice([1.0, math.nextafter(1.0, 0), math.nextafter(1.0, 2), 0.5, 2.0, 100.0, math.nextafter(100.0, 200), 1 + 2.0 ** -20])
        elif c < 0.85:
            a = rng.uniform(100, 1000)
        else:
            a = 10.0 ** rng.uniform(2, 4)
        R.append("%s %s %s" % ("c06.invp" if j % 3 else "c06.invq", hx(p), hx(a)))
    for j in range(600 if th else 120):   # a > 100 and p within 1e-8 of 1 (and of 0)
        a = 10.0 ** rng.uniform(2.005, 4)
        q = 10.0 ** rng.uniform(-12, -7)
        q = max(q, 1.0000001e-12)
        if j % 2:
            R.append("c06.invp %s %s" % (hx(1 - q if j % 4 == 1 else q), hx(a)))
        else:
            R.append("c06.invq %s %s" % (hx(q if j % 4 == 0 else 1 - q), hx(a)))
    for p, a in [(0.0, 1.0), (1.0, 1.0), (-0.5, 2.0), (1.5, 2.0), (1.0, 1e4), (0.5, 0.0), (0.5, -1.0), (0.0, 0.0), (2.0, -3.0), (1.0, 150.0)]:
        R.append("c06.invp %s %s" % (hx(p), hx(a)))
        R.append("c06.invq %s %s" % (hx(p), hx(a)))
    return R


# ------------------------------------------------------------------------------------------------
# references (mpmath) and glue
# ------------------------------------------------------------------------------------------------

def ref_P(x, a):
    return mpmath.gammainc(M(a), 0, M(x), regularized=True)


def ref_Q(x, a):
    return mpmath.gammainc(M(a), M(x), mpmath.inf, regularized=True)


def glue_gln(x, lz):
    """GammaLn's glue applied to the Lanczos sum lz (exact Fraction); returns (value, scale)"""
    x = M(x)
    tmp = x + mpf(671) / 128
    t1 = (x + mpf(0.5)) * mpmath.log(tmp)
    t3 = mpmath.log(mpf("2.5066282746310005") * M(lz)) - mpmath.log(x)      # as coded after fix 61f965b
    return t1 - tmp + t3, abs(t1) + abs(tmp) + abs(t3) + 1


def model_Q(x, a, mt):
    """from the driver's tokens: (branch, Q, P, rounding scale S*core of the exponentiated part) with the glue applied"""
    br = mt[0]
    if br == "zero":
        return br, mpf(1), mpf(0), mpf(0)
    if br == "quad":
        return br, None, None, None
    core = M(fr(mt[1])); lz = fr(mt[3])
    gln, sg = glue_gln(a, lz)
    lx = mpmath.log(M(x))
    S = abs(M(x)) + abs(M(a) * lx) + sg + 4
    v = core * mpmath.exp(-M(x) + M(a) * lx - gln)
    if br == "series":
        return br, 1 - v, v, S * v
    return br, v, 1 - v, S * v


def binom_tol(n, ex, ulps=ULP_BINOM):
    """few ulp for n<=170 (below one unit this forces the exact integer), 2e-11 relative for n>170"""
    t = 1 * 2 * EPS * ex          # fix 2890841: the product is correctly rounded (0.5 ulp measured); 1 ulp demanded
    return t if t >= 1 else Fraction(1, 2)


def tolQ(a):
    return TOL_A_SMALL if a <= 100 else TOL_A_LARGE


def normal_preimage(p, a):
    """the exact solution of P(x,a)=p is a normal double (DESIGN.md, stated exclusions)"""
    return ref_P(4 * DBL_MIN, a) < p


# ------------------------------------------------------------------------------------------------
# comparator
# ------------------------------------------------------------------------------------------------

def _key(op, a, model):
    mt = toks(model)
    if op in ("c06.fact",):
        n = int(a[0]); return (op, min(n, 172))
    if op == "c06.facthist":
        return (op, min(int(a[0]), 20), tag(model))
    if op == "c06.binom":
        n, k = int(a[0]), int(a[1])
        return (op, tag(model), min(max(n, -1), 401) // 10, (k > n) - (k < 0))
    if op == "c06.qscan":
        return (op, tag(model), int(math.log10(fl(a[0])) * 4), int(fl(a[1])))
    if op in ("c06.gammaln", "c06.gamma"):
        x = fl(a[0])
        return (op, tag(model), int(math.log10(x)) // 4 if x > 0 else -999)
    if op in ("c06.invp", "c06.invq"):
        p, s = fl(a[0]), fl(a[1])
        return (op, tag(model), mt[0] if mt else "", int(math.log10(s)) if s > 0 else -99, p < 0.5, s > 1)
    x, s = fl(a[0]), fl(a[1])
    return (op, tag(model), mt[0] if mt else "", int(math.floor(math.log10(s))) if s > 0 else -99,
            (x > s + 1) - (x < s + 1), x == 0)


def compare(rq, impl, model, ctx):
    op = rq.split(" ", 1)[0]
    a = rq.split()[1:]
    bump(ctx, op)
    fs, both = std_outcome(rq, impl, model)
    if tag(model) in ("ok", "err"):
        ctx["nontrivial"].add(_key(op, a, model))
    ctx["res"][rq] = impl
    if tag(impl) != "ok":
        return fs
    out = list(fs)
    ti = toks(impl)
    mt = toks(model) if tag(model) == "ok" else None
    try:
        out += _check(op, a, ti, mt, ctx, rq)
    except (ValueError, IndexError, ZeroDivisionError) as e:
        out.append(fail("corr", "comparator could not evaluate the record", repr(e)))
    return out


def oracle_only(rq, impl, ctx):
    op = rq.split(" ", 1)[0]
    a = rq.split()[1:]
    ctx["res"][rq] = impl
    if crashed(impl):
        return [fail("prop", "crash/sanitizer/silent exit: " + tag(impl), impl[:200])]
    if tag(impl) != "ok":
        return []
    return [f for f in _check(op, a, toks(impl), None, ctx, rq) if f["kind"] == "prop"]


def _check(op, a, ti, mt, ctx, rq):
    out = []
    if op == "c06.fact":
        n = int(a[0]); v = fl(ti[0]); size = int(ti[1])
        ctx["fresh"][n] = v
        ex = Fraction(math.factorial(n))
        if not ratio(ctx, "Factorial(n) = n! to a few ulp", abs(Fraction(v) - ex), ULP_FACT * 2 * EPS * ex):
            out.append(fail("prop", "Factorial(n) is not n! to a few ulp", "n=%d got %r" % (n, v)))
        if n >= 1 and n - 1 in ctx["fresh"]:
            w = ctx["fresh"][n - 1]
            if not ratio(ctx, "n! = n (n-1)! to an ulp", abs(Fraction(v) - n * Fraction(w)), 2 * EPS * ex):
                out.append(fail("prop", "recurrence n! = n*(n-1)! violated beyond an ulp", "n=%d" % n))
        if mt is not None:
            if fr(mt[0]) != ex:
                out.append(fail("corr", "model factorial is not n!", ""))
            if int(mt[1]) != size:
                out.append(fail("corr", "Factorial: memo table size differs from the model", "%d vs %s" % (size, mt[1])))
    elif op == "c06.facthist":
        k = int(a[0]); calls = [int(t) for t in a[1:1 + k]]
        vals = [fl(t) for t in ti[:k]]; size = int(ti[k])
        for n, v in zip(calls, vals):
            f = ctx["fresh"].get(n)
            if f is not None and v != f:
                out.append(fail("prop", "Factorial(n) depends on the call history (not bit-identical to a fresh call)",
                                "n=%d fresh=%r in-history=%r" % (n, f, v)))
                break
            if not close(v, Fraction(math.factorial(n)), Fraction(math.factorial(n)), 2 * ULP_FACT):
                out.append(fail("prop", "Factorial(n) in a call history is not n!", "n=%d got %r" % (n, v)))
                break
        if mt is not None:
            if [fr(t) for t in mt[:k]] != [Fraction(math.factorial(n)) for n in calls]:
                out.append(fail("corr", "model history values are not n!", ""))
            if int(mt[k]) != size:
                out.append(fail("prop", "Factorial memo table has the wrong size after the history", "%d vs %s" % (size, mt[k])))
    elif op == "c06.binom":
        n, k = int(a[0]), int(a[1]); v = fl(ti[0])
        ctx["binom"][(n, k)] = v
        ex = Fraction(math.comb(n, k)) if 0 <= k <= n else Fraction(0)
        if not ratio(ctx, "Binomial vs exact integer (n%s170)" % ("<=" if n <= 170 else ">"), abs(Fraction(v) - ex), binom_tol(n, ex)):
            out.append(fail("prop", "Binomial_Coefficient differs from C(n,k) beyond a few ulp",
                            "C(%d,%d)=%d got %r" % (n, k, ex, v)))
        if mt is not None:
            if fr(mt[0]) != ex:
                out.append(fail("corr", "model binomial (floor formula / gcd-reduced product) is not C(n,k)", ""))
            if len(ti) > 1 and len(mt) > 1 and int(ti[1]) != int(mt[1]):
                out.append(fail("corr", "Binomial_Coefficient: memo table size differs from the model", ""))
    elif op in ("c06.gammaln", "c06.gamma"):
        x = fl(a[0]); v = fl(ti[0])
        xm = M(Fraction(x))
        ref = mpmath.loggamma(xm)
        if op == "c06.gammaln":
            if math.isnan(v) or math.isinf(v):
                out.append(fail("prop", "GammaLn is not finite for x>0", repr(v)))
                return out
            # the glue's last log: log(c*sum/x); for huge x the error of each large term counts
            big = abs((xm + 0.5) * mpmath.log(xm + mpf(671) / 128)) + xm
            if not ratio(ctx, "GammaLn vs mpmath.loggamma", abs(mpf(v) - ref), TOL_LN * (1 + abs(ref)) + 8 * EPSF * big):
                out.append(fail("prop", "GammaLn disagrees with the reference log-gamma", "x=%r got %r ref %s" % (x, v, mpmath.nstr(ref, 20))))
            if mt is not None:
                m, sc = glue_gln(Fraction(x), fr(mt[0]))
                if not ratio(ctx, "GammaLn vs Lanczos model (B)", abs(mpf(v) - m), K_GLN * EPSF * sc):
                    out.append(fail("corr", "GammaLn differs from the Lanczos model beyond rounding", "x=%r got %r model %s" % (x, v, mpmath.nstr(m, 20))))
        else:
            if math.isnan(v) or v < 0:
                out.append(fail("prop", "Gamma(x) is not a positive number for x>0", repr(v)))
                return out
            gref = mpmath.gamma(xm)
            # finite reference => finite answer: +inf is accepted only where it is the correctly rounded value,
            # i.e. the reference exceeds DBL_MAX (by half an ulp: DBL_MAX (1 + 2^-54) rounds to +inf)
            if gref > mpf(DBL_MAX):
                if not (math.isinf(v) or (gref < mpf(DBL_MAX) * (1 + mpf(2) ** -53) and v == DBL_MAX)):
                    out.append(fail("prop", "Gamma is finite where the reference exceeds the largest double", "x=%r got %r" % (x, v)))
                return out
            if math.isinf(v):
                out.append(fail("prop", "Gamma overflows where the reference is finite", "x=%r got inf, reference %s" % (x, mpmath.nstr(gref, 17))))
                return out
            if not ratio(ctx, "Gamma vs mpmath.gamma", abs(mpf(v) - gref), gref * TOL_LN):
                out.append(fail("prop", "Gamma disagrees with the reference gamma function", "x=%r got %r ref %s" % (x, v, mpmath.nstr(gref, 20))))
    elif op in ("c06.pser", "c06.qcf", "c06.qint"):
        x, s = fl(a[0]), fl(a[1]); v = fl(ti[0])
        X, S = Fraction(x), Fraction(s)
        want = {"c06.pser": "series", "c06.qcf": "cf", "c06.qint": "quad"}[op]
        rf = ref_P(X, S) if op == "c06.pser" else ref_Q(X, S)
        lxs = abs(M(S) * mpmath.log(M(X))) + M(X) + abs(mpmath.loggamma(M(S)))
        tol = TOL_A_LARGE if op == "c06.qint" else (TOL_A_SMALL if s <= 100 else K_Q * EPSF * (1 + lxs))
        if math.isnan(v) or not ratio(ctx, op[4:] + " vs mpmath.gammainc" + (" (a>100)" if s > 100 else ""), abs(mpf(v) - rf), tol):
            out.append(fail("prop", A100_Q if op == "c06.qint" else "Gamma%s disagrees with the reference incomplete gamma function" % {"c06.pser": "Pser", "c06.qcf": "Qcf"}[op],
                            "x=%r a=%r got %r ref %s" % (x, s, v, mpmath.nstr(rf, 17))))
        if mt is not None and mt[0] == want and want != "quad":
            br, q, p, sc = model_Q(X, S, mt)
            m = p if op == "c06.pser" else q
            if not ratio(ctx, op[4:] + " vs rational core + glue (B)", abs(mpf(v) - m), K_Q * EPSF * sc + mpf(5e-324)):
                out.append(fail("corr", "%s differs from the model recurrence beyond rounding" % op[4:], "x=%r a=%r got %r model %s" % (x, s, v, mpmath.nstr(m, 20))))
    elif op == "c06.qscan":
        s, r0, dr, n = fl(a[0]), fl(a[1]), fl(a[2]), int(a[3])
        if len(ti) != 2 * n:
            out.append(fail("corr", "scan: wrong number of values", "%d vs %d" % (len(ti), 2 * n)))
            return out
        xs = np.array([fl(t) for t in ti[0::2]]); qs = np.array([fl(t) for t in ti[1::2]])
        want = (s - 1.0) + (r0 + np.arange(n) * dr) * math.sqrt(s)
        if np.max(np.abs(xs - want)) > 1e-9 * s:
            out.append(fail("corr", "scan: abscissae are not the requested grid", ""))
        ok = xs > 0
        if np.any(np.isnan(qs[ok])) or np.any(qs[ok] < 0) or np.any(qs[ok] > 1):
            i = int(np.argmax(ok & (np.isnan(qs) | (qs < 0) | (qs > 1))))
            out.append(fail("prop", "GammaQ outside [0,1]", "x=%r a=%r got %r" % (float(xs[i]), s, float(qs[i]))))
            return out
        if np.any(ok):
            err = np.where(ok, np.abs(qs - sp_gammaincc(s, np.where(ok, xs, 1.0))), 0.0)
            i = int(np.argmax(err))
            rf = ref_Q(Fraction(float(xs[i])), Fraction(s))          # the worst point again, with mpmath
            if not ratio(ctx, "fine scan in (x-(a-1))/sqrt(a): GammaQ vs reference (a>100)", abs(mpf(float(qs[i])) - rf), TOL_A_LARGE):
                out.append(fail("prop", A100_Q, "x=%r a=%r (r=%.5f) got %r ref %s; %d of %d scan points beyond 1e-3" % (
                    float(xs[i]), s, (float(xs[i]) - (s - 1)) / math.sqrt(s), float(qs[i]), mpmath.nstr(rf, 17), int(np.sum(err > TOL_A_LARGE)), n)))
            bump(ctx, "scan points (a>100)", int(np.sum(ok)))
            # dense monotone clause: Q does not increase along the scan (x increases)
            inc = np.where(ok[1:] & ok[:-1], qs[1:] - qs[:-1], 0.0)
            k = int(np.argmax(inc))
            if not ratio(ctx, "fine scan: GammaQ non-increasing in x (a>100)", max(0.0, float(inc[k])), MONO_A_LARGE):
                out.append(fail("prop", "GammaQ is not monotone in x", "a=%r x=%r -> %r, x=%r -> %r" % (s, float(xs[k]), float(qs[k]), float(xs[k + 1]), float(qs[k + 1]))))
    elif op in ("c06.gammaq", "c06.gammap", "c06.uplow"):
        x, s = fl(a[0]), fl(a[1])
        X, S = Fraction(x), Fraction(s)
        if op == "c06.uplow":
            U, L, G, Q, P = [fl(t) for t in ti[:5]]
        else:
            v = fl(ti[0])
            Q, P = (v, None) if op == "c06.gammaq" else (None, v)
            qser, qcf, qint = fl(ti[1]), fl(ti[2]), fl(ti[3])
        tol = tolQ(s)
        rq_ = ref_Q(X, S); rp_ = ref_P(X, S)
        for nm, val, rf in (("Q", Q, rq_), ("P", P, rp_)):
            if val is None:
                continue
            if math.isnan(val) or not (0.0 <= val <= 1.0):      # exact for every a (fix 317093f)
                out.append(fail("prop", "Gamma%s outside [0,1]" % nm, "x=%r a=%r got %r" % (x, s, val)))
            if not ratio(ctx, "Gamma%s vs mpmath.gammainc (a%s100)" % (nm, "<=" if s <= 100 else ">"), abs(mpf(val) - rf), tol):
                out.append(fail("prop", A100_Q if s > 100 else "Gamma%s disagrees with the reference beyond 1e-12 (a<=100)" % nm, "x=%r a=%r got %r ref %s" % (x, s, val, mpmath.nstr(rf, 17))))
        if op == "c06.uplow":
            if P + Q != 1.0:                                     # exact in double arithmetic (P is 1.0 - Q)
                out.append(fail("prop", "GammaP + GammaQ is not 1", "x=%r a=%r P=%r Q=%r" % (x, s, P, Q)))
            gs = mpmath.gamma(M(S))
            if gs <= mpf(DBL_MAX) and not (math.isfinite(G) and ratio(ctx, "Gamma(s) inside Upper/Lower vs mpmath.gamma", abs(mpf(G) - gs) if math.isfinite(G) else 1, gs * TOL_LN)):
                out.append(fail("prop", "Upper/Lower_Incomplete_Gamma: Gamma(s) overflows or disagrees with the reference although it is finite", "s=%r Gamma(s)=%r reference %s" % (s, G, mpmath.nstr(gs, 17))))
            if math.isinf(G):
                # Gamma(s) overflows: no nan, Upper + Lower = Gamma = inf, and each part is Gamma_ref * fraction wherever that is representable
                if math.isnan(U) or math.isnan(L) or U < 0 or L < 0 or U + L != G:
                    out.append(fail("prop", "Upper + Lower incomplete gamma is not Gamma (Gamma(s) = inf)", "x=%r s=%r U=%r L=%r G=%r" % (x, s, U, L, G)))
                lg = mpmath.loggamma(M(S))
                for nm, part, frac in (("Upper", U, Q), ("Lower", L, P)):
                    if frac > 0:
                        want = mpmath.exp(lg + mpmath.log(mpf(frac)))
                        if want <= mpf(DBL_MAX) and not (math.isfinite(part) and ratio(ctx, nm + " = Gamma(s)*fraction where Gamma(s) overflows", abs(mpf(part) - want), want * 1e-11 + 1e-300)):
                            out.append(fail("prop", nm + "_Incomplete_Gamma is not Gamma(s) times the regularized fraction (Gamma(s) = inf)", "x=%r s=%r got %r want %s" % (x, s, part, mpmath.nstr(want, 15))))
                    elif part != 0.0:
                        out.append(fail("prop", nm + "_Incomplete_Gamma is not 0 for a zero regularized fraction", "x=%r s=%r got %r" % (x, s, part)))
            if math.isfinite(G) and G > 0:
                if not ratio(ctx, "Upper+Lower=Gamma", abs(Fraction(U) + Fraction(L) - Fraction(G)), 2 * EPS * Fraction(G)):   # 1 ulp
                    out.append(fail("prop", "Upper + Lower incomplete gamma is not Gamma", "x=%r s=%r U=%r L=%r G=%r" % (x, s, U, L, G)))
                if U != G * Q or L != G * P:
                    out.append(fail("corr", "Upper/Lower_Incomplete_Gamma are not Gamma*Q / Gamma*P", ""))
        if mt is not None:
            br, q, p, sc = model_Q(X, S, mt)
            if q is not None:                                    # the clamp of GammaQ (fix 317093f), as the model applies it
                q = min(mpf(1), max(mpf(0), q)); p = 1 - q
            if br == "zero":
                if (Q is not None and Q != 1.0) or (P is not None and P != 0.0):
                    out.append(fail("prop", "GammaQ(0,a) is not 1 / GammaP(0,a) is not 0", ""))
            elif br != "quad":
                for nm, val, m in (("Q", Q, q), ("P", P, p)):
                    if val is not None and not ratio(ctx, "Gamma%s vs rational core + glue (B, %s)" % (nm, br), abs(mpf(val) - m), K_Q * EPSF * (1 + sc)):
                        out.append(fail("corr", "Gamma%s differs from the model (%s branch) beyond rounding" % (nm, br),
                                        "x=%r a=%r got %r model %s" % (x, s, val, mpmath.nstr(m, 20))))
            # class A on the branch: the value must be bit-identical to the evaluator the model selects
            if op != "c06.uplow" and br != "zero":
                sel = {"series": qser, "cf": qcf, "quad": qint}[br]
                sel = sel if math.isnan(sel) else min(1.0, max(0.0, sel))
                clampf = lambda w: w if math.isnan(w) else min(1.0, max(0.0, w))
                got = Q if Q is not None else P
                want = sel if Q is not None else 1.0 - sel
                knife = br in ("series", "cf") and ((x < s + 1.0) != (X < S + 1))   # a+1.0 rounds in double
                if knife:
                    ctx["excused"] += 1
                elif not math.isnan(sel) and got != want:
                    others = [n for n, w in (("series", qser), ("cf", qcf), ("quad", qint))
                              if not math.isnan(w) and (clampf(w) if Q is not None else 1.0 - clampf(w)) == got]
                    out.append(fail("corr", "GammaQ takes another branch than the model (%s expected%s)" % (br, ", value is that of " + others[0] if others else ""),
                                    "x=%r a=%r" % (x, s)))
    elif op in ("c06.invp", "c06.invq"):
        p0, s = fl(a[0]), fl(a[1])
        p = p0 if op == "c06.invp" else 1.0 - p0
        x, Px, Qx = fl(ti[0]), fl(ti[1]), fl(ti[2])
        br = mt[0] if mt else ("top" if p >= 1 else "bottom" if p <= 0 else "iterate")
        if br == "top":
            w = max(M(100), M(Fraction(s)) + 100 * mpmath.sqrt(M(Fraction(s))))
            if not (abs(mpf(x) - w) <= 8 * EPSF * w):
                out.append(fail("prop", "Inv_GammaP(p>=1,a) is not max(100, a+100 sqrt a)", "got %r" % x))
        elif br == "bottom":
            if x != 0.0:
                out.append(fail("prop", "Inv_GammaP(p<=0,a) is not 0", "got %r" % x))
        else:
            S = Fraction(s)
            if math.isnan(x) or x < 0 or math.isinf(x):
                out.append(fail("prop", A100_NAN if (s > 100 and math.isnan(x)) else "Inv_GammaP returns no non-negative number", "p=%r a=%r got %r" % (p, s, x)))
                return out
            if not normal_preimage(p, S):
                ctx["excused"] += 1
                bump(ctx, "inverse: exact preimage below the normal doubles (excluded)")
                return out
            tol = TOL_INV_SMALL                                   # also for a > 100 (audit: worst 1.5e-9)
            if not ratio(ctx, "P(Inv_GammaP(p,a),a)=p (a%s100)" % ("<=" if s <= 100 else ">"), abs(Px - p), tol):
                out.append(fail("prop", "P(Inv_GammaP(p,a),a) differs from p by more than 1e-7", "p=%r a=%r x=%r P(x)=%r" % (p, s, x, Px)))
            rp_ = ref_P(Fraction(x), S)
            if not ratio(ctx, "Pref(Inv_GammaP(p,a),a)=p (a%s100)" % ("<=" if s <= 100 else ">"), abs(rp_ - mpf(p)), tol + tolQ(s)):
                out.append(fail("prop", A100_INV if s > 100 else "reference P at Inv_GammaP(p,a) differs from p by more than 1e-7 (a<=100)", "p=%r a=%r x=%r Pref(x)=%s" % (p, s, x, mpmath.nstr(rp_, 17))))
    return out


def finalize(ctx, exe):
    out = []
    # mpmath self-test (validated, not verified): an inconsistency is an internal error of the check
    for a, x in ((0.5, 0.3), (3.0, 2.0), (100.0, 101.0), (1234.5, 1200.0), (1e4, 1.01e4)):
        p, q = ref_P(Fraction(x), Fraction(a)), ref_Q(Fraction(x), Fraction(a))
        p1 = ref_P(Fraction(x), Fraction(a) + 1)
        d = mpmath.exp(a * mpmath.log(mpf(x)) - mpf(x) - mpmath.loggamma(mpf(a) + 1))
        if abs(p + q - 1) > mpf(10) ** -40 or abs((p - p1) - d) > mpf(10) ** -38 * (1 + d):
            out.append(fail("corr", "internal: mpmath reference fails its self-test", "a=%r x=%r" % (a, x)))
    for n in (5, 50, 170):
        if abs(mpmath.loggamma(n + 1) - mpmath.log(math.factorial(n))) > mpf(10) ** -40 * 1000:
            out.append(fail("corr", "internal: mpmath loggamma fails its self-test", "n=%d" % n))
    res = ctx["res"]
    # Pascal's rule and symmetry on the implementation's own table
    B = ctx["binom"]
    for (n, k), v in B.items():
        if not (0 <= k <= n):
            continue
        w = B.get((n, n - k))
        ex = Fraction(math.comb(n, k))
        big = " (n>170)" if n > 170 else " (n<=170)"
        if w is not None and not ratio(ctx, "binomial symmetry" + big, abs(Fraction(v) - Fraction(w)), binom_tol(n, ex, ULP_BINOM_LAWS)):
            out.append(dict(fail("prop", "Binomial_Coefficient is not symmetric: C(n,k) != C(n,n-k)", "n=%d k=%d %r vs %r" % (n, k, v, w)), req="c06.binom %d %d" % (n, k)))
        if n >= 1 and 1 <= k <= n - 1:
            u1, u2 = B.get((n - 1, k - 1)), B.get((n - 1, k))
            if u1 is not None and u2 is not None:
                big = " (n>170)" if n > 170 else " (n<=170)"
                if not ratio(ctx, "Pascal's rule" + big, abs(Fraction(v) - Fraction(u1) - Fraction(u2)), binom_tol(n, ex, ULP_BINOM_LAWS)):
                    out.append(dict(fail("prop", "Pascal's rule violated: C(n,k) != C(n-1,k-1)+C(n-1,k)", "n=%d k=%d" % (n, k)), req="c06.binom %d %d" % (n, k)))
    # Gamma(x+1) = x Gamma(x), GammaLn(x+1) = GammaLn(x) + log x
    for x, r0, r1, l0, l1 in ctx["recur"]:
        g = [res.get(r) for r in (r0, r1, l0, l1)]
        if any(v is None or tag(v) != "ok" for v in g):
            continue
        g0, g1, ln0, ln1 = [fl(toks(v)[0]) for v in g]
        if math.isfinite(g1) and g1 > 0:
            sc = 2 + abs(ln0) + abs(ln1)
            if not ratio(ctx, "Gamma(x+1)=x Gamma(x)", abs(Fraction(g1) - Fraction(x) * Fraction(g0)), ULP_GREC * 2 * EPS * Fraction(g1)):
                out.append(dict(fail("prop", "recurrence Gamma(x+1) = x*Gamma(x) violated beyond rounding", "x=%r %r vs %r" % (x, g1, x * g0)), req=r0))
        if not ratio(ctx, "GammaLn(x+1)=GammaLn(x)+log x", abs(mpf(ln1) - mpf(ln0) - mpmath.log(mpf(x))), K_REC * EPSF * (2 + abs(ln0) + abs(ln1) + abs(math.log(x)))):
            out.append(dict(fail("prop", "recurrence GammaLn(x+1) = GammaLn(x)+log x violated beyond rounding", "x=%r" % x), req=l0))
    # monotone in x on sorted grids
    for op, a, pts, reqs in ctx["mono"]:
        vals = []
        for x, r in zip(pts, reqs):
            v = res.get(r)
            if v is None or tag(v) != "ok":
                vals = None
                break
            vals.append(fl(toks(v)[0]))
        if not vals:
            continue
        sgn = -1 if op == "c06.gammaq" else 1     # Q decreases, P increases
        for i in range(len(vals) - 1):
            wrong = sgn * (vals[i] - vals[i + 1])   # > 0 means the wrong direction
            if wrong <= 0:
                continue
            lx = abs(math.log(pts[i + 1])) if pts[i + 1] > 0 else 0
            slack = K_MONO * EPSF * (1 + (pts[i + 1] + a * lx + abs(float(mpmath.loggamma(a))) + 8) * min(1.0, max(vals[i], vals[i + 1], 1 - vals[i]))) if a <= 100 else MONO_A_LARGE
            if not ratio(ctx, "monotone in x (a%s100)" % ("<=" if a <= 100 else ">"), wrong, slack):
                out.append(dict(fail("prop", "Gamma%s is not monotone in x" % ("Q" if sgn < 0 else "P"),
                                     "a=%r x=%r -> %r, x=%r -> %r" % (a, pts[i], vals[i], pts[i + 1], vals[i + 1])), req=reqs[i + 1]))
                break
    return out
