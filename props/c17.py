"""C17 — scalar special functions and vector spherical harmonics match their definitions."""
import math, random
from fractions import Fraction
from common import *

RULE = ("requests are drawn from VERIF_SEED (Round: 600 decades x digits 1..7 incl. neighbours of powers of ten; Dawson/Erfi: "
        "|x| <= 30 incl. both sides of |x| = 0.2 and the nodes of the sampling sum; Inv_Erf: (-1,1) up to 1-1e-12) or enumerated "
        "(Sign/Step tables; every (l,m), l <= L, x components x (l_hat,m_hat) in a 5x5 window; every (l,m) x special and random "
        "directions); a case is non-trivial when the model answers ok/err and is counted once per (op, branch/selection class, "
        "l, m, direction class, digits, decade) key")
CORR_ONLY = ["accuracy of Dawson_Integral (2e-7 absolute), Erfi (1e-6 relative), Inv_Erf (1e-4) against mpmath",
             "point-wise identities of the harmonics (Y_{l,-m} = (-1)^m conj Y_{l,m}; vector Y = r_hat Y_lm; Psi tangential and = r grad Y_lm) "
             "against an independent reference (associated-Legendre recurrence in 40-digit arithmetic, validated against mpmath.spherharm)",
             "Boost spherical_harmonic itself; the summation loops of Vector_Spherical_Harmonics_Y/Psi (checked through the model's coefficient tables)"]
ASSUMPTIONS = ["Erfi is evaluated for |x| <= 26.71 (the property states 'all real arguments (|x|<=30 for Dawson/Erfi ...)'; Dawson is evaluated on all of it): "
               "erfi(26.71) = 1.449e308 is the last tested value below DBL_MAX = 1.797e308, erfi(26.72) = 2.47e308 exceeds it, so beyond 26.71 the true value is not a double "
               "and no double implementation can meet a relative accuracy (Erfi returns inf there)",
               "Round half-unit clause: for inputs within 2^-40 (relative) of a tie of the d-th digit the double product prefactor*10^(d-1) decides the direction, "
               "so the bound is half a unit + 4 ulp(x) there (half*(1+2^-30) everywhere else); examples on HEAD: Round(-9.9999995e-157,7) = -1e-156, "
               "Round(9.999999499999999e+130,7) = 1e+131, Round(5.9682484999999994e+131,7) = 5.968249e+131 (each at most 1 ulp(x) beyond half a unit)",
               "generated arguments of Round keep a relative margin 2^-40 from the rounding boundary floor(p + 0.5) unless the arithmetic is exact; "
               "Dawson arguments within 1e-9 of a node switch |x| = 0.8k + 0.4 are compared at the stated accuracy only",
               "harmonics relative to their magnitude: Spherical_Harmonics within 64 eps |Y_lm| (worst on HEAD 1.1e-16 relative, polar caps theta resp. pi-theta from the "
               "subnormals to 1e-1 included), every component of the vector harmonics within 64 eps x sum of |coefficient x Y_{l_hat,m_hat}| (the terms of the coded sum cancel, "
               "so a component can only be judged relative to its terms; worst on HEAD 3.6e-16); below the normal double range an absolute 2^-1022 (underflow) is allowed",
               "call sequences: each result is compared bit for bit with the same call made by the harness executable in a fresh process (no earlier call of the function)",
               "Dawson_Integral / Erfi outside the stated |x| <= 30: for |x| >= 8.6e8 the node index n0 = 2*int(0.5|x|/H + 0.5) overflows int (UBSan: signed integer overflow) and "
               "Dawson_Integral(1e9) is NaN - outside the property's domain, not generated (audit item P12); the asymptotic 1/(2x) would be a two-line guard",
               "Round with zero significant digits (outside the stated d = 1..7) must stop with a diagnostic (f9320d5; before, Round(x,0) = inf): strict clause, mirrored in the model (roundSigG)",
               "Floats_Equal: the decision is compared with the model unless the tolerance is within 2^-30 (relative) of the relative difference AND the double "
               "computation of |a-b|/max(|a|,|b|) is inexact (exact boundary cases tol == relative difference are compared: they separate <= from <); "
               "reflexivity and symmetry are unconditional for every tolerance >= 0"]
TRUSTED = ["mpmath (erfi, erfinv, sqrt, spherharm for the self-test of the reference)", "the driver's rational exp (validated here against mpmath on every Dawson/Erfi request)"]

LMAX = 12

# Pending repair proposed to the integrator (True = the behaviour of /repo HEAD is tolerated; LP_ASSUME_FIXED=ROUND0 switches the strict clause on)
PENDING_ROUND0 = False      # Round(x, 0) returns inf instead of stopping with a diagnostic (/tmp/fixprop-C17-2)


def pending(item):
    import os
    return {"ROUND0": PENDING_ROUND0}[item] and item not in os.environ.get("LP_ASSUME_FIXED", "").split(",")


def mp():
    import mpmath
    mpmath.mp.dps = 40
    return mpmath


# ---------------------------------------------------------------------------------------------------
# reference spherical harmonics (Condon-Shortley phase), 40 digits
# ---------------------------------------------------------------------------------------------------

_FACT = [1]
for _i in range(1, 64):
    _FACT.append(_FACT[-1] * _i)


def yref(l, m, th, ph):
    M = mp()
    th, ph = M.mpf(th), M.mpf(ph)
    if l < 0 or abs(m) > l:
        return M.mpc(0)
    if m < 0:
        return (-1) ** (-m) * M.conj(yref(l, -m, th, ph))
    x, s = M.cos(th), M.sin(th)
    pmm = M.mpf(1)
    for k in range(1, m + 1):
        pmm *= -(2 * k - 1) * s
    if l == m:
        p = pmm
    else:
        pm1 = x * (2 * m + 1) * pmm
        if l == m + 1:
            p = pm1
        else:
            a, b = pmm, pm1
            for ll in range(m + 2, l + 1):
                a, b = b, ((2 * ll - 1) * x * b - (ll + m - 1) * a) / (ll - m)
            p = b
    n = M.sqrt(M.mpf(2 * l + 1) / (4 * M.pi) * M.mpf(_FACT[l - m]) / _FACT[l + m])
    return n * p * M.expj(m * ph)


def dtheta_yref(l, m, th, ph):
    """d/dtheta Y_lm = m cot(theta) Y_lm + sqrt((l-m)(l+m+1)) e^{-i phi} Y_{l,m+1}"""
    M = mp()
    th, ph = M.mpf(th), M.mpf(ph)
    return m * M.cot(th) * yref(l, m, th, ph) + M.sqrt((l - m) * (l + m + 1)) * M.expj(-ph) * yref(l, m + 1, th, ph)


_SELFTEST = []


def selftest():
    if _SELFTEST:
        return _SELFTEST[0]
    M = mp()
    ok = True
    for (l, m, th, ph) in [(0, 0, 0.3, 1.0), (1, 1, 1.1, 0.4), (2, -1, 2.0, 3.0), (5, 3, 0.7, 5.0), (12, -12, 1.3, 0.2), (12, 7, 2.9, 4.4), (7, 0, 1.0, 1.0)]:
        a, b = yref(l, m, th, ph), M.spherharm(l, m, th, ph)
        ok &= abs(a - b) < M.mpf(10) ** -25
        h = M.mpf(10) ** -12
        fd = (yref(l, m, th + h, ph) - yref(l, m, th - h, ph)) / (2 * h)
        ok &= abs(fd - dtheta_yref(l, m, th, ph)) < M.mpf(10) ** -15
    _SELFTEST.append(bool(ok))
    return _SELFTEST[0]


# ---------------------------------------------------------------------------------------------------

def expo10(q):
    q = abs(q)
    e = len(str(q.numerator)) - len(str(q.denominator))
    while Fraction(10) ** e > q:
        e -= 1
    while Fraction(10) ** (e + 1) <= q:
        e += 1
    return e


def round_margin_ok(x, d):
    if x == 0:
        return True
    q = abs(Fraction(x))
    s = q * Fraction(10) ** (d - 1 - expo10(q)) + Fraction(1, 2)
    return abs(s - round(s)) > s / 2 ** 40


def gen_round_value(rng):
    k = rng.randrange(8)
    e = rng.randint(-298, 298)
    if k == 0:
        return rng.choice([-1, 1]) * rng.uniform(1, 10) * 10.0 ** e
    if k == 1:   # just below / above a power of ten
        p = 10.0 ** rng.randint(-290, 290)
        return rng.choice([-1, 1]) * rng.choice([math.nextafter(p, 0), p, math.nextafter(p, math.inf), math.nextafter(math.nextafter(p, 0), 0)])
    if k == 2:
        return float(rng.randint(-10 ** 9, 10 ** 9))
    if k == 3:
        return rng.choice([-1, 1]) * rng.choice([0.99999999, 0.999, 0.9995001, 0.99949, 9.9949, 9.9951, 4.5001, 4.4999]) * 10.0 ** e
    if k == 4:
        return rng.randint(-99999999, 99999999) / 10.0 ** rng.randint(0, 12)
    if k == 5:
        return rng.gauss(0, 1)
    if k == 6:
        return rng.choice([-1, 1]) * rng.uniform(1, 10) * 10.0 ** rng.randint(-3, 3)
    return 0.0


DIR_SPECIAL = [("pole+", 0.0, 0.3), ("pole-", math.pi, 1.0), ("equator", math.pi / 2, 0.7), ("x", math.pi / 2, 0.0), ("y", math.pi / 2, math.pi / 2),
               ("-x", math.pi / 2, math.pi), ("-y", math.pi / 2, 1.5 * math.pi), ("pole+0", 0.0, 0.0), ("nearpole", 1e-7, 2.0)]


def generate(tier, seed, ctx):
    rng = random.Random(seed * 15485863 + 17)
    thorough = tier == "thorough"
    R = []
    vals = [0.0, -0.0, 1.0, -1.0, 2.5, -2.5, 1e-300, -1e-300, 1e300, -1e300, 5e-324, 0.2, -0.2]
    for x in vals:
        R.append("c17.sign1 " + hx(x))
        R.append("c17.step " + hx(x))
        for y in vals:
            R.append("c17.sign2 %s %s" % (hx(x), hx(y)))
    for _ in range(300 if thorough else 80):
        x = rng.choice([rng.gauss(0, 1), mixed_magnitude(rng, -200, 200), 0.0])
        R.append("c17.sign1 " + hx(x))
        R.append("c17.step " + hx(x))
        R.append("c17.sign2 %s %s" % (hx(x), hx(rng.choice([rng.gauss(0, 1), 0.0, -0.0, x, -x]))))
    # Relative_Difference / Floats_Equal
    pairs = [(0.0, 0.0), (1.0, 1.0), (-3.5, -3.5), (0.0, 1.0), (1.0, 0.0), (0.0, -2.0), (1.0, -1.0), (1e-300, 1e-300), (5e-324, 0.0), (1e300, -1e300), (-0.0, 0.0)]
    for _ in range(400 if thorough else 120):
        a = dyadic(rng, -1024, 1024, 6) * 2.0 ** rng.randint(-40, 40)
        c = rng.random()
        b = a if c < 0.15 else a * (1 + 2.0 ** -rng.randint(3, 40)) if c < 0.5 else dyadic(rng, -1024, 1024, 6) * 2.0 ** rng.randint(-40, 40) if c < 0.9 else -a
        pairs.append((a, b))
    # exact boundaries tol == relative difference (separate <= from <), and the zero tolerance
    for (a, b, t) in [(1.0, 0.5, 0.5), (1.0, 0.0, 1.0), (-4.0, -3.0, 0.25), (8.0, 7.0, 0.125), (1.0, -1.0, 2.0), (3.0, 3.0, 0.0), (0.0, 0.0, 0.0),
                      (1e300, 1e300, 0.0), (-5e-324, -5e-324, 0.0), (2.0, 1.0, 0.5), (1.5, 0.75, 0.5)]:
        R.append("c17.feq %s %s %s" % (hx(a), hx(b), hx(t)))
    for (a, b) in pairs:
        R.append("c17.reldiff %s %s" % (hx(a), hx(b)))
        fa, fb = Fraction(a), Fraction(b)
        d, mx = abs(fa - fb), max(abs(fa), abs(fb))
        rd = 0 if d == 0 else d / mx
        for t in ([1e-10, 1e-3, 0.0] + ([float(rd) * 1.0000001, float(rd) * 0.9999999] if 1e-300 < rd < 1e300 else [])):
            R.append("c17.feq %s %s %s" % (hx(a), hx(b), hx(t)))
    # Round
    for k in range(3000 if thorough else 700):
        d = rng.randint(1, 7)
        for _ in range(40):
            x = gen_round_value(rng)
            if round_margin_ok(x, d) and (x == 0 or 1e-299 < abs(x) < 1e299):
                break
        else:
            x = 1.5
        R.append("c17.round %s %d" % (hx(x), d))
    # carries (the rounded mantissa reaches 10^d), ties in the d-th digit +- a few ulp, neighbours of powers of ten: the
    # laws (odd, idempotent, monotone) are judged BITWISE on the implementation; the model is compared where the
    # rounding decision keeps its margin
    def carry_value(kind):
        d = rng.randint(1, 7)
        e = rng.randint(-298, 298)
        sg = rng.choice([-1.0, 1.0])
        if kind == 0:
            x = 10.0 ** e * (1 - rng.uniform(1e-9, 0.6) * 10.0 ** -d)
        elif kind == 1:
            x = (rng.randint(10 ** (d - 1), 10 ** d - 1) + 0.5) * 10.0 ** (e - d + 1)
            for _ in range(rng.randint(0, 3)):
                x = math.nextafter(x, rng.choice([0.0, math.inf]))
        elif kind == 2:
            x = 10.0 ** e
            tgt = rng.choice([0.0, math.inf])
            for _ in range(rng.randint(0, 3)):
                x = math.nextafter(x, tgt)
        else:
            x = 10.0 ** e * (1 - (0.5 + rng.choice([-1, 1]) * 10.0 ** -rng.randint(1, 14)) * 10.0 ** -d)
        return sg * x, d
    for k in range(2400 if thorough else 600):
        x, d = carry_value(k % 4)
        R.append("c17.round %s %d" % (hx(x), d))
    for k in range(240 if thorough else 60):
        d = rng.randint(1, 7)
        R.append("c17.roundV %s %d" % (lst([carry_value(rng.randrange(4))[0] for _ in range(rng.randint(1, 5))]), d))
    for d in range(1, 8):
        for rep in range(36 if thorough else 8):
            R.append("c17.roundscan %d %d %d %s %d" % (d, rng.randint(-298, 298), 200, hx(rng.random()), rng.choice([-1, 1])))
    for x in (3.0, -0.25, 1e300, 0.0, 123456.789):
        R.append("c17.round %s 0" % hx(x))
    R.append("c17.roundV %s 0" % lst([1.5, -2.5]))
    for (x, d) in [(2.5, 1), (3.5, 1), (-2.5, 1), (1.25, 2), (0.0, 1), (0.0, 9), (1.0, 8), (123.0, 8), (5.0, 0), (1000.0, 1), (1000.0, 3), (999.0, 2), (9.5, 1),
                   (99.5, 2), (1e22, 3), (1e-22, 3), (1.0, 7), (123456789.0, 7)]:
        R.append("c17.round %s %d" % (hx(x), d))
    # monotonicity families: dense neighbours around a rounding step
    ctx["mono"] = {}
    for k in range(60 if thorough else 20):
        d = rng.randint(1, 5)
        base = rng.uniform(1, 10) * 10.0 ** rng.randint(-20, 20)
        fam = sorted(base * (1 + j * 10.0 ** (-d) / 7.3) for j in range(-8, 9))
        for x in fam:
            if round_margin_ok(x, d):
                R.append("c17.round %s %d" % (hx(x), d))
    for k in range(60 if thorough else 20):
        n = rng.randint(0, 6)
        d = rng.randint(1, 7) if k % 6 else 8
        xs = []
        for _ in range(n):
            for _ in range(40):
                x = gen_round_value(rng)
                if round_margin_ok(x, min(d, 7)) and (x == 0 or 1e-299 < abs(x) < 1e299):
                    break
            else:
                x = 1.5
            xs.append(x)
        R.append("c17.roundV %s %d" % (lst(xs), d))
    # Dawson / Erfi
    xs = [0.0, 0.2, math.nextafter(0.2, 0), math.nextafter(0.2, 1), -0.2, 0.19, 0.21, 1e-300, 1e-8, 0.1, 0.4, 1.2, 2.0, 30.0, -30.0, 29.999, 0.924, 0.5, 1.0, 5.0, 10.0, 26.0,
          26.639, -26.639, 26.64, -26.64, 26.7, 26.71, -26.71, 26.5, 26.3, -26.1]
    xs += [rng.choice([-1, 1]) * rng.uniform(25.0, 26.71) for _ in range(120 if thorough else 30)]
    xs += [rng.choice([-1, 1]) * rng.uniform(26.6395, 26.71) for _ in range(60 if thorough else 20)]   # where 2/sqrt(pi)*exp(x^2) alone overflows
    for _ in range(2000 if thorough else 500):
        c = rng.random()
        xs.append(rng.choice([-1, 1]) * (rng.uniform(0, 0.4) if c < 0.25 else rng.uniform(0, 3) if c < 0.6 else rng.uniform(0, 30)))
    for k in range(0, 38):
        b = 0.8 * k + 0.4
        xs += [b, math.nextafter(b, 0), math.nextafter(b, 40), b - 1e-6, b + 1e-6]
    for x in xs:
        if abs(x) <= 30:
            R.append("c17.dawson " + hx(x))
        if abs(x) <= 26.71:
            R.append("c17.erfi " + hx(x))
    # Inv_Erf
    ps = [0.0, 0.5, -0.5, 0.999, -0.999, 1 - 1e-6, 1 - 1e-9, 1 - 1e-12, -1 + 1e-12, 1.0, -1.0, 1.5, -2.0, 1 - 1e-17, 1e-300, 1e-5, -1e-5,
          math.nextafter(1.0, 2.0), math.nextafter(-1.0, -2.0), math.nextafter(1.0, 0.0), math.nextafter(-1.0, 0.0), -1.0000001]
    for _ in range(600 if thorough else 150):
        c = rng.random()
        ps.append(rng.uniform(-1, 1) if c < 0.5 else rng.choice([-1, 1]) * (1 - 10.0 ** rng.uniform(-12, -1)) if c < 0.9 else rng.uniform(-1e-3, 1e-3))
    for p in ps:
        R.append("c17.inverf " + hx(p))
    # dense scan of the accuracy clause in log(1 - |p|), 1e-12 .. 1, either sign; one request per decade
    # (the bisection/Ridder path from [-10,10] is fixed, so an error can hide in narrow bands of 1 - |p|)
    step = 5e-4 if thorough else 1e-3
    off = rng.random()
    for sg in (1, -1):
        for dec in range(-12, 0):
            R.append("c17.inverfscan %d %s %s %s %s" % (sg, hx(10.0 ** dec), hx(10.0 ** (dec + 1)), hx(step), hx(off)))
    # dense scan of Dawson (2e-7 absolute) and Erfi (1e-6 relative) on |x| <= 1, where the series/sum switch lies
    n = 10000 if thorough else 2000
    off = rng.random()
    for sg in (1, -1):
        R.append("c17.dawscan %d %s %s %d %s" % (sg, hx(0.0), hx(1.0), n, hx(off)))
    # coefficient tables
    lmax_tab = LMAX if thorough else 5
    for l in range(0, lmax_tab + 1):
        for m in range(-l, l + 1):
            R.append("c17.vshsum %d %d" % (l, m))     # l = 0 included: the l_hat = -1 entries vanish, the sums are 1 and 0
            for comp in (0, 1, 2):
                for lh in range(l - 2, l + 3):
                    for mh in range(m - 2, m + 3):
                        R.append("c17.vshy %d %d %d %d %d" % (comp, l, m, lh, mh))
                        R.append("c17.vshpsi %d %d %d %d %d" % (comp, l, m, lh, mh))
    if not thorough:
        for _ in range(300):
            l = rng.randint(6, LMAX)
            m = rng.randint(-l, l)
            R.append("c17.vshsum %d %d" % (l, m))
            comp = rng.randint(0, 2)
            lh, mh = l + rng.choice([-1, 1, -1, 1, 0, 2]), m + rng.choice([-1, 0, 1])
            R.append("c17.vshy %d %d %d %d %d" % (comp, l, m, lh, mh))
            R.append("c17.vshpsi %d %d %d %d %d" % (comp, l, m, lh, mh))
    for comp in (-1, 3, 7, -100):
        R.append("c17.vshy %d 2 1 3 2" % comp)
        R.append("c17.vshpsi %d 2 1 1 0" % comp)
    # point-wise harmonics: every (l,m), l <= 12
    ndir = 6 if thorough else 1
    for l in range(0, LMAX + 1):
        for m in range(-l, l + 1):
            dirs = [rng.choice(DIR_SPECIAL)] + [("rnd", rng.uniform(0.01, math.pi - 0.01), rng.uniform(0, 2 * math.pi)) for _ in range(ndir)]
            if thorough or l == 0:
                dirs += DIR_SPECIAL
            for (nm, th, ph) in dirs:
                R.append("c17.sph %d %d %s %s" % (l, m, hx(th), hx(ph)))
                # l = 0 is inside the quantifier: Y = r_hat / sqrt(4 pi), Psi = 0
                R.append("c17.vshY %d %d %s %s" % (l, m, hx(th), hx(ph)))
                R.append("c17.vshPsi %d %d %s %s" % (l, m, hx(th), hx(ph)))
    # class D: no history at all (calls made before main(), during the static initialisation of another translation
    # unit), and several results of the vector harmonics alive at the same time
    R.append("c17.premain")
    for k in range(120 if thorough else 40):
        kind = "Y" if k % 2 == 0 else "Psi"
        l = rng.randint(0 if kind == "Y" else 1, LMAX)
        m = rng.randint(-l, l)
        trip = []
        for j in range(3):
            c = rng.random()
            if j == 0 or c < 0.34:
                lj, mj = l, m                      # same (l,m), another direction
            elif c < 0.67:
                lj, mj = l, -m                     # the partner of the conjugation identity
            else:
                lj = rng.randint(1, LMAX); mj = rng.randint(-lj, lj)
            nm, th, ph = rng.choice(DIR_SPECIAL) if rng.random() < 0.25 else ("rnd", rng.uniform(0.01, math.pi - 0.01), rng.uniform(0, 2 * math.pi))
            trip.append("%d %d %s %s" % (lj, mj, hx(th), hx(ph)))
        R.append("c17.vshhold %s %s" % (kind, " ".join(trip)))
    # consecutive calls for the same (l,m) in directions that agree to 1 ulp ... 1e-9 (relative) in one or both angles
    def nudge(x, rel):
        if rel == "ulp":
            return math.nextafter(x, rng.choice([0.0, 10.0]))
        return x * (1 + rng.choice([-1, 1]) * rel)
    for k in range(150 if thorough else 50):
        l = rng.randint(1, LMAX)
        m = rng.randint(-l, l)
        th, ph = rng.uniform(0.05, math.pi - 0.05), rng.uniform(0.1, 2 * math.pi)
        rel = rng.choice(["ulp", 1e-14, 1e-12, 6e-11, 1e-9])
        which = k % 3
        th2 = nudge(th, rel) if which in (0, 2) else th
        ph2 = nudge(ph, rel) if which in (1, 2) else ph
        kinds = [("Y", "Y"), ("Y", "Psi"), ("Psi", "Y"), ("Psi", "Psi")][(k // 3) % 4]
        calls = [(kinds[0], l, m, th, ph), (kinds[1], l, m, th2, ph2)]
        if k % 5 == 0:
            calls.append((kinds[0], l, m, th, ph))          # back to the first direction
        if k % 7 == 0:
            calls.insert(1, (kinds[1], l, -m, th, ph))       # the conjugation partner in between
        R.append("c17.vshseq %d %s" % (len(calls), " ".join("%s %d %d %s %s" % (c[0], c[1], c[2], hx(c[3]), hx(c[4])) for c in calls)))
    # polar caps: theta resp. pi - theta log-uniform from the subnormals to 1e-1, every (l,m): Y_lm ~ sin^|m| theta is small but
    # not zero there and is judged relative to its magnitude
    for l in range(0, LMAX + 1):
        for m in range(-l, l + 1):
            for rep in range(3 if thorough else 1):
                for south in (False, True):
                    c = rng.random()
                    if south:
                        eps_ = 10.0 ** rng.uniform(-16, -1) if c < 0.9 else rng.choice([1.3e-16, 5e-16, 1e-15])
                        th = math.pi - eps_
                    else:
                        th = 10.0 ** rng.uniform(-300, -1) if c < 0.8 else 10.0 ** rng.uniform(-12, -1) if c < 0.95 else rng.choice([5e-324, 1e-310, 2.3e-308])
                    ph = rng.uniform(0, 2 * math.pi)
                    R.append("c17.sph %d %d %s %s" % (l, m, hx(th), hx(ph)))
                    if rng.random() < (1.0 if thorough else 0.5):
                        R.append("c17.vshY %d %d %s %s" % (l, m, hx(th), hx(ph)))
                        if l >= 1:
                            R.append("c17.vshPsi %d %d %s %s" % (l, m, hx(th), hx(ph)))
    ctx["round_results"] = []
    ctx["worst"] = {}
    return R


# ---------------------------------------------------------------------------------------------------

def worst(ctx, key, v):
    w = ctx.setdefault("worst", {})
    v = float(v)
    if v > w.get(key, 0.0):
        w[key] = v
        ctx["stats"]["worst:" + key] = "%.3g" % v


def table_coef(kind, comp, l, m, lh, mh):
    """the model's tables re-stated for the point-wise reference (phase re, im and radicand q)"""
    L, Mm = Fraction(l), Fraction(m)
    a = (L + Mm + 1) * (L + Mm + 2) / (2 * L + 3) / (2 * L + 1)
    b = (L - Mm + 1) * (L - Mm + 2) / (2 * L + 3) / (2 * L + 1)
    c = (L - Mm - 1) * (L - Mm) / (2 * L - 1) / (2 * L + 1)
    d = (L + Mm - 1) * (L + Mm) / (2 * L - 1) / (2 * L + 1)
    e = (L - Mm + 1) * (L + Mm + 1) / (2 * L + 3) / (2 * L + 1)
    f = (L - Mm) * (L + Mm) / (2 * L - 1) / (2 * L + 1)
    up, dn, pp, pm = lh == l + 1, lh == l - 1, mh == m + 1, mh == m - 1
    if comp in (0, 1):
        if not ((up or dn) and (pp or pm)):
            return (0, 0, Fraction(0))
        q = a if up and pp else b if up and pm else c if dn and pp else d
        if kind == "Y":
            if comp == 0:
                re = Fraction(-1, 2) if (up and pp) or (dn and pm) else Fraction(1, 2)
                return (re, 0, q)
            im = Fraction(1, 2) if up else Fraction(-1, 2)
            return (0, im, q)
        if comp == 0:
            amp = L / 2 if up else (L + 1) / 2
            return (amp if pp else -amp, 0, q)
        amp = L if up else L + 1
        return (0, Fraction(-1, 2) * amp, q)
    if not ((up or dn) and mh == m):
        return (0, 0, Fraction(0))
    q = e if up else f
    if kind == "Y":
        return (1, 0, q)
    return (-L if up else L + 1, 0, q)


def expansion(kind, l, m, th, ph, with_scale=False):
    M = mp()
    out, scales = [], []
    for comp in range(3):
        s = M.mpc(0)
        sc = M.mpf(0)
        for lh in (l - 1, l + 1):
            for mh in (m - 1, m, m + 1):
                if abs(mh) <= lh:
                    re, im, q = table_coef(kind, comp, l, m, lh, mh)
                    if q != 0:
                        term = M.mpc(float(re), float(im)) * M.sqrt(M.mpf(q.numerator) / q.denominator) * yref(lh, mh, th, ph)
                        s += term
                        sc += abs(term)
        out.append(s)
        scales.append(sc)
    return (out, scales) if with_scale else out


def cplx(ts):
    return [complex(fl(ts[i]), fl(ts[i + 1])) for i in range(0, len(ts) - 1, 2)]


def compare(rq, impl, model, ctx):
    op = rq.split(" ", 1)[0]
    a = rq.split()[1:]
    bump(ctx, op)
    if op in ("c17.round", "c17.roundV") and int(a[-1]) == 0 and (op == "c17.round" or int(a[0]) > 0):
        # zero significant digits: a meaningless request (the property quantifies d = 1..7)
        if pending("ROUND0"):
            bump(ctx, "pending ROUND0: Round(x, 0)")
            return []
        if tag(impl) != "err":
            return [fail("prop", "Round with zero significant digits does not stop with a diagnostic", impl[:100])]
        return []
    if tag(model) == "undef":
        return []
    fs, both = std_outcome(rq, impl, model)
    if not both:
        if tag(model) == "err":
            ctx["nontrivial"].add((op, "err", a[-1] if op.startswith("c17.round") else a[0]))
        return fs
    ti, tm = toks(impl), toks(model)
    out = []
    M = mp()
    if op == "c17.sign1":
        x = fl(a[0])
        want = (x > 0) - (x < 0)
        if int(ti[0]) != want:
            out.append(fail("prop", "Sign(x) is not the sign of x", "%r -> %s" % (x, ti[0])))
        if int(ti[0]) != int(tm[0]):
            out.append(fail("corr", "Sign(x) differs from the model", ""))
        ctx["nontrivial"].add((op, want))
        return out
    if op == "c17.sign2":
        x, y = fl(a[0]), fl(a[1])
        v = [Fraction(fl(t)) for t in ti]
        m = fr(tm[0])
        sx, sy = (x > 0) - (x < 0), (y > 0) - (y < 0)
        if v[0] != m:
            out.append(fail("corr", "Sign(x,y) differs from the model's sign table", "Sign(%r,%r)=%r model %s" % (x, y, fl(ti[0]), float(m))))
        if abs(v[0]) != abs(Fraction(x)) or (sx * sy == 1 and v[0] != Fraction(x)) or (sx * sy == -1 and v[0] != -Fraction(x)):
            out.append(fail("prop", "Sign(x,y) is not +-x with the sign relation of x and y", "Sign(%r,%r)=%r" % (x, y, fl(ti[0]))))
        if sy != 0 and (v[1] != v[0] or v[2] != -v[0]):
            out.append(fail("prop", "Sign(x,y) does not depend on |x| and the sign of y only", "%r %r %r" % tuple(float(z) for z in v)))
        ctx["nontrivial"].add((op, sx, sy))
        return out
    if op == "c17.step":
        x = fl(a[0])
        if Fraction(fl(ti[0])) != (1 if x >= 0 else 0):
            out.append(fail("prop", "StepFunction is not 1 for x >= 0 and 0 otherwise", "%r -> %s" % (x, ti[0])))
        if Fraction(fl(ti[0])) != fr(tm[0]):
            out.append(fail("corr", "StepFunction differs from the model", ""))
        ctx["nontrivial"].add((op, x >= 0))
        return out
    if op == "c17.reldiff":
        v, w, m = fl(ti[0]), fl(ti[1]), fr(tm[0])
        if math.isnan(v) or (v != w):
            out.append(fail("prop", "Relative_Difference is NaN or not symmetric", "%r %r" % (v, w)))
        elif not close(v, m, m, 8, atol=Fraction(1, 2 ** 1070)):
            out.append(fail("corr", "Relative_Difference differs from the model", "impl %r model %r" % (v, float(m))))
        ctx["nontrivial"].add((op, m == 0, m == 2, m == 1))
        return out
    if op == "c17.feq":
        x, y, t = fl(a[0]), fl(a[1]), fl(a[2])
        r = [int(z) for z in ti]
        if r[0] != r[1]:
            out.append(fail("prop", "Floats_Equal is not symmetric", "(%r,%r,%r): %d %d" % (x, y, t, r[0], r[1])))
        if t >= 0 and (r[2] != 1 or r[3] != 1):      # unconditional: the zero tolerance included
            out.append(fail("prop", "Floats_Equal is not reflexive", "Floats_Equal(%r,%r)=%d, Floats_Equal(%r,%r)=%d (tol %r)" % (x, x, r[2], y, y, r[3], t)))
        rd = fr(tm[1])
        fx, fy = Fraction(x), Fraction(y)
        exact = (not math.isinf(x - y)) and Fraction(abs(x - y)) == abs(fx - fy) and (
            fx == fy or Fraction(abs(x - y) / max(abs(x), abs(y))) == rd)
        knife = rd != 0 and abs(Fraction(t) - rd) <= rd / 2 ** 30 and not exact
        if r[0] != int(tm[0]):
            if knife:
                ctx["excused"] += 1
            else:
                out.append(fail("corr", "Floats_Equal differs from the model", "impl %d model %s" % (r[0], tm[0])))
        ctx["nontrivial"].add((op, tm[0], rd == 0))
        return out
    if op == "c17.round":
        x, d = fl(a[0]), int(a[1])
        r, rneg, rr = fl(ti[0]), fl(ti[1]), fl(ti[2])
        m = fr(tm[0])
        q = Fraction(x)
        # the laws are exact statements about the implementation: bit for bit
        if not (rneg == -r):
            out.append(fail("prop", "Round is not odd", "Round(%r,%d)=%r Round(-x)=%r" % (x, d, r, rneg)))
        if not (rr == r):
            out.append(fail("prop", "Round is not idempotent", "Round(%r,%d)=%r (%s), rounded again %r (%s)" % (x, d, r, ti[0], rr, ti[2])))
        if q != 0:
            half = Fraction(10) ** (expo10(q) - d + 1) / 2
            # away from a tie the bound is the statement's; AT a tie of the d-th digit (within 2^-40) the double product
            # prefactor*10^(d-1) decides the direction, which costs at most the rounding of that arithmetic (4 ulp of x)
            bound = half * (1 + Fraction(1, 2 ** 30)) if round_margin_ok(x, d) else half + 4 * EPS * abs(q)
            if math.isnan(r) or abs(Fraction(r) - q) > bound:
                out.append(fail("prop", "Round(x,d) is farther than half a unit of the d-th significant digit from x", "Round(%r,%d)=%r" % (x, d, r)))
        elif r != 0:
            out.append(fail("prop", "Round(0) is not 0", repr(r)))
        if not round_margin_ok(x, d):
            ctx["excused"] += 1      # knife-edge of floor(p + 0.5) in double arithmetic: the model is not compared
        elif not close(r, m, m, 16):
            out.append(fail("corr", "Round differs from the model", "Round(%r,%d)=%r model %r" % (x, d, r, float(m))))
        ctx["round_results"].append((d, x, r))
        ctx["nontrivial"].add((op, d, expo10(q) // 20 if q else None, q < 0))
        return out
    if op == "c17.roundV":
        n = int(ti[0])
        v = [fl(t) for t in ti[1:1 + n]]
        mt = [fl(t) for t in ti[1 + n:1 + 2 * n]]
        mm = [fr(t) for t in tm[1:]]
        if n != int(tm[0]) or len(mt) != n:
            out.append(fail("prop", "Round(Vector/Matrix) changes the shape", ""))
        else:
            xs_ = read_floats(a)
            dd = int(a[-1])
            if v != mt:
                out.append(fail("prop", "Round(Vector) and Round(Matrix) differ on the same numbers", "%r %r" % (v, mt)))
            elif all(round_margin_ok(x_, min(dd, 7)) for x_ in xs_) and any(not close(x_, m_, m_, 16) for x_, m_ in zip(v, mm)):
                out.append(fail("corr", "Round(Vector)/Round(Matrix) differ from the element-wise model", "%r %r" % (v, mt)))
            again = [fl(t) for t in ti[1 + 2 * n:1 + 4 * n]]
            if len(again) == 2 * n and (again[:n] != v or again[n:] != mt):
                out.append(fail("prop", "Round is not idempotent", "Round(Vector/Matrix, %d) of %r = %r, rounded again %r" % (dd, xs_, v, again[:n])))
        ctx["nontrivial"].add((op, n))
        return out
    if op in ("c17.dawson", "c17.erfi"):
        x = fl(a[0])
        v, vneg = fl(ti[0]), fl(ti[1])
        if vneg != -v and not (v == 0 and vneg == 0):
            out.append(fail("prop", "%s is not odd" % ("Dawson_Integral" if op == "c17.dawson" else "Erfi"), "f(%r)=%r f(-x)=%r" % (x, v, vneg)))
        xm = M.mpf(x)
        if op == "c17.dawson":
            ref = M.sqrt(M.pi) / 2 * M.exp(-xm * xm) * M.erfi(xm)
            err = abs(M.mpf(v) - ref)
            worst(ctx, "dawson abs err", err)
            if not err <= 2e-7:
                out.append(fail("prop", "Dawson_Integral misses 2e-7 absolute accuracy", "D(%r)=%r, reference %s" % (x, v, M.nstr(ref, 12))))
            m = fr(tm[1])
            mm = M.mpf(m.numerator) / m.denominator
            if abs(mm - ref) > 3e-7:
                out.append(fail("corr", "model-internal: the driver's Dawson value is off", ""))
            node = abs(((abs(x) - 0.4) / 0.8) - round((abs(x) - 0.4) / 0.8)) * 0.8 < 1e-9 and abs(x) >= 0.3
            dev = abs(M.mpf(v) - mm) / max(abs(mm), M.mpf(10) ** -300)
            if node:
                ctx["excused"] += 1
            else:
                worst(ctx, "dawson rel dev from model", dev)
                if dev > 2e-12:
                    out.append(fail("corr", "Dawson_Integral differs from the model (constants H, A1..A3, c[i], sum structure)",
                                    "D(%r)=%r model %s" % (x, v, M.nstr(mm, 17))))
            ctx["nontrivial"].add((op, tm[0], int(abs(x) / 0.8), x < 0))
        else:
            ref = M.erfi(xm)
            if x != 0:
                err = abs(M.mpf(v) - ref) / abs(ref)
                worst(ctx, "erfi rel err", err)
                if not err <= 1e-6:
                    out.append(fail("prop", "Erfi misses 1e-6 relative accuracy", "Erfi(%r)=%r, reference %s" % (x, v, M.nstr(ref, 12))))
            elif v != 0:
                out.append(fail("prop", "Erfi(0) != 0", repr(v)))
            m = fr(tm[0])
            mm = M.mpf(m.numerator) / m.denominator
            if x != 0:
                node = abs(((abs(x) - 0.4) / 0.8) - round((abs(x) - 0.4) / 0.8)) * 0.8 < 1e-9 and abs(x) >= 0.3
                dev = abs(M.mpf(v) - mm) / abs(mm)
                if node:
                    ctx["excused"] += 1
                else:
                    worst(ctx, "erfi rel dev from model", dev)
                    if dev > 1e-11:
                        out.append(fail("corr", "Erfi differs from the model 2/sqrt(pi) exp(x^2) Dawson(x)", "Erfi(%r)=%r model %s" % (x, v, M.nstr(mm, 17))))
            ctx["nontrivial"].add((op, int(abs(x)), x < 0))
        return out
    if op == "c17.roundscan":
        return scan_round(a, ti, ctx)
    if op == "c17.premain":
        return cmp_premain(ti, ctx)
    if op == "c17.vshhold":
        return cmp_hold(a, ti, ctx)
    if op == "c17.vshseq":
        if not selftest():
            return [fail("corr", "internal: the reference harmonics fail their self-test against mpmath.spherharm", "")]
        return cmp_seq(a, ti, ctx)
    if op == "c17.inverfscan":
        return scan_inverf(a, ti, ctx)
    if op == "c17.dawscan":
        return scan_dawson(a, ti, ctx)
    if op == "c17.inverf":
        p = fl(a[0])
        v = fl(ti[0])
        if tm[0] in ("ten", "minusten"):
            want = 10.0 if tm[0] == "ten" else -10.0
            if v != want:
                out.append(fail("corr", "Inv_Erf next to +-1 does not return +-10", repr(v)))
            return out
        if 1 - abs(Fraction(p)) < Fraction(1, 10 ** 12):
            # the accuracy clause is stated on (-1,1) up to 1 - 1e-12; closer to +-1 erf saturates in double (only the outcome is compared)
            bump(ctx, "inverf beyond 1-1e-12 (outcome only)")
            return out
        ref = M.erfinv(M.mpf(p))
        err = abs(M.mpf(v) - ref)
        worst(ctx, "inverf abs err", err)
        if not err <= 1e-4:
            out.append(fail("prop", "Inv_Erf misses erfinv by more than 1e-4", "Inv_Erf(%r)=%r, erfinv=%s" % (p, v, M.nstr(ref, 12))))
        ctx["nontrivial"].add((op, int(-math.log10(max(1 - abs(p), 1e-17))), p < 0))
        return out
    if op in ("c17.vshy", "c17.vshpsi"):
        comp, l, m, lh, mh = [int(t) for t in a]
        z = complex(fl(ti[0]), fl(ti[1]))
        re, im, q = fr(tm[0]), fr(tm[1]), fr(tm[2])
        if q < 0:
            out.append(fail("corr", "model: negative radicand", ""))
            return out
        s = M.sqrt(M.mpf(q.numerator) / q.denominator)
        wr, wi = M.mpf(re.numerator) / re.denominator * s, M.mpf(im.numerator) / im.denominator * s
        tol = 8 * M.mpf(2) ** -53 * max(abs(wr), abs(wi), M.mpf(10) ** -300)
        if abs(M.mpf(z.real) - wr) > tol or abs(M.mpf(z.imag) - wi) > tol:
            out.append(fail("corr", "%s differs from the model's coefficient table" % ("VSH_Y_Component" if op == "c17.vshy" else "VSH_Psi_Component"),
                            "(%d;%d,%d;%d,%d) impl %r model (%s,%s)" % (comp, l, m, lh, mh, z, M.nstr(wr, 17), M.nstr(wi, 17))))
        sel = (abs(lh - l) == 1) and ((abs(mh - m) == 1) if comp < 2 else mh == m)
        if not sel and z != 0:
            out.append(fail("prop", "selection rule: a coefficient outside l_hat = l+-1, m_hat = m+-1 (resp. m) is not zero", "(%d;%d,%d;%d,%d) %r" % (comp, l, m, lh, mh, z)))
        ctx["nontrivial"].add((op, comp, lh - l, mh - m, q == 0, min(l, 3)))
        return out
    if op == "c17.vshsum":
        l = int(a[0])
        want = [Fraction(1), Fraction(l * (l + 1)), Fraction(0), Fraction(0)]
        got = [fr(t) for t in tm]
        if got != want:
            out.append(fail("corr", "model: sum rules of the coefficient tables (norm of Y = 1, norm of Psi = l(l+1), Y orthogonal to Psi) fail",
                            "%s" % [str(g) for g in got]))
        ctx["nontrivial"].add((op, l, int(a[1])))
        return out
    if op in ("c17.sph", "c17.vshY", "c17.vshPsi"):
        if not selftest():
            return [fail("corr", "internal: the reference harmonics fail their self-test against mpmath.spherharm", "")]
        l, m, th, ph = int(a[0]), int(a[1]), fl(a[2]), fl(a[3])
        thm, phm = M.mpf(th), M.mpf(ph)
        dirclass = "pole" if min(th, math.pi - th) < 1e-3 else "equator" if abs(th - math.pi / 2) < 1e-9 else "gen"
        ctx["nontrivial"].add((op, l, m, dirclass))
        tol = 2e-12 * (l + 1)
        if op == "c17.sph":
            z, zneg = cplx(ti)
            ref = yref(l, m, thm, phm)
            worst(ctx, "Y_lm abs err", abs(M.mpc(z) - ref))
            if abs(M.mpc(z) - ref) > tol:
                out.append(fail("prop", "Spherical_Harmonics differs from Y_lm", "Y_%d,%d(%r,%r)=%r ref %s" % (l, m, th, ph, z, M.nstr(ref, 12))))
            # relative to the magnitude of the value (Y_lm ~ sin^|m| theta near the poles is small but not zero): 64 eps |Y_lm|,
            # below the normal double range an absolute 2^-1022
            rel = abs(M.mpc(z) - ref) / abs(ref) if abs(ref) > M.mpf(2) ** -1000 else M.mpf(0)
            worst(ctx, "Y_lm rel err", rel)
            if abs(M.mpc(z) - ref) > K_SPH * 2.0 ** -53 * abs(ref) + M.mpf(2) ** -1022:
                out.append(fail("prop", "Spherical_Harmonics differs from Y_lm relative to its magnitude", "Y_%d,%d(%r,%r)=%r ref %s (relative error %s)" % (
                    l, m, th, ph, z, M.nstr(ref, 12), M.nstr(rel, 4))))
            if zneg != (-1) ** (m % 2) * z.conjugate():      # "equals": exact
                out.append(fail("prop", "Y_{l,-m} != (-1)^m conj(Y_{l,m})", "l=%d m=%d: %r vs %r" % (l, m, zneg, z)))
            return out
        n = int(ti[0])
        zs = cplx(ti[1:])
        vec, y = zs[:3], zs[3]
        if n != 3:
            return [fail("prop", "vector harmonic does not have three components", str(n))]
        return check_vec("Y" if op == "c17.vshY" else "Psi", l, m, th, ph, vec, out, ctx)
    return [fail("corr", "unknown op " + op)]


K_SPH = 64        # relative tolerance (eps) of Spherical_Harmonics against the 40-digit reference
K_VEC = 64        # forward-error tolerance (eps x sum of |terms|) of the components of the vector harmonics


def check_vec(kind, l, m, th, ph, vec, out, ctx, label=""):
    """the point-wise clauses of one vector harmonic: = r_hat Y_lm resp. tangential and = r grad Y_lm (absolute, 64 eps), and every
    component against the definition RELATIVE to the magnitude of its terms (so that small non-zero components near the poles
    are judged)"""
    M = mp()
    thm, phm = M.mpf(th), M.mpf(ph)
    op = "c17.vsh" + kind
    fn = "Vector_Spherical_Harmonics_" + kind
    dirclass = "pole" if min(th, math.pi - th) < 1e-3 else "equator" if abs(th - math.pi / 2) < 1e-9 else "gen"
    tol = 2e-12 * (l + 1)
    rhat = [M.sin(thm) * M.cos(phm), M.sin(thm) * M.sin(phm), M.cos(thm)]
    exp_, scales = expansion(kind, l, m, thm, phm, with_scale=True)
    dev = max(abs(M.mpc(vec[i]) - exp_[i]) for i in range(3))
    worst(ctx, op + " dev from table expansion", dev)
    tol_v = 64 * 2.0 ** -53         # audit: worst 4.4e-16 / 2.7e-16 on HEAD
    where = "%sl=%d m=%d (%r,%r)" % (label, l, m, th, ph)
    # relative to the terms: |component - definition| <= 64 eps * sum |coefficient * Y_{l_hat,m_hat}|
    for i in range(3):
        e_ = abs(M.mpc(vec[i]) - exp_[i])
        if scales[i] > M.mpf(2) ** -1000:
            worst(ctx, "vector %s err / sum|terms|" % kind, e_ / scales[i])
        if e_ > K_VEC * 2.0 ** -53 * scales[i] + M.mpf(2) ** -1022:
            out.append(fail("prop", "%s: component %d differs from the definition relative to the magnitude of its terms" % (fn, i),
                            "%s: %r, definition %s, sum |terms| %s" % (where, vec[i], M.nstr(exp_[i], 12), M.nstr(scales[i], 4))))
            break
    if kind == "Y":
        ref = [rhat[i] * yref(l, m, thm, phm) for i in range(3)]
        err = max(abs(M.mpc(vec[i]) - ref[i]) for i in range(3))
        worst(ctx, "vector Y abs err", err)
        if err > tol_v:
            out.append(fail("prop", "Vector_Spherical_Harmonics_Y differs from r_hat * Y_lm", "%s: %r ref %s" % (where, vec, [M.nstr(r, 10) for r in ref])))
        elif dev > tol:
            out.append(fail("corr", "Vector_Spherical_Harmonics_Y differs from the expansion with the model's table", ""))
        return out
    # Psi: tangential, = r grad Y
    lm_scale = math.sqrt(l * (l + 1)) + 1
    rad = sum(rhat[i] * M.mpc(vec[i]) for i in range(3))
    worst(ctx, "Psi radial part", abs(rad))
    if abs(rad) > tol_v * lm_scale:
        out.append(fail("prop", "Vector_Spherical_Harmonics_Psi is not tangential", "%s: r.Psi=%s" % (where, M.nstr(rad, 6))))
    if dirclass != "pole":
        th_hat = [M.cos(thm) * M.cos(phm), M.cos(thm) * M.sin(phm), -M.sin(thm)]
        ph_hat = [-M.sin(phm), M.cos(phm), 0]
        dth = dtheta_yref(l, m, thm, phm)
        dph = M.mpc(0, m) * yref(l, m, thm, phm) / M.sin(thm)
        ref = [th_hat[i] * dth + ph_hat[i] * dph for i in range(3)]
    else:
        ref = exp_   # at the poles the gradient formula is singular: reference through the expansion
    err = max(abs(M.mpc(vec[i]) - ref[i]) for i in range(3))
    worst(ctx, "Psi abs err", err)
    if err > tol * lm_scale * (1 if dirclass != "pole" else 10):
        out.append(fail("prop", "Vector_Spherical_Harmonics_Psi differs from r grad Y_lm", "%s: %r ref %s" % (where, vec, [M.nstr(r, 10) for r in ref])))
    return out


def cmp_seq(a, ti, ctx):
    """consecutive calls in one process: every result bit for bit equal to the same call in a fresh process, and equal to the definition"""
    out = []
    n = int(a[0])
    calls = [(a[1 + 5 * i], int(a[2 + 5 * i]), int(a[3 + 5 * i]), fl(a[4 + 5 * i]), fl(a[5 + 5 * i])) for i in range(n)]
    i = 0
    for j, (kind, l, m, th, ph) in enumerate(calls):
        k = int(ti[i])
        seq = ti[i + 1:i + 1 + 2 * k]
        i += 1 + 2 * k
        kf = int(ti[i])
        fresh = ti[i + 1:i + 1 + kf]
        i += 1 + kf
        hist = ", ".join("%s(%d,%d,%r,%r)" % (c[0], c[1], c[2], c[3], c[4]) for c in calls[:j]) or "-"
        if kf != 2 * k or k != 3:
            out.append(fail("corr", "fresh-process evaluation of a vector harmonic did not run", "%d %d" % (k, kf)))
            continue
        if [fl(t) for t in seq] != [fl(t) for t in fresh] or any(math.isnan(fl(t)) for t in seq):
            out.append(fail("prop", "a vector harmonic depends on the calls made before it (differs from the same call in a fresh process)",
                            "Vector_Spherical_Harmonics_%s(%d,%d,%r,%r) after [%s]: %s, in a fresh process: %s" % (
                                kind, l, m, th, ph, hist, [fl(t) for t in seq], [fl(t) for t in fresh])))
            break
        check_vec(kind, l, m, th, ph, cplx(seq), out, ctx, label="after [%s]: " % hist)
        if out:
            break
    ctx["nontrivial"].add(("vshseq", n, tuple(c[0] for c in calls), min(calls[0][1], 3)))
    return out


def read_floats(a):
    n = int(a[0])
    return [fl(t) for t in a[1:1 + n]]


def scan_round(a, ti, ctx):
    """bitwise laws of Round on a dense family of carries; monotone along the scan"""
    out = []
    d = int(a[0])
    pts = [(fl(ti[i]), fl(ti[i + 1]), fl(ti[i + 2]), fl(ti[i + 3]), ti[i + 1], ti[i + 3]) for i in range(0, len(ti) - 3, 4)]
    bump(ctx, "roundscan points", len(pts))
    bad_i = [p for p in pts if not (p[3] == p[1])]
    bad_o = [p for p in pts if not (p[2] == -p[1])]
    if bad_i:
        p = bad_i[0]
        out.append(fail("prop", "Round is not idempotent", "%d of %d scanned carries; first: Round(%r,%d)=%r (%s), rounded again %r (%s)" % (
            len(bad_i), len(pts), p[0], d, p[1], p[4], p[3], p[5])))
    if bad_o:
        p = bad_o[0]
        out.append(fail("prop", "Round is not odd", "Round(%r,%d)=%r Round(-x)=%r" % (p[0], d, p[1], p[2])))
    srt = sorted(pts)
    for p1, p2 in zip(srt, srt[1:]):
        if p1[0] < p2[0] and p1[1] > p2[1]:
            out.append(fail("prop", "Round is not monotone", "d=%d: Round(%r)=%r > Round(%r)=%r" % (d, p1[0], p1[1], p2[0], p2[1])))
            break
    q = Fraction(pts[0][0]) if pts else Fraction(0)
    for p in pts:
        qq = Fraction(p[0])
        half = Fraction(10) ** (expo10(qq) - d + 1) / 2
        if abs(Fraction(p[1]) - qq) > (half * (1 + Fraction(1, 2 ** 30)) if round_margin_ok(p[0], d) else half + 4 * EPS * abs(qq)):
            out.append(fail("prop", "Round(x,d) is farther than half a unit of the d-th significant digit from x", "Round(%r,%d)=%r" % (p[0], d, p[1])))
            break
    for p in pts:
        ctx["round_results"].append((d, p[0], p[1]))
    ctx["nontrivial"].add(("roundscan", d, int(a[1]) // 50, a[4]))
    return out


def cmp_premain(ti, ctx):
    """values computed before main() (two initialisation priorities) against the same calls from main(): bit for bit"""
    out = []
    n, n1, n2 = int(ti[0]), int(ti[1]), int(ti[2])
    if n == 0 or n1 != n or n2 != n:
        return [fail("corr", "pre-main probe did not run completely", "%d %d %d" % (n, n1, n2))]
    bad = []
    for i in range(n):
        name, now, early, dflt = ti[3 + 4 * i:7 + 4 * i]
        for when, v in (("init_priority(101)", early), ("the default priority, before the library's translation units", dflt)):
            if v != now:
                bad.append((name, when, v, now))
        ctx["nontrivial"].add(("premain", name.split("(")[0]))
    bump(ctx, "premain values", n)
    if bad:
        name, when, v, now = bad[0]
        out.append(fail("prop", "a function evaluated before main() (during the static initialisation of another translation unit) "
                                "differs from the same call made from main()",
                        "%d of %d probes differ; first: %s = %s (%r) from a namespace-scope constructor with %s, %s (%r) from main()" % (
                            len(bad), 2 * n, name, v, fl(v), when, now, fl(now))))
    return out


def cmp_hold(a, ti, ctx):
    """three results held simultaneously by const reference, and two calls inside one expression, against copies"""
    out = []
    vecs, i = [], 0
    for _ in range(6):
        k = int(ti[i])
        vecs.append(ti[i + 1:i + 1 + 2 * k])
        i += 1 + 2 * k
    h_copy, h_expr = ti[i:i + 2], ti[i + 2:i + 4]
    fn = "Vector_Spherical_Harmonics_" + a[0]
    calls = ["%s(%s,%s,%r,%r)" % (fn, a[1 + 4 * j], a[2 + 4 * j], fl(a[3 + 4 * j]), fl(a[4 + 4 * j])) for j in range(3)]
    for j in range(3):
        if vecs[3 + j] != vecs[j]:
            later = ", ".join(calls[j + 1:]) or "-"
            out.append(fail("prop", "a result of %s held by const reference changes when the function is called again (results alive at the same time alias)" % fn,
                            "%s read after the later call(s) %s: %s, copied at once: %s" % (calls[j], later, [fl(t) for t in vecs[3 + j]], [fl(t) for t in vecs[j]])))
            break
    if h_copy != h_expr:
        out.append(fail("prop", "two calls of %s as arguments of one expression alias" % fn,
                        "<%s | %s> = %r in one expression, %r from copies" % (calls[0], calls[1], cplx(h_expr)[0], cplx(h_copy)[0])))
    ctx["nontrivial"].add(("vshhold", a[0], min(int(a[1]), 3)))
    return out


def scan_inverf(a, ti, ctx):
    """|Inv_Erf(p) - erfinv(p)| <= 1e-4 on a dense scan; reference scipy (erfcinv of the exact 1-|p| next to 1),
    re-checked with mpmath for every point that fails"""
    out = []
    ps = [fl(t) for t in ti[0::2]]
    vs = [fl(t) for t in ti[1::2]]
    bump(ctx, "inverfscan points", len(ps))
    if not ps:
        return [fail("corr", "Inv_Erf scan returned no point", "")]
    try:
        import numpy as np
        from scipy import special
        P = np.array(ps)
        ref = np.where(np.abs(P) < 0.5, special.erfinv(P), np.sign(P) * special.erfcinv(1.0 - np.abs(P)))
        err = np.abs(np.array(vs) - ref)
        err = np.where(np.isnan(err), np.inf, err)
        idx = [int(i) for i in np.nonzero(err > 0.9e-4)[0]]
        worst(ctx, "inverf scan abs err", float(err.max()))
    except ImportError:
        idx = range(len(ps))
    M = mp()
    bad = []
    for i in idx:
        e = abs(M.mpf(vs[i]) - M.erfinv(M.mpf(ps[i]))) if not (math.isnan(vs[i]) or math.isinf(vs[i])) else M.inf
        worst(ctx, "inverf scan abs err", e if e != M.inf else 1e300)
        if not e <= 1e-4:
            bad.append((ps[i], vs[i], e))
    if bad:
        bad.sort(key=lambda t: -t[2])
        p_, v_, e_ = bad[0]
        out.append(fail("prop", "Inv_Erf misses erfinv by more than 1e-4",
                        "%d of %d scanned points; worst: Inv_Erf(%r) = %r, 1-|p| = %.6g, error %s" % (len(bad), len(ps), p_, v_, 1 - abs(p_), M.nstr(e_, 4))))
    ctx["nontrivial"].add(("inverfscan", a[0], a[1]))
    return out


def scan_dawson(a, ti, ctx):
    out = []
    xs = [fl(t) for t in ti[0::3]]
    ds = [fl(t) for t in ti[1::3]]
    es = [fl(t) for t in ti[2::3]]
    bump(ctx, "dawscan points", len(xs))
    M = mp()
    badd, bade = [], []
    for x, d, e in zip(xs, ds, es):
        xm = M.mpf(x)
        rd = M.sqrt(M.pi) / 2 * M.exp(-xm * xm) * M.erfi(xm)
        re_ = M.erfi(xm)
        ed = abs(M.mpf(d) - rd)
        worst(ctx, "dawson scan abs err", ed)
        if not ed <= 2e-7:
            badd.append((float(ed), x, d))
        if x != 0:
            ee = abs(M.mpf(e) - re_) / abs(re_)
            worst(ctx, "erfi scan rel err", ee)
            if not ee <= 1e-6:
                bade.append((float(ee), x, e))
    if badd:
        badd.sort(reverse=True)
        out.append(fail("prop", "Dawson_Integral misses 2e-7 absolute accuracy",
                        "%d of %d scanned points; worst: D(%r) = %r, error %.3g" % (len(badd), len(xs), badd[0][1], badd[0][2], badd[0][0])))
    if bade:
        bade.sort(reverse=True)
        out.append(fail("prop", "Erfi misses 1e-6 relative accuracy",
                        "%d of %d scanned points; worst: Erfi(%r) = %r, relative error %.3g" % (len(bade), len(xs), bade[0][1], bade[0][2], bade[0][0])))
    ctx["nontrivial"].add(("dawscan", a[0], a[3]))
    return out


def finalize(ctx, exe):
    """Round is monotone: over all rounded values of this run, per digit count"""
    out = []
    by_d = {}
    for d, x, r in ctx.get("round_results", []):
        by_d.setdefault(d, []).append((x, r))
    for d, l in by_d.items():
        l.sort()
        for (x1, r1), (x2, r2) in zip(l, l[1:]):
            if x1 < x2 and r1 > r2:      # bitwise: no slack
                f = fail("prop", "Round is not monotone", "d=%d: Round(%r)=%r > Round(%r)=%r" % (d, x1, r1, x2, r2))
                f["req"] = "c17.round %s %d" % (hx(x2), d)
                out.append(f)
                break
    return out
