"""C01 — Interpolants reproduce the data and never overshoot it.

Requests (first argument of every request is a family tag that both sides skip; it makes a replay
self-contained):

  c01.eval[x]  <tag> <xs> <ys> <xdim> <fdim> <pref> <mul> <M> (<x> <code>)^M
      code -1 = Interpolate(x) (operator()), code k >= 0 = Derivative(x,k); queries are evaluated in
      order on ONE object (the search state is threaded on both sides)
  c01.eval2[x] <tag> <xs> <ys> <rows> (<row>)^rows <xdim> <ydim> <fdim> <pref> <mul> <M> (<x> <y>)^M

Class B correspondence (value tolerance K*eps*max(|y_j|,|y_j+1|)*|prefactor|, derivatives scaled by
1/h, 1/h^2, 1/h^3; exact equality on the dyadic family) plus the property oracle evaluated on the
implementation's own output (kind "prop"): knots reproduced, dense samples bounded by the two
neighbouring ordinates and monotone, C1 across knots, Taylor consistency of the reported derivatives,
linear / parabola exactness, 2-D nodes / hull / edge continuity / bilinear exactness.
"""
import bisect, math, random, struct
from fractions import Fraction
from common import *

RULE = ("tables and query points are drawn from VERIF_SEED (families: smooth, jittered, wild spacing ratios to 1e9, "
        "offsets to 1e8, ordinates 1e-20..1e20 mixed sign, plateaus, spikes, sign changes, monotone, zeros, exact "
        "linear/parabola data, the same and general tables at joint scales x*2^Ex, y*2^Ey (Ex -300..330: slopes 1e-120..1e110), dyadic uniform tables compared exactly, float32 tables with float32 unit factors, "
        "prefactors of either sign); a case is non-trivial when model and implementation both answer ok or both stop; "
        "it is counted once per distinct (op, family, size class, query class: knot / knot neighbour / interior / "
        "extrapolation zone / derivative order)")
CORR_ONLY = ["interior rounding-level overshoot / backward steps (accepted up to K_OVER=32 eps*max(|y_j|,|y_j+1|), see ASSUMPTIONS; measured per run in input_distribution.worst_overshoot / worst_nonmonotone)",
             "the 1% extrapolation zone: values and derivatives compared against the model, no monotonicity claim there"]
ASSUMPTIONS = ["unit factors: where every product with the factor is exact in double (float32 tables and factors, powers of two) the "
               "implementation is compared with the model; on general doubles with non-dyadic factors (family unitx) the model, which "
               "multiplies exactly, cannot follow the rounded products and the request is judged by the oracle on the implementation alone, "
               "on the table as the constructor stores it (fl(x*x_dim), fl(y*f_dim))",
               "abscissa scale: pow(h,2) and (x-x_j)^3 are formed in doubles, so intervals h below ~1e-103 (h^3, y/h^3 under/overflow) or above "
               "~1e110 ((x-x_j)^3 overflows, 0*inf = NaN) are outside the checked domain; also exact straight-line data are hit (the one-sided end slope is "
               "m*(1+O(eps)), so a = O(eps*m/h^2) overflows below h ~ 1e-101: found by this check at x-scale 2^-339 and 2^-472); generated tables "
               "keep the x-scale in 2^-300..2^330 for straight-line data and 2^-300..2^300 otherwise",
               "2-D grids need at least three points per axis: Interpolation_2D locates through two 1-D Interpolation (Steffen) objects whose "
               "constructor demands N >= 3 ('At least three points are required', naming the 1-D class); 2xM / Nx2 grids stop with that "
               "diagnostic in implementation and model alike - a stated restriction of the constructor, not of bilinear interpolation",
               "the exact one-percent edge is requested (meaningful since fix a411065) on tables where 0.01*h, the edge and |x-x_0| are exact "
               "doubles; all other query points are kept a relative margin >= 2^-50 (8.9e-16) away from the 1% extrapolation boundary: the code forms the "
               "boundary as fl(1e-2*fl(x_1-x_0)) and compares fl(|x-x_0|) with it, which decides correctly only beyond ~3e-16 relative",
               "interior rounding-level overshoot and backward steps are inherent to evaluating the cubic a*t^3+b*t^2+c*t+d in doubles "
               "and are accepted up to 32 eps*max(|y_j|,|y_j+1|): the audit measured <= 21.6 eps*Yj (overshoot, 3.99% of 2.2e7 interior "
               "samples) and <= 21.8 eps*Yj (backward step, 0.55%) on the unchanged code; at the knots themselves (every knot, the last "
               "included) and on plateaus the tabulated value is demanded bit-for-bit; the 2-D four-term sum is accepted up to "
               "8 eps*max|corner| outside the hull of its cell (measured <= 4.2), exact at the nodes"]
TRUSTED = ["translators/constants.py (regenerates lean/LpModel/C01/Constants.lean from the anchored numeric literals of the current source before every lake build; a missing anchor falls back to the committed default and is recorded in notes.pre_build.anchor_missing)"]

# ---------------------------------------------------------------------------------------------------
# translator tie (DESIGN.md §4.5): the numeric literals of src/Numerics.cpp (Steffen coefficients, Locate) the model depends on
# ---------------------------------------------------------------------------------------------------

def _constants_translator(verif):
    import importlib.util, os
    spec = importlib.util.spec_from_file_location("lp_constants_tr", os.path.join(verif, "translators", "constants.py"))
    m = importlib.util.module_from_spec(spec)
    spec.loader.exec_module(m)
    return m


def pre_build(c):
    """regenerate lean/LpModel/C01/Constants.lean from the repository under check (called by check.py with
    the lake lock held, before `lake build`); a missing anchor is recorded, never an alarm"""
    return _constants_translator(c["verif"]).regenerate("C01", c["repo"], c["lean"])


# Slacks after the hidden-slack audit (findings/audit-hidden-slack-C01-C10.md): clauses the property states exactly are
# judged bit-for-bit (knots incl. the last, plateaus, D^k k>=4, D0 == Interpolate, D3 constant, 2-D nodes); what remains is
# the rounding of evaluating a cubic / a four-term sum in doubles, at about 1.5x the worst value probed on 2e7 samples.
K_VAL = 32         # value correspondence, in eps*max(|y_j|,|y_j+1|)*|pref|           (worst probed 17.8)
K_DER = 2048       # derivative correspondence with the model, in eps*max|y|/h^k*|pref| (class B, not a [prop] clause)
K_OVER = 32        # interior rounding-level overshoot / backward step, in eps*Yj       (worst probed 21.6 / 21.8: inherent)
K_LIN = (16, 32, 128, 128)   # exact straight-line / parabola data: value, D1, D2, D3      (worst probed 6.8 / 11.5 / ~30)
K_TAY = 128        # Taylor and C1 consistency of reported derivatives (sum-of-terms scale) (worst probed 16 / 43)
K_2D = 16          # 2-D bilinear reproduction, edge continuity, model correspondence in eps*Fm (worst probed 1.8 / 6)
K_HULL = 8         # 2-D hull: eps*Fm                                                     (worst probed 4.2)
K_ALLOW = 4        # 2-D: factor on the a-priori rounding bound allowance_2d (weights times corner magnitudes); the
                   # effective 2-D slack is min(K_ALLOW*allowance, K*eps*Fm)

INF = math.inf

# Defect C01-2 (audit 2, P9) is repaired in /repo by f6c66e5: a table whose STORED abscissae (after the unit conversion) are not
# strictly increasing - two neighbours collapsing under the unit factor, a NaN abscissa - stops with a diagnostic.


def f32(x):
    return struct.unpack("f", struct.pack("f", x))[0]


def na(x, d):
    return math.nextafter(x, d)


# ------------------------------------------------------------------------------------------------
# generators
# ------------------------------------------------------------------------------------------------

def gen_xs(rng, N, kind):
    if kind == "uniform2":
        h = 2.0 ** rng.randint(-8, 8)
        x0 = h * rng.randint(-512, 512)
        return [x0 + i * h for i in range(N)]
    if kind == "jitter":
        base = 10.0 ** rng.uniform(-3, 3)
        x = rng.choice([0.0, -base * N / 2, rng.uniform(-1, 1) * base * N])
        hs = [base * rng.uniform(0.2, 1.8) for _ in range(N - 1)]
    elif kind == "wild":
        base = 10.0 ** rng.uniform(-2, 2)
        x = rng.choice([0.0, rng.uniform(-1, 1) * base])
        hs = [base * 10.0 ** rng.uniform(-4.5, 4.5) for _ in range(N - 1)]
    elif kind == "ratio9":   # neighbouring intervals differ by up to 1e9
        base = 10.0 ** rng.uniform(-2, 2)
        x = 0.0
        hs = []
        for i in range(N - 1):
            hs.append(base * (1e-4 if i % 2 == 0 else 1e5) * rng.uniform(0.3, 3) if rng.random() < 0.7
                      else base * rng.uniform(0.5, 2))
    elif kind == "offset":
        x = rng.choice([-1.0, 1.0]) * 10.0 ** rng.uniform(2, 8)
        base = 10.0 ** rng.uniform(-3, 1)
        hs = [base * 10.0 ** rng.uniform(-1.5, 1.5) for _ in range(N - 1)]
    elif kind == "log":     # logarithmic grid (typical physics table)
        x = 10.0 ** rng.uniform(-6, 0)
        r = 10.0 ** (rng.uniform(0.5, 12) / (N - 1))     # the whole grid spans at most 12 decades
        xs = [x * r ** i for i in range(N)]
        hs = None
    else:
        raise ValueError(kind)
    if hs is not None:
        xs = [x]
        for h in hs:
            xs.append(xs[-1] + h)
    for i in range(1, N):          # strictly increasing after rounding
        if xs[i] <= xs[i - 1]:
            xs[i] = na(xs[i - 1], INF)
    return xs


def gen_ys(rng, xs, kind):
    N = len(xs)
    if kind == "mixed":
        return [mixed_magnitude(rng) for _ in range(N)]
    if kind == "smooth":
        A = 10.0 ** rng.uniform(-3, 3); k = rng.uniform(0.5, 12) / (xs[-1] - xs[0]); ph = rng.uniform(0, 6)
        c = rng.choice([0.0, A * rng.uniform(-3, 3)])
        return [c + A * math.sin(k * (x - xs[0]) + ph) for x in xs]
    if kind == "monotone":
        sg = rng.choice([-1.0, 1.0]); y = rng.uniform(-1, 1) * 10.0 ** rng.randint(-3, 3); out = [y]
        for _ in range(N - 1):
            y += sg * 10.0 ** rng.uniform(-6, 3)
            out.append(y)
        return out
    if kind == "plateau":
        out = []; y = rng.uniform(-5, 5)
        while len(out) < N:
            run = rng.randint(1, 5)
            out += [y] * run
            y = y + rng.choice([-1, 1]) * 10.0 ** rng.uniform(-3, 2) if rng.random() < 0.8 else 0.0
        return out[:N]
    if kind == "spike":
        base = [rng.uniform(-1, 1) * 1e-3 for _ in range(N)]
        for _ in range(max(1, N // 10)):
            base[rng.randrange(N)] = rng.choice([-1, 1]) * 10.0 ** rng.uniform(2, 12)
        return base
    if kind == "signchange":
        return [(-1) ** (i + rng.randint(0, 1) * (rng.random() < 0.2)) * 10.0 ** rng.uniform(-4, 4) for i in range(N)]
    if kind == "zeros":
        return [0.0 if rng.random() < 0.5 else mixed_magnitude(rng, -5, 5) for _ in range(N)]
    if kind == "tiny":
        return [rng.choice([-1, 1]) * rng.uniform(1, 10) * 1e-20 * 10.0 ** rng.uniform(0, 3) for _ in range(N)]
    if kind == "huge":
        return [rng.choice([-1, 1]) * rng.uniform(1, 10) * 1e17 * 10.0 ** rng.uniform(0, 3) for _ in range(N)]
    if kind == "nearflat":   # large common offset, tiny variation: cancellation in s
        c = 10.0 ** rng.uniform(0, 8) * rng.choice([-1, 1])
        return [c * (1 + rng.uniform(-1, 1) * 1e-9) for _ in range(N)]
    raise ValueError(kind)


XKINDS = ["jitter", "wild", "ratio9", "offset", "log", "uniform2"]
YKINDS = ["mixed", "smooth", "monotone", "plateau", "spike", "signchange", "zeros", "tiny", "huge", "nearflat"]


def pick_N(rng, tier, k):
    r = k % 10
    if r < 4:
        return rng.randint(3, 8)
    if r < 7:
        return rng.randint(9, 40)
    if r < 9:
        return rng.randint(41, 150)
    return rng.randint(151, 400)


def zone_point(rng, xs, side, frac):
    """point in (frac<1) or beyond (frac>1) the 1% extrapolation zone, or None when it cannot be kept a
    relative margin 2^-30 from the boundary after rounding"""
    if side < 0:
        h = Fraction(xs[1]) - Fraction(xs[0]); x = xs[0] - frac * 0.01 * (xs[1] - xs[0])
        if not x < xs[0]:
            return None
        d = Fraction(xs[0]) - Fraction(x)
    else:
        h = Fraction(xs[-1]) - Fraction(xs[-2]); x = xs[-1] + frac * 0.01 * (xs[-1] - xs[-2])
        if not x > xs[-1]:
            return None
        d = Fraction(x) - Fraction(xs[-1])
    tol = h / 100
    m = Fraction(1, 2 ** 50)
    if frac < 1 and d < tol * (1 - m):
        return x
    if frac > 1 and d > tol * (1 + m):
        return x
    return None


def queries_1d(rng, xs, nseg, ndense, shuffle=True, zone=True):
    N = len(xs)
    segs = list(range(N - 1))
    if len(segs) > nseg:
        segs = sorted(set(rng.sample(segs, nseg - 3) + [0, N - 2, rng.randrange(N - 1)]))
    Q = []
    for idx, j in enumerate(segs):
        a, b = xs[j], xs[j + 1]
        for c in (-1, 0, 1, 2, 3, 4):
            Q.append((a, c))
        if rng.random() < 0.1:
            Q.append((a, rng.choice([5, 7, 100])))
        if j > 0:
            xl = na(a, -INF)
            Q += [(xl, -1), (xl, 1), (xl, 2), (xl, 3)]
        xr = na(a, INF)
        Q += [(xr, -1), (xr, 1)]
        nd = ndense if idx < 6 else 6
        pts = set()
        for k in range(nd):
            x = a + (b - a) * ((k + rng.random()) / nd)
            if a < x < b:
                pts.add(x)
        for x in pts:
            Q.append((x, -1))
        for _ in range(2):
            x = a + (b - a) * rng.uniform(0.02, 0.98)
            if a < x < b:
                for c in (-1, 1, 2, 3):
                    Q.append((x, c))
    for c in (-1, 0, 1, 2, 3, 4):
        Q.append((xs[-1], c))
    xl = na(xs[-1], -INF)
    Q += [(xl, -1), (xl, 1)]
    if zone:
        for side in (-1, 1):
            for frac in (rng.uniform(0.01, 0.98), 0.999):
                x = zone_point(rng, xs, side, frac)
                if x is not None:
                    for c in (-1, 0, 1, 2, 3, 4, rng.choice([5, 7, 100])):   # every order, also 0 and >= 4, in the zone
                        Q.append((x, c))
    if shuffle:
        rng.shuffle(Q)
    else:
        Q.sort()
    return Q


def req_1d(op, tag_, xs, ys, xdim, fdim, pref, mul, Q, ctor=0):
    return "%s %s %d %s %s %s %s %s %s %d %s" % (op, tag_, ctor, lst(xs), lst(ys), hx(xdim), hx(fdim), hx(pref), hx(mul), len(Q),
                                               " ".join("%s %d" % (hx(x), c) for x, c in Q))


def req_2d(op, tag_, xs, ys, F, xdim, ydim, fdim, pref, mul, Q, ctor=0):
    return "%s %s %d %s %s %d %s %s %s %s %s %s %d %s" % (
        op, tag_, ctor, lst(xs), lst(ys), len(F), " ".join(lst(r) for r in F), hx(xdim), hx(ydim), hx(fdim), hx(pref), hx(mul),
        len(Q), " ".join("%s %s" % (hx(x), hx(y)) for x, y in Q))


def pick_pref(rng):
    c = rng.random()
    if c < 0.5:
        return 1.0, 1.0
    if c < 0.7:
        return rng.choice([-1.0, 2.0, -0.5, 3.0]), 1.0
    if c < 0.9:
        return mixed_magnitude(rng, -6, 6), 1.0
    return rng.uniform(-3, 3), rng.uniform(-3, 3)


def dyadic_table(rng, N):
    h = 2.0 ** rng.randint(-6, 6)
    x0 = h * rng.randint(-256, 256)
    xs = [x0 + i * h for i in range(N)]
    ys = [dyadic(rng, -32, 32, 3) for _ in range(N)]
    if rng.random() < 0.3:   # with plateaus
        for i in range(1, N):
            if rng.random() < 0.3:
                ys[i] = ys[i - 1]
    Q = []
    for j in range(N - 1):
        for k in rng.sample(range(0, 17), 4):
            x = xs[j] + h * k / 16
            for c in (-1, 1, 2, 3):
                Q.append((x, c))
    rng.shuffle(Q)
    return xs, ys, Q


def gen_grid(rng, n, kind):
    return gen_xs(rng, n, kind)


def generate(tier, seed, ctx):
    rng = random.Random(seed * 1000003 + 101)
    thorough = tier == "thorough"
    R = []
    # ---- general 1-D tables ------------------------------------------------------------------
    n_tab = 3000 if thorough else 130
    for k in range(n_tab):
        N = pick_N(rng, tier, k)
        xk = XKINDS[k % len(XKINDS)] if k % 7 else rng.choice(XKINDS)
        yk = rng.choice(YKINDS)
        xs = gen_xs(rng, N, xk)
        ys = gen_ys(rng, xs, yk)
        pref, mul = pick_pref(rng)
        Q = queries_1d(rng, xs, nseg=(20 if thorough else 9), ndense=50, shuffle=(k % 3 != 0))
        R.append(req_1d("c01.eval", "gen:%s:%s" % (xk, yk), xs, ys, -1.0, -1.0, pref, mul, Q))
    # ---- nearly equidistant tables (seventh wave, C01-r): a uniform grid of 32..257 knots whose first and last spacing and total
    #      length are untouched while a run of 1..6 consecutive interior knots is displaced by up to several spacings (the table
    #      stays strictly increasing) - what a shortcut that derives the interval index from (x-x_0)/h_0 after testing only the
    #      ends gets wrong; every interval is queried
    for k in range(60 if thorough else 8):
        N = rng.choice([32, 33, 40, 64, 100, 257] if thorough else [32, 40, 64, 100])
        h0 = 2.0 ** rng.randint(-6, 3); x0 = h0 * rng.randint(-200, 200)
        xs = [x0 + i * h0 for i in range(N)]
        run = rng.randint(1, 6); st = rng.randint(2, N - 3 - run - 8)
        up = rng.random() < 0.5
        for t in range(run):     # pack the run against the next (or previous) untouched knot
            if up:
                xs[st + t] = xs[st + run] - h0 * (run - t) / 8.0 if rng.random() < 0.5 else xs[st + t] + h0 * (run - 0.5) * (t + 1) / (run + 1)
            else:
                xs[st + t] = xs[st - 1] + h0 * (t + 1) / 8.0
        xs = sorted(set(xs))
        if len(xs) < 32 or any(b <= a for a, b in zip(xs, xs[1:])):
            continue
        yk = rng.choice(YKINDS)
        ys = gen_ys(rng, xs, yk)
        pref, mul = pick_pref(rng)
        Q = queries_1d(rng, xs, nseg=len(xs), ndense=20, shuffle=(k % 2 == 0))
        R.append(req_1d("c01.eval", "gen:neareq:%s" % yk, xs, ys, -1.0, -1.0, pref, mul, Q))
    # ---- exact linear data (any spacing) --------------------------------------------------------
    for k in range(150 if thorough else 10):
        N = rng.choice([3, 4, 7, 20, 60])
        g = sorted(set(rng.randint(-2 ** 18, 2 ** 18) for _ in range(N + 3)))
        while len(g) < 3:
            g = sorted(set(rng.randint(-2 ** 18, 2 ** 18) for _ in range(N + 3)))
        sc = 2.0 ** rng.randint(-12, 4)
        xs = [v * sc for v in g]
        m = dyadic(rng, -16, 16, 4); q = dyadic(rng, -64, 64, 4)
        if k % 5 == 0:
            m = 0.0
        ys = [m * x + q for x in xs]     # exact: < 53 bits
        assert all(Fraction(y) == Fraction(m) * Fraction(x) + Fraction(q) for x, y in zip(xs, ys))
        pref, mul = pick_pref(rng)
        Q = queries_1d(rng, xs, nseg=8, ndense=6)
        R.append(req_1d("c01.eval", "lin:%s:%s" % (hx(m), hx(q)), xs, ys, -1.0, -1.0, pref, mul, Q))
    # ---- exact parabola data on non-uniform grids, limiter inactive -----------------------------------
    for k in range(150 if thorough else 12):
        N = rng.choice([3, 4, 6, 15, 40])
        x = rng.randint(100, 400); g = [x]
        for _ in range(N - 1):
            x += rng.randint(1, 90); g.append(x)
        sg = rng.choice([-1, 1])
        sc = 2.0 ** rng.randint(-6, 2)
        xs = [sg * v * sc for v in g]
        xs.sort()
        al = dyadic(rng, -8, 8, 3) or 1.0; be = 0.0 if k % 2 == 0 else dyadic(rng, -4, 4, 2) * sc; ga = dyadic(rng, -64, 64, 3)
        ys = [al * x * x + be * x + ga for x in xs]
        assert all(Fraction(y) == Fraction(al) * Fraction(x) ** 2 + Fraction(be) * Fraction(x) + Fraction(ga) for x, y in zip(xs, ys))
        pref, mul = pick_pref(rng)
        Q = queries_1d(rng, xs, nseg=8, ndense=6)
        R.append(req_1d("c01.eval", "par:%s:%s:%s" % (hx(al), hx(be), hx(ga)), xs, ys, -1.0, -1.0, pref, mul, Q))
    # ---- joint scale: ordinates inside 1e-20..1e20, abscissa scale 2^Ex huge or tiny, so that the secant slopes span
    #      ~1e-120 .. 1e+160 (far outside the float range on both sides).  Scales are powers of two (exact), applied either
    #      directly or through the unit factors x_dim / f_dim.  Limits: (x-x_j)^3 and 1/h^2, y/h^3 must stay finite
    #      normal doubles in the code as written (IEEE over/underflow is outside the model), hence -300 <= Ex <= 330.
    for k in range(240 if thorough else 30):
        mode = ("lin", "par", "gen")[k % 3]
        via_units = (k // 3) % 2 == 0
        pref, mul = pick_pref(rng)
        if mode == "lin":
            Ex = rng.choice([rng.randint(-300, -120), rng.randint(120, 330), rng.randint(-300, 330)])
            Ey = rng.randint(-66, 48)
            N = rng.choice([3, 4, 7, 20])
            g = sorted(set(rng.randint(-1000, 1000) for _ in range(N + 3)))
            if len(g) < 3:
                continue
            km = 8 * rng.randint(-15, 15) if k % 9 else 0
            kq = rng.choice([0, rng.randint(-64, 64)])
            x0 = [float(v) for v in g]; y0 = [float(km * v + kq) for v in g]
            tag_ = "lin:%s:%s:joint" % (hx(math.ldexp(km, Ey - Ex)), hx(math.ldexp(kq, Ey)))
        elif mode == "par":
            Ex = rng.choice([rng.randint(-300, -100), rng.randint(100, 300), rng.randint(-300, 300)])
            Ey = rng.randint(-66, 36)
            N = rng.choice([3, 4, 6, 15])
            v = rng.randint(100, 400); g = [v]
            for _ in range(N - 1):
                v += rng.randint(1, 90); g.append(v)
            if rng.random() < 0.5:
                g = [-t for t in reversed(g)]
            ka = rng.choice([-1, 1]) * rng.randint(1, 8); kb = 0 if k % 2 else rng.randint(-16, 16); kc = rng.randint(-64, 64)
            x0 = [float(t) for t in g]; y0 = [float(ka * t * t + kb * t + kc) for t in g]
            tag_ = "par:%s:%s:%s:joint" % (hx(math.ldexp(ka, Ey - 2 * Ex)), hx(math.ldexp(kb, Ey - Ex)), hx(math.ldexp(kc, Ey)))
        else:
            Ex = rng.choice([rng.randint(-280, -60), rng.randint(60, 280)])
            Ey = rng.randint(-40, 40)
            N = rng.randint(3, 40)
            xk = rng.choice(["jitter", "wild", "log"]); yk = rng.choice(["smooth", "monotone", "plateau", "signchange", "zeros", "spike"])
            x0 = gen_xs(rng, N, xk); y0 = gen_ys(rng, x0, yk)
            tag_ = "gen:joint:%s:%s" % (xk, yk)
        xs1 = [math.ldexp(v, Ex) for v in x0]; ys1 = [math.ldexp(v, Ey) for v in y0]
        assert all(Fraction(a) == Fraction(b) * Fraction(2) ** Ex for a, b in zip(xs1, x0))
        assert all(Fraction(a) == Fraction(b) * Fraction(2) ** Ey for a, b in zip(ys1, y0))
        Q = queries_1d(rng, xs1, nseg=8, ndense=6)
        if via_units:
            R.append(req_1d("c01.eval", tag_, x0, y0, math.ldexp(1.0, Ex), math.ldexp(1.0, Ey), pref, mul, Q))
        else:
            R.append(req_1d("c01.eval", tag_, xs1, ys1, -1.0, -1.0, pref, mul, Q))
    # ---- dyadic uniform tables: double arithmetic is exact, compared exactly -------------------------
    for k in range(600 if thorough else 40):
        N = rng.choice([3, 4, 5, 8, 16, 33])
        xs, ys, Q = dyadic_table(rng, N)
        pref = rng.choice([1.0, -1.0, 2.0, 0.5, -4.0])
        R.append(req_1d("c01.eval", "dy", xs, ys, -1.0, -1.0, pref, 1.0, Q))
    # ---- unit factors: float32 tables and factors (products exact) ---------------------------------------
    for k in range(300 if thorough else 16):
        N = rng.randint(3, 40)
        xs0 = gen_xs(rng, N, rng.choice(["jitter", "wild", "log"]))
        xs0 = sorted(set(f32(x) for x in xs0))
        if len(xs0) < 3:
            continue
        ys0 = [f32(y) for y in gen_ys(rng, xs0, rng.choice(["smooth", "monotone", "plateau", "signchange", "zeros"]))]
        xdim = f32(10.0 ** rng.uniform(-8, 8)) if k % 4 != 3 else rng.choice([-1.0, 0.0])
        fdim = f32(10.0 ** rng.uniform(-12, 12)) if k % 4 != 2 else rng.choice([-1.0, 0.0, -2.5])
        xs1 = [x * xdim for x in xs0] if xdim > 0 else xs0
        assert all(Fraction(a) == Fraction(b) * Fraction(xdim) for a, b in zip(xs1, xs0)) or xdim <= 0
        pref, mul = pick_pref(rng)
        Q = queries_1d(rng, xs1, nseg=6, ndense=10)
        R.append(req_1d("c01.eval", "unit", xs0, ys0, xdim, fdim, pref, mul, Q))
    # ---- outcome class A: beyond the 1% zone, malformed tables -----------------------------------------
    for k in range(300 if thorough else 32):
        N = rng.randint(3, 12)
        xs = gen_xs(rng, N, rng.choice(["jitter", "wild", "offset"]))
        ys = gen_ys(rng, xs, "smooth")
        side = rng.choice([-1, 1])
        frac = rng.choice([0.5, 1 - 1e-6, 1 + 1e-6, 1 - 1e-12, 1 + 1e-12, 1 - 2.0 ** -46, 1 + 2.0 ** -46, 1.5, 50.0, 1e6])
        x = zone_point(rng, xs, side, frac)
        if x is None:
            continue
        pre = [(rng.uniform(xs[0], xs[-1]), -1) for _ in range(rng.randint(0, 3))]
        R.append(req_1d("c01.evalx", "zone", xs, ys, -1.0, -1.0, 1.0, 1.0, pre + [(x, rng.choice([-1, 0, 1, 2, 3, 4]))]))
    # ---- the EXACT one-percent edge (fix a411065: only arguments outside by MORE than one percent are rejected).  Tables
    #      whose end spacing h makes 0.01*h exact in double (h = 100, 25, 6.25 times 2^k) on dyadic end abscissae: the edge
    #      x_0 - h/100 (x_{N-1} + h/100) is a double, fl(1e-2*h) and fl(|x - x_0|) are exact, so the decision taken in
    #      doubles IS the exact one: the edge itself is a meaningful request, its outward neighbour is not.
    for k in range(120 if thorough else 24):
        N = rng.randint(3, 9)
        e2 = rng.randint(-8, 8)
        h0 = rng.choice([100.0, 25.0, 6.25]) * 2.0 ** e2; h1 = rng.choice([100.0, 25.0, 6.25]) * 2.0 ** rng.randint(-8, 8)
        x = rng.choice([0.0, float(rng.randint(-64, 64)) * 2.0 ** e2])
        xs = [x, x + h0]
        for _ in range(N - 3):
            xs.append(xs[-1] + rng.choice([1.0, 3.0, 7.5, 100.0]) * 2.0 ** rng.randint(-4, 4))
        xs.append(float(math.ceil(xs[-1])) + h1) if k % 2 else xs.append(xs[-1] + h1)
        if not all(Fraction(b) - Fraction(a) > 0 for a, b in zip(xs, xs[1:])):
            continue
        ys = gen_ys(rng, xs, rng.choice(["smooth", "monotone", "signchange", "plateau"]))
        for side in (-1, 1):
            xe, hh = (xs[0], xs[1] - xs[0]) if side < 0 else (xs[-1], xs[-1] - xs[-2])
            tol = 0.01 * hh
            edge = xe + side * tol
            ok_exact = (Fraction(hh) == Fraction(xs[1]) - Fraction(xs[0]) if side < 0 else Fraction(hh) == Fraction(xs[-1]) - Fraction(xs[-2])) \
                and Fraction(tol) == Fraction(hh) / 100 and Fraction(edge) == Fraction(xe) + side * Fraction(tol) \
                and Fraction(edge - xe) == Fraction(edge) - Fraction(xe)
            if not ok_exact:
                continue
            beyond = na(edge, side * INF)
            if Fraction(beyond - xe) != Fraction(beyond) - Fraction(xe):
                beyond = None
            pref, mul = pick_pref(rng)
            R.append(req_1d("c01.evalx", "edge", xs, ys, -1.0, -1.0, pref, mul, [(edge, c) for c in (-1, 0, 1, 2, 3, 4)]))
            if beyond is not None:
                R.append(req_1d("c01.evalx", "zone", xs, ys, -1.0, -1.0, 1.0, 1.0, [(beyond, rng.choice([-1, 0, 1, 2, 3]))]))
    for k in range(12 if thorough else 6):
        N = rng.randint(3, 8)
        xs = gen_xs(rng, N, "jitter"); ys = gen_ys(rng, xs, "smooth")
        c = k % 3
        if c == 0:
            i = rng.randrange(1, N); xs[i] = xs[i - 1]                  # not strictly increasing
        elif c == 1:
            xs, ys = xs[:2], ys[:2]                                     # too short
        else:
            ys = ys[:-1]                                                # unequal lengths
        R.append(req_1d("c01.evalx", "bad", xs, ys, -1.0, -1.0, 1.0, 1.0, [(xs[0], -1)]))
    # ---- 2-D ----------------------------------------------------------------------------------------------
    for k in range(700 if thorough else 45):
        nx = rng.randint(3, 6) if k % 3 else rng.randint(7, 30)
        ny = rng.randint(3, 6) if k % 2 else rng.randint(7, 30)
        fam = ["mixed", "smooth", "bil", "plateau", "unit", "mixmag"][k % 6]
        xdim = ydim = fdim = -1.0
        if fam == "bil":
            sx = 2.0 ** rng.randint(-6, 4); sy = 2.0 ** rng.randint(-6, 4)
            gx = sorted(rng.sample(range(-500, 500), nx)); gy = sorted(rng.sample(range(-500, 500), ny))
            xs = [v * sx for v in gx]; ys = [v * sy for v in gy]
            A, B, C, D = (dyadic(rng, -8, 8, 2) for _ in range(4))
            F = [[A + B * x + C * y + D * x * y for y in ys] for x in xs]
            assert all(Fraction(F[i][j]) == Fraction(A) + Fraction(B) * Fraction(xs[i]) + Fraction(C) * Fraction(ys[j])
                       + Fraction(D) * Fraction(xs[i]) * Fraction(ys[j]) for i in range(nx) for j in range(ny))
            tag_ = "bil:%s:%s:%s:%s" % (hx(A), hx(B), hx(C), hx(D))
            xs_s, ys_s = xs, ys
        elif fam == "unit":
            xs = sorted(set(f32(v) for v in gen_xs(rng, nx, "jitter"))); ys = sorted(set(f32(v) for v in gen_xs(rng, ny, "log")))
            if len(xs) < 3 or len(ys) < 3:
                continue
            nx, ny = len(xs), len(ys)
            F = [[f32(rng.uniform(-1, 1) * 10.0 ** rng.randint(-3, 3)) for _ in range(ny)] for _ in range(nx)]
            xdim = f32(10.0 ** rng.uniform(-5, 5)); ydim = rng.choice([-1.0, f32(10.0 ** rng.uniform(-5, 5))]); fdim = f32(10.0 ** rng.uniform(-9, 9))
            xs_s = [x * xdim for x in xs]; ys_s = [y * ydim for y in ys] if ydim > 0 else ys
            tag_ = "unit"
        else:
            xs = gen_xs(rng, nx, rng.choice(["jitter", "wild", "ratio9", "offset", "log"]))
            ys = gen_xs(rng, ny, rng.choice(["jitter", "wild", "ratio9", "offset", "log"]))
            if fam == "mixed":
                F = [[mixed_magnitude(rng) for _ in range(ny)] for _ in range(nx)]
            elif fam == "mixmag":
                # strongly mixed magnitudes in NEIGHBOURING entries: 1e20 next to 1, 1e-20 next to 1, sign changes
                mags = rng.choice([[1e20, 1.0], [1e-20, 1.0], [1e20, 1.0, 1e-20], [1e20, 1e-20], [1e12, 1.0, 1e-12]])
                par = rng.randint(0, 1)
                def ent(i, j):
                    m = mags[(i + j + par) % len(mags)] if rng.random() < 0.8 else rng.choice(mags)
                    sg = rng.choice([-1.0, 1.0]) if rng.random() < 0.5 else 1.0
                    return sg * m * (rng.choice([1.0, 2.0, 5.0, 0.3, 0.7]) if rng.random() < 0.7 else rng.uniform(1, 10))
                F = [[ent(i, j) for j in range(ny)] for i in range(nx)]
            elif fam == "smooth":
                kx = rng.uniform(1, 9) / (xs[-1] - xs[0]); ky = rng.uniform(1, 9) / (ys[-1] - ys[0]); A = 10.0 ** rng.uniform(-3, 3)
                F = [[A * math.sin(kx * (x - xs[0])) * math.cos(ky * (y - ys[0])) for y in ys] for x in xs]
            else:
                F = [[float(rng.randint(-2, 2)) for _ in range(ny)] for _ in range(nx)]
            tag_ = "gen:" + fam
            xs_s, ys_s = xs, ys
        Q = []
        cells = [(i, j) for i in range(nx - 1) for j in range(ny - 1)]
        if len(cells) > 12:
            cells = rng.sample(cells, 8) + [(0, 0), (nx - 2, ny - 2), (nx - 2, rng.randrange(ny - 1)), (rng.randrange(nx - 1), ny - 2),
                                            (nx - 2, 0), (0, ny - 2)]
        # every node of the grid, INCLUDING the last row and the last column (t == 1 or u == 1 there)
        if nx * ny <= 150:
            nodes = [(a, b) for a in range(nx) for b in range(ny)]
        else:
            nodes = ([(nx - 1, b) for b in range(ny)] + [(a, ny - 1) for a in range(nx)] + [(0, b) for b in range(ny)]
                     + [(a, 0) for a in range(nx)] + [(rng.randrange(nx), rng.randrange(ny)) for _ in range(40)])
        Q += [(xs_s[a], ys_s[b]) for a, b in nodes]
        # points on the last grid lines between two nodes, and next to them
        for b in (range(ny - 1) if ny <= 14 else rng.sample(range(ny - 1), 12)):
            yy = ys_s[b] + (ys_s[b + 1] - ys_s[b]) * rng.uniform(0.05, 0.95)
            if ys_s[b] < yy < ys_s[b + 1]:
                Q += [(xs_s[-1], yy), (na(xs_s[-1], -INF), yy), (xs_s[0], yy)]
        for a in (range(nx - 1) if nx <= 14 else rng.sample(range(nx - 1), 12)):
            xx = xs_s[a] + (xs_s[a + 1] - xs_s[a]) * rng.uniform(0.05, 0.95)
            if xs_s[a] < xx < xs_s[a + 1]:
                Q += [(xx, ys_s[-1]), (xx, na(ys_s[-1], -INF)), (xx, ys_s[0])]
        for (i, j) in cells:
            a, b, c, d = xs_s[i], xs_s[i + 1], ys_s[j], ys_s[j + 1]
            Q += [(a, c), (b, c), (a, d), (b, d)]
            for _ in range(6):
                Q.append((a + (b - a) * rng.random(), c + (d - c) * rng.random()))
            yy = c + (d - c) * rng.random(); xx = a + (b - a) * rng.random()
            Q += [(a, yy), (na(a, -INF) if i > 0 else a, yy), (b, yy), (na(b, -INF), yy)]
            Q += [(xx, c), (xx, na(c, -INF) if j > 0 else c), (xx, d), (xx, na(d, -INF))]
        for side in (-1, 1):
            zx = zone_point(rng, xs_s, side, rng.uniform(0.05, 0.95)); zy = zone_point(rng, ys_s, side, rng.uniform(0.05, 0.95))
            if zx is not None:
                Q.append((zx, rng.uniform(ys_s[0], ys_s[-1])))
            if zy is not None:
                Q.append((rng.uniform(xs_s[0], xs_s[-1]), zy))
            if zx is not None and zy is not None:
                Q.append((zx, zy))
        rng.shuffle(Q)
        pref, mul = pick_pref(rng)
        R.append(req_2d("c01.eval2", tag_, xs, ys, F, xdim, ydim, fdim, pref, mul, Q))
    for k in range(25 if thorough else 10):
        nx, ny = rng.randint(3, 5), rng.randint(3, 5)
        xs = gen_xs(rng, nx, "jitter"); ys = gen_xs(rng, ny, "jitter")
        F = [[rng.uniform(-1, 1) for _ in range(ny)] for _ in range(nx)]
        c = k % 5
        q = (rng.uniform(xs[0], xs[-1]), rng.uniform(ys[0], ys[-1]))
        if c == 4:      # a 2 x M / N x 2 grid: the 1-D locator objects need three points per axis (stated restriction)
            if k % 2:
                xs = xs[:2]; F = F[:2]
            else:
                ys = ys[:2]; F = [r[:2] for r in F]
            q = (xs[0], ys[0])
        if c == 0:
            z = zone_point(rng, xs, rng.choice([-1, 1]), rng.choice([1.5, 30.0]))
            if z is None:
                continue
            q = (z, q[1])
        elif c == 1:
            z = zone_point(rng, ys, rng.choice([-1, 1]), rng.choice([1.5, 30.0]))
            if z is None:
                continue
            q = (q[0], z)
        elif c == 2:
            F[rng.randrange(nx)].pop()                   # ragged
        elif c == 3:
            F.pop()                                       # wrong number of rows
        R.append(req_2d("c01.eval2x", "bad2pt" if c == 4 else "bad", xs, ys, F, -1.0, -1.0, -1.0, 1.0, 1.0, [q]))
    # ---- unit factors on GENERAL doubles with non-dyadic factors (products round): the model multiplies exactly and cannot
    #      follow, so these are judged by the oracle on the implementation alone, on the table AS STORED (fl(x*x_dim));
    #      ulp-spaced abscissae collapse under such a factor: the stored table is then not strictly increasing -> diagnostic
    FACT = [0.7, 1.0 / 3.0, 4.8e31, 1.2345e-9, math.pi, 0.9, 0.55, 1e-20, 3.3e7]
    for k in range(400 if thorough else 40):
        xdim = rng.choice(FACT); fdim = rng.choice(FACT + [-1.0, 0.0])
        if k % 2 == 0:
            N = rng.randint(3, 30)
            xs0 = gen_xs(rng, N, rng.choice(["jitter", "wild", "offset", "log"]))
            ys0 = gen_ys(rng, xs0, rng.choice(["smooth", "monotone", "plateau", "signchange", "mixed"]))
        else:      # neighbours 1-3 ulp apart
            N = rng.randint(3, 8)
            x = rng.choice([-1, 1]) * 10.0 ** rng.uniform(0, 8); xs0 = [x]
            for _ in range(N - 1):
                for _ in range(rng.randint(1, 3)):
                    x = na(x, INF)
                xs0.append(x)
            ys0 = [float(i + 1) for i in range(N)] if k % 4 == 1 else gen_ys(rng, xs0, "mixed")
            xdim = rng.choice([0.7, 0.9, 0.55, 1.0 / 3.0])
        xs1 = [v * xdim for v in xs0]
        pref, mul = pick_pref(rng)
        if all(b > a for a, b in zip(xs1, xs1[1:])):
            if k % 2 == 0:
                Q = queries_1d(rng, xs1, nseg=6, ndense=10)
            else:
                Q = [(v, c) for v in xs1 for c in (-1, 0)]
            R.append(req_1d("c01.evalx", "unitx", xs0, ys0, xdim, fdim, pref, mul, Q, ctor=rng.choice([0, 1, 2])))
        else:
            R.append(req_1d("c01.evalx", "unitx", xs0, ys0, xdim, fdim, pref, mul, [(xs1[0], -1), (xs1[-1], -1)], ctor=rng.choice([0, 2])))
    # ---- NaN abscissae (1-D lists / table constructor, 2-D either axis): never a strictly increasing table
    for k in range(40 if thorough else 12):
        N = rng.randint(3, 7)
        xs0 = gen_xs(rng, N, "jitter"); ys0 = gen_ys(rng, xs0, "smooth")
        pos = rng.choice([0, N - 1, rng.randrange(N)])
        q = rng.uniform(xs0[0], xs0[-1])
        if k % 3 < 2:
            xs0[pos] = math.nan
            R.append(req_1d("c01.evalx", "nan", xs0, ys0, rng.choice([-1.0, 0.7]), -1.0, 1.0, 1.0, [(q, -1)], ctor=rng.choice([0, 2])))
        else:
            g2 = gen_xs(rng, 3, "jitter"); F = [[rng.uniform(-1, 1) for _ in range(3)] for _ in range(N)]
            if k % 2:
                xs0[pos] = math.nan
                R.append(req_2d("c01.eval2x", "nan", xs0, g2, F, -1.0, -1.0, -1.0, 1.0, 1.0, [(q, g2[1])]))
            else:
                g3 = list(g2); g3[rng.randrange(3)] = math.nan
                R.append(req_2d("c01.eval2x", "nan", xs0, g3, F, rng.choice([-1.0, 0.7]), -1.0, -1.0, 1.0, 1.0, [(q, g2[1])]))
    # ---- default constructors: Interpolation() is the table {-1,0,1} -> 0, Interpolation_2D() the zero 3x3 grid on {-1,0,1}^2
    for k in range(6 if thorough else 3):
        dx = [-1.0, 0.0, 1.0]
        pref, mul = pick_pref(rng)
        R.append(req_1d("c01.eval", "default", dx, [0.0, 0.0, 0.0], -1.0, -1.0, pref, mul, queries_1d(rng, dx, nseg=2, ndense=6), ctor=3))
        Q = [(a, b) for a in dx for b in dx] + [(rng.uniform(-1, 1), rng.uniform(-1, 1)) for _ in range(10)] + [(-1.005, 0.3), (0.2, 1.01)]
        R.append(req_2d("c01.eval2", "default", dx, dx, [[0.0] * 3] * 3, -1.0, -1.0, -1.0, pref, mul, Q, ctor=3))
    # ---- constructor / call spelling: the in-process requests above cycle through lists+operator(), lists+named Interpolate(),
    #      and the table constructors (1-D: vector<vector<double>> rows {x,y}; 2-D: rows {x,y,f}, x-major)
    for i, rq in enumerate(R):
        t = rq.split(" ", 3)
        if t[0] in ("c01.eval", "c01.eval2") and t[2] == "0":
            R[i] = " ".join([t[0], t[1], str((0, 1, 2)[i % 3]), t[3]])
    return R


# ------------------------------------------------------------------------------------------------
# parsing
# ------------------------------------------------------------------------------------------------

class Cur:
    def __init__(self, t):
        self.t = t; self.p = 0

    def tok(self):
        self.p += 1
        return self.t[self.p - 1]

    def dbl(self):
        return fl(self.tok())

    def dbls(self):
        n = int(self.tok())
        return [fl(self.tok()) for _ in range(n)]


def parse(rq):
    t = rq.split()
    c = Cur(t)
    P = dict(op=c.tok(), tag=c.tok())
    P["ctor"] = int(c.tok())
    P["xs0"] = c.dbls(); P["ys0"] = c.dbls()
    if P["op"].startswith("c01.eval2"):
        rows = int(c.tok())
        P["F0"] = [c.dbls() for _ in range(rows)]
        P["xdim"], P["ydim"], P["fdim"], P["pref"], P["mul"] = (c.dbl() for _ in range(5))
        m = int(c.tok())
        P["Q"] = [(c.dbl(), c.dbl()) for _ in range(m)]
    else:
        P["xdim"], P["fdim"], P["pref"], P["mul"] = (c.dbl() for _ in range(4))
        m = int(c.tok())
        P["Q"] = [(c.dbl(), int(c.tok())) for _ in range(m)]
    return P


def scaled(v, dim):
    """what the constructor stores: v*dim when dim > 0 (exact by construction of the generator)"""
    return [x * dim for x in v] if dim > 0 else list(v)


def seg_of(xs, x):
    N = len(xs)
    if x < xs[0]:
        return 0
    if x > xs[-1]:
        return N - 2
    return min(bisect.bisect_right(xs, x) - 1, N - 2)


def worst(ctx, key, val):
    if val > ctx["stats"].get(key, 0.0):
        ctx["stats"][key] = float(val)


def ratio(err, scale):
    """err / (eps*scale) as float (inf when scale is 0 and err is not)"""
    if err == 0:
        return 0.0
    if scale == 0:
        return INF
    return float(err / (EPS * scale))


# ------------------------------------------------------------------------------------------------
# property oracle on the implementation's own output (1-D)
# ------------------------------------------------------------------------------------------------

def steffen_inactive(xs, ys):
    """exact: at which knots is the limited slope equal to the un-limited estimate p_i"""
    N = len(xs)
    X = [Fraction(x) for x in xs]; Y = [Fraction(y) for y in ys]
    h = [X[i + 1] - X[i] for i in range(N - 1)]
    s = [(Y[i + 1] - Y[i]) / h[i] for i in range(N - 1)]
    sg = lambda v: (v > 0) - (v < 0)
    res = []
    for i in range(N):
        if i == 0:
            p = s[0] * (1 + h[0] / (h[0] + h[1])) - s[1] * h[0] / (h[0] + h[1])
            d = (sg(p) + sg(s[0])) * min(abs(s[0]), abs(p) / 2)
        elif i == N - 1:
            p = s[i - 1] * (1 + h[i - 1] / (h[i - 1] + h[i - 2])) - s[i - 2] * h[i - 1] / (h[i - 1] + h[i - 2])
            d = (sg(p) + sg(s[i - 1])) * min(abs(s[i - 1]), abs(p) / 2)
        else:
            p = (s[i - 1] * h[i] + s[i] * h[i - 1]) / (h[i - 1] + h[i])
            d = (sg(s[i - 1]) + sg(s[i])) * min(abs(p) / 2, abs(s[i]), abs(s[i - 1]))
        res.append(d == p)
    return res


def oracle_1d(P, vals, ctx):
    """list of failures (kind prop).  vals: floats answered by the implementation, one per query."""
    out = []
    xs = scaled(P["xs0"], P["xdim"]); ys = scaled(P["ys0"], P["fdim"])
    N = len(xs)
    pref = P["pref"] * P["mul"]            # what the C++ stores (one rounding)
    ap = abs(Fraction(pref))
    X = [Fraction(x) for x in xs]; Y = [Fraction(y) for y in ys]
    tagf = P["tag"].split(":")
    fam = tagf[0]
    for v in vals:
        if math.isnan(v) or math.isinf(v):
            return [fail("prop", "1-D: a finite table and an admissible abscissa gave NaN/Inf", "")]
    # collect per point
    pts = {}
    for (x, c), v in zip(P["Q"], vals):
        d = pts.setdefault(x, {})
        key = -1 if c == -1 else (c if c < 4 else 4)
        if key in d and d[key] != v and not (key == 4):
            out.append(fail("prop", "1-D: the same query answered differently within one object", "x=%r code=%d: %r vs %r" % (x, c, d[key], v)))
        d[key] = v
        if c >= 4 and v != 0.0:
            out.append(fail("prop", "Derivative of order >= 4 of a cubic is not 0", "x=%r order=%d value=%r" % (x, c, v)))
    per_seg = {}
    for x, d in pts.items():
        if -1 in d and 0 in d and d[-1] != d[0]:
            out.append(fail("prop", "Derivative(x,0) differs from Interpolate(x)", "x=%r: %r vs %r" % (x, d[0], d[-1])))
        per_seg.setdefault(seg_of(xs, x), []).append(x)
    inactive = steffen_inactive(xs, ys) if fam == "par" else None
    for j, lx in per_seg.items():
        lx.sort()
        hj = X[j + 1] - X[j]
        Yj = max(abs(Y[j]), abs(Y[j + 1]))
        py0, py1 = Fraction(pref) * Y[j], Fraction(pref) * Y[j + 1]
        lo, hi = min(py0, py1), max(py0, py1)
        dirn = (py1 > py0) - (py1 < py0)
        prev = None
        prevT = None
        for x in lx:
            d = pts[x]
            inside = xs[0] <= x <= xs[-1]
            v = d.get(-1, d.get(0))
            fx = Fraction(x)
            if v is not None:
                fv = Fraction(v)
                if not inside:
                    # the 1% zone (closed at the edge): the excursion beyond the end value is at most 10151/500000 of the
                    # last step of the data (theorem extrapolation_zone_bound), plus the rounding of the evaluation
                    yend, step = (Y[0], abs(Y[1] - Y[0])) if x < xs[0] else (Y[N - 1], abs(Y[N - 1] - Y[N - 2]))
                    exc = abs(fv - Fraction(pref) * yend)
                    ctx["nontrivial"].add(("zone-bound", x < xs[0], P["tag"] == "edge"))
                    worst(ctx, "worst_zone_excursion_over_step", float(exc / (step * ap)) if step * ap else 0.0)
                    if exc > Fraction(10151, 500000) * step * ap + K_VAL * EPS * Yj * ap:
                        out.append(fail("prop", "1% zone: excursion beyond the end value exceeds 2.0302% of the last step of the data",
                                        "x=%r value=%r end value*prefactor=%r" % (x, v, float(Fraction(pref) * yend))))
                # knots
                # "returns each tabulated value at its abscissa": bit-for-bit at EVERY knot, the last one included
                if x == xs[j]:
                    if v != pref * ys[j]:
                        out.append(fail("prop", "knot not reproduced: Interpolate(x_j) != prefactor*y_j", "j=%d x=%r value=%r expected=%r" % (j, x, v, pref * ys[j])))
                elif x == xs[j + 1]:
                    ctx["nontrivial"].add(("last-knot-exact", v == 0.0))
                    if v != pref * ys[j + 1]:
                        out.append(fail("prop", "last knot not reproduced: Interpolate(x_{N-1}) != prefactor*y_{N-1}", "x=%r value=%r expected=%r" % (x, v, pref * ys[j + 1])))
                if inside:
                    over = max(lo - fv, fv - hi, 0)
                    worst(ctx, "worst_overshoot", ratio(over, Yj * ap))
                    if over > K_OVER * EPS * Yj * ap:
                        out.append(fail("prop", "overshoot: value outside [min,max] of the two neighbouring ordinates",
                                        "j=%d x=%r value=%r bounds=[%r,%r]" % (j, x, v, float(lo), float(hi))))
                    if dirn == 0 and v != pref * ys[j]:
                        out.append(fail("prop", "plateau not reproduced exactly", "j=%d x=%r value=%r" % (j, x, v)))
                    if prev is not None:
                        back = dirn * (Fraction(prev[1]) - fv)
                        worst(ctx, "worst_nonmonotone", ratio(max(back, 0), Yj * ap))
                        if back > K_OVER * EPS * Yj * ap:
                            out.append(fail("prop", "not monotone between two adjacent abscissae",
                                            "j=%d x=%r->%r value=%r->%r" % (j, prev[0], x, prev[1], v)))
                    prev = (x, v)
                # exact families
                if fam == "lin":
                    m, q = Fraction(fl(tagf[1])), Fraction(fl(tagf[2]))
                    e = abs(fv - Fraction(pref) * (m * fx + q))
                    worst(ctx, "worst_lin_value", ratio(e, Yj * ap))
                    if e > K_LIN[0] * EPS * Yj * ap:
                        out.append(fail("prop", "straight-line data not reproduced", "x=%r value=%r" % (x, v)))
                if fam == "par" and inactive[j] and inactive[j + 1]:
                    al, be, ga = (Fraction(fl(t)) for t in tagf[1:4])
                    e = abs(fv - Fraction(pref) * (al * fx * fx + be * fx + ga))
                    ctx["nontrivial"].add(("par-inactive", min(j, 3)))
                    worst(ctx, "worst_par_value", ratio(e, Yj * ap))
                    if e > K_LIN[0] * EPS * Yj * ap:
                        out.append(fail("prop", "parabola data not reproduced where the limiter is inactive", "j=%d x=%r value=%r" % (j, x, v)))
            if fam == "lin" and 1 in d:
                m = Fraction(fl(tagf[1]))
                worst(ctx, "worst_lin_d1", ratio(abs(Fraction(d[1]) - Fraction(pref) * m), Yj / hj * ap))
                if abs(Fraction(d[1]) - Fraction(pref) * m) > K_LIN[1] * EPS * Yj / hj * ap:
                    out.append(fail("prop", "straight-line data: first derivative is not the slope", "x=%r D1=%r" % (x, d[1])))
            if fam == "lin":
                for o_ in (2, 3):
                    if o_ in d:
                        worst(ctx, "worst_lin_d%d" % o_, ratio(abs(Fraction(d[o_])), Yj / hj ** o_ * ap))
                    if o_ in d and abs(Fraction(d[o_])) > K_LIN[o_] * EPS * Yj / hj ** o_ * ap:
                        out.append(fail("prop", "straight-line data: derivative of order %d is not 0" % o_, "x=%r D%d=%r" % (x, o_, d[o_])))
            if fam == "par" and inactive[j] and inactive[j + 1]:
                al, be = Fraction(fl(tagf[1])), Fraction(fl(tagf[2]))
                if 1 in d:
                    worst(ctx, "worst_par_d1", ratio(abs(Fraction(d[1]) - Fraction(pref) * (2 * al * fx + be)), Yj / hj * ap))
                if 1 in d and abs(Fraction(d[1]) - Fraction(pref) * (2 * al * fx + be)) > K_LIN[1] * EPS * Yj / hj * ap:
                    out.append(fail("prop", "parabola data (limiter inactive): first derivative is not 2*alpha*x+beta", "j=%d x=%r D1=%r" % (j, x, d[1])))
                if 2 in d:
                    worst(ctx, "worst_par_d2", ratio(abs(Fraction(d[2]) - Fraction(pref) * 2 * al), Yj / hj ** 2 * ap))
                if 2 in d and abs(Fraction(d[2]) - Fraction(pref) * 2 * al) > K_LIN[2] * EPS * Yj / hj ** 2 * ap:
                    out.append(fail("prop", "parabola data (limiter inactive): second derivative is not 2*alpha", "j=%d x=%r D2=%r" % (j, x, d[2])))
            # Taylor consistency between consecutive fully observed points of the segment
            if v is not None and all(k in d for k in (1, 2, 3)):
                if prevT is not None:
                    x0, v0, d0 = prevT
                    dl = fx - Fraction(x0)
                    t = [Fraction(v0), Fraction(d0[1]) * dl, Fraction(d0[2]) * dl * dl / 2, Fraction(d0[3]) * dl ** 3 / 6]
                    sc = sum(abs(a) for a in t) + Yj * ap
                    e = abs(Fraction(v) - sum(t))
                    worst(ctx, "worst_taylor0", ratio(e, sc))
                    if e > K_TAY * EPS * sc:
                        out.append(fail("prop", "reported derivatives are not the derivatives of the returned curve (value, Taylor)",
                                        "j=%d x0=%r x=%r" % (j, x0, x)))
                    t = [Fraction(d0[1]), Fraction(d0[2]) * dl, Fraction(d0[3]) * dl * dl / 2]
                    sc = sum(abs(a) for a in t) + Yj * ap / hj
                    e = abs(Fraction(d[1]) - sum(t))
                    worst(ctx, "worst_taylor1", ratio(e, sc))
                    if e > K_TAY * EPS * sc:
                        out.append(fail("prop", "reported derivatives are not the derivatives of the returned curve (first derivative)",
                                        "j=%d x0=%r x=%r" % (j, x0, x)))
                    t = [Fraction(d0[2]), Fraction(d0[3]) * dl]
                    sc = sum(abs(a) for a in t) + Yj * ap / hj ** 2
                    e = abs(Fraction(d[2]) - sum(t))
                    worst(ctx, "worst_taylor2", ratio(e, sc))
                    if e > K_TAY * EPS * sc:
                        out.append(fail("prop", "reported derivatives are not the derivatives of the returned curve (second derivative)",
                                        "j=%d x0=%r x=%r" % (j, x0, x)))
                    if d[3] != d0[3]:
                        out.append(fail("prop", "third derivative not constant on a segment", "j=%d %r vs %r" % (j, d0[3], d[3])))
                prevT = (x, v, d)
    # C1 across interior knots: the left segment, continued to the knot by its own reported derivatives
    # (exact Taylor polynomial of a cubic), must meet the value and slope reported at the knot (right segment)
    for j in range(1, N - 1):
        xk = xs[j]; xl = na(xk, -INF)
        if xk in pts and xl in pts and xl > xs[j - 1]:
            dk, dl_ = pts[xk], pts[xl]
            if not all(k in dl_ for k in (-1, 1, 2, 3)):
                continue
            hm = X[j] - X[j - 1]
            gap = X[j] - Fraction(xl)
            Ym = max(abs(Y[j - 1]), abs(Y[j]))      # the LEFT interval's data scale only (audit 2: y_{j+1} made it up to 1e40 too loose)
            vb = dk.get(-1, dk.get(0))
            if vb is not None:
                t = [Fraction(dl_[-1]), Fraction(dl_[1]) * gap, Fraction(dl_[2]) * gap ** 2 / 2, Fraction(dl_[3]) * gap ** 3 / 6]
                sc = sum(abs(a) for a in t) + Ym * ap
                e = abs(sum(t) - Fraction(vb))
                worst(ctx, "worst_c0_jump", ratio(e, sc))
                if e > K_TAY * EPS * sc:
                    out.append(fail("prop", "value jumps across a knot", "knot %d x=%r: left limit %r | %r" % (j, xk, float(sum(t)), vb)))
            if 1 in dk:
                t = [Fraction(dl_[1]), Fraction(dl_[2]) * gap, Fraction(dl_[3]) * gap ** 2 / 2]
                sc = sum(abs(a) for a in t) + abs(Fraction(dk[1])) + Ym / hm * ap
                e = abs(sum(t) - Fraction(dk[1]))
                worst(ctx, "worst_c1_jump", ratio(e, sc))
                if e > K_TAY * EPS * sc:
                    out.append(fail("prop", "first derivative jumps across a knot", "knot %d x=%r: left limit %r | %r" % (j, xk, float(sum(t)), dk[1])))
    return out


# ------------------------------------------------------------------------------------------------
# property oracle, 2-D
# ------------------------------------------------------------------------------------------------

def allowance_2d(xs, ys, c, i, j, x, y):
    """A-priori bound of the rounding error of the four-term sum (1-t)(1-u)f0 + t(1-u)f1 + t u f2 + (1-t) u f3 as coded
    (without prefactor).  t = fl(fl(x-x_i)/fl(x_i+1-x_i)) carries <= 3 eps relative error and 1-t one more rounding, so each
    computed weight factor is off by <= 4.5 eps ABSOLUTE -- unless the point lies exactly on a grid line of the cell, where
    t (u) is exactly 0 or 1 in double.  Products and the three additions add <= 6 eps * sum |w_i f_i| (this also covers the
    rounding of the product with the prefactor).  At a node every term but one is exactly 0: the bound is a few eps*|f|."""
    t = (Fraction(x) - Fraction(xs[i])) / (Fraction(xs[i + 1]) - Fraction(xs[i]))
    u = (Fraction(y) - Fraction(ys[j])) / (Fraction(ys[j + 1]) - Fraction(ys[j]))
    dt = 0 if (x == xs[i] or x == xs[i + 1]) else Fraction(9, 2) * EPS
    du = 0 if (y == ys[j] or y == ys[j + 1]) else Fraction(9, 2) * EPS
    T = [1 - t, t, t, 1 - t]; U = [1 - u, 1 - u, u, u]
    a = 0
    for k in range(4):
        w = abs(T[k] * U[k])
        dw = dt * (abs(U[k]) + du) + du * abs(T[k])
        a += (dw + 6 * EPS * w) * abs(c[k])
    return a


def oracle_2d(P, vals, ctx):
    out = []
    xs = scaled(P["xs0"], P["xdim"]); ys = scaled(P["ys0"], P["ydim"])
    F = [scaled(r, P["fdim"]) for r in P["F0"]]
    pref = P["pref"] * P["mul"]
    fp = Fraction(pref); ap = abs(fp)
    tagf = P["tag"].split(":")
    val = {}
    for (x, y), v in zip(P["Q"], vals):
        if math.isnan(v) or math.isinf(v):
            return [fail("prop", "2-D: a finite grid and an admissible point gave NaN/Inf", "")]
        val[(x, y)] = v
    for (x, y), v in val.items():
        i, j = seg_of(xs, x), seg_of(ys, y)
        c = [Fraction(F[i][j]), Fraction(F[i + 1][j]), Fraction(F[i + 1][j + 1]), Fraction(F[i][j + 1])]
        Fm = max(abs(t) for t in c)
        fv = Fraction(v)
        inside = xs[0] <= x <= xs[-1] and ys[0] <= y <= ys[-1]
        onx = x == xs[i] or x == xs[i + 1]
        ony = y == ys[j] or y == ys[j + 1]
        if onx and ony:
            # a grid node (also in the last row / column): the weights are exactly 0/1 in double, the four-term sum is
            # exactly the tabulated value, one rounding in the product with the prefactor -> bit-identical
            ii = i + (x == xs[i + 1]); jj = j + (y == ys[j + 1])
            ctx["nontrivial"].add(("node-exact", ii == len(xs) - 1, jj == len(ys) - 1))
            if v != pref * F[ii][jj]:
                out.append(fail("prop", "2-D: grid value not returned at a grid node" + (" (last row/column)" if (ii > i or jj > j) else ""),
                                "node (%d,%d) value=%r tabulated*prefactor=%r" % (ii, jj, v, pref * F[ii][jj])))
        if inside:
            lo, hi = min(fp * t for t in c), max(fp * t for t in c)
            over = max(lo - fv, fv - hi, 0)
            allow = allowance_2d(xs, ys, c, i, j, x, y) * ap
            worst(ctx, "worst_2d_hull", ratio(over, Fm * ap))
            worst(ctx, "worst_2d_hull_vs_allowance", float(over / allow) if allow else (0.0 if over == 0 else INF))
            if over > min(K_ALLOW * allow, K_HULL * EPS * Fm * ap):
                out.append(fail("prop", "2-D: value outside the minimum/maximum of the four surrounding grid values",
                                "cell (%d,%d) point (%r,%r) value=%r corners*prefactor in [%r,%r]" % (i, j, x, y, v, float(lo), float(hi))))
            # continuity across the left / lower edge of the cell
            if x == xs[i] and i > 0:
                xl = na(x, -INF)
                if (xl, y) in val and xl > xs[i - 1]:
                    cl = [abs(Fraction(F[i - 1][j])), abs(Fraction(F[i - 1][j + 1]))]
                    Fa = max([Fm] + cl)
                    gap = (Fraction(x) - Fraction(xl)) / (Fraction(xs[i]) - Fraction(xs[i - 1]))
                    if abs(Fraction(val[(xl, y)]) - fv) > K_2D * EPS * Fa * ap + 4 * Fa * ap * gap:
                        out.append(fail("prop", "2-D: value jumps across a cell edge (x direction)", "x=%r y=%r: %r | %r" % (x, y, val[(xl, y)], v)))
            if y == ys[j] and j > 0:
                yl = na(y, -INF)
                if (x, yl) in val and yl > ys[j - 1]:
                    cl = [abs(Fraction(F[i][j - 1])), abs(Fraction(F[i + 1][j - 1]))]
                    Fa = max([Fm] + cl)
                    gap = (Fraction(y) - Fraction(yl)) / (Fraction(ys[j]) - Fraction(ys[j - 1]))
                    if abs(Fraction(val[(x, yl)]) - fv) > K_2D * EPS * Fa * ap + 4 * Fa * ap * gap:
                        out.append(fail("prop", "2-D: value jumps across a cell edge (y direction)", "x=%r y=%r: %r | %r" % (x, y, val[(x, yl)], v)))
        if tagf[0] == "bil":
            A, B, C, D = (Fraction(fl(t)) for t in tagf[1:5])
            fx, fy = Fraction(x), Fraction(y)
            terms = [A, B * fx, C * fy, D * fx * fy]
            sc = sum(abs(t) for t in terms) + Fm
            e = abs(fv - fp * sum(terms))
            worst(ctx, "worst_2d_bilinear", ratio(e, sc * ap))
            if e > K_2D * EPS * sc * ap:
                out.append(fail("prop", "2-D: bilinear function not reproduced", "point (%r,%r) value=%r expected=%r" % (x, y, v, float(fp * sum(terms)))))
    return out


# ------------------------------------------------------------------------------------------------
# comparison
# ------------------------------------------------------------------------------------------------

def _dedup(fs, limit=6):
    seen = {}
    out = []
    for f in fs:
        n = seen.get(f["clause"], 0)
        seen[f["clause"]] = n + 1
        if n < 1 and len(out) < limit:
            out.append(f)
    return out


def qclass(xs, x):
    if x < xs[0] or x > xs[-1]:
        return "zone"
    i = bisect.bisect_left(xs, x)
    if i < len(xs) and xs[i] == x:
        return "knot"
    if (i < len(xs) and na(x, INF) == xs[i]) or (i > 0 and na(x, -INF) == xs[i - 1]):
        return "knot-neighbour"
    return "interior"


def sizeclass(n):
    return 0 if n <= 3 else 1 if n <= 8 else 2 if n <= 40 else 3 if n <= 150 else 4


def compare(rq, impl, model, ctx):
    P = parse(rq)
    op = P["op"]
    two = op.startswith("c01.eval2")
    fam = P["tag"].split(":")[0]
    bump(ctx, op + ":" + fam)
    bump(ctx, "ctor%d:%s" % (P["ctor"], "2d" if two else "1d"))
    if fam in ("unitx", "nan"):
        return compare_oracle_only(P, impl, ctx)
    fs, both = std_outcome(rq, impl, model)
    out = []
    vals = None
    if tag(impl) == "ok":
        vals = [fl(t) for t in toks(impl)]
        if len(vals) != len(P["Q"]):
            return fs + [fail("corr", "protocol: wrong number of answers", "%d vs %d" % (len(vals), len(P["Q"])))]
        if tag(model) != "err":
            out += (oracle_2d if two else oracle_1d)(P, vals, ctx)
    if tag(model) == "err" and tag(impl) == "err":
        ctx["nontrivial"].add((op, fam, "err", sizeclass(len(P["xs0"]))))
    if not both or any(math.isnan(v) or math.isinf(v) for v in vals):
        return fs + _dedup(out)
    tm = toks(model)
    pref_exact = Fraction(P["pref"]) * Fraction(P["mul"])
    ap = abs(pref_exact)
    corr = []
    if two:
        xs = scaled(P["xs0"], P["xdim"]); ys = scaled(P["ys0"], P["ydim"])
        F = [scaled(r, P["fdim"]) for r in P["F0"]]
        bump(ctx, "queries2d", len(vals))
        for k, ((x, y), v) in enumerate(zip(P["Q"], vals)):
            m = fr(tm[3 * k]); i = int(tm[3 * k + 1]); j = int(tm[3 * k + 2])
            Fm = max(abs(Fraction(F[a][b])) for a in (i, i + 1) for b in (j, j + 1))
            e = abs(Fraction(v) - m)
            worst(ctx, "worst_K_2d", ratio(e, Fm * ap))
            cc = [Fraction(F[i][j]), Fraction(F[i + 1][j]), Fraction(F[i + 1][j + 1]), Fraction(F[i][j + 1])]
            allow = allowance_2d(xs, ys, cc, i, j, x, y) * ap
            worst(ctx, "worst_2d_err_vs_allowance", float(e / allow) if allow else (0.0 if e == 0 else INF))
            ctx["nontrivial"].add((op, fam, sizeclass(len(xs)), qclass(xs, x), qclass(ys, y)))
            if e > min(K_ALLOW * allow, K_2D * EPS * Fm * ap):
                corr.append(fail("corr", "2-D Interpolate differs from the model", "point (%r,%r): %r vs %s" % (x, y, v, float(m))))
    else:
        xs = scaled(P["xs0"], P["xdim"]); ys = scaled(P["ys0"], P["fdim"])
        X = [Fraction(x) for x in xs]
        bump(ctx, "queries1d", len(vals))
        exact = fam == "dy"
        for k, ((x, c), v) in enumerate(zip(P["Q"], vals)):
            m = fr(tm[2 * k]); j = int(tm[2 * k + 1])
            if j != seg_of(xs, x):
                corr.append(fail("corr", "model located another interval than the comparator", "x=%r j=%d" % (x, j)))
                continue
            Yj = max(abs(Fraction(ys[j])), abs(Fraction(ys[j + 1])))
            hj = X[j + 1] - X[j]
            order = 0 if c <= 0 else min(c, 4)
            e = abs(Fraction(v) - m)
            ctx["nontrivial"].add((op, fam, sizeclass(len(xs)), qclass(xs, x), order))
            if exact:
                if e != 0:
                    corr.append(fail("corr", "dyadic table: implementation differs from the exact model", "x=%r code=%d: %r vs %s" % (x, c, v, float(m))))
                continue
            if order == 4:
                if v != 0.0:
                    corr.append(fail("corr", "Derivative order >= 4 differs from the model (0)", "x=%r" % x))
                continue
            sc = Yj * ap / hj ** order
            worst(ctx, "worst_K_d%d" % order, ratio(e, sc))
            if e > (K_VAL if order == 0 else K_DER) * EPS * sc:
                corr.append(fail("corr", ["Interpolate", "Derivative(x,1)", "Derivative(x,2)", "Derivative(x,3)"][order] + " differs from the model",
                                 "j=%d x=%r: %r vs %s (%.1f eps*scale)" % (j, x, v, float(m), ratio(e, sc))))
    return fs + _dedup(out) + _dedup(corr, 3)


def compare_oracle_only(P, impl, ctx):
    """families the exact-rational model cannot follow (rounded unit products, NaN): the expected OUTCOME is computed from the
    table as the constructor stores it, the values are judged by the property oracle on the implementation alone"""
    two = P["op"].startswith("c01.eval2")
    if crashed(impl):
        return [fail("prop", "crash/sanitizer/silent exit: " + tag(impl), impl[:200])]
    if two:
        stored = [scaled(P["xs0"], P["xdim"]), scaled(P["ys0"], P["ydim"])]
    else:
        stored = [scaled(P["xs0"], P["xdim"])]
    increasing = all(all(b > a for a, b in zip(g, g[1:])) for g in stored)     # False also with NaN
    ctx["nontrivial"].add((P["op"], P["tag"], increasing, tag(impl), P["ctor"]))
    if not increasing:
        if tag(impl) == "err":
            return []
        what = "NaN abscissa" if P["tag"] == "nan" else "two abscissae collapse under the unit factor"
        return [fail("prop", "a table whose stored abscissae are not strictly increasing was accepted (%s)" % what, impl[:200])]
    if tag(impl) != "ok":
        return [fail("prop", "meaningful request terminated the process", impl[:200])]
    vals = [fl(t) for t in toks(impl)]
    if len(vals) != len(P["Q"]):
        return [fail("corr", "protocol: wrong number of answers", "")]
    bump(ctx, "queries_oracle_only", len(vals))
    return _dedup((oracle_2d if two else oracle_1d)(P, vals, ctx))


def oracle_only(rq, impl, ctx):
    P = parse(rq)
    if P["tag"].split(":")[0] in ("unitx", "nan"):
        return compare_oracle_only(P, impl, ctx)
    if tag(impl) != "ok":
        return []
    vals = [fl(t) for t in toks(impl)]
    if len(vals) != len(P["Q"]):
        return []
    if P["tag"] in ("zone", "bad", "bad2pt"):
        return []
    return _dedup((oracle_2d if P["op"].startswith("c01.eval2") else oracle_1d)(P, vals, ctx))
